#!/bin/sh
# validates MANIFEST.json and every evidence file against the schemas
python3-vt - <<'PY'
import json,glob,jsonschema,sys
ok=True
try:
    jsonschema.validate(json.load(open('/verif/MANIFEST.json')), json.load(open('/root/.vp/MANIFEST.schema.json')))
except Exception as e: print('MANIFEST:',e); ok=False
es=json.load(open('/root/.vp/EVIDENCE.schema.json'))
for f in sorted(glob.glob('/verif/evidence/*.json')):
    try: jsonschema.validate(json.load(open(f)), es)
    except Exception as e: print(f, str(e)[:300]); ok=False
print('valid' if ok else 'INVALID'); sys.exit(0 if ok else 1)
PY
