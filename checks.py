"""Configuration of the checks: one entry per property (used by ./check and ./mkmanifest.py).

Tuples are (quick, thorough). A unit is one `-test.run` selection of the property's test binary,
run as `shards` processes with distinct rapid seeds derived from VERIF_SEED.
"""

# hook name -> package directory inside the repository (overlay target)
HOOK_PKGS = {
    "container": "container",
    "iterable": "container/iterable",
    "lru": "container/lru",
    "inmem": "kvs/inmem",
    "distlock": "kvs/distlock",
    "timeout": "timeout",
}

PROPS = {}

LEVEL_TEXT = {}

# every property has its own fragment under checks.d/ (PROPS["Cxx"] = dict(...); LEVEL_TEXT["Cxx"] = "...")
import glob as _glob, os as _os
for _f in sorted(_glob.glob(_os.path.join(_os.path.dirname(_os.path.abspath(__file__)), "checks.d", "C*.py"))):
    exec(compile(open(_f).read(), _f, "exec"))


ALL_IDS = ["C%02d" % i for i in range(1, 21)]


def _na():
    return [dict(property_id=p, reason="check not built yet in this revision of /verif (planned, DESIGN.md §4); no claim is made")
            for p in ALL_IDS if p not in PROPS]


NOT_APPLICABLE = _na()
