package p_errors

import (
	"bytes"
	"encoding/json"
	"fmt"
	"runtime"
	"sync"
	"sync/atomic"

	gerrors "github.com/acquirecloud/golibs/errors"
	"google.golang.org/grpc/codes"
	"google.golang.org/grpc/status"
	"verifharness/internal/vstat"
)

// Case kind "hammer": CONCURRENT USE. The functions of the property (Is, GRPCWrap, GRPCStatusCode, FromGRPCError,
// FromGRPCErrorMsg, EmbedObject, ExtractObject) take values and return values; error values are immutable. What they
// return for an error must therefore not depend on what other goroutines hand to them at the same time.
//
// Batch holds the chains (of different classes, depths, level forms, objects). The case is run in three phases:
//
//  1. sequentially, every chain is checked like a chain of a batch (runChains: all relations of C19);
//  2. sequentially, the outcome of every step of every chain is computed once: GRPCStatusCode(e), the code and the
//     text of GRPCWrap(e), Is(e, k) and Is(GRPCWrap(e), k) for every class k, FromGRPCError / FromGRPCErrorMsg of the
//     wrapped error, ExtractObject from e and from GRPCWrap(e) (ok + JSON text);
//  3. G goroutines start behind a spin barrier and run Rounds visits each; goroutine g visits chain
//     (g*n/G + round) mod n, so at any instant the goroutines work on different chains (classes), and performs the
//     steps of that chain - on the shared prebuilt chain, on the shared prebuilt GRPCWrap result, on a GRPCWrap result
//     of its own and, for chains with few links, on a chain it has just assembled itself - in an order rotated by
//     goroutine and round, comparing every result with the one of phase 2. The loop holds no channel or mutex
//     operation and formats nothing; one atomic flag is read every 32 visits to stop the others after a divergence.
//
// The first divergence (lowest round, then lowest goroutine) is the violation; a replay runs the three phases again.
// G is clamped to 2..max(2, GOMAXPROCS).

// hammerFreshLinks: a goroutine re-assembles a chain inside the loop only if it has at most this many level applications.
const hammerFreshLinks = 12

// MaxHammerRounds bounds Rounds.
const MaxHammerRounds = 1 << 20

type hstep struct {
	ch       Chain
	cls      error
	e, g     error
	code     codes.Code
	text     string
	maskE    uint32
	maskG    uint32
	from     error
	fromMsg  string
	hasObj   bool
	okE, okG bool
	rawE     []byte
	rawG     []byte
	fresh    bool
}

type hdiv struct {
	round, g, chain int
	step            string
	got, want       string
}

func isMask(e error) uint32 {
	var m uint32
	for i, k := range distinct {
		if gerrors.Is(e, k.Err) {
			m |= 1 << uint(i)
		}
	}
	return m
}

func maskNames(m uint32) string {
	out := []string{}
	for i, k := range distinct {
		if m&(1<<uint(i)) != 0 {
			out = append(out, k.Name)
		}
	}
	return fmt.Sprint(out)
}

func chainLinks(ch Chain) int {
	n := 0
	for _, w := range ch.Wraps {
		n += w.Rep + 1
	}
	return n
}

// hammerOps is the number of step kinds of a visit.
const hammerOps = 6

// visit performs the steps of one chain, starting with step kind `first`; raw is the goroutine's own extraction buffer.
func (s *hstep) visit(first, round int, raw *json.RawMessage) (step, got, want string) {
	for j := 0; j < hammerOps; j++ {
		switch (first + j) % hammerOps {
		case 0: // the code of the chain
			if c := gerrors.GRPCStatusCode(s.e); c != s.code {
				return "GRPCStatusCode(e)", c.String(), s.code.String()
			}
		case 1: // a GRPCWrap result of its own
			g := gerrors.GRPCWrap(s.e)
			if g == nil {
				return "GRPCWrap(e)", "nil", s.text
			}
			if c := status.Code(g); c != s.code {
				return "code of GRPCWrap(e)", c.String(), s.code.String()
			}
			if t := g.Error(); t != s.text {
				return "text of GRPCWrap(e)", clip(t), clip(s.text)
			}
			if m := isMask(g); m != s.maskG {
				return "classes k with Is(GRPCWrap(e), k)", maskNames(m), maskNames(s.maskG)
			}
			if s.hasObj {
				ok := gerrors.ExtractObject(g, raw)
				if ok != s.okG || ok && !bytes.Equal(*raw, s.rawG) {
					return "ExtractObject(GRPCWrap(e))", fmt.Sprintf("%v %s", ok, clip(string(*raw))), fmt.Sprintf("%v %s", s.okG, clip(string(s.rawG)))
				}
			}
		case 2: // the classes of the chain itself
			if m := isMask(s.e); m != s.maskE {
				return "classes k with Is(e, k)", maskNames(m), maskNames(s.maskE)
			}
		case 3: // the shared, already wrapped error
			if f := gerrors.FromGRPCError(s.g); f != s.from {
				return "FromGRPCError(g) of the wrapped error g made before the goroutines started", fmt.Sprint(f), fmt.Sprint(s.from)
			}
			if m := gerrors.FromGRPCErrorMsg(s.g); m != s.fromMsg {
				return "FromGRPCErrorMsg(g) of the wrapped error g made before the goroutines started", clip(m), clip(s.fromMsg)
			}
			if m := isMask(s.g); m != s.maskG {
				return "classes k with Is(g, k) of the wrapped error g made before the goroutines started", maskNames(m), maskNames(s.maskG)
			}
			if g2 := gerrors.GRPCWrap(s.g); g2 != s.g {
				return "GRPCWrap(g) of the wrapped error g made before the goroutines started", fmt.Sprintf("another value: %v", g2), "g itself"
			}
			if c := gerrors.GRPCStatusCode(s.g); c != s.code {
				return "GRPCStatusCode(g) of the wrapped error g made before the goroutines started", c.String(), s.code.String()
			}
		case 4: // the object of the shared errors
			if s.hasObj {
				ok := gerrors.ExtractObject(s.e, raw)
				if ok != s.okE || ok && !bytes.Equal(*raw, s.rawE) {
					return "ExtractObject(e)", fmt.Sprintf("%v %s", ok, clip(string(*raw))), fmt.Sprintf("%v %s", s.okE, clip(string(s.rawE)))
				}
				ok = gerrors.ExtractObject(s.g, raw)
				if ok != s.okG || ok && !bytes.Equal(*raw, s.rawG) {
					return "ExtractObject(g) of the wrapped error g made before the goroutines started", fmt.Sprintf("%v %s", ok, clip(string(*raw))), fmt.Sprintf("%v %s", s.okG, clip(string(s.rawG)))
				}
			}
		case 5: // a chain of its own: built, wrapped and looked at by this goroutine only
			if s.fresh && round&3 == 0 {
				e, _, _ := assemble(s.ch)
				g := gerrors.GRPCWrap(e)
				if g == nil {
					return "GRPCWrap of a chain assembled by the goroutine", "nil", s.text
				}
				if c := status.Code(g); c != s.code {
					return "code of GRPCWrap of a chain assembled by the goroutine", c.String(), s.code.String()
				}
				if t := g.Error(); t != s.text {
					return "text of GRPCWrap of a chain assembled by the goroutine", clip(t), clip(s.text)
				}
				if m := isMask(g); m != s.maskG {
					return "classes k with Is(GRPCWrap(e'), k) of a chain e' assembled by the goroutine", maskNames(m), maskNames(s.maskG)
				}
			}
		}
	}
	return "", "", ""
}

func runHammer(c Case, info *Info) *vstat.Violation {
	n := len(c.Batch)
	if n < 2 {
		panic("a hammer case needs at least two chains")
	}
	if c.Rounds < 1 || c.Rounds > MaxHammerRounds {
		panic("bad number of rounds")
	}
	// phase 1: every chain by itself, sequentially
	if v := runChains(c.Batch, true, info); v != nil {
		v.Msg = "sequential phase of a hammer case: " + v.Msg
		return v
	}
	// phase 2: the expected outcome of every step
	steps := make([]hstep, n)
	classes := map[string]bool{}
	for i, ch := range c.Batch {
		s := &steps[i]
		s.ch = padded(rawChain(ch))
		s.cls = classByName(ch.Class)
		s.e, _, _ = assemble(s.ch)
		s.g = gerrors.GRPCWrap(s.e)
		s.code = gerrors.GRPCStatusCode(s.e)
		s.text = s.g.Error()
		s.maskE, s.maskG = isMask(s.e), isMask(s.g)
		s.from, s.fromMsg = gerrors.FromGRPCError(s.g), gerrors.FromGRPCErrorMsg(s.g)
		if s.ch.Embed >= 0 {
			var raw json.RawMessage
			s.hasObj = true
			s.okE = gerrors.ExtractObject(s.e, &raw)
			s.rawE = bytes.Clone(raw)
			s.okG = gerrors.ExtractObject(s.g, &raw)
			s.rawG = bytes.Clone(raw)
			info.HammerObj = true
		}
		links := chainLinks(s.ch)
		s.fresh = links <= hammerFreshLinks && len(s.text) <= 4096
		info.HammerFresh = info.HammerFresh || s.fresh
		if links >= 1 || s.hasObj {
			classes[ch.Class] = true // the class is reachable through Unwrap only
		}
		if status.Code(s.g) != s.code {
			// GRPCWrap documents that it reports GRPCStatusCode(err)
			return vstat.V("errors:grpcwrap-code-differs-from-grpcstatuscode", "chain %d around %s: GRPCWrap(e) has code %v, GRPCStatusCode(e) = %v", i, ch.Class, status.Code(s.g), s.code)
		}
	}
	G := c.G
	if mx := max(2, runtime.GOMAXPROCS(0)); G > mx {
		G = mx
	}
	if G < 2 {
		G = 2
	}
	info.Hammer, info.HammerG, info.HammerClasses = true, G, len(classes)

	// phase 3
	var (
		ready atomic.Int32
		stop  atomic.Bool
		wg    sync.WaitGroup
		divs  = make([]*hdiv, G)
		calls = make([]int64, G)
	)
	for g := 0; g < G; g++ {
		wg.Add(1)
		go func(g int) {
			defer wg.Done()
			defer func() {
				if p := recover(); p != nil {
					divs[g] = &hdiv{round: -1, g: g, step: "panic", got: fmt.Sprint(p), want: "no panic"}
					stop.Store(true)
				}
			}()
			raw := make(json.RawMessage, 0, 1024)
			off := g * n / G
			ready.Add(1)
			for ready.Load() < int32(G) { // spin barrier: all goroutines enter the loop together
				runtime.Gosched()
			}
			r := 0
			for ; r < c.Rounds; r++ {
				if r&31 == 0 && stop.Load() {
					break
				}
				k := (off + r) % n
				if step, got, want := steps[k].visit(g+r, r, &raw); step != "" {
					divs[g] = &hdiv{round: r, g: g, chain: k, step: step, got: got, want: want}
					stop.Store(true)
					break
				}
			}
			calls[g] = int64(r)
		}(g)
	}
	wg.Wait()
	for _, k := range calls {
		info.HammerVisits += k
	}
	var first *hdiv
	for _, d := range divs {
		if d != nil && (first == nil || d.round < first.round) {
			first = d
		}
	}
	if first == nil {
		return nil
	}
	if first.step == "panic" {
		return vstat.V("errors:panic", "goroutine %d of %d working on %d chains concurrently: panic: %s", first.g, G, n, first.got)
	}
	s := &steps[first.chain]
	return vstat.V("errors:concurrent-result-differs-from-sequential",
		"%d goroutines work on %d chains of %d classes at the same time; goroutine %d, visit %d, chain %d around %s (%d links, message %q): %s = %s, but the same call made before the goroutines started gave %s",
		G, n, len(classes), first.g, first.round, first.chain, s.ch.Class, chainLinks(s.ch), clip(s.e.Error()), first.step, first.got, first.want)
}
