package p_errors

import (
	"fmt"
	"math"
	"strings"
	"testing"

	"pgregory.net/rapid"
	"verifharness/internal/enum"
	"verifharness/internal/vstat"
)

const prop = "C19"

func TestMain(m *testing.M) { vstat.Main(m) }

func record(c Case, info Info) {
	vstat.For(prop).Case(info.NonTrivial(), c.Hash(), func() any { return c }, info.Classes()...)
}

// Styles is the finite alphabet of wrap texts of the exhaustive part.
var Styles = []Wrap{
	{Pre: "", Post: ""}, // fmt.Errorf("%w", err)
	{Pre: "ctx: ", Post: ""},
	{Pre: "", Post: " (while x=1)"},
	{Pre: `{"op":"get","err":"`, Post: `"}`},
	{Pre: "\x1bjso", Post: "\x1b"}, // the marker's neighbours
	{Pre: "100% of json: %w %s %d ", Post: ": rpc error: code = NotFound desc = file does not exist"},
	{Pre: "héllo → 日本: ", Post: " ✓ 😀"},
	{Pre: "n", Post: "json"}, // completes a marker next to style 4: Run replaces the texts of that level
}

// Levels is the finite alphabet of level forms of TestC19ExhaustiveTrees: a plain fmt level, GRPCWrap at this
// level, and for each kind of side error a fmt.Errorf with two %w verbs and an errors.Join, with the class
// branch first (bare side error) or last (side error wrapped once itself, errors.New with another text).
var Levels = func() []Wrap {
	ls := []Wrap{{Pre: "ctx: "}, {Kind: LGRPC}}
	for _, sk := range SideKinds {
		first, last := Side{Kind: sk}, Side{Kind: sk, Text: "request context: "}
		if sk == "new" {
			first.Text, last.Text = "side failure", "cleanup failed: disk"
		}
		ls = append(ls,
			Wrap{Pre: "read \"k\": ", Mid: " (", Post: ")", Sides: []Side{first}, Pos: 0},
			Wrap{Pre: "", Mid: "; ", Post: "", Sides: []Side{last}, Pos: 1},
			Wrap{Kind: LJoin, Sides: []Side{first}, Pos: 0},
			Wrap{Kind: LJoin, Sides: []Side{last}, Pos: 1})
	}
	return ls
}()

// Objects is the finite set of embedded objects of the exhaustive part.
var Objects = []*Obj{
	{S: "x", N: 1},
	{},
	{S: "a\x1bjson b: {\"q\":1} 100% <tag> & é日本 ", N: math.MinInt64, L: []string{"", "\x1bjson", "json"},
		M: map[string]int{"k:1": 7, "\x1bjson": -1}, In: &Obj{S: "inner\x1b", N: math.MaxInt64, X: map[string]string{"\"": "}"}}},
	// strings and keys that LOOK like JSON escapes (a documentation snippet, a regular expression, a Windows path): the
	// backslash is an ordinary character of the Go string; next to them the characters json.Marshal writes as escapes
	{S: `re: \u003cb\u003e \u0026amp; \u2028 \n \\ \" \`, N: 2, L: []string{`\u003c`, `\u003e`, `\u0026`, "<>&\u2028\u2029", `C:\new\table`, `\`, `"`, `\\u003c`},
		M: map[string]int{`\u003c`: 1, `\u0026\u003e`: 2, "<": 3, `\`: 4}, In: &Obj{S: `\u003C\U003c\u003`, X: map[string]string{`\u0026`: `\u0026`, "&": "<"}},
		X: map[string]string{`k\u003ev`: `</script>\u003c/script\u003e`, `\"`: `\\`}},
}

// SizeTargets are the exact lengths of err.Error() of the sized chains: around powers of two up to 64 KiB.
var SizeTargets = []int{100, 255, 256, 257, 1023, 1024, 1025, 3000, 4095, 4096, 4097, 5000, 16383, 16384, 16385, 40000, 65535, 65536, 65537}

// PadPlaces are the places the padding goes to: a text inside / outside the embedding, the object's string, many
// array elements, many fields.
var PadPlaces = []string{"pre:0", "post:1", "obj.s", "obj.l", "obj.x"}

// RawStyles are wrap texts with bytes that are not valid UTF-8 (written in the escaped form of a Case, see Raw) and with
// genuine U+FFFD characters: a Latin-1 text, a lone continuation byte, a truncated multi-byte sequence, 0xFF.
var RawStyles = []Wrap{
	{Pre: "caf" + Esc([]byte{0xe9}) + ": ", Post: ""},
	{Pre: "", Post: " (key " + Esc([]byte{0x80, 'k', 0xff}) + ")"},
	{Pre: "\uFFFD<", Post: ">\uFFFD"},
	{Pre: Esc([]byte{0xf0, 0x9f, 0x98}) + "\uFFFD", Post: Esc([]byte{0xef, 0xbf})},
}

// RawObjects are objects whose strings hold genuine U+FFFD characters / bytes that are not valid UTF-8 (json.Marshal
// writes U+FFFD for those).
var RawObjects = []*Obj{
	{S: "a\uFFFDb\uFFFD", N: 3, L: []string{"\uFFFD", "x"}, X: map[string]string{"k\uFFFD": "\uFFFD\uFFFD v"}},
	{S: "na" + Esc([]byte{0xef}) + "ve " + Esc([]byte{0xff, 0xfe}), N: -1, L: []string{Esc([]byte{0xc3}), "\uFFFD"}, In: &Obj{S: Esc([]byte{0xed, 0xa0, 0x80})}},
}

// PBObjects are the generated protobuf messages of the exhaustive part (see pb.go): for every message kind an empty /
// minimal one and two populated ones - texts with the marker, JSON-like fragments, HTML characters and unicode, bytes
// fields with arbitrary bytes, timestamps and durations with fractions, negative and extreme values, absent and present
// optional sub-messages.
var PBObjects = func() []*PB {
	hard := []string{"a\x1bjson b: {\"q\":1} 100% <tag> & é日本 ", `re: \u003c \n \\ \" \`, "", "k:1", "\x1bjson", "type.googleapis.com/google.rpc.RetryInfo", "</script>\u2028"}
	bin := []string{Esc([]byte{0, 1, 0xff, 0xfe, 0x80, '"', '\\', 0x1b, 'j', 's', 'o', 'n'}), "", "plain"}
	nums := [][]int64{{1, 500000000}, {-3, -5}, {1700000000, 7, 253402300799, 999999999}, {0, 1}, {math.MinInt64, math.MaxInt64}, {1<<53 + 1, -1}, {0, 0}}
	var out []*PB
	for i, k := range PBKinds {
		out = append(out, &PB{Kind: k})
		p := &PB{Kind: k, N: nums[i%len(nums)], B: bin}
		for j := range hard {
			p.S = append(p.S, hard[(i+j)%len(hard)])
		}
		out = append(out, p, &PB{Kind: k, S: []string{"name", "must not be empty"}, N: nums[(i+2)%len(nums)], B: bin[:1]})
	}
	return out
}()

// LitTexts are the parameter texts of the literal-object shapes that take one (lit.go).
var LitTexts = map[string][]string{
	"optional": {"", "0", "-7"},
	"bool":     {"true", "false"},
	"int":      {"0", "-1", "9223372036854775807", "-9223372036854775808"},
	"uint":     {"0", "18446744073709551615"},
	"float":    {"0", "-0", "1e308", "5e-324", "-1.7976931348623157e308", "123456789012345678901234567890", "0.1"},
	"number": {"0", "-0", "123456789012345678901234567890123456789012345678901234567890", "1e400", "-1E-400", "0.000000000000000000000000000000000000001",
		"1" + strings.Repeat("0", 400)},
	"string": {"", "null", "true", "0", "-0", "[]", "{}", "[null]", `{"a":null}`, "not null at all", "nullnull", "NULL", "nil", " null ", `\u006eull`},
	"rawmessage": {"null", " null\n", "true", "false", "0", "-0", `""`, `"null"`, "[]", "{}", "[null]", `{"a":null}`, `{"null":"null"}`, " [ null , null ] ", "1e400",
		"123456789012345678901234567890", `"\u006eull"`},
	"slice_of_string": {"null", "", "a null b"},
	"map_of_string":   {"null", ""},
	"discriminated":     {"", "u:1", "null", `{"kind":"other"}`},
	"discriminated_ptr": {"", "u:1", `"@type"`},
	"embedded_fields":   {"", "u:1", "null"},
}

// LitObjects are the literal objects of the exhaustive part: every shape, with every parameter text of LitTexts.
var LitObjects = func() []*Lit {
	var out []*Lit
	for _, sh := range LitShapes {
		texts, ok := LitTexts[sh]
		if !ok {
			texts = []string{""}
		}
		for _, x := range texts {
			out = append(out, &Lit{Shape: sh, Text: x})
		}
	}
	return out
}()

// Messages of the exhaustive code part.
var Messages = []string{"", "ha ha", "file does not exist", "internal system error", "a: b: c", "100%d", "\x1b", "\x1bjso", "json",
	`{"a":1}`, "rpc error: code = OK desc = ", "日本語 😀", "\x1bjso\x1bjso n"}

func TestC19Exhaustive(t *testing.T) {
	st := vstat.For(prop)
	shard, shards := vstat.Shard()
	depth := vstat.Pick(4, 5)
	chains, codesN := int64(0), int64(0)
	run := func(c Case) {
		info, v := Run(c)
		st.Report(t, "TestC19Exhaustive", c, v)
		record(c, info)
	}
	lists, seq := int64(0), 0
	// the wrap lists are dealt round-robin to the shards (the alphabet is smaller than the shard count)
	enum.Lists(len(Styles), depth, 0, 1, func(idx []int) {
		seq++
		if seq%shards != shard {
			return
		}
		lists++
		wraps := make([]Wrap, len(idx))
		for i, e := range idx {
			wraps[i] = Styles[e]
		}
		for _, cls := range CodedClasses {
			run(Case{Kind: "chain", Chain: Chain{Class: cls, Wraps: wraps, Embed: -1}})
			chains++
			for emb := 0; emb <= len(wraps); emb++ {
				for _, o := range Objects {
					run(Case{Kind: "chain", Chain: Chain{Class: cls, Wraps: wraps, Embed: emb, Obj: o}})
					chains++
				}
			}
		}
	})
	// sizes: finished chains of exactly the target length, the padding at every kind of place
	sized, batches := int64(0), int64(0)
	deal := 0
	mine := func() bool { deal++; return deal%shards == shard }
	for ti, target := range SizeTargets {
		for emb := -1; emb <= 2; emb++ {
			for pi, pad := range PadPlaces {
				if emb < 0 && strings.HasPrefix(pad, "obj.") {
					continue
				}
				if !mine() {
					continue
				}
				ch := Chain{Class: CodedClasses[(ti+pi+emb+1)%len(CodedClasses)], Wraps: []Wrap{Styles[1], Styles[2]}, Embed: emb, Target: target, Pad: pad}
				if emb >= 0 {
					ch.Obj = Objects[(ti+pi)%len(Objects)]
				}
				run(Case{Kind: "chain", Chain: ch})
				sized++
			}
		}
	}
	// batches: 2..8 chains with distinct objects, all built before the first check
	for k := 2; k <= 8; k++ {
		for d := 0; d <= 2; d++ {
			for _, outer := range []bool{false, true} {
				for _, eager := range []bool{false, true} {
					if !mine() {
						continue
					}
					c := Case{Kind: "batch", Eager: eager, Chain: Chain{Embed: -1}}
					for i := 0; i < k; i++ {
						ch := Chain{Class: CodedClasses[(i+k+d)%len(CodedClasses)], Embed: 0}
						for w := 0; w < d; w++ {
							ch.Wraps = append(ch.Wraps, Styles[1+(i+w)%3])
						}
						if outer {
							ch.Embed = d
						}
						ch.Obj = &Obj{S: fmt.Sprintf("item-%d-of-%d", i, k), N: int64(i), L: make([]string, (k-i)%4)}
						for j := range ch.Obj.L {
							ch.Obj.L[j] = fmt.Sprintf("issue %d.%d", i, j)
						}
						c.Batch = append(c.Batch, ch)
					}
					run(c)
					batches++
				}
			}
		}
	}
	// twins: for every ordered pair of classes two chains with byte-identical messages ("ctx: <text A>, <text B> (while
	// x=1)"), one around A, one around B, in both orders of construction, without and with an object above level 0
	twins := int64(0)
	for _, a := range CodedClasses {
		for _, b := range CodedClasses {
			for emb := -1; emb <= 2; emb++ {
				if emb == 0 || a == b || !mine() {
					continue
				}
				ch := Chain{Class: a, Wraps: []Wrap{{Pre: "ctx: ", Post: " (while x=1)"}, Styles[1]}, Embed: emb}
				if emb > 0 {
					ch.Obj = Objects[0]
				}
				x, y, ok := Twins(ch, b)
				if !ok {
					t.Fatal("no twins for a plain chain")
				}
				for _, eager := range []bool{false, true} {
					run(Case{Kind: "batch", Eager: eager, Chain: Chain{Embed: -1}, Batch: []Chain{x, y}})
					run(Case{Kind: "batch", Eager: eager, Chain: Chain{Embed: -1}, Batch: []Chain{y, x}})
					twins += 2
				}
			}
		}
	}
	// extraction targets and raw bytes: every list up to depth 2 over (two plain styles + the RawStyles) x coded classes x
	// embedding level x (two plain objects + the RawObjects) x (plain extraction + every kind of caller-owned target that
	// is overwritten after each extraction)
	owned := int64(0)
	{
		styles := append([]Wrap{Styles[1], Styles[3]}, RawStyles...)
		objects := append([]*Obj{Objects[0], Objects[2], Objects[3]}, RawObjects...)
		intos := append([]string{""}, IntoKinds...)
		enum.Lists(len(styles), 2, 0, 1, func(idx []int) {
			wraps := make([]Wrap, len(idx))
			for i, e := range idx {
				wraps[i] = styles[e]
			}
			for ci, cls := range CodedClasses {
				if !mine() {
					continue
				}
				for emb := 0; emb <= len(wraps); emb++ {
					for oi, o := range objects {
						for ii, into := range intos {
							if (ci+oi+ii)%2 == 1 && len(wraps) == 2 {
								continue // depth 2: half of the (class, object, target) combinations per list
							}
							run(Case{Kind: "chain", Chain: Chain{Class: cls, Wraps: wraps, Embed: emb, Obj: o, Into: into}})
							owned++
						}
					}
				}
			}
		})
	}
	// generated protobuf messages as objects and as extraction targets: every list up to depth 2 over (a plain style, a
	// JSON-like style, an inner GRPCWrap, a Join with a side error) x coded classes x embedding level x PBObjects x (plain
	// extraction into a fresh message + every kind of caller-owned target, a message of the same type among them)
	protos := int64(0)
	{
		styles := []Wrap{Styles[1], Styles[3], {Kind: LGRPC}, Levels[4]}
		intos := append([]string{""}, PBIntoKinds...)
		enum.Lists(len(styles), 2, 0, 1, func(idx []int) {
			wraps := make([]Wrap, len(idx))
			for i, e := range idx {
				wraps[i] = styles[e]
			}
			for ci, cls := range CodedClasses {
				if !mine() {
					continue
				}
				for emb := 0; emb <= len(wraps); emb++ {
					for oi, o := range PBObjects {
						for ii, into := range intos {
							if (ci+oi+ii)%6 != 0 && len(wraps) == 2 {
								continue // depth 2: a sixth of the (class, message, target) combinations per list
							}
							run(Case{Kind: "chain", Chain: Chain{Class: cls, Wraps: wraps, Embed: emb, PB: o, Into: into}})
							protos++
						}
					}
				}
			}
		})
	}
	// literal objects (lit.go): values whose JSON text is null - through every Go shape that marshals to it -, another bare
	// literal, an empty container, a container of nulls, a huge number, a text with the word null: every list up to depth
	// 2 over (a plain style, a JSON-like style, an inner GRPCWrap, a Join with a side error) x coded classes x embedding
	// level x LitObjects x (zero target of the own type only + every kind of LitIntoKinds)
	lits := int64(0)
	{
		styles := []Wrap{Styles[1], Styles[3], {Kind: LGRPC}, Levels[4]}
		intos := append([]string{""}, LitIntoKinds...)
		thin := vstat.Pick(8, 2)
		enum.Lists(len(styles), 2, 0, 1, func(idx []int) {
			wraps := make([]Wrap, len(idx))
			for i, e := range idx {
				wraps[i] = styles[e]
			}
			for ci, cls := range CodedClasses {
				if !mine() {
					continue
				}
				for emb := 0; emb <= len(wraps); emb++ {
					for oi, o := range LitObjects {
						for ii, into := range intos {
							if (ci+oi+ii)%thin != 0 && len(wraps) == 2 {
								continue // depth 2: an eighth (thorough: half) of the (class, object, target) combinations per list
							}
							run(Case{Kind: "chain", Chain: Chain{Class: cls, Wraps: wraps, Embed: emb, Lit: o, Into: into}})
							lits++
						}
					}
				}
			}
		})
	}
	// foreign extraction targets (foreign.go): the target's type is not the object's - narrower, wider, untagged, with
	// anonymous embedded structs, with any / json.Number / RawMessage fields, empty, a typed map, a struct with a field of
	// the wrong type, a scalar, a slice; zero and used - judged by json.Unmarshal into an identically prepared target:
	// every list up to depth 1 (thorough 2) over (a plain style, a JSON-like style, an inner GRPCWrap, a Join with a side
	// error) x coded classes x embedding level x (Obj structs, literal objects of every JSON form, the objects whose
	// MarshalJSON adds keys, two generated messages) x every kind of ForeignIntoKinds
	foreign := int64(0)
	{
		styles := []Wrap{Styles[1], Styles[3], {Kind: LGRPC}, Levels[4]}
		var objects []Chain
		for _, o := range []*Obj{Objects[0], Objects[2], Objects[3]} {
			objects = append(objects, Chain{Obj: o})
		}
		for _, l := range []*Lit{{Shape: "nil_ptr_struct"}, {Shape: "int", Text: "-1"}, {Shape: "string", Text: "null"}, {Shape: "slice_of_string", Text: "a null b"},
			{Shape: "map_of_string", Text: "null"}, {Shape: "empty_struct"}, {Shape: "rawmessage", Text: `{"s":1,"S":"both spellings","n":"7"}`},
			{Shape: "rawmessage", Text: `{"S":"upper","N":1e2,"In":{"s":null},"l":null}`},
			{Shape: "discriminated", Text: "u:1"}, {Shape: "discriminated_ptr", Text: "u:1"}, {Shape: "embedded_fields", Text: "u:1"}} {
			objects = append(objects, Chain{Lit: l})
		}
		objects = append(objects, Chain{PB: PBObjects[0]}, Chain{PB: PBObjects[len(PBObjects)/2]})
		enum.Lists(len(styles), vstat.Pick(1, 2), 0, 1, func(idx []int) {
			wraps := make([]Wrap, len(idx))
			for i, e := range idx {
				wraps[i] = styles[e]
			}
			for ci, cls := range CodedClasses {
				if !mine() {
					continue
				}
				for emb := 0; emb <= len(wraps); emb++ {
					for oi, o := range objects {
						for ii, into := range ForeignIntoKinds {
							if (ci+oi+ii)%2 != 0 && len(wraps) >= 1 {
								continue // depth >= 1: half of the (class, object, target) combinations per list
							}
							ch := o
							ch.Class, ch.Wraps, ch.Embed, ch.Into = cls, wraps, emb, into
							run(Case{Kind: "chain", Chain: ch})
							foreign++
						}
					}
				}
			}
		})
	}
	if shard == 0 {
		for code := uint32(0); code < NumCodes; code++ {
			for _, m := range append(append([]string{}, Messages...), RawStyles[0].Pre, RawStyles[1].Post) {
				run(Case{Kind: "code", Code: code, Msg: m, Chain: Chain{Embed: -1}})
				codesN++
			}
		}
	}
	st.SetExhaustive("errors_class_x_wraplists_x_embedlevel_x_object_and_code_x_message", map[string]any{
		"classes_with_code": len(CodedClasses), "other_classes_checked_per_chain": len(distinctClasses()) - 1,
		"wrap_styles": len(Styles), "wrap_depth": depth, "wrap_lists_this_shard": lists, "objects": len(Objects),
		"chain_cases_this_shard": chains, "codes": NumCodes, "messages": len(Messages), "code_cases_this_shard": codesN,
		"size_targets": SizeTargets, "pad_places": PadPlaces, "sized_chain_cases_this_shard": sized,
		"raw_byte_styles": len(RawStyles), "raw_byte_objects": len(RawObjects), "extraction_target_kinds": IntoKinds, "owned_target_and_raw_byte_cases_this_shard": owned,
		"proto_message_kinds": PBKinds, "proto_message_objects": len(PBObjects), "proto_message_target_kinds": PBIntoKinds, "proto_message_cases_this_shard": protos,
		"literal_object_shapes": LitShapes, "literal_objects": len(LitObjects), "literal_object_target_kinds": LitIntoKinds, "literal_object_cases_this_shard": lits,
		"foreign_target_kinds": ForeignIntoKinds, "foreign_target_cases_this_shard": foreign,
		"batch_sizes": "2..8", "batch_cases_this_shard": batches, "twin_batch_cases_this_shard": twins, "shards": shards})
}

// TestC19ExhaustiveTrees: every list of level forms (Levels) up to depth 3 (thorough 4) around every coded class,
// without an object and with Objects[0] embedded at every level: trees with side branches (several %w, errors.Join)
// holding context.Canceled / context.DeadlineExceeded / io.EOF / errors.New, and layered chains in which GRPCWrap
// was already applied at an inner level.
func TestC19ExhaustiveTrees(t *testing.T) {
	st := vstat.For(prop)
	shard, shards := vstat.Shard()
	depth := vstat.Pick(3, 4)
	n, lists, seq := int64(0), int64(0), 0
	enum.Lists(len(Levels), depth, 0, 1, func(idx []int) {
		seq++
		if seq%shards != shard {
			return
		}
		lists++
		wraps := make([]Wrap, len(idx))
		for i, e := range idx {
			wraps[i] = Levels[e]
		}
		for _, cls := range CodedClasses {
			for emb := -1; emb <= len(wraps); emb++ {
				c := Case{Kind: "chain", Chain: Chain{Class: cls, Wraps: wraps, Embed: emb}}
				if emb >= 0 {
					c.Obj = Objects[0]
				}
				info, v := Run(c)
				st.Report(t, "TestC19ExhaustiveTrees", c, v)
				record(c, info)
				n++
			}
		}
	})
	st.SetExhaustive("errors_class_x_levelformlists_x_embedlevel", map[string]any{
		"classes_with_code": len(CodedClasses), "level_forms": len(Levels), "side_error_kinds": SideKinds, "depth": depth,
		"level_lists_this_shard": lists, "cases_this_shard": n, "shards": shards})
}

// DeepLinks are the systematic chain depths (Unwrap links between the finished chain and the class): around the
// powers of two 32..4096 (thorough ..16384) and the powers of ten, and a few in between.
func DeepLinks() []int {
	var d []int
	for p := 32; p <= vstat.Pick(4096, 16384); p *= 2 {
		d = append(d, p-1, p, p+1)
	}
	for p := 100; p <= vstat.Pick(1000, 10000); p *= 10 {
		d = append(d, p-1, p, p+1)
	}
	return append(d, 2000, 3000, 5000)
}

// deepShapes returns the level lists of the systematic deep chains with `links` links in all.
func deepShapes(links, variant int) map[string][]Wrap {
	sides := []Side{{Kind: SideKinds[variant%len(SideKinds)], Text: "side"}}
	fork := Wrap{Pre: "[", Mid: " | ", Post: "]", Sides: sides, Pos: variant / 2 % 2}
	if variant%2 == 1 {
		fork.Kind = LJoin
	}
	below := (links - 1) / 2
	m := map[string][]Wrap{
		"bare":      {{Rep: links - 1}},
		"text":      {{Pre: "/", Rep: links - 1}},
		"fork_mid":  {{Rep: below - 1}, fork, {Pre: ":", Rep: links - below - 2}},
		"below_rpc": {{Rep: links - 1}, {Kind: LGRPC}, {Pre: "ctx: "}},
		"above_rpc": {{Pre: "ctx: "}, {Kind: LGRPC}, {Rep: links - 2}},
	}
	if links <= 257 {
		f := fork
		if links > 65 {
			f.Kind = LFmt // a Join renders its whole message again on every Error() call: long runs of forks are several-%w levels
		}
		f.Rep = links - 1
		m["forks_all_the_way"] = []Wrap{f}
	}
	return m
}

// TestC19Deep: 'fmt %w at any depth' - chains of tens to thousands of links around every coded class (plain, with text,
// with a several-%w / Join node in the middle, below and above an inner GRPCWrap, forks all the way for the shorter
// ones), without an object and with one embedded innermost / outermost; and objects whose JSON text ends in the bytes
// around every multiple of 512 up to 8 KiB (thorough 32 KiB), padded in the string, in many elements or in many fields.
func TestC19Deep(t *testing.T) {
	st := vstat.For(prop)
	shard, shards := vstat.Shard()
	deal := 0
	mine := func() bool { deal++; return deal%shards == shard }
	run := func(c Case) {
		info, v := Run(c)
		st.Report(t, "TestC19Deep", c, v)
		record(c, info)
	}
	deep, sized := int64(0), int64(0)
	names := []string{"bare", "text", "fork_mid", "below_rpc", "above_rpc", "forks_all_the_way"}
	for di, links := range DeepLinks() {
		for ci, cls := range CodedClasses {
			shapes := deepShapes(links, di+ci)
			for _, name := range names {
				wraps, ok := shapes[name]
				if !ok {
					continue
				}
				for _, emb := range []int{-1, 0, len(wraps)} {
					if !mine() {
						continue
					}
					c := Case{Kind: "chain", Chain: Chain{Class: cls, Wraps: wraps, Embed: emb}}
					if emb >= 0 {
						c.Obj = Objects[(di+ci)%len(Objects)]
					}
					run(c)
					deep++
				}
			}
		}
	}
	maxObj := vstat.Pick(8192, 32768)
	n := 0
	for m := 512; m <= maxObj; m += 512 {
		for delta := -8; delta <= 2; delta++ {
			for _, pad := range []string{"obj.s", "obj.l", "obj.x"} {
				for _, outer := range []bool{false, true} {
					n++
					if !mine() {
						continue
					}
					ch := Chain{Class: CodedClasses[n%len(CodedClasses)], Wraps: []Wrap{Styles[1], Styles[2]}, Obj: Objects[n%2], ObjTarget: m + delta, Pad: pad}
					if outer {
						ch.Embed = 2
					}
					run(Case{Kind: "chain", Chain: ch})
					sized++
				}
			}
		}
	}
	st.SetExhaustive("errors_deep_chains_and_object_sizes", map[string]any{
		"links": DeepLinks(), "deep_shapes": names, "classes_with_code": len(CodedClasses), "deep_chain_cases_this_shard": deep,
		"object_json_sizes": fmt.Sprintf("every multiple of 512 up to %d, -8..+2", maxObj), "sized_object_cases_this_shard": sized, "shards": shards})
}

// text pieces: ASCII, unicode, JSON fragments, colons, '%', ESC, "json", marker prefixes, class and gRPC phrases
var pieces = []string{"", " ", ": ", ":", "ctx", "a: b", "100%", "%w", "%s%d%v", "%!", "\x1b", "json", "\x1bjso", "jso", "son", "n", "\x1bj", "\x1b\x1b",
	"JSON", "\x1bJSON", `{"a":1}`, `{"s":"x"`, `"}`, "[1,2]", `\u001bjson`, `\x1bjson`, "héllo wörld", "日本語", "😀", "\n", "\t", " ",
	"rpc error: code = NotFound desc = ", "code = ", "file does not exist", "file already exists", "internal system error", "canceled",
	"system communication error", "permission denied", "unimplemented"}

// escPieces: texts that LOOK like JSON escapes - a backslash followed by u and four hex digits (for code points that
// json.Marshal itself writes that way: < > & U+2028 U+2029 ESC NUL, for others, upper-case and truncated forms, a
// surrogate pair), the two-character escapes, a doubled and a lone backslash, quotes - and the characters themselves.
// In a Go string the backslash is an ordinary character: an object holding such a text must come back unchanged.
var escPieces = []string{`\u003c`, `\u003e`, `\u0026`, `\u003c`, `\u003e`, `\u0026`, `\u2028`, `\u2029`, `\u001b`, `\u0000`, `\u00e9`, `\u003C`, `\U003c`, `\u003`, `\u`, `\ud83d\ude00`,
	`\n`, `\t`, `\r`, `\b`, `\f`, `\/`, `\"`, `\\`, `\`, `\`, `"`, `'`, "`", "<", ">", "&", "<", ">", "&", "\u2028", "\u2029", "&amp;", "&lt;", "</script>", `<a href="x">`, `C:\new\u003c`, `\\u003c`, `\\\u0026`}

// rawPieces: bytes that are not valid UTF-8 (escaped form, see Raw) and genuine U+FFFD characters.
var rawPieces = []string{Esc([]byte{0xff}), Esc([]byte{0x80}), Esc([]byte{0xc3}), "caf" + Esc([]byte{0xe9}), Esc([]byte{0xed, 0xa0, 0x80}), Esc([]byte{0xf0, 0x9f, 0x98}),
	Esc([]byte{0xef, 0xbf}), Esc([]byte{0xef, 0xbf, 0xbd}), Esc([]byte{0xc0, 0xaf}), "\uFFFD", "\uFFFD", "a\uFFFDb", "\uFFFD\uFFFD", "\uFFFD" + Esc([]byte{0xbd})}

// dirtyTexts: while set, the texts drawn by genText mix in rawPieces (one chain in six draws its texts that way, so that
// raw bytes in the wrap texts meet U+FFFD in the object's strings).
type textMode struct{ dirty bool }

var mode textMode

// genText draws a text; the complete marker never appears inside one text (construction: a space is inserted).
func genText(t *rapid.T, label string) string {
	if mode.dirty && rapid.IntRange(0, 2).Draw(t, label+"Raw") > 0 {
		ps := rapid.SliceOfN(rapid.OneOf(rapid.SampledFrom(rawPieces), rapid.SampledFrom(rawPieces), rapid.SampledFrom(pieces)), 1, 4).Draw(t, label+"RawPieces")
		s := strings.ToValidUTF8(strings.Join(ps, ""), "?")
		for strings.Contains(s, marker) {
			s = strings.Replace(s, marker, "\x1b json", 1)
		}
		return s
	}
	var s string
	switch rapid.IntRange(0, 9).Draw(t, label+"Kind") {
	case 0, 1:
		s = ""
	case 2:
		s = rapid.String().Draw(t, label+"Str")
	default:
		ps := rapid.SliceOfN(rapid.OneOf(rapid.SampledFrom(pieces), rapid.SampledFrom(pieces), rapid.StringN(0, 6, -1)), 0, 5).Draw(t, label+"Pieces")
		s = strings.Join(ps, "")
	case 3: // texts that look like JSON escapes, among ordinary pieces
		ps := rapid.SliceOfN(rapid.OneOf(rapid.SampledFrom(escPieces), rapid.SampledFrom(escPieces), rapid.SampledFrom(pieces)), 1, 5).Draw(t, label+"EscPieces")
		s = strings.Join(ps, "")
	}
	s = strings.ToValidUTF8(s, "?")
	for strings.Contains(s, marker) {
		s = strings.Replace(s, marker, "\x1b json", 1)
	}
	return s
}

// genObjText may contain the complete marker: json.Marshal escapes ESC, so EmbedObject's format is not affected.
func genObjText(t *rapid.T, label string) string {
	if rapid.IntRange(0, 4).Draw(t, label+"M") == 0 {
		return genText(t, label+"a") + marker + genText(t, label+"b")
	}
	return genText(t, label)
}

func genObj(t *rapid.T, label string, nest int) *Obj {
	o := &Obj{}
	o.S = genObjText(t, label+"S")
	o.N = rapid.OneOf(rapid.Int64Range(-3, 3), rapid.Int64(), rapid.SampledFrom([]int64{math.MinInt64, math.MaxInt64, 1 << 53, 1<<53 + 1})).Draw(t, label+"N")
	if rapid.Bool().Draw(t, label+"hasL") {
		n := rapid.IntRange(0, 3).Draw(t, label+"nL")
		o.L = make([]string, n)
		for i := range o.L {
			o.L[i] = genObjText(t, label+"L")
		}
	}
	if rapid.IntRange(0, 2).Draw(t, label+"hasM") == 0 {
		n := rapid.IntRange(0, 3).Draw(t, label+"nM")
		o.M = map[string]int{}
		for i := 0; i < n; i++ {
			o.M[genObjText(t, label+"Mk")] = rapid.IntRange(-5, 5).Draw(t, label+"Mv")
		}
	}
	if rapid.IntRange(0, 2).Draw(t, label+"hasX") == 0 {
		n := rapid.IntRange(0, 2).Draw(t, label+"nX")
		o.X = map[string]string{}
		for i := 0; i < n; i++ {
			o.X[genObjText(t, label+"Xk")] = genObjText(t, label+"Xv")
		}
	}
	if nest > 0 && rapid.IntRange(0, 2).Draw(t, label+"hasIn") == 0 {
		o.In = genObj(t, label+"in.", nest-1)
	}
	return o
}

// genPB draws a generated message: kind, 0..5 texts (valid UTF-8; the marker may be among them), numbers (small, any
// int64, plausible epoch seconds and nanos) and 0..2 byte strings of arbitrary bytes.
func genPB(t *rapid.T) *PB {
	p := &PB{Kind: rapid.SampledFrom(PBKinds).Draw(t, "pbKind")}
	// half of the draws go to the kinds that are or hold well-known types with sub-messages
	if rapid.Bool().Draw(t, "pbNested") {
		p.Kind = rapid.SampledFrom([]string{"retryinfo", "record", "status", "timestamp", "duration", "struct", "any", "fieldmask"}).Draw(t, "pbKindNested")
	}
	for n := rapid.IntRange(0, 5).Draw(t, "pbTexts"); n > 0; n-- {
		p.S = append(p.S, genObjText(t, "pbS"))
	}
	num := rapid.OneOf(rapid.Int64Range(-3, 3), rapid.Int64(), rapid.Int64Range(0, 999999999), rapid.Int64Range(1600000000, 1900000000),
		rapid.SampledFrom([]int64{math.MinInt64, math.MaxInt64, 1 << 53, 1<<53 + 1, 253402300799, -62135596800, 315576000000, -315576000000, 999999999, -999999999}))
	for n := rapid.IntRange(0, 4).Draw(t, "pbNums"); n > 0; n-- {
		p.N = append(p.N, num.Draw(t, "pbN"))
	}
	for n := rapid.IntRange(0, 2).Draw(t, "pbBytes"); n > 0; n-- {
		p.B = append(p.B, Esc(rapid.SliceOfN(rapid.Byte(), 0, 12).Draw(t, "pbB")))
	}
	return p
}

// genLit draws a literal object (lit.go): half of the draws go to the shapes whose JSON text is null, the parameter text
// of a shape comes from LitTexts or is drawn (numbers of any size, strings and raw JSON texts built around the literals).
func genLit(t *rapid.T) *Lit {
	l := &Lit{Shape: rapid.SampledFrom(LitShapes).Draw(t, "litShape")}
	if rapid.Bool().Draw(t, "litNull") {
		l.Shape = rapid.SampledFrom(LitShapes[:10]).Draw(t, "litNullShape")
	}
	texts, ok := LitTexts[l.Shape]
	if !ok {
		return l
	}
	l.Text = rapid.SampledFrom(texts).Draw(t, "litText")
	if !rapid.Bool().Draw(t, "litDrawn") {
		return l
	}
	digit := rapid.RuneFrom([]rune("0123456789"))
	digits := func(label string, max int) string {
		n := rapid.IntRange(1, max).Draw(t, label+"Len")
		d := strings.TrimLeft(rapid.StringOfN(digit, n, n, -1).Draw(t, label), "0")
		if d == "" {
			d = "0"
		}
		return d
	}
	number := func() string { // a JSON number literal of any size
		n := rapid.SampledFrom([]string{"", "-"}).Draw(t, "litSign") + digits("litInt", 60)
		if rapid.Bool().Draw(t, "litFrac") {
			n += "." + rapid.StringOfN(digit, 1, 30, -1).Draw(t, "litFracDigits")
		}
		if rapid.Bool().Draw(t, "litExp") {
			n += rapid.SampledFrom([]string{"e", "E", "e+", "e-"}).Draw(t, "litE") + digits("litExpDigits", 3)
		}
		return n
	}
	word := rapid.SampledFrom([]string{"null", "true", "false", "0", "-0", `""`, "[]", "{}", "[null]", `{"a":null}`, "nul", "ull", " ", "n", "x"})
	switch l.Shape {
	case "optional", "int":
		l.Text = fmt.Sprint(rapid.Int64().Draw(t, "litInt64"))
	case "uint":
		l.Text = fmt.Sprint(rapid.Uint64().Draw(t, "litUint64"))
	case "float":
		l.Text = fmt.Sprint(rapid.Float64().Filter(func(f float64) bool { return !math.IsInf(f, 0) && !math.IsNaN(f) }).Draw(t, "litFloat"))
	case "number":
		l.Text = number()
	case "string", "slice_of_string", "map_of_string", "discriminated", "discriminated_ptr", "embedded_fields":
		l.Text = ""
		for n := rapid.IntRange(0, 3).Draw(t, "litWords"); n > 0; n-- {
			l.Text += word.Draw(t, "litWord")
		}
	case "rawmessage":
		ws := rapid.SampledFrom([]string{"", "", " ", "\n", "\t "})
		elem := func() string {
			if rapid.IntRange(0, 3).Draw(t, "litElemNumber") == 0 {
				return number()
			}
			return rapid.SampledFrom([]string{"null", "true", "false", "0", "-0", `""`, `"null"`, "[]", "{}", "[null]", `{"a":null}`}).Draw(t, "litElem")
		}
		switch rapid.IntRange(0, 3).Draw(t, "litRawForm") {
		case 0:
			l.Text = "[" + ws.Draw(t, "ws") + elem() + ws.Draw(t, "ws") + "," + elem() + "]"
		case 1:
			l.Text = `{"null"` + ws.Draw(t, "ws") + ":" + ws.Draw(t, "ws") + elem() + "}"
		default:
			l.Text = elem()
		}
		l.Text = ws.Draw(t, "ws") + l.Text + ws.Draw(t, "ws")
	}
	return l
}

// genTarget draws a target length: nothing (most of the time), around a power of two, or log-uniform up to ~70 KB.
func genTarget(t *rapid.T, big int) (int, string) {
	target := 0
	switch k := rapid.IntRange(0, 19).Draw(t, "sizeClass"); {
	case k < 20-big:
	case k%2 == 0:
		p := rapid.SampledFrom([]int{256, 1024, 4096, 4096, 16384, 65536}).Draw(t, "pow2")
		target = p + rapid.OneOf(rapid.IntRange(-2, 2), rapid.IntRange(-64, 64)).Draw(t, "delta")
	default:
		bits := rapid.IntRange(6, 16).Draw(t, "bits")
		target = rapid.IntRange(1<<bits, 2<<bits).Draw(t, "target")
		if target > 70000 {
			target = 70000
		}
	}
	if target == 0 {
		return 0, ""
	}
	pad := rapid.SampledFrom([]string{"pre", "post", "obj.s", "obj.l", "obj.x"}).Draw(t, "padPlace")
	if pad == "pre" || pad == "post" {
		pad = fmt.Sprintf("%s:%d", pad, rapid.IntRange(0, 6).Draw(t, "padLevel"))
	}
	return target, pad
}

func genSide(t *rapid.T) Side {
	sd := Side{Kind: rapid.SampledFrom(SideKinds).Draw(t, "sideKind")}
	if sd.Kind == "new" || rapid.Bool().Draw(t, "sideWrapped") {
		sd.Text = genText(t, "sideText")
	}
	return sd
}

func genLevel(t *rapid.T, mixed bool) Wrap {
	w := Wrap{Pre: genText(t, "pre"), Post: genText(t, "post")}
	if !mixed {
		return w
	}
	switch k := rapid.IntRange(0, 9).Draw(t, "levelKind"); {
	case k < 3: // plain
	case k < 5:
		return Wrap{Kind: LGRPC}
	default:
		if k >= 8 {
			w.Kind = LJoin
		}
		n := rapid.SampledFrom([]int{1, 1, 1, 2, 3}).Draw(t, "sides")
		if w.Kind == LJoin && rapid.IntRange(0, 9).Draw(t, "joinOfOne") == 0 {
			n = 0
		}
		for i := 0; i < n; i++ {
			w.Sides = append(w.Sides, genSide(t))
		}
		w.Pos = rapid.IntRange(0, n).Draw(t, "pos")
		w.Mid = genText(t, "mid")
	}
	return w
}

func genChain(t *rapid.T, big int) Chain {
	c := Chain{Embed: -1}
	c.Class = rapid.SampledFrom(CodedClasses).Draw(t, "class")
	depth := rapid.IntRange(0, vstat.Pick(4, 6)).Draw(t, "depth")
	c.Wraps = make([]Wrap, depth)
	// 40% of the chains are plain fmt chains; the others mix in levels with side branches (fmt with several %w,
	// errors.Join) and GRPCWrap at inner levels
	mixed := rapid.IntRange(0, 9).Draw(t, "mixed") >= 4
	// one chain in six: raw bytes and U+FFFD in its texts and in the strings of its object
	mode.dirty = rapid.IntRange(0, 5).Draw(t, "rawBytes") == 0
	defer func() { mode.dirty = false }()
	for i := range c.Wraps {
		c.Wraps[i] = genLevel(t, mixed)
	}
	if rapid.IntRange(0, 3).Draw(t, "embed?") > 0 {
		c.Embed = rapid.IntRange(0, depth).Draw(t, "embedLevel")
		// one object in four is a generated protobuf message
		// ... and one in six a literal object (null through the Go shapes that marshal to it, bare literals, edge tokens)
		switch k := rapid.IntRange(0, 11).Draw(t, "proto"); {
		case k < 3:
			c.PB = genPB(t)
		case k < 5:
			c.Lit = genLit(t)
		default:
			c.Obj = genObj(t, "obj.", 2)
		}
		// half of the chains with an object: the caller extracts into a target of its own and overwrites it afterwards
		if rapid.Bool().Draw(t, "owned") {
			if rapid.IntRange(0, 2).Draw(t, "foreignTarget") == 0 {
				// a third of them: a target whose type is not the object's (foreign.go), whatever the object is
				c.Into = rapid.SampledFrom(ForeignIntoKinds).Draw(t, "foreignInto")
			} else if c.PB != nil {
				c.Into = rapid.SampledFrom(PBIntoKinds).Draw(t, "into")
			} else if c.Lit != nil {
				c.Into = rapid.SampledFrom(LitIntoKinds).Draw(t, "into")
			} else {
				c.Into = rapid.SampledFrom(IntoKinds).Draw(t, "into")
			}
		}
	}
	// one chain in ten is deep: one or two of its levels become runs of tens to thousands of identical levels (short
	// texts: the message of a chain grows with every link); no length target then
	deepOdds := vstat.Pick(9, 19) // the thorough tier runs twenty times as many chains
	if big < 4 {
		deepOdds = 29 // chains of a batch: 2..8 of them make one case
	}
	if depth > 0 && rapid.IntRange(0, deepOdds).Draw(t, "deep") == 0 {
		short := rapid.SampledFrom([]string{"", "", "", ": ", "/", "\x1b", "n", "é"})
		for n := rapid.IntRange(1, 2).Draw(t, "runs"); n > 0; n-- {
			w := &c.Wraps[rapid.IntRange(0, depth-1).Draw(t, "runAt")]
			if w.Kind == LGRPC {
				*w = Wrap{}
			}
			w.Pre, w.Post = short.Draw(t, "runPre"), short.Draw(t, "runPost")
			var links int
			if rapid.Bool().Draw(t, "edge") {
				links = rapid.SampledFrom([]int{32, 64, 128, 256, 512, 1024, 2048, 4096, 100, 1000}).Draw(t, "linksEdge") + rapid.IntRange(-1, 1).Draw(t, "linksDelta")
			} else {
				bits := rapid.IntRange(3, 11).Draw(t, "linksBits")
				links = rapid.IntRange(1<<bits, 2<<bits).Draw(t, "links")
			}
			if links > 512 && len(w.Sides) == 0 {
				w.Pre, w.Post = "", "" // the message is copied at every link: long runs are bare %w (unit deep has long runs with text)
			}
			if len(w.Sides) > 0 {
				links = min(links, 200) // every application adds the side errors' texts
				if w.Kind == LJoin {
					links = min(links, 40) // a Join renders its message anew, recursively, whenever it is asked for it
				}
				w.Mid = short.Draw(t, "runMid")
				for i := range w.Sides {
					w.Sides[i].Text = short.Draw(t, "runSide")
				}
			}
			w.Rep = links - 1
		}
		return c
	}
	if big > 0 && c.Embed >= 0 && c.Obj != nil && rapid.IntRange(0, 19).Draw(t, "objSize") == 0 {
		// the object's JSON text ends around a multiple of 512
		c.ObjTarget = 512*rapid.IntRange(1, 16).Draw(t, "objBlocks") + rapid.IntRange(-8, 2).Draw(t, "objDelta")
		c.Pad = rapid.SampledFrom([]string{"obj.s", "obj.l", "obj.x"}).Draw(t, "objPad")
		return c
	}
	c.Target, c.Pad = genTarget(t, big)
	if (c.PB != nil || c.Lit != nil) && strings.HasPrefix(c.Pad, "obj.") {
		c.Pad = "post:0" // a generated message has no padding place: the padding goes to a wrap text
	}
	return c
}

func genCase(t *rapid.T) Case {
	switch rapid.IntRange(0, 9).Draw(t, "kind") {
	case 0:
		return Case{Kind: "code", Code: uint32(rapid.IntRange(0, NumCodes-1).Draw(t, "code")), Msg: genText(t, "msg"), Chain: Chain{Embed: -1}}
	case 1, 2:
		c := Case{Kind: "batch", Chain: Chain{Embed: -1}, Eager: rapid.Bool().Draw(t, "eager")}
		k := rapid.IntRange(2, 8).Draw(t, "batchSize")
		for i := 0; i < k; i++ {
			ch := genChain(t, 1)
			if ch.PB != nil {
				// distinct objects per error: the position in the batch goes into the message's numbers and texts
				p := *ch.PB
				p.N = append([]int64{p.n(0)&^15 | int64(i)}, p.N[min(1, len(p.N)):]...)
				p.S = append([]string{fmt.Sprintf("%s#%d", p.s(0), i)}, p.S[min(1, len(p.S)):]...)
				ch.PB = &p
			} else if ch.Embed >= 0 && ch.Obj != nil {
				// distinct objects per error: the position in the batch goes into the object
				o := *ch.Obj
				o.N = o.N&^15 | int64(i)
				ch.Obj = &o
			}
			c.Batch = append(c.Batch, ch)
		}
		// a third of the batches: one chain is replaced by a pair of twins - same message, different class
		if rapid.IntRange(0, 2).Draw(t, "twins") == 0 {
			i := rapid.IntRange(0, k-1).Draw(t, "twinOf")
			if x, y, ok := Twins(c.Batch[i], rapid.SampledFrom(CodedClasses).Draw(t, "twinClass")); ok {
				c.Batch[i] = x
				j := rapid.IntRange(0, k).Draw(t, "twinAt")
				c.Batch = append(c.Batch[:j], append([]Chain{y}, c.Batch[j:]...)...)
			}
		}
		return c
	}
	return Case{Kind: "chain", Chain: genChain(t, 4)}
}

func TestC19Rapid(t *testing.T) {
	st := vstat.For(prop)
	rapid.Check(t, func(t *rapid.T) {
		c := genCase(t)
		info, v := Run(c)
		st.Report(t, "TestC19Rapid", c, v)
		record(c, info)
	})
}

// distinctObject puts the position i of a chain in its case into the chain's object, so that objects of different chains differ.
func distinctObject(ch Chain, i int) Chain {
	if ch.PB != nil {
		p := *ch.PB
		p.N = append([]int64{p.n(0)&^15 | int64(i)}, p.N[min(1, len(p.N)):]...)
		p.S = append([]string{fmt.Sprintf("%s#%d", p.s(0), i)}, p.S[min(1, len(p.S)):]...)
		ch.PB = &p
	} else if ch.Embed >= 0 && ch.Obj != nil {
		o := *ch.Obj
		o.N = o.N&^15 | int64(i)
		ch.Obj = &o
	}
	return ch
}

// genHammer draws a hammer case (conc.go): 2..12 chains around different classes (the ten coded classes in a drawn order,
// repeated from the eleventh chain on). A third of the cases are lean - plain %w chains of depth 1..3 with short texts and
// no object, the tightest loop -, the others take their chains from genChain (all level forms, objects of all kinds,
// caller-owned targets in the sequential phase), runs cut to <= 32 links. Three chains in four that would be a bare class
// get one plain level: a bare class is found by a map lookup, the class of a chain only by walking it.
func genHammer(t *rapid.T) Case {
	c := Case{Kind: "hammer", Chain: Chain{Embed: -1}}
	classes := rapid.Permutation(CodedClasses).Draw(t, "classes")
	n := rapid.IntRange(2, 12).Draw(t, "chains")
	lean := rapid.IntRange(0, 2).Draw(t, "lean") == 0
	short := rapid.SampledFrom([]string{"", "", ": ", "op: ", "/", " (x)", "\x1b", "n", "é"})
	for i := 0; i < n; i++ {
		var ch Chain
		if lean {
			ch = Chain{Embed: -1, Wraps: make([]Wrap, rapid.IntRange(1, 3).Draw(t, "leanDepth"))}
			for k := range ch.Wraps {
				ch.Wraps[k] = Wrap{Pre: short.Draw(t, "leanPre"), Post: short.Draw(t, "leanPost")}
			}
		} else {
			ch = genChain(t, 0)
			for k := range ch.Wraps {
				ch.Wraps[k].Rep %= 32
			}
			if len(ch.Wraps) == 0 && ch.Embed < 0 && rapid.IntRange(0, 3).Draw(t, "bare") > 0 {
				ch.Wraps = []Wrap{{Pre: short.Draw(t, "pre"), Post: short.Draw(t, "post")}}
			}
			ch = distinctObject(ch, i)
		}
		ch.Class = classes[i%len(classes)]
		c.Batch = append(c.Batch, ch)
	}
	c.G = rapid.SampledFrom([]int{4, 8, 2, 16, 3, 6, 12, 2}).Draw(t, "goroutines")
	c.Rounds = rapid.IntRange(vstat.Pick(1000, 4000), vstat.Pick(3000, 12000)).Draw(t, "rounds")
	// the race-detector unit needs overlapping calls, not many of them (and is ten times slower per call)
	if mx := vstat.EnvInt("VERIF_HAMMER_MAX_ROUNDS", 0); mx > 0 {
		c.Rounds = min(c.Rounds, mx)
	}
	return c
}

// TestC19Concurrent: goroutines use the functions of the property on chains of different classes at the same time; every
// result must be the one the same call gave before the goroutines started.
func TestC19Concurrent(t *testing.T) {
	st := vstat.For(prop)
	rapid.Check(t, func(t *rapid.T) {
		c := genHammer(t)
		info, v := Run(c)
		st.Report(t, "TestC19Concurrent", c, v)
		record(c, info)
		st.AddExtra("hammer_visits", info.HammerVisits)
	})
}

func TestReplay(t *testing.T) {
	p := vstat.ReplayPath()
	if p == "" {
		t.Skip("no replay requested")
	}
	var c Case
	if _, err := vstat.LoadReplay(p, &c); err != nil {
		t.Fatalf("cannot load %s: %v", p, err)
	}
	info, v := Run(c)
	vstat.For(prop).Report(t, "TestReplay", c, v)
	record(c, info)
}
