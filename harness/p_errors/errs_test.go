package p_errors

import (
	"math"
	"strings"
	"testing"

	"pgregory.net/rapid"
	"verifharness/internal/enum"
	"verifharness/internal/vstat"
)

const prop = "C19"

func TestMain(m *testing.M) { vstat.Main(m) }

func record(c Case, info Info) {
	vstat.For(prop).Case(info.NonTrivial(), c.Hash(), func() any { return c }, info.Classes()...)
}

// Styles is the finite alphabet of wrap texts of the exhaustive part.
var Styles = []Wrap{
	{"", ""}, // fmt.Errorf("%w", err)
	{"ctx: ", ""},
	{"", " (while x=1)"},
	{`{"op":"get","err":"`, `"}`},
	{"\x1bjso", "\x1b"}, // the marker's neighbours
	{"100% of json: %w %s %d ", ": rpc error: code = NotFound desc = file does not exist"},
	{"héllo → 日本: ", " ✓ 😀"},
	{"n", "json"}, // completes a marker next to style 4: Run replaces the texts of that level
}

// Objects is the finite set of embedded objects of the exhaustive part.
var Objects = []*Obj{
	{S: "x", N: 1},
	{},
	{S: "a\x1bjson b: {\"q\":1} 100% <tag> & é日本 ", N: math.MinInt64, L: []string{"", "\x1bjson", "json"},
		M: map[string]int{"k:1": 7, "\x1bjson": -1}, In: &Obj{S: "inner\x1b", N: math.MaxInt64, X: map[string]string{"\"": "}"}}},
}

// Messages of the exhaustive code part.
var Messages = []string{"", "ha ha", "file does not exist", "internal system error", "a: b: c", "100%d", "\x1b", "\x1bjso", "json",
	`{"a":1}`, "rpc error: code = OK desc = ", "日本語 😀", "\x1bjso\x1bjso n"}

func TestC19Exhaustive(t *testing.T) {
	st := vstat.For(prop)
	shard, shards := vstat.Shard()
	depth := vstat.Pick(4, 5)
	chains, codesN := int64(0), int64(0)
	run := func(c Case) {
		info, v := Run(c)
		st.Report(t, "TestC19Exhaustive", c, v)
		record(c, info)
	}
	lists, seq := int64(0), 0
	// the wrap lists are dealt round-robin to the shards (the alphabet is smaller than the shard count)
	enum.Lists(len(Styles), depth, 0, 1, func(idx []int) {
		seq++
		if seq%shards != shard {
			return
		}
		lists++
		wraps := make([]Wrap, len(idx))
		for i, e := range idx {
			wraps[i] = Styles[e]
		}
		for _, cls := range CodedClasses {
			run(Case{Kind: "chain", Class: cls, Wraps: wraps, Embed: -1})
			chains++
			for emb := 0; emb <= len(wraps); emb++ {
				for _, o := range Objects {
					run(Case{Kind: "chain", Class: cls, Wraps: wraps, Embed: emb, Obj: o})
					chains++
				}
			}
		}
	})
	if shard == 0 {
		for code := uint32(0); code < NumCodes; code++ {
			for _, m := range Messages {
				run(Case{Kind: "code", Code: code, Msg: m, Embed: -1})
				codesN++
			}
		}
	}
	st.SetExhaustive("errors_class_x_wraplists_x_embedlevel_x_object_and_code_x_message", map[string]any{
		"classes_with_code": len(CodedClasses), "other_classes_checked_per_chain": len(distinctClasses()) - 1,
		"wrap_styles": len(Styles), "wrap_depth": depth, "wrap_lists_this_shard": lists, "objects": len(Objects),
		"chain_cases_this_shard": chains, "codes": NumCodes, "messages": len(Messages), "code_cases_this_shard": codesN, "shards": shards})
}

// text pieces: ASCII, unicode, JSON fragments, colons, '%', ESC, "json", marker prefixes, class and gRPC phrases
var pieces = []string{"", " ", ": ", ":", "ctx", "a: b", "100%", "%w", "%s%d%v", "%!", "\x1b", "json", "\x1bjso", "jso", "son", "n", "\x1bj", "\x1b\x1b",
	"JSON", "\x1bJSON", `{"a":1}`, `{"s":"x"`, `"}`, "[1,2]", `\u001bjson`, `\x1bjson`, "héllo wörld", "日本語", "😀", "\n", "\t", " ",
	"rpc error: code = NotFound desc = ", "code = ", "file does not exist", "file already exists", "internal system error", "canceled",
	"system communication error", "permission denied", "unimplemented"}

// genText draws a text; the complete marker never appears inside one text (construction: a space is inserted).
func genText(t *rapid.T, label string) string {
	var s string
	switch rapid.IntRange(0, 9).Draw(t, label+"Kind") {
	case 0, 1:
		s = ""
	case 2:
		s = rapid.String().Draw(t, label+"Str")
	default:
		ps := rapid.SliceOfN(rapid.OneOf(rapid.SampledFrom(pieces), rapid.SampledFrom(pieces), rapid.StringN(0, 6, -1)), 0, 5).Draw(t, label+"Pieces")
		s = strings.Join(ps, "")
	}
	s = strings.ToValidUTF8(s, "?")
	for strings.Contains(s, marker) {
		s = strings.Replace(s, marker, "\x1b json", 1)
	}
	return s
}

// genObjText may contain the complete marker: json.Marshal escapes ESC, so EmbedObject's format is not affected.
func genObjText(t *rapid.T, label string) string {
	if rapid.IntRange(0, 4).Draw(t, label+"M") == 0 {
		return genText(t, label+"a") + marker + genText(t, label+"b")
	}
	return genText(t, label)
}

func genObj(t *rapid.T, label string, nest int) *Obj {
	o := &Obj{}
	o.S = genObjText(t, label+"S")
	o.N = rapid.OneOf(rapid.Int64Range(-3, 3), rapid.Int64(), rapid.SampledFrom([]int64{math.MinInt64, math.MaxInt64, 1 << 53, 1<<53 + 1})).Draw(t, label+"N")
	if rapid.Bool().Draw(t, label+"hasL") {
		n := rapid.IntRange(0, 3).Draw(t, label+"nL")
		o.L = make([]string, n)
		for i := range o.L {
			o.L[i] = genObjText(t, label+"L")
		}
	}
	if rapid.IntRange(0, 2).Draw(t, label+"hasM") == 0 {
		n := rapid.IntRange(0, 3).Draw(t, label+"nM")
		o.M = map[string]int{}
		for i := 0; i < n; i++ {
			o.M[genObjText(t, label+"Mk")] = rapid.IntRange(-5, 5).Draw(t, label+"Mv")
		}
	}
	if rapid.IntRange(0, 2).Draw(t, label+"hasX") == 0 {
		n := rapid.IntRange(0, 2).Draw(t, label+"nX")
		o.X = map[string]string{}
		for i := 0; i < n; i++ {
			o.X[genObjText(t, label+"Xk")] = genObjText(t, label+"Xv")
		}
	}
	if nest > 0 && rapid.IntRange(0, 2).Draw(t, label+"hasIn") == 0 {
		o.In = genObj(t, label+"in.", nest-1)
	}
	return o
}

func genCase(t *rapid.T) Case {
	if rapid.IntRange(0, 9).Draw(t, "kind") == 0 {
		return Case{Kind: "code", Code: uint32(rapid.IntRange(0, NumCodes-1).Draw(t, "code")), Msg: genText(t, "msg"), Embed: -1}
	}
	c := Case{Kind: "chain", Embed: -1}
	c.Class = rapid.SampledFrom(CodedClasses).Draw(t, "class")
	depth := rapid.IntRange(0, vstat.Pick(4, 6)).Draw(t, "depth")
	c.Wraps = make([]Wrap, depth)
	for i := range c.Wraps {
		c.Wraps[i] = Wrap{Pre: genText(t, "pre"), Post: genText(t, "post")}
	}
	if rapid.IntRange(0, 3).Draw(t, "embed?") > 0 {
		c.Embed = rapid.IntRange(0, depth).Draw(t, "embedLevel")
		c.Obj = genObj(t, "obj.", 2)
	}
	return c
}

func TestC19Rapid(t *testing.T) {
	st := vstat.For(prop)
	rapid.Check(t, func(t *rapid.T) {
		c := genCase(t)
		info, v := Run(c)
		st.Report(t, "TestC19Rapid", c, v)
		record(c, info)
	})
}

func TestReplay(t *testing.T) {
	p := vstat.ReplayPath()
	if p == "" {
		t.Skip("no replay requested")
	}
	var c Case
	if _, err := vstat.LoadReplay(p, &c); err != nil {
		t.Fatalf("cannot load %s: %v", p, err)
	}
	info, v := Run(c)
	vstat.For(prop).Report(t, "TestReplay", c, v)
	record(c, info)
}
