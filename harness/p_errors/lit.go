package p_errors

// Embedded objects whose JSON TEXT IS A BARE LITERAL OR AN EDGE TOKEN. EmbedObject takes any non-nil interface value
// that json.Marshal accepts, so the text between the markers is not always a {...} object: it is `null` for a typed nil
// pointer, a nil slice, a nil map, a nil json.RawMessage, a pointer to a nil interface, a json.Marshaler that writes
// null; `true`, `0`, `-0`, `""`, `"null"`, `[]`, `{}`, `[null]`, `{"a":null}`, a number of hundreds of digits ... for
// other ordinary Go values. "An embedded object is still extractable afterwards" holds for all of them: ExtractObject
// into a target of the SAME Go type reports the object as present and leaves the target as json.Unmarshal of the
// embedded JSON text leaves a target prepared in the same way - a zero one and one that held other content before (a
// used pointer / slice / map / struct: null resets a pointer, slice or map, is a no-op for a struct or number, a map
// target keeps its other keys, ... - whatever encoding/json does with the text, nothing of it is modelled here).

import (
	"encoding/json"
	"fmt"
	"reflect"
	"strconv"
	"strings"

	gerrors "github.com/acquirecloud/golibs/errors"
	"verifharness/internal/vstat"
)

// Lit describes such an object as plain data: Shape names the Go type / value form, Text is the parameter of the shape
// (the string, the decimal text of the number, the JSON text of a json.RawMessage, "true"/"false"); valid UTF-8, taken
// verbatim.
type Lit struct {
	Shape string `json:"shape"`
	Text  string `json:"text,omitempty"`
}

// LitShapes lists the shapes. Those of the first line marshal to the bare text null.
var LitShapes = []string{
	"nil_ptr_struct", "nil_ptr_int", "nil_ptr_string", "nil_slice", "nil_map", "nil_rawmessage", "ptr_to_nil_any", "marshaler_writes_null", "nil_ptr_marshaler", "optional",
	"rawmessage", "bool", "int", "uint", "float", "number", "string",
	"empty_slice", "empty_map", "empty_struct", "slice_of_nil_any", "slice_of_nil_ptr", "map_of_nil_any", "map_of_nil_ptr", "struct_of_nil_fields",
	"slice_of_string", "map_of_string",
	// objects whose JSON form is not what their own decoding side declares (foreign.go): a MarshalJSON that adds a
	// discriminator key (value receiver / pointer receiver, more keys), a struct with anonymous embedded struct fields
	"discriminated", "discriminated_ptr", "embedded_fields",
}

// LitIntoKinds are the extraction targets of a chain with such an object, next to the plain extraction into a zero
// target of the object's own type that every stage does:
//
//	filled     a target of the object's own type that held other content before
//	any        *any, fresh per stage             anyfilled  *any that held a map before
//	raw, rawcap, blob  as for the other objects (one re-used variable, overwritten by the caller after each stage)
var LitIntoKinds = []string{"filled", "any", "anyfilled", "raw", "rawcap", "blob"}

// nullWriter is a json.Marshaler that writes null whatever it holds (a redacted / write-only field type).
type nullWriter struct{ V int64 }

func (nullWriter) MarshalJSON() ([]byte, error) { return []byte("null"), nil }

// optional is the usual "nullable number": null when not set, and it decodes null itself.
type optional struct {
	Set bool
	V   int64
}

func (o optional) MarshalJSON() ([]byte, error) {
	if !o.Set {
		return []byte("null"), nil
	}
	return strconv.AppendInt(nil, o.V, 10), nil
}

func (o *optional) UnmarshalJSON(d []byte) error {
	if string(d) == "null" {
		*o = optional{}
		return nil
	}
	n, err := strconv.ParseInt(string(d), 10, 64)
	*o = optional{Set: err == nil, V: n}
	return err
}

type nilFields struct {
	A *int64            `json:"a"`
	B []string          `json:"b"`
	C map[string]int    `json:"c"`
	D any               `json:"d"`
	E json.RawMessage   `json:"e"`
	F *Obj              `json:"f"`
	G map[string]*int64 `json:"g"`
}

func must[T any](v T, err error) T {
	if err != nil {
		panic("bad literal object in a case: " + err.Error())
	}
	return v
}

// build returns the value that is handed to EmbedObject (a new one at every call).
func (l *Lit) build() any {
	switch l.Shape {
	case "nil_ptr_struct":
		return (*Obj)(nil)
	case "nil_ptr_int":
		return (*int64)(nil)
	case "nil_ptr_string":
		return (*string)(nil)
	case "nil_slice":
		return []string(nil)
	case "nil_map":
		return map[string]int(nil)
	case "nil_rawmessage":
		return json.RawMessage(nil)
	case "ptr_to_nil_any":
		return new(any)
	case "marshaler_writes_null":
		return nullWriter{V: int64(len(l.Text))}
	case "nil_ptr_marshaler":
		return (*nullWriter)(nil)
	case "optional":
		if l.Text == "" {
			return optional{}
		}
		return optional{Set: true, V: must(strconv.ParseInt(l.Text, 10, 64))}
	case "rawmessage":
		return json.RawMessage(l.Text)
	case "bool":
		return must(strconv.ParseBool(l.Text))
	case "int":
		return must(strconv.ParseInt(l.Text, 10, 64))
	case "uint":
		return must(strconv.ParseUint(l.Text, 10, 64))
	case "float":
		return must(strconv.ParseFloat(l.Text, 64))
	case "number":
		return json.Number(l.Text)
	case "string":
		return l.Text
	case "empty_slice":
		return []string{}
	case "empty_map":
		return map[string]int{}
	case "empty_struct":
		return struct{}{}
	case "slice_of_nil_any":
		return []any{nil}
	case "slice_of_nil_ptr":
		return []*int64{nil}
	case "map_of_nil_any":
		return map[string]any{"a": nil}
	case "map_of_nil_ptr":
		return map[string]*int64{"a": nil}
	case "struct_of_nil_fields":
		return nilFields{}
	case "slice_of_string":
		return []string{l.Text}
	case "map_of_string":
		return map[string]string{l.Text: l.Text}
	case "discriminated":
		return quota{User: l.Text, Limit: len(l.Text)}
	case "discriminated_ptr":
		ev := &event{Name: l.Text}
		if l.Text != "" {
			ev.Tags = []string{l.Text, "null"}
		}
		return ev
	case "embedded_fields":
		env := envelope{headPart: headPart{S: l.Text}, Body: l.Text}
		if l.Text != "" {
			env.L = []string{l.Text}
			env.TailPart = &TailPart{N: int64(len(l.Text)), M: map[string]int{l.Text: 1}}
		}
		return env
	}
	panic("bad literal object shape " + l.Shape)
}

// target returns a pointer to a target of the object's own type: a zero one, or one that held other content before.
func (l *Lit) target(filled bool) any {
	n, s := int64(42), "old"
	switch l.Shape {
	case "nil_ptr_struct":
		p := (*Obj)(nil)
		if filled {
			p = &Obj{S: "old", N: 7, L: []string{"stale"}, M: map[string]int{"stale": 1}}
		}
		return &p
	case "nil_ptr_int":
		p := (*int64)(nil)
		if filled {
			p = &n
		}
		return &p
	case "nil_ptr_string":
		p := (*string)(nil)
		if filled {
			p = &s
		}
		return &p
	case "nil_slice", "empty_slice", "slice_of_string":
		v := []string(nil)
		if filled {
			v = append(make([]string, 0, 8), "stale", "staler")
		}
		return &v
	case "nil_map", "empty_map":
		v := map[string]int(nil)
		if filled {
			v = map[string]int{"stale": 1}
		}
		return &v
	case "nil_rawmessage", "rawmessage":
		v := json.RawMessage(nil)
		if filled {
			v = append(make(json.RawMessage, 0, 64), `{"stale":1}`...)
		}
		return &v
	case "ptr_to_nil_any":
		var v any
		if filled {
			v = map[string]any{"stale": 1.0}
		}
		return &v
	case "marshaler_writes_null":
		v := nullWriter{}
		if filled {
			v.V = 42
		}
		return &v
	case "nil_ptr_marshaler":
		p := (*nullWriter)(nil)
		if filled {
			p = &nullWriter{V: 42}
		}
		return &p
	case "optional":
		v := optional{}
		if filled {
			v = optional{Set: true, V: 42}
		}
		return &v
	case "bool":
		v := filled
		return &v
	case "int":
		v := int64(0)
		if filled {
			v = 42
		}
		return &v
	case "uint":
		v := uint64(0)
		if filled {
			v = 42
		}
		return &v
	case "float":
		v := float64(0)
		if filled {
			v = 42.5
		}
		return &v
	case "number":
		v := json.Number("")
		if filled {
			v = "42"
		}
		return &v
	case "string":
		v := ""
		if filled {
			v = "old"
		}
		return &v
	case "empty_struct":
		return &struct{}{}
	case "slice_of_nil_any":
		v := []any(nil)
		if filled {
			v = []any{"stale", 1.0, map[string]any{"stale": true}}
		}
		return &v
	case "slice_of_nil_ptr":
		v := []*int64(nil)
		if filled {
			v = []*int64{&n, &n}
		}
		return &v
	case "map_of_nil_any":
		v := map[string]any(nil)
		if filled {
			v = map[string]any{"a": "stale", "b": "other key"}
		}
		return &v
	case "map_of_nil_ptr":
		v := map[string]*int64(nil)
		if filled {
			v = map[string]*int64{"a": &n, "b": &n}
		}
		return &v
	case "struct_of_nil_fields":
		v := nilFields{}
		if filled {
			v = nilFields{A: &n, B: []string{"stale"}, C: map[string]int{"stale": 1}, D: "stale", E: json.RawMessage(`"stale"`), F: &Obj{S: "stale"}, G: map[string]*int64{"stale": &n}}
		}
		return &v
	case "map_of_string":
		v := map[string]string(nil)
		if filled {
			v = map[string]string{"stale": "old", "null": "old"}
		}
		return &v
	case "discriminated":
		v := quota{}
		if filled {
			v = quota{User: "old", Limit: 42}
		}
		return &v
	case "discriminated_ptr":
		v := event{}
		if filled {
			v = event{Name: "old", Tags: []string{"stale", "staler", "stalest"}}
		}
		return &v
	case "embedded_fields":
		v := envelope{}
		if filled {
			v = envelope{headPart{"old", []string{"stale", "staler"}}, &TailPart{N: 7, M: map[string]int{"stale": 1}}, "old body"}
		}
		return &v
	}
	panic("bad literal object shape " + l.Shape)
}

func validateLit(l *Lit) {
	b, err := json.Marshal(l.build())
	if err != nil {
		panic("the literal object of a case is not marshalable: " + err.Error())
	}
	if strings.Contains(string(b), marker) {
		panic("generator bug: JSON text with a raw ESC")
	}
	l.target(false)
}

// litClasses classifies the JSON text of the object.
func litClasses(l *Lit, text []byte) []string {
	s := string(text)
	c := []string{"object_json_is_not_an_obj_struct", "literal_shape:" + l.Shape}
	if strings.HasPrefix(l.Shape, "discriminated") {
		c = append(c, "object_json_has_keys_its_own_type_does_not_decode")
	}
	switch {
	case s == "null":
		c = append(c, "object_json_is_null")
	case s == "true" || s == "false":
		c = append(c, "object_json_is_bare_bool")
	case s == `""`:
		c = append(c, "object_json_is_empty_string")
	case s[0] == '"':
		c = append(c, "object_json_is_bare_string")
	case s == "[]" || s == "{}":
		c = append(c, "object_json_is_empty_container")
	case s[0] == '-' || s[0] >= '0' && s[0] <= '9':
		c = append(c, "object_json_is_bare_number")
		if s == "0" || s == "-0" {
			c = append(c, "object_json_is_zero")
		}
		if len(s) > 20 || strings.ContainsAny(s, "eE") {
			c = append(c, "object_json_is_number_beyond_int64_or_with_exponent")
		}
	}
	if s != "null" && strings.Contains(s, "null") {
		if strings.Contains(s, `"`) && !strings.Contains(s, ":null") && !strings.Contains(s, "[null") {
			c = append(c, "object_json_holds_the_word_null_in_a_string")
		} else {
			c = append(c, "object_json_holds_null_inside_a_container")
		}
	}
	return c
}

// extractLit extracts the object of e into a target of the object's own type and compares the target with one that was
// prepared in the same way and given to json.Unmarshal together with the JSON text EmbedObject wrote.
func extractLit(stage string, e error, l *Lit, filled bool, wantJSON []byte) *vstat.Violation {
	got, ref := l.target(filled), l.target(filled)
	kind := "a zero"
	if filled {
		kind = "a used"
	}
	if err := json.Unmarshal(wantJSON, ref); err != nil {
		panic(fmt.Sprintf("generator bug: encoding/json does not decode %s into %T: %v", wantJSON, ref, err))
	}
	if !gerrors.ExtractObject(e, got) {
		return vstat.V("errors:extract-failed", "%s: ExtractObject into %s %T returned false for (%d bytes) %q (embedded: %s, JSON text %s)", stage, kind, got, len(e.Error()), clip(e.Error()), l.Shape, clip(string(wantJSON)))
	}
	if !reflect.DeepEqual(got, ref) || js(got) != js(ref) {
		return vstat.V("errors:extract-different-object", "%s: ExtractObject left %s %T as %s, json.Unmarshal of the embedded text %s leaves such a target as %s (message %q)", stage, kind, got, clip(js(got)), clip(string(wantJSON)), clip(js(ref)), clip(e.Error()))
	}
	return nil
}

// extractLitAny is the same for a *any that held a map before.
func extractLitAny(stage string, e error, l *Lit, wantJSON []byte) *vstat.Violation {
	var got, ref any = map[string]any{"stale": 1.0}, map[string]any{"stale": 1.0}
	if json.Unmarshal(wantJSON, &ref) != nil {
		return nil // not a value an interface{} target can take (a number beyond float64): nothing to extract into it
	}
	if !gerrors.ExtractObject(e, &got) {
		return vstat.V("errors:extract-failed", "%s: ExtractObject into a used *any returned false for (%d bytes) %q (embedded: %s, JSON text %s)", stage, len(e.Error()), clip(e.Error()), l.Shape, clip(string(wantJSON)))
	}
	if !reflect.DeepEqual(got, ref) {
		return vstat.V("errors:extract-different-object", "%s: ExtractObject left a used *any as %s, json.Unmarshal of the embedded text %s leaves it as %s (message %q)", stage, clip(js(got)), clip(string(wantJSON)), clip(js(ref)), clip(e.Error()))
	}
	return nil
}
