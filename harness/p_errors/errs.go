// Package p_errors decides C19: error classes survive wrapping and the gRPC boundary.
package p_errors

import (
	"bytes"
	"encoding/json"
	"fmt"
	"strings"
	"unicode/utf8"

	gerrors "github.com/acquirecloud/golibs/errors"
	"google.golang.org/grpc/codes"
	"google.golang.org/grpc/status"
	"verifharness/internal/vstat"
)

const marker = "\x1bjson" // errors.jsonErrorMarker

// Class is a named general error class.
type Class struct {
	Name string
	Err  error
}

// AllClasses is the full list of classes of errors.go.
var AllClasses = []Class{
	{"ErrExist", gerrors.ErrExist},
	{"ErrNotExist", gerrors.ErrNotExist},
	{"ErrClosed", gerrors.ErrClosed},
	{"ErrInvalid", gerrors.ErrInvalid},
	{"ErrNotAuthorized", gerrors.ErrNotAuthorized},
	{"ErrDataLoss", gerrors.ErrDataLoss},
	{"ErrCommunication", gerrors.ErrCommunication},
	{"ErrInternal", gerrors.ErrInternal},
	{"ErrConflict", gerrors.ErrConflict},
	{"ErrExhausted", gerrors.ErrExhausted},
	{"ErrUnimplemented", gerrors.ErrUnimplemented},
	{"ErrCanceled", gerrors.ErrCanceled},
}

// CodedClasses are the classes that have a gRPC code (the keys of errorsToCode named in the C19 text).
var CodedClasses = []string{"ErrExist", "ErrNotExist", "ErrInvalid", "ErrNotAuthorized", "ErrInternal",
	"ErrDataLoss", "ErrExhausted", "ErrUnimplemented", "ErrConflict", "ErrCanceled"}

// NumCodes is the number of gRPC status codes (OK..Unauthenticated).
const NumCodes = 17

func classByName(n string) error {
	for _, c := range AllClasses {
		if c.Name == n {
			return c.Err
		}
	}
	panic("unknown class " + n)
}

// distinct holds the classes with distinct error values (identity), first name wins.
var distinct = func() []Class {
	out := []Class{}
	for _, c := range AllClasses {
		dup := false
		for _, d := range out {
			if d.Err == c.Err {
				dup = true
			}
		}
		if !dup {
			out = append(out, c)
		}
	}
	return out
}()

func distinctClasses() []Class { return distinct }

// Wrap is one fmt.Errorf level: fmt.Errorf("%s%w%s", Pre, err, Post) - the texts are taken verbatim.
type Wrap struct {
	Pre  string `json:"pre"`
	Post string `json:"post"`
}

// Obj is the embedded object.
type Obj struct {
	S  string            `json:"s"`
	N  int64             `json:"n"`
	L  []string          `json:"l,omitempty"`
	M  map[string]int    `json:"m,omitempty"`
	In *Obj              `json:"in,omitempty"`
	X  map[string]string `json:"x,omitempty"`
}

// Chain is one wrapping chain around one class: Class is wrapped by Wraps[0], Wraps[1], ... ; if Embed >= 0,
// errors.EmbedObject(Obj, e) is applied after the first Embed wraps (0 = directly on the class value,
// len(Wraps) = outermost). Target > 0 asks for a finished chain whose err.Error() is Target bytes long: the
// missing bytes are ASCII padding put where Pad says - "pre:k"/"post:k" (text of wrap level k mod depth),
// "obj.s" (the object's string), "obj.l" (many array elements), "obj.x" (many fields); the last two are
// topped up through the string. A chain that is already longer, or has no place for the padding, stays as it is.
type Chain struct {
	Class  string `json:"class,omitempty"`
	Wraps  []Wrap `json:"wraps,omitempty"`
	Embed  int    `json:"embed"`
	Obj    *Obj   `json:"obj,omitempty"`
	Target int    `json:"target,omitempty"`
	Pad    string `json:"pad,omitempty"`
}

// Case is a wrapping chain (Kind "chain", the inline Chain fields), a batch of chains (Kind "batch": all
// chains are built - and wrapped by GRPCWrap - before the first result is looked at; Eager = GRPCWrap is
// applied to each chain right after it is built, otherwise after all chains are built) or a gRPC code with
// a message (Kind "code").
type Case struct {
	Kind string `json:"kind"`
	Chain
	Batch []Chain `json:"batch,omitempty"`
	Eager bool    `json:"eager,omitempty"`
	Code  uint32  `json:"code"`
	Msg   string  `json:"msg,omitempty"`
}

// Info is what the classifier needs.
type Info struct {
	Chain     bool
	Batch     int // number of chains of a batch case
	BatchEmb  int // ... with an embedded object
	Eager     bool
	Class     string
	Depth     int
	Embed     string // "", "inner", "middle", "outer", "only"
	Code      string
	OK        bool
	Hazards   []string
	Repaired  bool // a wrap text would have completed a marker across a concatenation boundary and was replaced
	ObjMarker bool // the object's strings contain the complete marker (escaped by JSON)
	MaxLen    int  // longest err.Error() of a finished chain
	Boundary  bool // some finished chain is within 1 byte of a power of two >= 256
	Pads      []string
}

// Run executes the case.
func Run(c Case) (info Info, v *vstat.Violation) {
	return info, vstat.Guard("errors:panic", func() *vstat.Violation {
		switch c.Kind {
		case "chain":
			info.Chain = true
			return runChains([]Chain{c.Chain}, true, &info)
		case "batch":
			info.Batch = len(c.Batch)
			info.Eager = c.Eager
			return runChains(c.Batch, c.Eager, &info)
		case "code":
			return runCode(c, &info)
		}
		panic("bad kind " + c.Kind)
	})
}

func hazards(texts ...string) []string {
	all := strings.Join(texts, "\x00")
	var h []string
	add := func(b bool, s string) {
		if b {
			h = append(h, s)
		}
	}
	add(strings.Contains(all, "\x1b"), "text_has_esc")
	add(strings.Contains(all, "json"), "text_has_json_word")
	add(strings.Contains(all, "\x1bjso"), "text_has_marker_prefix")
	add(strings.Contains(all, ":"), "text_has_colon")
	add(strings.Contains(all, "%"), "text_has_percent")
	add(strings.ContainsAny(all, "{}[]\""), "text_has_json_fragment")
	add(strings.Contains(all, "rpc error"), "text_has_rpc_error_phrase")
	nonASCII := false
	for _, r := range all {
		if r >= 0x80 {
			nonASCII = true
		}
	}
	add(nonASCII, "text_has_unicode")
	return h
}

func objEqual(a *Obj, wantJSON []byte) bool {
	ja, e1 := json.Marshal(a)
	return e1 == nil && bytes.Equal(ja, wantJSON)
}

func objHasMarker(o *Obj) bool {
	if o == nil {
		return false
	}
	if strings.Contains(o.S, marker) {
		return true
	}
	for _, s := range o.L {
		if strings.Contains(s, marker) {
			return true
		}
	}
	for k, s := range o.X {
		if strings.Contains(s, marker) || strings.Contains(k, marker) {
			return true
		}
	}
	for k := range o.M {
		if strings.Contains(k, marker) {
			return true
		}
	}
	return objHasMarker(o.In)
}

func extractCheck(stage string, e error, want *Obj, wantJSON []byte) *vstat.Violation {
	var got Obj
	if !gerrors.ExtractObject(e, &got) {
		return vstat.V("errors:extract-failed", "%s: ExtractObject returned false for (%d bytes) %q (embedded %s)", stage, len(e.Error()), clip(e.Error()), clip(js(want)))
	}
	if !objEqual(&got, wantJSON) {
		return vstat.V("errors:extract-different-object", "%s: ExtractObject returned %s, embedded was %s (message %q)", stage, clip(js(&got)), clip(js(want)), clip(e.Error()))
	}
	return nil
}

func js(o *Obj) string {
	b, _ := json.Marshal(o)
	return string(b)
}

const padPattern = "abcdefghi " // no letter of the marker, no ESC

func padText(n int) string {
	if n <= 0 {
		return ""
	}
	return strings.Repeat(padPattern, n/len(padPattern)+1)[:n]
}

// built is a finished chain with everything the checks need.
type built struct {
	ch       Chain // after padding
	cls      error
	wantJSON []byte
	eEmb     error // result of EmbedObject
	e        error // finished chain
	g, g2    error // GRPCWrap(e), GRPCWrap(GRPCWrap(e))
	repaired bool
}

func validate(ch Chain) {
	coded := false
	for _, n := range CodedClasses {
		coded = coded || n == ch.Class
	}
	if !coded {
		panic("class without a gRPC code in a chain: " + ch.Class)
	}
	if ch.Embed > len(ch.Wraps) {
		panic("embed level beyond the chain")
	}
	if ch.Embed >= 0 && ch.Obj == nil {
		panic("embed without an object")
	}
	for _, w := range ch.Wraps {
		if !utf8.ValidString(w.Pre) || !utf8.ValidString(w.Post) || strings.Contains(w.Pre, marker) || strings.Contains(w.Post, marker) {
			panic("wrap texts must be valid UTF-8 without the complete marker")
		}
	}
}

// assemble builds the chain through the library; the message holds 0 markers before the embedding and exactly 2 after it.
func assemble(ch Chain) (e, eEmb error, repaired bool) {
	e = classByName(ch.Class)
	markers := 0
	for k := 0; k <= len(ch.Wraps); k++ {
		if ch.Embed == k {
			e = gerrors.EmbedObject(ch.Obj, e)
			eEmb = e
			markers = 2
		}
		if k == len(ch.Wraps) {
			break
		}
		w := ch.Wraps[k]
		if strings.Count(w.Pre+e.Error()+w.Post, marker) != markers {
			// the texts complete a marker across a concatenation boundary: outside EmbedObject's /
			// ExtractObject's documented format, use neutral texts for this level instead
			w = Wrap{Pre: "[", Post: "]"}
			repaired = true
		}
		e = fmt.Errorf("%s%w%s", w.Pre, e, w.Post)
	}
	return e, eEmb, repaired
}

// padded returns the chain with the padding asked for by Target/Pad applied (a copy; the case is not modified).
func padded(ch Chain) Chain {
	if ch.Target <= 0 {
		return ch
	}
	measure := func(x Chain) int {
		e, _, _ := assemble(x)
		return len(e.Error())
	}
	need := ch.Target - measure(ch)
	if need <= 0 {
		return ch
	}
	place, arg := ch.Pad, 0
	if k := strings.IndexByte(place, ':'); k >= 0 {
		fmt.Sscanf(place[k+1:], "%d", &arg)
		place = place[:k]
	}
	switch place {
	case "pre", "post":
		if len(ch.Wraps) == 0 {
			return ch
		}
		ws := append([]Wrap(nil), ch.Wraps...)
		k := arg % len(ws)
		if place == "pre" {
			ws[k].Pre = padText(need) + ws[k].Pre
		} else {
			ws[k].Post = ws[k].Post + padText(need)
		}
		ch.Wraps = ws
	case "obj.s", "obj.l", "obj.x":
		if ch.Embed < 0 {
			return ch
		}
		o := *ch.Obj
		switch place {
		case "obj.l":
			o.L = append([]string(nil), o.L...)
			for n := need / 16; n > 0; n-- { // "abcdefghi abc", costs 16 bytes
				o.L = append(o.L, padText(13))
			}
		case "obj.x":
			x := map[string]string{}
			for k, v := range o.X {
				x[k] = v
			}
			for n := need / 16; n > 0; n-- { // "k0000001":"v", costs 15..16 bytes
				x[fmt.Sprintf("k%07d", n)] = "v"
			}
			o.X = x
		}
		ch.Obj = &o
		if place != "obj.s" {
			need = ch.Target - measure(ch)
		}
		if need > 0 {
			o.S += padText(need)
		}
	default:
		panic("bad pad place " + ch.Pad)
	}
	return ch
}

func embedName(ch Chain) string {
	switch {
	case ch.Embed < 0:
		return ""
	case len(ch.Wraps) == 0:
		return "only"
	case ch.Embed == 0:
		return "inner"
	case ch.Embed == len(ch.Wraps):
		return "outer"
	}
	return "middle"
}

// runChains builds all chains first (and applies GRPCWrap - per chain when eager, else after all are built) and
// only then looks at the results: an error value must not depend on errors created after it.
func runChains(chs []Chain, eager bool, info *Info) *vstat.Violation {
	bs := make([]*built, len(chs))
	var texts []string
	for n, ch := range chs {
		validate(ch)
		for _, w := range ch.Wraps {
			texts = append(texts, w.Pre, w.Post)
		}
		b := &built{ch: padded(ch), cls: classByName(ch.Class)}
		bs[n] = b
		if ch.Target > 0 {
			info.Pads = append(info.Pads, "pad:"+strings.SplitN(ch.Pad, ":", 2)[0])
		}
		if b.ch.Embed >= 0 {
			info.BatchEmb++
			var err error
			if b.wantJSON, err = json.Marshal(b.ch.Obj); err != nil {
				panic("object is not marshalable: " + err.Error())
			}
			info.ObjMarker = info.ObjMarker || objHasMarker(b.ch.Obj)
		}
	}
	info.Hazards = hazards(texts...)
	info.Class, info.Depth, info.Embed = chs[0].Class, len(chs[0].Wraps), embedName(chs[0])

	wrap := func(b *built) {
		b.g = gerrors.GRPCWrap(b.e)
		b.g2 = gerrors.GRPCWrap(b.g)
	}
	for _, b := range bs {
		b.e, b.eEmb, b.repaired = assemble(b.ch)
		info.Repaired = info.Repaired || b.repaired
		if eager {
			wrap(b)
		}
	}
	if !eager {
		for _, b := range bs {
			wrap(b)
		}
	}
	for n, b := range bs {
		if v := checkChain(b, info); v != nil {
			if len(bs) > 1 {
				v.Msg = fmt.Sprintf("chain %d of %d (all built before the first check): %s", n, len(bs), v.Msg)
			}
			return v
		}
	}
	return nil
}

func clip(s string) string {
	if len(s) > 300 {
		return fmt.Sprintf("%s…[%d bytes]…%s", s[:150], len(s), s[len(s)-100:])
	}
	return s
}

func checkChain(b *built, info *Info) *vstat.Violation {
	c, e, g, g2, cls := b.ch, b.e, b.g, b.g2, b.cls
	msg := e.Error()
	markers := 0
	if c.Embed >= 0 {
		markers = 2
	}
	if n := len(msg); n > info.MaxLen {
		info.MaxLen = n
	}
	for p := 256; p <= 1<<17; p *= 2 {
		if d := len(msg) - p; d >= -1 && d <= 1 {
			info.Boundary = true
		}
	}
	where := func() string { return fmt.Sprintf("class %s, chain message (%d bytes) %q", c.Class, len(msg), clip(msg)) }

	if c.Embed >= 0 {
		if v := extractCheck("result of EmbedObject", b.eEmb, c.Obj, b.wantJSON); v != nil {
			return v
		}
		// generator sanity, after the library had its say: a marker count other than 2 here means the text
		// of the chain itself changed (that is what extractCheck reports) or the generator is wrong
		if strings.Count(msg, marker) != markers {
			if v := extractCheck("after fmt wrapping", e, c.Obj, b.wantJSON); v != nil {
				return v
			}
			panic("generator bug: marker count")
		}
		if v := extractCheck("after fmt wrapping", e, c.Obj, b.wantJSON); v != nil {
			return v
		}
	}
	if g == nil {
		return vstat.V("errors:grpcwrap-nil", "GRPCWrap returned nil for %s", where())
	}
	if !gerrors.Is(g, cls) {
		return vstat.V("errors:class-lost", "Is(GRPCWrap(e), %s) is false; GRPCWrap(e) = %q (code %v); %s", c.Class, clip(g.Error()), status.Code(g), where())
	}
	for _, o := range distinctClasses() {
		if o.Err == cls {
			continue
		}
		if gerrors.Is(g, o.Err) {
			return vstat.V("errors:other-class-matches", "Is(GRPCWrap(e), %s) is true for a chain around %s; GRPCWrap(e) = %q (code %v)", o.Name, c.Class, clip(g.Error()), status.Code(g))
		}
	}
	if g2 != g {
		return vstat.V("errors:grpcwrap-not-idempotent", "GRPCWrap(GRPCWrap(e)) is not the same error value: %q vs %q; %s", clip(fmt.Sprint(g2)), clip(g.Error()), where())
	}
	if c1, c2 := gerrors.GRPCStatusCode(g), gerrors.GRPCStatusCode(g2); c1 != c2 {
		return vstat.V("errors:grpcwrap-not-idempotent", "code changed from %v to %v by the second GRPCWrap; %s", c1, c2, where())
	}
	if c.Embed >= 0 {
		if v := extractCheck("after GRPCWrap", g, c.Obj, b.wantJSON); v != nil {
			return v
		}
		if v := extractCheck("after GRPCWrap twice", g2, c.Obj, b.wantJSON); v != nil {
			return v
		}
	}
	return nil
}

func runCode(c Case, info *Info) *vstat.Violation {
	if c.Code >= NumCodes {
		panic("not a gRPC status code")
	}
	if !utf8.ValidString(c.Msg) {
		panic("message must be valid UTF-8")
	}
	code := codes.Code(c.Code)
	info.Code = code.String()
	info.Hazards = hazards(c.Msg)
	e := status.Error(code, c.Msg)
	if code == codes.OK {
		info.OK = true // status.Error(OK, …) is nil; the statement says nothing about it
		return nil
	}
	var hits []string
	for _, k := range distinctClasses() {
		if gerrors.Is(e, k.Err) {
			hits = append(hits, k.Name)
		}
	}
	if len(hits) != 1 {
		return vstat.V("errors:code-maps-to-not-exactly-one-class", "status.Error(%v, %q) Is %d classes %v, want exactly one", code, c.Msg, len(hits), hits)
	}
	if gerrors.FromGRPCError(e) == nil {
		return vstat.V("errors:code-maps-to-nil", "FromGRPCError(status.Error(%v, %q)) is nil for a non-OK code", code, c.Msg)
	}
	return nil
}

// Hash identifies the case.
func (c Case) Hash() uint64 { return vstat.Hash(c) }

// NonTrivial is the rule of C19: a chain in which the class is reachable only through Unwrap (>= 1 wrap
// level) or that carries an embedded object; a batch with >= 2 embedded objects; a non-OK code.
func (i Info) NonTrivial() bool {
	switch {
	case i.Chain:
		return i.Depth >= 1 || i.Embed != ""
	case i.Batch > 0:
		return i.BatchEmb >= 2
	}
	return !i.OK
}

// Classes for the histogram.
func (i Info) Classes() []string {
	var c []string
	switch {
	case i.Chain:
		c = append(c, "chain", "class:"+i.Class, fmt.Sprintf("depth:%d", i.Depth))
		if i.Embed == "" {
			c = append(c, "embed:none")
		} else {
			c = append(c, "embed:"+i.Embed)
		}
	case i.Batch > 0:
		c = append(c, "batch", fmt.Sprintf("batch_size:%d", i.Batch))
		if i.BatchEmb >= 2 {
			c = append(c, "batch_with_ge_2_embedded_objects")
		}
		if i.Eager {
			c = append(c, "batch_grpcwrap_per_chain")
		} else {
			c = append(c, "batch_grpcwrap_after_all_built")
		}
	default:
		return append(append(c, "code", "code:"+i.Code), i.Hazards...)
	}
	if i.Repaired {
		c = append(c, "text_would_complete_marker_replaced")
	}
	if i.ObjMarker {
		c = append(c, "object_string_contains_marker")
	}
	switch n := i.MaxLen; {
	case n < 256:
		c = append(c, "msglen:<256")
	case n < 1024:
		c = append(c, "msglen:256..1023")
	case n < 4096:
		c = append(c, "msglen:1024..4095")
	case n < 16384:
		c = append(c, "msglen:4096..16383")
	case n < 65536:
		c = append(c, "msglen:16384..65535")
	default:
		c = append(c, "msglen:>=65536")
	}
	if i.Boundary {
		c = append(c, "msglen_within_1_of_power_of_two")
	}
	c = append(c, i.Pads...)
	return append(c, i.Hazards...)
}
