// Package p_errors decides C19: error classes survive wrapping and the gRPC boundary.
package p_errors

import (
	"bytes"
	"context"
	"encoding/json"
	stderrors "errors"
	"fmt"
	"io"
	"strings"
	"unicode/utf8"

	gerrors "github.com/acquirecloud/golibs/errors"
	"google.golang.org/grpc/codes"
	"google.golang.org/grpc/status"
	"google.golang.org/protobuf/proto"
	"verifharness/internal/vstat"
)

const marker = "\x1bjson" // errors.jsonErrorMarker

// RAW BYTES IN TEXTS. Error texts and the strings of an object are Go strings: any bytes, not necessarily UTF-8 (a
// file name, a key, a Latin-1 message of another system). A case must survive its JSON form (replay, hash), and
// encoding/json replaces invalid bytes by U+FFFD; so inside a Case every text is valid UTF-8 and a rune of the private
// range U+F780..U+F7FF stands for the single raw byte 0x80..0xFF (rune - 0xF700). Raw() gives the text that is handed
// to the library. A genuine U+FFFD in a text is written as itself.
const rawBase = 0xF700

// Esc is the inverse of Raw for a byte string: every byte >= 0x80 becomes its private-range rune.
func Esc(raw []byte) string {
	var sb strings.Builder
	for _, c := range raw {
		if c >= 0x80 {
			sb.WriteRune(rune(rawBase + int(c)))
		} else {
			sb.WriteByte(c)
		}
	}
	return sb.String()
}

func hasEsc(s string) bool { return strings.Contains(s, "\xef\x9e") || strings.Contains(s, "\xef\x9f") }

// Raw decodes the private-range runes of a case text into the raw bytes they stand for.
func Raw(s string) string {
	if !hasEsc(s) {
		return s
	}
	var sb strings.Builder
	for _, r := range s {
		if r >= rawBase+0x80 && r <= rawBase+0xFF {
			sb.WriteByte(byte(r - rawBase))
		} else {
			sb.WriteRune(r)
		}
	}
	return sb.String()
}

func rawObj(o *Obj) *Obj {
	if o == nil {
		return nil
	}
	n := &Obj{S: Raw(o.S), N: o.N, In: rawObj(o.In)}
	if o.L != nil {
		n.L = make([]string, len(o.L))
		for i, x := range o.L {
			n.L[i] = Raw(x)
		}
	}
	if o.M != nil {
		n.M = make(map[string]int, len(o.M))
		for k, v := range o.M {
			n.M[Raw(k)] = v
		}
	}
	if o.X != nil {
		n.X = make(map[string]string, len(o.X))
		for k, v := range o.X {
			n.X[Raw(k)] = Raw(v)
		}
	}
	return n
}

func objAny(o *Obj, f func(string) bool) bool {
	if o == nil {
		return false
	}
	if f(o.S) {
		return true
	}
	for _, x := range o.L {
		if f(x) {
			return true
		}
	}
	for k := range o.M {
		if f(k) {
			return true
		}
	}
	for k, v := range o.X {
		if f(k) || f(v) {
			return true
		}
	}
	return objAny(o.In, f)
}

// looksLikeUEscape: the text holds a backslash, u and four hex digits (what a \uXXXX escape looks like inside JSON text).
func looksLikeUEscape(s string) bool {
	for i := 0; i+6 <= len(s); i++ {
		if s[i] == '\\' && s[i+1] == 'u' && isHex4(s[i+2:i+6]) {
			return true
		}
	}
	return false
}

// looksLikeHTMLEscape: ... for one of the code points that json.Marshal writes as \u escapes: < > & U+2028 U+2029.
func looksLikeHTMLEscape(s string) bool {
	for i := 0; i+6 <= len(s); i++ {
		if s[i] == '\\' && s[i+1] == 'u' {
			switch strings.ToLower(s[i+2 : i+6]) {
			case "003c", "003e", "0026", "2028", "2029":
				return true
			}
		}
	}
	return false
}

func isHex4(s string) bool {
	for i := 0; i < 4; i++ {
		c := s[i]
		if !(c >= '0' && c <= '9' || c >= 'a' && c <= 'f' || c >= 'A' && c <= 'F') {
			return false
		}
	}
	return true
}

// keysOnly returns a copy of the object tree that keeps the map keys only (for classification).
func keysOnly(o *Obj) *Obj {
	if o == nil {
		return nil
	}
	k := &Obj{M: o.M, In: keysOnly(o.In)}
	if o.X != nil {
		k.X = map[string]string{}
		for key := range o.X {
			k.X[key] = ""
		}
	}
	return k
}

// rawChain returns the chain with every text decoded (the chain itself when no text holds an escaped byte).
func rawChain(ch Chain) Chain {
	dirty := ch.Obj != nil && objAny(ch.Obj, hasEsc)
	if ch.PB != nil {
		for _, x := range ch.PB.B {
			dirty = dirty || hasEsc(x)
		}
	}
	for _, w := range ch.Wraps {
		for _, t := range w.texts() {
			dirty = dirty || hasEsc(t)
		}
	}
	if !dirty {
		return ch
	}
	ws := make([]Wrap, len(ch.Wraps))
	for i, w := range ch.Wraps {
		w.Pre, w.Post, w.Mid = Raw(w.Pre), Raw(w.Post), Raw(w.Mid)
		if len(w.Sides) > 0 {
			sides := make([]Side, len(w.Sides))
			for j, sd := range w.Sides {
				sides[j] = Side{Kind: sd.Kind, Text: Raw(sd.Text)}
			}
			w.Sides = sides
		}
		ws[i] = w
	}
	ch.Wraps = ws
	ch.Obj = rawObj(ch.Obj)
	ch.PB = rawPB(ch.PB)
	return ch
}

// Class is a named general error class.
type Class struct {
	Name string
	Err  error
}

// AllClasses is the full list of classes of errors.go.
var AllClasses = []Class{
	{"ErrExist", gerrors.ErrExist},
	{"ErrNotExist", gerrors.ErrNotExist},
	{"ErrClosed", gerrors.ErrClosed},
	{"ErrInvalid", gerrors.ErrInvalid},
	{"ErrNotAuthorized", gerrors.ErrNotAuthorized},
	{"ErrDataLoss", gerrors.ErrDataLoss},
	{"ErrCommunication", gerrors.ErrCommunication},
	{"ErrInternal", gerrors.ErrInternal},
	{"ErrConflict", gerrors.ErrConflict},
	{"ErrExhausted", gerrors.ErrExhausted},
	{"ErrUnimplemented", gerrors.ErrUnimplemented},
	{"ErrCanceled", gerrors.ErrCanceled},
}

// CodedClasses are the classes that have a gRPC code (the keys of errorsToCode named in the C19 text).
var CodedClasses = []string{"ErrExist", "ErrNotExist", "ErrInvalid", "ErrNotAuthorized", "ErrInternal",
	"ErrDataLoss", "ErrExhausted", "ErrUnimplemented", "ErrConflict", "ErrCanceled"}

// NumCodes is the number of gRPC status codes (OK..Unauthenticated).
const NumCodes = 17

func classByName(n string) error {
	for _, c := range AllClasses {
		if c.Name == n {
			return c.Err
		}
	}
	panic("unknown class " + n)
}

// distinct holds the classes with distinct error values (identity), first name wins.
var distinct = func() []Class {
	out := []Class{}
	for _, c := range AllClasses {
		dup := false
		for _, d := range out {
			if d.Err == c.Err {
				dup = true
			}
		}
		if !dup {
			out = append(out, c)
		}
	}
	return out
}()

func distinctClasses() []Class { return distinct }

// Wrap is one level of wrapping around the error built so far (the "main" error, the one that holds the class).
//
//	Kind ""     fmt.Errorf("%s%w%s", Pre, err, Post) - the texts are taken verbatim. With Sides it is a fmt.Errorf with
//	            several %w verbs: the operands are the side errors with the main error put in at index Pos, the
//	            format is Pre %w Mid %w Mid ... %w Post.
//	Kind "join" errors.Join over the same operand list (texts unused); with no Sides a Join of one error.
//	Kind "grpc" errors.GRPCWrap(err): a lower layer of the program has already converted its error for the wire
//	            (or the error arrived from a downstream gRPC call) and wrapping goes on above it.
type Wrap struct {
	Pre   string `json:"pre"`
	Post  string `json:"post"`
	Kind  string `json:"kind,omitempty"`
	Sides []Side `json:"sides,omitempty"`
	Pos   int    `json:"pos,omitempty"`
	Mid   string `json:"mid,omitempty"`
	// Rep > 0: the level is applied Rep more times (Rep+1 in all), each application wrapping the result of the one
	// before - the compact form of a run of identical levels, so that chains of thousands of links stay small cases.
	Rep int `json:"rep,omitempty"`
}

// MaxRep bounds Rep (a chain of MaxRep+1 links per level entry).
const MaxRep = 20000

// Level kinds.
const (
	LFmt  = ""
	LJoin = "join"
	LGRPC = "grpc"
)

// Side is an error of a side branch. It is never one of the library's classes and matches none of them with
// errors.Is (a chain holds exactly one class): context.Canceled ("canceled"), context.DeadlineExceeded
// ("deadline"), io.EOF ("eof") or errors.New(Text) ("new"). For the first three a non-empty Text wraps the
// error once more: fmt.Errorf("%s%w", Text, base).
type Side struct {
	Kind string `json:"kind"`
	Text string `json:"text,omitempty"`
}

// SideKinds lists the side error kinds.
var SideKinds = []string{"canceled", "deadline", "eof", "new"}

func sideError(sd Side) error {
	var base error
	switch sd.Kind {
	case "canceled":
		base = context.Canceled
	case "deadline":
		base = context.DeadlineExceeded
	case "eof":
		base = io.EOF
	case "new":
		return stderrors.New(sd.Text)
	default:
		panic("bad side kind " + sd.Kind)
	}
	if sd.Text != "" {
		return fmt.Errorf("%s%w", sd.Text, base)
	}
	return base
}

// operands returns the side errors with the main error at index Pos (clamped).
func operands(w Wrap, e error) []error {
	pos := w.Pos
	if pos < 0 {
		pos = 0
	}
	if pos > len(w.Sides) {
		pos = len(w.Sides)
	}
	ops := make([]error, 0, len(w.Sides)+1)
	for i, sd := range w.Sides {
		if i == pos {
			ops = append(ops, e)
		}
		ops = append(ops, sideError(sd))
	}
	if pos == len(w.Sides) {
		ops = append(ops, e)
	}
	return ops
}

// applyLevel wraps e by one level.
func applyLevel(w Wrap, e error) error {
	switch w.Kind {
	case LFmt:
		if len(w.Sides) == 0 {
			return fmt.Errorf("%s%w%s", w.Pre, e, w.Post)
		}
		ops := operands(w, e)
		format := "%s%w" + strings.Repeat("%s%w", len(ops)-1) + "%s"
		args := make([]any, 0, 2*len(ops)+1)
		args = append(args, w.Pre)
		for i, op := range ops {
			if i > 0 {
				args = append(args, w.Mid)
			}
			args = append(args, op)
		}
		args = append(args, w.Post)
		return fmt.Errorf(format, args...)
	case LJoin:
		return stderrors.Join(operands(w, e)...)
	case LGRPC:
		return gerrors.GRPCWrap(e)
	}
	panic("bad level kind " + w.Kind)
}

// neutral is the level with texts that cannot complete a marker.
func neutral(w Wrap) Wrap {
	n := Wrap{Pre: "[", Post: "]", Mid: " | ", Kind: w.Kind, Pos: w.Pos}
	for _, sd := range w.Sides {
		t := ""
		if sd.Kind == "new" {
			t = "side"
		}
		n.Sides = append(n.Sides, Side{Kind: sd.Kind, Text: t})
	}
	return n
}

func (w Wrap) texts() []string {
	t := []string{w.Pre, w.Post, w.Mid}
	for _, sd := range w.Sides {
		t = append(t, sd.Text)
	}
	return t
}

// Obj is the embedded object.
type Obj struct {
	S  string            `json:"s"`
	N  int64             `json:"n"`
	L  []string          `json:"l,omitempty"`
	M  map[string]int    `json:"m,omitempty"`
	In *Obj              `json:"in,omitempty"`
	X  map[string]string `json:"x,omitempty"`
}

// Chain is one wrapping chain (a tree, when levels have side branches) around one class: Class is wrapped by Wraps[0], Wraps[1], ... ; if Embed >= 0,
// errors.EmbedObject(Obj, e) is applied after the first Embed wraps (0 = directly on the class value,
// len(Wraps) = outermost). Target > 0 asks for a finished chain whose err.Error() is Target bytes long: the
// missing bytes are ASCII padding put where Pad says - "pre:k"/"post:k" (text of wrap level k mod depth),
// "obj.s" (the object's string), "obj.l" (many array elements), "obj.x" (many fields); the last two are
// topped up through the string. A chain that is already longer, or has no place for the padding, stays as it is.
type Chain struct {
	Class  string `json:"class,omitempty"`
	Wraps  []Wrap `json:"wraps,omitempty"`
	Embed  int    `json:"embed"`
	Obj    *Obj   `json:"obj,omitempty"`
	Target int    `json:"target,omitempty"`
	Pad    string `json:"pad,omitempty"`
	// ObjTarget > 0 (needs an object and an "obj.*" Pad place; takes precedence over Target): the object is padded
	// until its JSON text - what EmbedObject puts between the markers - is exactly ObjTarget bytes long.
	ObjTarget int `json:"obj_target,omitempty"`
	// Into (one of IntoKinds, needs an object): at every stage the object is first extracted into a target of this
	// kind, compared, and then OVERWRITTEN in place by the caller - what ExtractObject filled in belongs to the caller -
	// before the other checks of the stage and all later stages run. "" = only the plain extraction into a fresh *Obj.
	Into string `json:"into,omitempty"`
	// PB (instead of Obj): the embedded object is a generated protobuf message, see pb.go. The plain extraction of every
	// stage then goes into a fresh message of the same type. Padding places "obj.*" do not apply to it.
	PB *PB `json:"pb,omitempty"`
	// Lit (instead of Obj / PB): the embedded object is a Go value whose JSON text is a bare literal or an edge token
	// (null through a typed nil pointer / nil slice / nil map / ..., true, 0, "", [], {}, [null], a huge number ...), see
	// lit.go. The plain extraction of every stage goes into a zero target of the value's own type; Into is one of
	// LitIntoKinds. Padding places "obj.*" do not apply to it.
	Lit *Lit `json:"lit,omitempty"`
}

// IntoKinds are the kinds of extraction targets:
//
//	obj     *Obj, a fresh one per stage
//	any     *any (interface{}), fresh per stage
//	map     *map[string]any, fresh per stage
//	raw     *json.RawMessage, ONE variable re-used for all stages of the chain, nil at first
//	rawcap  the same, starting with other content and spare capacity (a re-used buffer)
//	blob    a named []byte type whose UnmarshalJSON keeps a copy of the JSON text (as json.Unmarshaler asks), re-used
var IntoKinds = []string{"obj", "any", "map", "raw", "rawcap", "blob"}

// PBIntoKinds are the kinds of extraction targets of a chain whose object is a generated message: "pb" = a message of
// the same type, fresh per stage, overwritten in place through protoreflect afterwards; the others as above.
var PBIntoKinds = []string{"pb", "any", "map", "raw", "rawcap", "blob"}

// blob keeps the JSON text it is asked to decode; it copies it, as the documentation of json.Unmarshaler demands.
type blob []byte

func (b *blob) UnmarshalJSON(d []byte) error { *b = append((*b)[:0], d...); return nil }

// sink is the caller's extraction target of a chain.
type sink struct {
	kind string
	raw  json.RawMessage
	bl   blob
	pb   *PB // kind "pb": the description of the embedded message
	// lit: the embedded object is a literal object (lit.go): a target kind that cannot take its JSON text at all (an
	// interface{} and a number beyond float64) is skipped
	lit *Lit
	// notes: what encoding/json said about the object and a foreign target (foreign.go), for the classifier
	notes map[string]bool
}

func newSink(kind string) *sink {
	s := &sink{kind: kind}
	switch kind {
	case "obj", "any", "map", "raw", "blob", "pb", "filled", "anyfilled":
	case "rawcap":
		s.raw = append(make(json.RawMessage, 0, 4096), `{"stale":"left over from an earlier use"}`...)
	default:
		if !isForeign(kind) {
			panic("bad extraction target kind " + kind)
		}
	}
	return s
}

// viaAny is the JSON text re-rendered through interface{} values by encoding/json itself (key order and number
// rendering of that path); ok=false if the text is not JSON.
func viaAny(text []byte) ([]byte, bool) {
	var v any
	if json.Unmarshal(text, &v) != nil {
		return nil, false
	}
	out, err := json.Marshal(v)
	return out, err == nil
}

func scribbleObj(o *Obj) {
	for depth := 0; o != nil && depth < 8; depth++ {
		o.S, o.N = "overwritten by the caller", -42
		for i := range o.L {
			o.L[i] = "overwritten"
		}
		for k := range o.M {
			o.M[k] = -42
		}
		for k := range o.X {
			o.X[k] = "overwritten"
		}
		o = o.In
	}
}

func scribbleAny(v any, depth int) {
	if depth > 8 {
		return
	}
	switch x := v.(type) {
	case map[string]any:
		for k, e := range x {
			scribbleAny(e, depth+1)
			x[k] = "overwritten"
		}
		x["added by the caller"] = true
	case []any:
		for i, e := range x {
			scribbleAny(e, depth+1)
			x[i] = "overwritten"
		}
	}
}

// check extracts the object of e into the target, compares it with the embedded one - decoded by encoding/json into a
// target of the same kind - and then overwrites the extracted value in place.
func (s *sink) check(stage string, e error, want any, wantJSON []byte) *vstat.Violation {
	var ok bool
	var got, ref []byte
	refOK := true
	var scribble func()
	if isForeign(s.kind) {
		// a target whose type is not the object's: verdict and content are those of json.Unmarshal (foreign.go)
		return extractForeign(stage, e, s.kind, wantJSON, func(n string) {
			if s.notes == nil {
				s.notes = map[string]bool{}
			}
			s.notes[n] = true
		})
	}
	if s.lit != nil {
		if _, viaOK := viaAny(wantJSON); !viaOK {
			// a number beyond float64: encoding/json cannot decode the text through interface{} (the comparison path of the
			// kinds below); a *any cannot take it at all, a RawMessage / Unmarshaler gets the text itself
			switch s.kind {
			case "raw", "rawcap":
				if !gerrors.ExtractObject(e, &s.raw) || !bytes.Equal(s.raw, wantJSON) {
					return vstat.V("errors:extract-different-object", "%s: ExtractObject into a *json.RawMessage (%s) did not return the embedded text %s but %q (message %q)", stage, s.kind, clip(string(wantJSON)), clip(string(s.raw)), clip(e.Error()))
				}
				return nil
			case "blob":
				if !gerrors.ExtractObject(e, &s.bl) || !bytes.Equal(s.bl, wantJSON) {
					return vstat.V("errors:extract-different-object", "%s: ExtractObject did not hand a json.Unmarshaler the embedded text %s but %q (message %q)", stage, clip(string(wantJSON)), clip(string(s.bl)), clip(e.Error()))
				}
				return nil
			case "any":
				return nil
			}
		}
	}
	switch s.kind {
	case "filled":
		return extractLit(stage, e, s.lit, true, wantJSON)
	case "anyfilled":
		return extractLitAny(stage, e, s.lit, wantJSON)
	case "pb":
		got, v := extractPB(stage, "the caller's own", e, s.pb, want.(proto.Message), wantJSON)
		if v == nil {
			scribbleMsg(got.ProtoReflect(), 0)
		}
		return v
	case "obj":
		var o Obj
		ok = gerrors.ExtractObject(e, &o)
		got, _ = json.Marshal(&o)
		ref = wantJSON
		scribble = func() { scribbleObj(&o) }
	case "any":
		var a any
		ok = gerrors.ExtractObject(e, &a)
		got, _ = json.Marshal(a)
		ref, refOK = viaAny(wantJSON)
		scribble = func() { scribbleAny(a, 0) }
	case "map":
		var m map[string]any
		ok = gerrors.ExtractObject(e, &m)
		got, _ = json.Marshal(m)
		ref, refOK = viaAny(wantJSON)
		scribble = func() { scribbleAny(m, 0) }
	case "raw", "rawcap":
		ok = gerrors.ExtractObject(e, &s.raw)
		if ok {
			if got, ok = viaAny(s.raw); !ok {
				return vstat.V("errors:extract-different-object", "%s: ExtractObject into a *json.RawMessage (%s) returned true with text %q, which is not JSON (embedded %s)", stage, s.kind, clip(string(s.raw)), clip(js(want)))
			}
		}
		ref, refOK = viaAny(wantJSON)
		scribble = func() {
			for i := range s.raw {
				s.raw[i] = '#'
			}
		}
	case "blob":
		ok = gerrors.ExtractObject(e, &s.bl)
		if ok {
			if got, ok = viaAny(s.bl); !ok {
				return vstat.V("errors:extract-different-object", "%s: ExtractObject handed a json.Unmarshaler the text %q, which is not JSON (embedded %s)", stage, clip(string(s.bl)), clip(js(want)))
			}
		}
		ref, refOK = viaAny(wantJSON)
		scribble = func() {
			for i := range s.bl {
				s.bl[i] = '#'
			}
		}
	}
	if !refOK {
		panic("generator bug: the JSON form of the object is not JSON")
	}
	if !ok {
		return vstat.V("errors:extract-failed", "%s: ExtractObject into a target of kind %s returned false for (%d bytes) %q (embedded %s)", stage, s.kind, len(e.Error()), clip(e.Error()), clip(js(want)))
	}
	if !bytes.Equal(got, ref) {
		return vstat.V("errors:extract-different-object", "%s: ExtractObject into a target of kind %s returned %s, encoding/json decodes the embedded object %s into such a target as %s (message %q)", stage, s.kind, clip(string(got)), clip(js(want)), clip(string(ref)), clip(e.Error()))
	}
	scribble()
	return nil
}

// Case is a wrapping chain (Kind "chain", the inline Chain fields), a batch of chains (Kind "batch": all
// chains are built - and wrapped by GRPCWrap - before the first result is looked at; Eager = GRPCWrap is
// applied to each chain right after it is built, otherwise after all chains are built) or a gRPC code with
// a message (Kind "code").
type Case struct {
	Kind string `json:"kind"`
	Chain
	Batch []Chain `json:"batch,omitempty"`
	Eager bool    `json:"eager,omitempty"`
	Code  uint32  `json:"code"`
	Msg   string  `json:"msg,omitempty"`
	// Kind "hammer" (conc.go): the chains of Batch are worked on by G goroutines at the same time, Rounds visits each.
	G      int `json:"g,omitempty"`
	Rounds int `json:"rounds,omitempty"`
}

// Info is what the classifier needs.
type Info struct {
	Chain     bool
	Batch     int // number of chains of a batch case
	BatchEmb  int // ... with an embedded object
	Eager     bool
	Class     string
	Depth     int
	Embed     string // "", "inner", "middle", "outer", "only"
	Code      string
	OK        bool
	Hazards   []string
	Repaired  bool // a wrap text would have completed a marker across a concatenation boundary and was replaced
	ObjMarker bool // the object's strings contain the complete marker (escaped by JSON)
	MaxLen    int  // longest err.Error() of a finished chain
	MultiW    bool // a fmt.Errorf level with >= 2 %w verbs
	Join      bool // an errors.Join level
	SideKinds map[string]bool
	SideFirst bool // a side branch precedes the branch with the class
	SideDeep  bool // a side error is wrapped itself
	Layered   bool // GRPCWrap at an inner level, wrapping continues above it
	LayerEmb  bool // ... and the object is embedded above that inner GRPCWrap
	LayerSide bool // ... and a side branch is added above it
	GRPCLevel bool // some level is a GRPCWrap
	Twins     bool // two chains of a batch around different classes render byte-identical messages
	Boundary  bool // some finished chain is within 1 byte of a power of two >= 256
	Pads      []string
	Links     int  // most Unwrap links between the error handed to GRPCWrap and the class (applications of levels above the innermost GRPCWrap level do not count what is below it)
	LinksEdge bool // ... within 1 of a power of two >= 32 or of a power of ten >= 100
	DeepFork  bool // a chain of >= 100 links with a several-%w / Join node at least 10 links away from both ends
	ObjLen    int  // longest JSON text of an embedded object
	ObjEdge   bool // ... ending within 8 bytes below .. 2 bytes above a multiple of 512
	Into      map[string]bool // kinds of extraction targets that were filled and then overwritten by the caller
	Foreign   map[string]bool // foreign extraction targets (foreign.go): "foreign_target_decodes:<kind>" / "foreign_target_cannot_take_the_object:<kind>"
	PBKind    string          // the embedded object is a generated protobuf message of this kind
	PBWKT     bool            // ... that is a well-known type or holds one in a populated field
	PBFlat    bool            // ... that is not and holds none
	TextRaw   bool            // a wrap text holds bytes that are not valid UTF-8
	TextFFFD  bool            // a wrap text holds a genuine U+FFFD
	ObjRaw    bool            // a string of an embedded object holds bytes that are not valid UTF-8 (its JSON text has U+FFFD there)
	ObjFFFD   bool            // a string of an embedded object holds a genuine U+FFFD
	RawAndObj bool            // one chain has an invalid byte in a wrap text and U+FFFD (genuine or from an invalid byte) in its object's JSON text
	// strings / keys of an embedded object that look like JSON text
	ObjBackslash  bool // ... hold a backslash
	ObjEscLook    bool // ... hold the text backslash-u-four-hex-digits
	ObjEscLookKey bool // ... in a map key
	ObjEscHTML    bool // ... for one of the code points json.Marshal itself writes as \u escapes (< > & U+2028 U+2029)
	ObjHTMLChar   bool // ... hold one of the characters < > & U+2028 U+2029 themselves
	ObjQuote      bool // ... hold a double quote
	Lit           []string // classes of embedded literal objects (lit.go)
	// hammer cases (conc.go)
	Hammer        bool
	HammerG       int   // goroutines that ran
	HammerClasses int   // distinct classes among the chains whose class is reachable through Unwrap only
	HammerVisits  int64 // visits of a chain made by all goroutines together
	HammerObj     bool  // a chain carries an object (extracted concurrently)
	HammerFresh   bool  // a chain is re-assembled by the goroutines themselves inside the loop
}

// Run executes the case.
func Run(c Case) (info Info, v *vstat.Violation) {
	return info, vstat.Guard("errors:panic", func() *vstat.Violation {
		switch c.Kind {
		case "chain":
			info.Chain = true
			return runChains([]Chain{c.Chain}, true, &info)
		case "batch":
			info.Batch = len(c.Batch)
			info.Eager = c.Eager
			return runChains(c.Batch, c.Eager, &info)
		case "code":
			return runCode(c, &info)
		case "hammer":
			info.Batch = len(c.Batch)
			info.Eager = true
			return runHammer(c, &info)
		}
		panic("bad kind " + c.Kind)
	})
}

func hazards(texts ...string) []string {
	all := strings.Join(texts, "\x00")
	var h []string
	add := func(b bool, s string) {
		if b {
			h = append(h, s)
		}
	}
	add(strings.Contains(all, "\x1b"), "text_has_esc")
	add(strings.Contains(all, "json"), "text_has_json_word")
	add(strings.Contains(all, "\x1bjso"), "text_has_marker_prefix")
	add(strings.Contains(all, ":"), "text_has_colon")
	add(strings.Contains(all, "%"), "text_has_percent")
	add(strings.ContainsAny(all, "{}[]\""), "text_has_json_fragment")
	add(strings.Contains(all, "rpc error"), "text_has_rpc_error_phrase")
	nonASCII := false
	for _, r := range all {
		if r >= 0x80 {
			nonASCII = true
		}
	}
	add(nonASCII, "text_has_unicode")
	return h
}

func objEqual(a *Obj, wantJSON []byte) bool {
	ja, e1 := json.Marshal(a)
	return e1 == nil && bytes.Equal(ja, wantJSON)
}

func objHasMarker(o *Obj) bool {
	if o == nil {
		return false
	}
	if strings.Contains(o.S, marker) {
		return true
	}
	for _, s := range o.L {
		if strings.Contains(s, marker) {
			return true
		}
	}
	for k, s := range o.X {
		if strings.Contains(s, marker) || strings.Contains(k, marker) {
			return true
		}
	}
	for k := range o.M {
		if strings.Contains(k, marker) {
			return true
		}
	}
	return objHasMarker(o.In)
}

func extractCheck(stage string, e error, want *Obj, wantJSON []byte) *vstat.Violation {
	var got Obj
	if !gerrors.ExtractObject(e, &got) {
		return vstat.V("errors:extract-failed", "%s: ExtractObject returned false for (%d bytes) %q (embedded %s)", stage, len(e.Error()), clip(e.Error()), clip(js(want)))
	}
	if !objEqual(&got, wantJSON) {
		return vstat.V("errors:extract-different-object", "%s: ExtractObject returned %s, embedded was %s (message %q)", stage, clip(js(&got)), clip(js(want)), clip(e.Error()))
	}
	return nil
}

func js(o any) string {
	b, _ := json.Marshal(o)
	return string(b)
}

const padPattern = "abcdefghi " // no letter of the marker, no ESC

func padText(n int) string {
	if n <= 0 {
		return ""
	}
	return strings.Repeat(padPattern, n/len(padPattern)+1)[:n]
}

// Twins returns two chains that render the same message byte for byte but hold different classes: the chain
// itself with the text of class `other` added behind the class (", other-text" in front of the Post text of
// level 0) and a chain around `other` in which the text of the chain's own class is part of the Pre text of level
// 0. Only the %w structure tells them apart. ok=false if level 0 is not a plain fmt level directly on the class.
func Twins(ch Chain, other string) (x, y Chain, ok bool) {
	if len(ch.Wraps) == 0 || ch.Wraps[0].Kind != LFmt || len(ch.Wraps[0].Sides) > 0 || ch.Embed == 0 || other == ch.Class {
		return ch, ch, false
	}
	const mid = ", "
	w := ch.Wraps[0]
	x, y = ch, ch
	x.Wraps = append([]Wrap{{Pre: w.Pre, Post: mid + classByName(other).Error() + w.Post}}, ch.Wraps[1:]...)
	y.Wraps = append([]Wrap{{Pre: w.Pre + classByName(ch.Class).Error() + mid, Post: w.Post}}, ch.Wraps[1:]...)
	y.Class = other
	return x, y, true
}

// built is a finished chain with everything the checks need.
type built struct {
	ch       Chain // after padding
	cls      error
	wantJSON []byte
	eEmb     error // result of EmbedObject
	e        error // finished chain
	g, g2    error // GRPCWrap(e), GRPCWrap(GRPCWrap(e))
	repaired bool
	lossy    bool  // a string of the object is not valid UTF-8: its JSON text holds U+FFFD in place of the invalid bytes
	sink     *sink // the caller's extraction target (Into), nil: none
	msg      proto.Message // PB chains: a message built from the same description as the embedded one, never given to the library
}

// object returns the value that is handed to EmbedObject: the *Obj, or a newly built message (by pointer, as users do).
func (ch Chain) object() any {
	if ch.PB != nil {
		return ch.PB.build()
	}
	if ch.Lit != nil {
		return ch.Lit.build()
	}
	return ch.Obj
}

func validate(ch Chain) {
	coded := false
	for _, n := range CodedClasses {
		coded = coded || n == ch.Class
	}
	if !coded {
		panic("class without a gRPC code in a chain: " + ch.Class)
	}
	if ch.Embed > len(ch.Wraps) {
		panic("embed level beyond the chain")
	}
	forms := 0
	for _, has := range []bool{ch.Obj != nil, ch.PB != nil, ch.Lit != nil} {
		if has {
			forms++
		}
	}
	if ch.Embed >= 0 && forms != 1 {
		panic("embed needs exactly one of an object, a proto message and a literal object")
	}
	if ch.PB != nil {
		validatePB(ch.PB)
	}
	if ch.Lit != nil {
		validateLit(ch.Lit)
	}
	if ch.Into == "obj" && ch.PB != nil || ch.Into == "pb" && ch.PB == nil {
		panic("extraction target kind does not fit the object")
	}
	if ch.Into != "" {
		fits := false
		for _, k := range LitIntoKinds {
			fits = fits || k == ch.Into
		}
		fits = fits || isForeign(ch.Into)
		if ch.Lit != nil && !fits || ch.Lit == nil && (ch.Into == "filled" || ch.Into == "anyfilled") {
			panic("extraction target kind does not fit the object")
		}
	}
	if ch.Into != "" && ch.Embed < 0 {
		panic("extraction target without an object")
	}
	for _, w := range ch.Wraps {
		for _, t := range w.texts() {
			if strings.Contains(t, marker) {
				panic("wrap texts must not hold the complete marker")
			}
		}
		if w.Kind != LFmt && w.Kind != LJoin && w.Kind != LGRPC {
			panic("bad level kind " + w.Kind)
		}
		if w.Kind == LGRPC && len(w.Sides) > 0 {
			panic("a grpc level has no side branches")
		}
		if w.Rep < 0 || w.Rep > MaxRep {
			panic("bad repeat count of a level")
		}
	}
}

// assemble builds the chain through the library; the message holds 0 markers before the embedding and exactly 2 after it.
func assemble(ch Chain) (e, eEmb error, repaired bool) {
	e = classByName(ch.Class)
	markers := 0
	for k := 0; k <= len(ch.Wraps); k++ {
		if ch.Embed == k {
			e = gerrors.EmbedObject(ch.object(), e)
			eEmb = e
			markers = 2
		}
		if k == len(ch.Wraps) {
			break
		}
		w := ch.Wraps[k]
		for r := 0; r <= w.Rep; r++ {
			next := applyLevel(w, e)
			if strings.Count(next.Error(), marker) != markers {
				// the texts complete a marker across a concatenation boundary: outside EmbedObject's /
				// ExtractObject's documented format, use neutral texts for this level instead
				next = applyLevel(neutral(w), e)
				repaired = true
			}
			e = next
		}
	}
	return e, eEmb, repaired
}

// padded returns the chain with the padding asked for by Target/Pad applied (a copy; the case is not modified).
func padded(ch Chain) Chain {
	target := ch.Target
	if (ch.PB != nil || ch.Lit != nil) && (ch.ObjTarget > 0 || strings.HasPrefix(ch.Pad, "obj.")) {
		return ch // a generated message / a literal object has no padding place
	}
	if ch.ObjTarget > 0 {
		if ch.Embed < 0 || !strings.HasPrefix(ch.Pad, "obj.") {
			return ch
		}
		target = ch.ObjTarget
	}
	if target <= 0 {
		return ch
	}
	measure := func(x Chain) int {
		if ch.ObjTarget > 0 {
			return len(js(x.Obj))
		}
		e, _, _ := assemble(x)
		return len(e.Error())
	}
	need := target - measure(ch)
	if need <= 0 {
		return ch
	}
	place, arg := ch.Pad, 0
	if k := strings.IndexByte(place, ':'); k >= 0 {
		fmt.Sscanf(place[k+1:], "%d", &arg)
		place = place[:k]
	}
	switch place {
	case "pre", "post":
		if len(ch.Wraps) == 0 {
			return ch
		}
		ws := append([]Wrap(nil), ch.Wraps...)
		k := arg % len(ws)
		if place == "pre" {
			ws[k].Pre = padText(need) + ws[k].Pre
		} else {
			ws[k].Post = ws[k].Post + padText(need)
		}
		ch.Wraps = ws
	case "obj.s", "obj.l", "obj.x":
		if ch.Embed < 0 {
			return ch
		}
		o := *ch.Obj
		switch place {
		case "obj.l":
			o.L = append([]string(nil), o.L...)
			for n := need / 16; n > 0; n-- { // "abcdefghi abc", costs 16 bytes
				o.L = append(o.L, padText(13))
			}
		case "obj.x":
			x := map[string]string{}
			for k, v := range o.X {
				x[k] = v
			}
			for n := need / 16; n > 0; n-- { // "k0000001":"v", costs 15..16 bytes
				x[fmt.Sprintf("k%07d", n)] = "v"
			}
			o.X = x
		}
		ch.Obj = &o
		if place != "obj.s" {
			need = target - measure(ch)
		}
		if need > 0 {
			o.S += padText(need)
		}
	default:
		panic("bad pad place " + ch.Pad)
	}
	return ch
}

// want is the embedded value for comparisons and messages.
func (b *built) want() any {
	if b.msg != nil {
		return b.msg
	}
	if b.ch.Lit != nil {
		return b.ch.Lit.build()
	}
	return b.ch.Obj
}

func embedName(ch Chain) string {
	switch {
	case ch.Embed < 0:
		return ""
	case len(ch.Wraps) == 0:
		return "only"
	case ch.Embed == 0:
		return "inner"
	case ch.Embed == len(ch.Wraps):
		return "outer"
	}
	return "middle"
}

// runChains builds all chains first (and applies GRPCWrap - per chain when eager, else after all are built) and
// only then looks at the results: an error value must not depend on errors created after it.
func runChains(chs []Chain, eager bool, info *Info) *vstat.Violation {
	bs := make([]*built, len(chs))
	var texts []string
	notValid := func(s string) bool { return !utf8.ValidString(s) }
	hasFFFD := func(s string) bool { return strings.Contains(s, "\uFFFD") }
	for n, ch := range chs {
		for _, w := range ch.Wraps {
			for _, t := range w.texts() {
				if !utf8.ValidString(t) {
					panic("the texts of a case are valid UTF-8 (raw bytes are written as U+F780..U+F7FF)")
				}
			}
		}
		ch = rawChain(ch) // from here on the texts are what the library gets: raw bytes
		validate(ch)
		textRaw := false
		for _, w := range ch.Wraps {
			for _, t := range w.texts() {
				textRaw = textRaw || notValid(t)
				info.TextFFFD = info.TextFFFD || hasFFFD(t)
			}
		}
		info.TextRaw = info.TextRaw || textRaw
		for k, w := range ch.Wraps {
			texts = append(texts, w.texts()...)
			noteLevel(info, ch, k, w)
		}
		b := &built{ch: padded(ch), cls: classByName(ch.Class)}
		bs[n] = b
		if ch.Embed >= 0 {
			b.lossy = objAny(ch.Obj, notValid)
			fffd := objAny(ch.Obj, hasFFFD)
			info.ObjRaw, info.ObjFFFD = info.ObjRaw || b.lossy, info.ObjFFFD || fffd
			info.RawAndObj = info.RawAndObj || textRaw && (b.lossy || fffd)
			info.ObjBackslash = info.ObjBackslash || objAny(ch.Obj, func(s string) bool { return strings.Contains(s, `\`) })
			info.ObjEscLook = info.ObjEscLook || objAny(ch.Obj, looksLikeUEscape)
			info.ObjEscLookKey = info.ObjEscLookKey || objAny(keysOnly(ch.Obj), looksLikeUEscape)
			info.ObjEscHTML = info.ObjEscHTML || objAny(ch.Obj, looksLikeHTMLEscape)
			info.ObjHTMLChar = info.ObjHTMLChar || objAny(ch.Obj, func(s string) bool { return strings.ContainsAny(s, "<>&\u2028\u2029") })
			info.ObjQuote = info.ObjQuote || objAny(ch.Obj, func(s string) bool { return strings.Contains(s, `"`) })
			if ch.PB != nil {
				b.msg = ch.PB.build()
				info.PBKind = ch.PB.Kind
				if wellKnown(b.msg.ProtoReflect(), 0) {
					info.PBWKT = true
				} else {
					info.PBFlat = true
				}
				info.ObjMarker = info.ObjMarker || pbAny(ch.PB, func(s string) bool { return strings.Contains(s, marker) })
				info.ObjBackslash = info.ObjBackslash || pbAny(ch.PB, func(s string) bool { return strings.Contains(s, `\`) })
				info.ObjHTMLChar = info.ObjHTMLChar || pbAny(ch.PB, func(s string) bool { return strings.ContainsAny(s, "<>&\u2028\u2029") })
				info.ObjQuote = info.ObjQuote || pbAny(ch.PB, func(s string) bool { return strings.Contains(s, `"`) })
			}
			if ch.Into != "" {
				b.sink = newSink(ch.Into)
				b.sink.pb, b.sink.lit = ch.PB, ch.Lit
				if info.Into == nil {
					info.Into = map[string]bool{}
				}
				if ch.Lit != nil {
					info.Into["lit:"+ch.Into] = true
				} else {
					info.Into[ch.Into] = true
				}
			}
		}
		if ch.Target > 0 || (ch.ObjTarget > 0 && b.ch.Embed >= 0) {
			info.Pads = append(info.Pads, "pad:"+strings.SplitN(ch.Pad, ":", 2)[0])
		}
		noteLinks(info, ch)
		if b.ch.Embed >= 0 {
			info.BatchEmb++
			var err error
			if b.wantJSON, err = json.Marshal(b.ch.object()); err != nil {
				panic("object is not marshalable: " + err.Error())
			}
			info.ObjMarker = info.ObjMarker || objHasMarker(b.ch.Obj)
			if b.ch.Lit != nil {
				info.Lit = append(info.Lit, litClasses(b.ch.Lit, b.wantJSON)...)
			}
			if n := len(b.wantJSON); n > info.ObjLen {
				info.ObjLen = n
			}
			if n := len(b.wantJSON); n >= 504 && ((n+8)%512 <= 10) {
				info.ObjEdge = true
			}
		}
	}
	info.Hazards = hazards(texts...)
	info.Class, info.Depth, info.Embed = chs[0].Class, len(chs[0].Wraps), embedName(chs[0])

	wrap := func(b *built) {
		b.g = gerrors.GRPCWrap(b.e)
		b.g2 = gerrors.GRPCWrap(b.g)
	}
	for _, b := range bs {
		b.e, b.eEmb, b.repaired = assemble(b.ch)
		info.Repaired = info.Repaired || b.repaired
		if eager {
			wrap(b)
		}
	}
	if !eager {
		for _, b := range bs {
			wrap(b)
		}
	}
	for n, b := range bs {
		for _, o := range bs[:n] {
			if o.cls != b.cls && o.e.Error() == b.e.Error() {
				info.Twins = true
			}
		}
	}
	for n, b := range bs {
		if v := checkChain(b, info); v != nil {
			if len(bs) > 1 {
				v.Msg = fmt.Sprintf("chain %d of %d (all built before the first check): %s", n, len(bs), v.Msg)
			}
			return v
		}
	}
	return nil
}

// noteLinks records how many Unwrap links lie between the finished chain and its class. A GRPCWrap level turns what is
// below it into one status error, so the count restarts there.
func noteLinks(info *Info, ch Chain) {
	links, forkAt := 0, []int{}
	for _, w := range ch.Wraps {
		if w.Kind == LGRPC {
			links, forkAt = 1, forkAt[:0]
			continue
		}
		if len(w.Sides) > 0 {
			forkAt = append(forkAt, links, links+w.Rep)
		}
		links += w.Rep + 1
	}
	if links > info.Links {
		info.Links = links
	}
	for p := 32; p <= 1<<16; p *= 2 {
		if d := links - p; d >= -1 && d <= 1 {
			info.LinksEdge = true
		}
	}
	for p := 100; p <= 100000; p *= 10 {
		if d := links - p; d >= -1 && d <= 1 {
			info.LinksEdge = true
		}
	}
	for _, f := range forkAt {
		if links >= 100 && f >= 10 && links-f >= 10 {
			info.DeepFork = true
		}
	}
}

// noteLevel records the shape classes of one level.
func noteLevel(info *Info, ch Chain, k int, w Wrap) {
	if w.Kind == LGRPC {
		info.GRPCLevel = true
		if k < len(ch.Wraps)-1 || ch.Embed > k {
			info.Layered = true
		}
		if ch.Embed > k {
			info.LayerEmb = true
		}
		for _, above := range ch.Wraps[k+1:] {
			if len(above.Sides) > 0 {
				info.LayerSide = true
			}
		}
		return
	}
	if w.Kind == LJoin {
		info.Join = true
	}
	if len(w.Sides) > 0 {
		if w.Kind == LFmt {
			info.MultiW = true
		}
		if w.Pos > 0 {
			info.SideFirst = true
		}
		if info.SideKinds == nil {
			info.SideKinds = map[string]bool{}
		}
		for _, sd := range w.Sides {
			info.SideKinds[sd.Kind] = true
			if sd.Kind != "new" && sd.Text != "" {
				info.SideDeep = true
			}
		}
	}
}

func clip(s string) string {
	if len(s) > 300 {
		return fmt.Sprintf("%s…[%d bytes]…%s", s[:150], len(s), s[len(s)-100:])
	}
	return s
}

func checkChain(b *built, info *Info) *vstat.Violation {
	c, e, g, g2, cls := b.ch, b.e, b.g, b.g2, b.cls
	msg := e.Error()
	markers := 0
	if c.Embed >= 0 {
		markers = 2
	}
	if n := len(msg); n > info.MaxLen {
		info.MaxLen = n
	}
	for p := 256; p <= 1<<17; p *= 2 {
		if d := len(msg) - p; d >= -1 && d <= 1 {
			info.Boundary = true
		}
	}
	where := func() string { return fmt.Sprintf("class %s, chain message (%d bytes) %q", c.Class, len(msg), clip(msg)) }

	// own: the caller's own target is filled, compared and overwritten before the other checks of the stage
	own := func(stage string, e error) *vstat.Violation {
		if b.sink == nil {
			return nil
		}
		v := b.sink.check(stage, e, b.want(), b.wantJSON)
		for n := range b.sink.notes {
			if info.Foreign == nil {
				info.Foreign = map[string]bool{}
			}
			info.Foreign[n] = true
		}
		return v
	}
	// plain: the plain extraction of a stage - into a fresh *Obj, or into a fresh message of the embedded message's type
	plain := func(stage string, e error) *vstat.Violation {
		if c.PB != nil {
			_, v := extractPB(stage, "a fresh", e, c.PB, b.msg, b.wantJSON)
			return v
		}
		if c.Lit != nil {
			return extractLit(stage, e, c.Lit, false, b.wantJSON)
		}
		return extractCheck(stage, e, c.Obj, b.wantJSON)
	}
	if c.Embed >= 0 {
		if b.lossy {
			// strings of the object hold invalid UTF-8: json.Marshal writes U+FFFD for such bytes (and two map keys may
			// coincide then), so what was embedded is the JSON text, not the Go value. The reference for every later
			// stage is what the library itself extracts from the result of EmbedObject.
			var base Obj
			if !gerrors.ExtractObject(b.eEmb, &base) {
				return vstat.V("errors:extract-failed", "result of EmbedObject: ExtractObject returned false for (%d bytes) %q (embedded %s)", len(b.eEmb.Error()), clip(b.eEmb.Error()), clip(js(c.Obj)))
			}
			b.wantJSON, _ = json.Marshal(&base)
		}
		if v := own("result of EmbedObject", b.eEmb); v != nil {
			return v
		}
		if v := plain("result of EmbedObject", b.eEmb); v != nil {
			return v
		}
		// generator sanity, after the library had its say: a marker count other than 2 here means the text
		// of the chain itself changed (that is what extractCheck reports) or the generator is wrong
		if strings.Count(msg, marker) != markers {
			if v := plain("after fmt wrapping", e); v != nil {
				return v
			}
			panic("generator bug: marker count")
		}
		if v := own("after fmt wrapping", e); v != nil {
			return v
		}
		if v := plain("after fmt wrapping", e); v != nil {
			return v
		}
	}
	if g == nil {
		return vstat.V("errors:grpcwrap-nil", "GRPCWrap returned nil for %s", where())
	}
	if !gerrors.Is(g, cls) {
		return vstat.V("errors:class-lost", "Is(GRPCWrap(e), %s) is false; GRPCWrap(e) = %q (code %v); %s", c.Class, clip(g.Error()), status.Code(g), where())
	}
	for _, o := range distinctClasses() {
		if o.Err == cls {
			continue
		}
		if gerrors.Is(g, o.Err) {
			return vstat.V("errors:other-class-matches", "Is(GRPCWrap(e), %s) is true for a chain around %s; GRPCWrap(e) = %q (code %v)", o.Name, c.Class, clip(g.Error()), status.Code(g))
		}
	}
	if g2 != g {
		return vstat.V("errors:grpcwrap-not-idempotent", "GRPCWrap(GRPCWrap(e)) is not the same error value: %q vs %q; %s", clip(fmt.Sprint(g2)), clip(g.Error()), where())
	}
	if c1, c2 := gerrors.GRPCStatusCode(g), gerrors.GRPCStatusCode(g2); c1 != c2 {
		return vstat.V("errors:grpcwrap-not-idempotent", "code changed from %v to %v by the second GRPCWrap; %s", c1, c2, where())
	}
	if c.Embed >= 0 {
		if v := own("after GRPCWrap", g); v != nil {
			return v
		}
		if v := plain("after GRPCWrap", g); v != nil {
			return v
		}
		if v := own("after GRPCWrap twice", g2); v != nil {
			return v
		}
		if v := plain("after GRPCWrap twice", g2); v != nil {
			return v
		}
		// the caller's writes must not have reached the errors: everything once more, from the innermost error outwards
		if b.sink != nil {
			for _, st := range []struct {
				stage string
				e     error
			}{{"result of EmbedObject, after the extracted values were overwritten", b.eEmb}, {"after fmt wrapping, after the extracted values were overwritten", e},
				{"after GRPCWrap, after the extracted values were overwritten", g}, {"a fresh GRPCWrap of the chain, after the extracted values were overwritten", gerrors.GRPCWrap(e)}} {
				if v := plain(st.stage, st.e); v != nil {
					return v
				}
			}
		}
	}
	return nil
}

func runCode(c Case, info *Info) *vstat.Violation {
	if c.Code >= NumCodes {
		panic("not a gRPC status code")
	}
	if !utf8.ValidString(c.Msg) {
		panic("message must be valid UTF-8")
	}
	code := codes.Code(c.Code)
	info.Code = code.String()
	info.Hazards = hazards(c.Msg)
	if !utf8.ValidString(Raw(c.Msg)) {
		info.TextRaw = true
	}
	msg := Raw(c.Msg)
	e := status.Error(code, msg)
	if code == codes.OK {
		info.OK = true // status.Error(OK, …) is nil; the statement says nothing about it
		return nil
	}
	var hits []string
	for _, k := range distinctClasses() {
		if gerrors.Is(e, k.Err) {
			hits = append(hits, k.Name)
		}
	}
	if len(hits) != 1 {
		return vstat.V("errors:code-maps-to-not-exactly-one-class", "status.Error(%v, %q) Is %d classes %v, want exactly one", code, msg, len(hits), hits)
	}
	if gerrors.FromGRPCError(e) == nil {
		return vstat.V("errors:code-maps-to-nil", "FromGRPCError(status.Error(%v, %q)) is nil for a non-OK code", code, msg)
	}
	return nil
}

// Hash identifies the case.
func (c Case) Hash() uint64 { return vstat.Hash(c) }

// NonTrivial is the rule of C19: a chain in which the class is reachable only through Unwrap (>= 1 wrap
// level) or that carries an embedded object; a batch with >= 2 embedded objects; a non-OK code; a hammer case in which >= 2
// goroutines ran over chains of >= 2 different classes that are reachable through Unwrap only.
func (i Info) NonTrivial() bool {
	switch {
	case i.Hammer:
		return i.HammerG >= 2 && i.HammerClasses >= 2
	case i.Chain:
		return i.Depth >= 1 || i.Embed != ""
	case i.Batch > 0:
		return i.BatchEmb >= 2
	}
	return !i.OK
}

// Classes for the histogram.
func (i Info) Classes() []string {
	var c []string
	switch {
	case i.Hammer:
		c = append(c, "hammer_goroutines_work_on_chains_of_different_classes_concurrently", fmt.Sprintf("hammer_chains:%d", i.Batch),
			fmt.Sprintf("hammer_distinct_wrapped_classes:%d", i.HammerClasses))
		switch g := i.HammerG; {
		case g <= 2:
			c = append(c, "hammer_goroutines:2")
		case g <= 4:
			c = append(c, "hammer_goroutines:3..4")
		case g <= 8:
			c = append(c, "hammer_goroutines:5..8")
		default:
			c = append(c, "hammer_goroutines:>8")
		}
		if i.HammerObj {
			c = append(c, "hammer_objects_extracted_concurrently")
		}
		if i.HammerFresh {
			c = append(c, "hammer_chains_assembled_inside_the_goroutines")
		}
		if i.Batch > i.HammerG {
			c = append(c, "hammer_more_chains_than_goroutines")
		}
	case i.Chain:
		c = append(c, "chain", "class:"+i.Class, fmt.Sprintf("depth:%d", i.Depth))
		if i.Embed == "" {
			c = append(c, "embed:none")
		} else {
			c = append(c, "embed:"+i.Embed)
		}
	case i.Batch > 0:
		c = append(c, "batch", fmt.Sprintf("batch_size:%d", i.Batch))
		if i.BatchEmb >= 2 {
			c = append(c, "batch_with_ge_2_embedded_objects")
		}
		if i.Eager {
			c = append(c, "batch_grpcwrap_per_chain")
		} else {
			c = append(c, "batch_grpcwrap_after_all_built")
		}
	default:
		if i.TextRaw {
			c = append(c, "code_message_not_valid_utf8")
		}
		return append(append(c, "code", "code:"+i.Code), i.Hazards...)
	}
	if i.Repaired {
		c = append(c, "text_would_complete_marker_replaced")
	}
	add := func(b bool, s string) {
		if b {
			c = append(c, s)
		}
	}
	add(i.Twins, "batch_chains_of_different_classes_with_identical_text")
	add(i.MultiW, "level_fmt_with_several_%w")
	add(i.Join, "level_errors_join")
	add(i.SideFirst, "side_branch_before_the_class_branch")
	add(i.SideDeep, "side_error_wrapped_itself")
	for _, k := range SideKinds {
		add(i.SideKinds[k], "side:"+k)
	}
	add(i.GRPCLevel, "level_grpcwrap")
	add(i.Layered, "layered_wrapping_continues_above_inner_grpcwrap")
	add(i.LayerEmb, "layered_object_embedded_above_inner_grpcwrap")
	add(i.LayerSide, "layered_side_branch_above_inner_grpcwrap")
	if i.ObjMarker {
		c = append(c, "object_string_contains_marker")
	}
	switch n := i.MaxLen; {
	case n < 256:
		c = append(c, "msglen:<256")
	case n < 1024:
		c = append(c, "msglen:256..1023")
	case n < 4096:
		c = append(c, "msglen:1024..4095")
	case n < 16384:
		c = append(c, "msglen:4096..16383")
	case n < 65536:
		c = append(c, "msglen:16384..65535")
	default:
		c = append(c, "msglen:>=65536")
	}
	if i.Boundary {
		c = append(c, "msglen_within_1_of_power_of_two")
	}
	switch n := i.Links; {
	case n >= 3000:
		c = append(c, "links_to_class:>=3000")
	case n >= 1000:
		c = append(c, "links_to_class:1000..2999")
	case n >= 100:
		c = append(c, "links_to_class:100..999")
	case n >= 10:
		c = append(c, "links_to_class:10..99")
	}
	add(i.LinksEdge, "links_to_class_within_1_of_2^k_or_10^k")
	add(i.DeepFork, "deep_chain_with_several_%w_or_join_node_in_the_middle")
	switch n := i.ObjLen; {
	case n >= 8192:
		c = append(c, "objjson:>=8192")
	case n >= 2048:
		c = append(c, "objjson:2048..8191")
	case n >= 504:
		c = append(c, "objjson:504..2047")
	}
	add(i.ObjEdge, "objjson_ends_8_below_to_2_above_a_multiple_of_512")
	for _, k := range append([]string{"pb"}, IntoKinds...) {
		add(i.Into[k], "extracted_into_"+k+"_then_overwritten_by_the_caller")
	}
	for _, k := range LitIntoKinds {
		add(i.Into["lit:"+k], "literal_object_extracted_into_"+k)
	}
	decodes, refused := false, false
	for _, k := range ForeignIntoKinds {
		add(i.Foreign["foreign_target_decodes:"+k], "foreign_target_decodes:"+k)
		add(i.Foreign["foreign_target_cannot_take_the_object:"+k], "foreign_target_cannot_take_the_object:"+k)
		decodes = decodes || i.Foreign["foreign_target_decodes:"+k]
		refused = refused || i.Foreign["foreign_target_cannot_take_the_object:"+k]
	}
	add(decodes, "extracted_into_a_target_of_another_type")
	add(refused, "extraction_into_a_target_of_another_type_refused_as_by_encoding_json")
	seen := map[string]bool{}
	for _, k := range i.Lit {
		if !seen[k] {
			seen[k] = true
			c = append(c, k)
		}
	}
	if i.PBKind != "" {
		c = append(c, "object_is_generated_proto_message", "proto_message:"+i.PBKind)
	}
	add(i.PBWKT, "proto_message_is_or_holds_well_known_type")
	add(i.PBFlat, "proto_message_flat")
	add(i.TextRaw, "wrap_text_not_valid_utf8")
	add(i.TextFFFD, "wrap_text_has_U+FFFD")
	add(i.ObjBackslash, "object_string_has_backslash")
	add(i.ObjEscLook, "object_string_looks_like_json_u_escape")
	add(i.ObjEscLookKey, "object_map_key_looks_like_json_u_escape")
	add(i.ObjEscHTML, "object_string_looks_like_u_escape_of_lt_gt_amp_2028_2029")
	add(i.ObjHTMLChar, "object_string_has_lt_gt_amp_2028_2029")
	add(i.ObjQuote, "object_string_has_double_quote")
	add(i.ObjRaw, "object_string_not_valid_utf8")
	add(i.ObjFFFD, "object_string_has_U+FFFD")
	add(i.RawAndObj, "wrap_text_not_valid_utf8_and_U+FFFD_in_object_json")
	c = append(c, i.Pads...)
	return append(c, i.Hazards...)
}
