// Package p_errors decides C19: error classes survive wrapping and the gRPC boundary.
package p_errors

import (
	"bytes"
	"encoding/json"
	"fmt"
	"strings"
	"unicode/utf8"

	gerrors "github.com/acquirecloud/golibs/errors"
	"google.golang.org/grpc/codes"
	"google.golang.org/grpc/status"
	"verifharness/internal/vstat"
)

const marker = "\x1bjson" // errors.jsonErrorMarker

// Class is a named general error class.
type Class struct {
	Name string
	Err  error
}

// AllClasses is the full list of classes of errors.go.
var AllClasses = []Class{
	{"ErrExist", gerrors.ErrExist},
	{"ErrNotExist", gerrors.ErrNotExist},
	{"ErrClosed", gerrors.ErrClosed},
	{"ErrInvalid", gerrors.ErrInvalid},
	{"ErrNotAuthorized", gerrors.ErrNotAuthorized},
	{"ErrDataLoss", gerrors.ErrDataLoss},
	{"ErrCommunication", gerrors.ErrCommunication},
	{"ErrInternal", gerrors.ErrInternal},
	{"ErrConflict", gerrors.ErrConflict},
	{"ErrExhausted", gerrors.ErrExhausted},
	{"ErrUnimplemented", gerrors.ErrUnimplemented},
	{"ErrCanceled", gerrors.ErrCanceled},
}

// CodedClasses are the classes that have a gRPC code (the keys of errorsToCode named in the C19 text).
var CodedClasses = []string{"ErrExist", "ErrNotExist", "ErrInvalid", "ErrNotAuthorized", "ErrInternal",
	"ErrDataLoss", "ErrExhausted", "ErrUnimplemented", "ErrConflict", "ErrCanceled"}

// NumCodes is the number of gRPC status codes (OK..Unauthenticated).
const NumCodes = 17

func classByName(n string) error {
	for _, c := range AllClasses {
		if c.Name == n {
			return c.Err
		}
	}
	panic("unknown class " + n)
}

// distinct holds the classes with distinct error values (identity), first name wins.
var distinct = func() []Class {
	out := []Class{}
	for _, c := range AllClasses {
		dup := false
		for _, d := range out {
			if d.Err == c.Err {
				dup = true
			}
		}
		if !dup {
			out = append(out, c)
		}
	}
	return out
}()

func distinctClasses() []Class { return distinct }

// Wrap is one fmt.Errorf level: fmt.Errorf("%s%w%s", Pre, err, Post) - the texts are taken verbatim.
type Wrap struct {
	Pre  string `json:"pre"`
	Post string `json:"post"`
}

// Obj is the embedded object.
type Obj struct {
	S  string            `json:"s"`
	N  int64             `json:"n"`
	L  []string          `json:"l,omitempty"`
	M  map[string]int    `json:"m,omitempty"`
	In *Obj              `json:"in,omitempty"`
	X  map[string]string `json:"x,omitempty"`
}

// Case is either a wrapping chain around one class (Kind "chain") or a gRPC code with a message (Kind "code").
// Chain: Class is wrapped by Wraps[0], Wraps[1], ... ; if Embed >= 0, errors.EmbedObject(Obj, e) is applied
// after the first Embed wraps (0 = directly on the class value, len(Wraps) = outermost).
type Case struct {
	Kind  string `json:"kind"`
	Class string `json:"class,omitempty"`
	Wraps []Wrap `json:"wraps,omitempty"`
	Embed int    `json:"embed"`
	Obj   *Obj   `json:"obj,omitempty"`
	Code  uint32 `json:"code"`
	Msg   string `json:"msg,omitempty"`
}

// Info is what the classifier needs.
type Info struct {
	Chain     bool
	Class     string
	Depth     int
	Embed     string // "", "inner", "middle", "outer", "only"
	Code      string
	OK        bool
	Hazards   []string
	Repaired  bool // a wrap text would have completed a marker across a concatenation boundary and was replaced
	ObjMarker bool // the object's strings contain the complete marker (escaped by JSON)
}

// Run executes the case.
func Run(c Case) (info Info, v *vstat.Violation) {
	return info, vstat.Guard("errors:panic", func() *vstat.Violation {
		switch c.Kind {
		case "chain":
			return runChain(c, &info)
		case "code":
			return runCode(c, &info)
		}
		panic("bad kind " + c.Kind)
	})
}

func hazards(texts ...string) []string {
	all := strings.Join(texts, "\x00")
	var h []string
	add := func(b bool, s string) {
		if b {
			h = append(h, s)
		}
	}
	add(strings.Contains(all, "\x1b"), "text_has_esc")
	add(strings.Contains(all, "json"), "text_has_json_word")
	add(strings.Contains(all, "\x1bjso"), "text_has_marker_prefix")
	add(strings.Contains(all, ":"), "text_has_colon")
	add(strings.Contains(all, "%"), "text_has_percent")
	add(strings.ContainsAny(all, "{}[]\""), "text_has_json_fragment")
	add(strings.Contains(all, "rpc error"), "text_has_rpc_error_phrase")
	nonASCII := false
	for _, r := range all {
		if r >= 0x80 {
			nonASCII = true
		}
	}
	add(nonASCII, "text_has_unicode")
	return h
}

func objEqual(a *Obj, wantJSON []byte) bool {
	ja, e1 := json.Marshal(a)
	return e1 == nil && bytes.Equal(ja, wantJSON)
}

func objHasMarker(o *Obj) bool {
	if o == nil {
		return false
	}
	if strings.Contains(o.S, marker) {
		return true
	}
	for _, s := range o.L {
		if strings.Contains(s, marker) {
			return true
		}
	}
	for k, s := range o.X {
		if strings.Contains(s, marker) || strings.Contains(k, marker) {
			return true
		}
	}
	for k := range o.M {
		if strings.Contains(k, marker) {
			return true
		}
	}
	return objHasMarker(o.In)
}

func extractCheck(stage string, e error, want *Obj, wantJSON []byte) *vstat.Violation {
	var got Obj
	if !gerrors.ExtractObject(e, &got) {
		return vstat.V("errors:extract-failed", "%s: ExtractObject returned false for %q (embedded %s)", stage, e.Error(), js(want))
	}
	if !objEqual(&got, wantJSON) {
		return vstat.V("errors:extract-different-object", "%s: ExtractObject returned %s, embedded was %s (message %q)", stage, js(&got), js(want), e.Error())
	}
	return nil
}

func js(o *Obj) string {
	b, _ := json.Marshal(o)
	return string(b)
}

func runChain(c Case, info *Info) *vstat.Violation {
	info.Chain, info.Class, info.Depth = true, c.Class, len(c.Wraps)
	coded := false
	for _, n := range CodedClasses {
		coded = coded || n == c.Class
	}
	if !coded {
		panic("class without a gRPC code in a chain case: " + c.Class)
	}
	if c.Embed > len(c.Wraps) {
		panic("embed level beyond the chain")
	}
	if c.Embed >= 0 && c.Obj == nil {
		panic("embed without an object")
	}
	cls := classByName(c.Class)
	var texts []string
	for _, w := range c.Wraps {
		if !utf8.ValidString(w.Pre) || !utf8.ValidString(w.Post) || strings.Contains(w.Pre, marker) || strings.Contains(w.Post, marker) {
			panic("wrap texts must be valid UTF-8 without the complete marker")
		}
		texts = append(texts, w.Pre, w.Post)
	}
	info.Hazards = hazards(texts...)
	info.ObjMarker = c.Embed >= 0 && objHasMarker(c.Obj)
	switch {
	case c.Embed < 0:
	case len(c.Wraps) == 0:
		info.Embed = "only"
	case c.Embed == 0:
		info.Embed = "inner"
	case c.Embed == len(c.Wraps):
		info.Embed = "outer"
	default:
		info.Embed = "middle"
	}

	var wantJSON []byte
	if c.Embed >= 0 {
		var err error
		if wantJSON, err = json.Marshal(c.Obj); err != nil {
			panic("object is not marshalable: " + err.Error())
		}
	}
	// build the chain; the message holds 0 markers before the embedding and exactly 2 after it
	e := cls
	markers := 0
	for k := 0; k <= len(c.Wraps); k++ {
		if c.Embed == k {
			e = gerrors.EmbedObject(c.Obj, e)
			markers = 2
			if v := extractCheck("directly after EmbedObject", e, c.Obj, wantJSON); v != nil {
				return v
			}
		}
		if k == len(c.Wraps) {
			break
		}
		w := c.Wraps[k]
		if strings.Count(w.Pre+e.Error()+w.Post, marker) != markers {
			// the texts complete a marker across a concatenation boundary: outside EmbedObject's /
			// ExtractObject's documented format, use neutral texts for this level instead
			w = Wrap{Pre: "[", Post: "]"}
			info.Repaired = true
		}
		e = fmt.Errorf("%s%w%s", w.Pre, e, w.Post)
	}
	if strings.Count(e.Error(), marker) != markers {
		panic("generator bug: marker count")
	}
	where := func() string { return fmt.Sprintf("class %s, chain message %q", c.Class, e.Error()) }

	if c.Embed >= 0 {
		if v := extractCheck("after fmt wrapping", e, c.Obj, wantJSON); v != nil {
			return v
		}
	}
	g := gerrors.GRPCWrap(e)
	if g == nil {
		return vstat.V("errors:grpcwrap-nil", "GRPCWrap returned nil for %s", where())
	}
	if !gerrors.Is(g, cls) {
		return vstat.V("errors:class-lost", "Is(GRPCWrap(e), %s) is false; GRPCWrap(e) = %q (code %v); %s", c.Class, g.Error(), status.Code(g), where())
	}
	for _, o := range distinctClasses() {
		if o.Err == cls {
			continue
		}
		if gerrors.Is(g, o.Err) {
			return vstat.V("errors:other-class-matches", "Is(GRPCWrap(e), %s) is true for a chain around %s; GRPCWrap(e) = %q (code %v)", o.Name, c.Class, g.Error(), status.Code(g))
		}
	}
	g2 := gerrors.GRPCWrap(g)
	if g2 != g {
		return vstat.V("errors:grpcwrap-not-idempotent", "GRPCWrap(GRPCWrap(e)) is not the same error value: %q vs %q; %s", fmt.Sprint(g2), g.Error(), where())
	}
	if c1, c2 := gerrors.GRPCStatusCode(g), gerrors.GRPCStatusCode(g2); c1 != c2 {
		return vstat.V("errors:grpcwrap-not-idempotent", "code changed from %v to %v by the second GRPCWrap; %s", c1, c2, where())
	}
	if c.Embed >= 0 {
		if v := extractCheck("after GRPCWrap", g, c.Obj, wantJSON); v != nil {
			return v
		}
		if v := extractCheck("after GRPCWrap twice", g2, c.Obj, wantJSON); v != nil {
			return v
		}
	}
	return nil
}

func runCode(c Case, info *Info) *vstat.Violation {
	if c.Code >= NumCodes {
		panic("not a gRPC status code")
	}
	if !utf8.ValidString(c.Msg) {
		panic("message must be valid UTF-8")
	}
	code := codes.Code(c.Code)
	info.Code = code.String()
	info.Hazards = hazards(c.Msg)
	e := status.Error(code, c.Msg)
	if code == codes.OK {
		info.OK = true // status.Error(OK, …) is nil; the statement says nothing about it
		return nil
	}
	var hits []string
	for _, k := range distinctClasses() {
		if gerrors.Is(e, k.Err) {
			hits = append(hits, k.Name)
		}
	}
	if len(hits) != 1 {
		return vstat.V("errors:code-maps-to-not-exactly-one-class", "status.Error(%v, %q) Is %d classes %v, want exactly one", code, c.Msg, len(hits), hits)
	}
	if gerrors.FromGRPCError(e) == nil {
		return vstat.V("errors:code-maps-to-nil", "FromGRPCError(status.Error(%v, %q)) is nil for a non-OK code", code, c.Msg)
	}
	return nil
}

// Hash identifies the case.
func (c Case) Hash() uint64 { return vstat.Hash(c) }

// NonTrivial is the rule of C19: a chain in which the class is reachable only through Unwrap (>= 1 wrap
// level) or that carries an embedded object; a non-OK code.
func (i Info) NonTrivial() bool {
	if i.Chain {
		return i.Depth >= 1 || i.Embed != ""
	}
	return !i.OK
}

// Classes for the histogram.
func (i Info) Classes() []string {
	var c []string
	if i.Chain {
		c = append(c, "chain", "class:"+i.Class, fmt.Sprintf("depth:%d", i.Depth))
		if i.Embed == "" {
			c = append(c, "embed:none")
		} else {
			c = append(c, "embed:"+i.Embed)
		}
		if i.Repaired {
			c = append(c, "text_would_complete_marker_replaced")
		}
		if i.ObjMarker {
			c = append(c, "object_string_contains_marker")
		}
	} else {
		c = append(c, "code", "code:"+i.Code)
	}
	return append(c, i.Hazards...)
}
