package p_errors

// Embedded objects that are GENERATED PROTOBUF MESSAGES - the natural payload of a gRPC service - and extraction targets
// that are messages. EmbedObject/ExtractObject are documented as json.Marshal/json.Unmarshal of the object; a generated
// message is a Go struct with json tags, embedded by pointer (&errdetails.RetryInfo{...}) and extracted into a fresh
// message of the same type. The message types are the ones available through the library's own dependencies: the
// well-known types of google.golang.org/protobuf, google.golang.org/genproto/googleapis/rpc/{errdetails,status} and the
// library's own kvs record.

import (
	"encoding/json"
	"strings"
	"unicode/utf8"

	gerrors "github.com/acquirecloud/golibs/errors"
	golibskvspb "github.com/acquirecloud/golibs/kvs/genproto/golibskvspb/v1"
	"google.golang.org/genproto/googleapis/rpc/errdetails"
	rpcstatus "google.golang.org/genproto/googleapis/rpc/status"
	"google.golang.org/protobuf/proto"
	"google.golang.org/protobuf/reflect/protoreflect"
	"google.golang.org/protobuf/types/known/anypb"
	"google.golang.org/protobuf/types/known/durationpb"
	"google.golang.org/protobuf/types/known/emptypb"
	"google.golang.org/protobuf/types/known/fieldmaskpb"
	"google.golang.org/protobuf/types/known/structpb"
	"google.golang.org/protobuf/types/known/timestamppb"
	"google.golang.org/protobuf/types/known/wrapperspb"
	"verifharness/internal/vstat"
)

// PB describes a generated message as plain data: the kind names the message type, the fields are filled from the
// lists in a fixed, kind-specific way (see build); a missing element is the zero value / an absent sub-message.
//
//	S  texts (valid UTF-8, as proto3 demands of string fields; taken verbatim - no raw-byte escapes here)
//	N  numbers: seconds, nanos, codes, wrapped numbers
//	B  byte strings for bytes fields, in the escaped form of a case (see Raw): any bytes
type PB struct {
	Kind string   `json:"kind"`
	S    []string `json:"s,omitempty"`
	N    []int64  `json:"n,omitempty"`
	B    []string `json:"b,omitempty"`
}

// PBKinds lists the message types: first the flat ones of errdetails (strings, repeated strings, repeated flat
// sub-messages, a string map), then messages that contain well-known types, then well-known types themselves.
var PBKinds = []string{
	"errorinfo", "debuginfo", "resourceinfo", "requestinfo", "localized", "badrequest", "quota", "precondition", "help",
	"retryinfo", "record", "status",
	"timestamp", "duration", "any", "fieldmask", "empty", "struct",
	"stringvalue", "bytesvalue", "int64value", "uint64value", "int32value", "boolvalue", "doublevalue",
}

// newPB returns a fresh, empty message of the kind.
func newPB(kind string) proto.Message {
	switch kind {
	case "errorinfo":
		return &errdetails.ErrorInfo{}
	case "debuginfo":
		return &errdetails.DebugInfo{}
	case "resourceinfo":
		return &errdetails.ResourceInfo{}
	case "requestinfo":
		return &errdetails.RequestInfo{}
	case "localized":
		return &errdetails.LocalizedMessage{}
	case "badrequest":
		return &errdetails.BadRequest{}
	case "quota":
		return &errdetails.QuotaFailure{}
	case "precondition":
		return &errdetails.PreconditionFailure{}
	case "help":
		return &errdetails.Help{}
	case "retryinfo":
		return &errdetails.RetryInfo{}
	case "record":
		return &golibskvspb.Record{}
	case "status":
		return &rpcstatus.Status{}
	case "timestamp":
		return &timestamppb.Timestamp{}
	case "duration":
		return &durationpb.Duration{}
	case "any":
		return &anypb.Any{}
	case "fieldmask":
		return &fieldmaskpb.FieldMask{}
	case "empty":
		return &emptypb.Empty{}
	case "struct":
		return &structpb.Struct{}
	case "stringvalue":
		return &wrapperspb.StringValue{}
	case "bytesvalue":
		return &wrapperspb.BytesValue{}
	case "int64value":
		return &wrapperspb.Int64Value{}
	case "uint64value":
		return &wrapperspb.UInt64Value{}
	case "int32value":
		return &wrapperspb.Int32Value{}
	case "boolvalue":
		return &wrapperspb.BoolValue{}
	case "doublevalue":
		return &wrapperspb.DoubleValue{}
	}
	panic("bad proto message kind " + kind)
}

func (p *PB) s(i int) string {
	if i < len(p.S) {
		return p.S[i]
	}
	return ""
}

func (p *PB) n(i int) int64 {
	if i < len(p.N) {
		return p.N[i]
	}
	return 0
}

func (p *PB) b(i int) []byte {
	if i < len(p.B) {
		return []byte(p.B[i])
	}
	return nil
}

// pbTime makes a Timestamp in the range the type documents (years 1..9999, nanos 0..999999999).
func pbTime(sec, nanos int64) *timestamppb.Timestamp {
	const lo, hi = -62135596800, 253402300799
	if sec < lo || sec > hi {
		sec = lo + (sec%(hi-lo+1)+(hi-lo+1))%(hi-lo+1)
	}
	nanos %= 1000000000
	if nanos < 0 {
		nanos = -nanos
	}
	return &timestamppb.Timestamp{Seconds: sec, Nanos: int32(nanos)}
}

// pbDur makes a Duration in the documented range (+-315576000000 s, nanos of the same sign as the seconds).
func pbDur(sec, nanos int64) *durationpb.Duration {
	const lim = 315576000000
	sec %= lim + 1
	nanos %= 1000000000
	if (sec < 0 && nanos > 0) || (sec > 0 && nanos < 0) {
		nanos = -nanos
	}
	return &durationpb.Duration{Seconds: sec, Nanos: int32(nanos)}
}

// build makes the message the way a user would: a struct literal / the constructors of the well-known types.
func (p *PB) build() proto.Message {
	switch p.Kind {
	case "errorinfo":
		m := &errdetails.ErrorInfo{Reason: p.s(0), Domain: p.s(1)}
		for i := 2; i < len(p.S); i += 2 {
			if m.Metadata == nil {
				m.Metadata = map[string]string{}
			}
			m.Metadata[p.s(i)] = p.s(i + 1)
		}
		return m
	case "debuginfo":
		m := &errdetails.DebugInfo{Detail: p.s(0)}
		if len(p.S) > 1 {
			m.StackEntries = append([]string(nil), p.S[1:]...)
		}
		return m
	case "resourceinfo":
		return &errdetails.ResourceInfo{ResourceType: p.s(0), ResourceName: p.s(1), Owner: p.s(2), Description: p.s(3)}
	case "requestinfo":
		return &errdetails.RequestInfo{RequestId: p.s(0), ServingData: p.s(1)}
	case "localized":
		return &errdetails.LocalizedMessage{Locale: p.s(0), Message: p.s(1)}
	case "badrequest":
		m := &errdetails.BadRequest{}
		for i := 0; i < len(p.S); i += 2 {
			m.FieldViolations = append(m.FieldViolations, &errdetails.BadRequest_FieldViolation{Field: p.s(i), Description: p.s(i + 1)})
		}
		return m
	case "quota":
		m := &errdetails.QuotaFailure{}
		for i := 0; i < len(p.S); i += 2 {
			m.Violations = append(m.Violations, &errdetails.QuotaFailure_Violation{Subject: p.s(i), Description: p.s(i + 1)})
		}
		return m
	case "precondition":
		m := &errdetails.PreconditionFailure{}
		for i := 0; i < len(p.S); i += 3 {
			m.Violations = append(m.Violations, &errdetails.PreconditionFailure_Violation{Type: p.s(i), Subject: p.s(i + 1), Description: p.s(i + 2)})
		}
		return m
	case "help":
		m := &errdetails.Help{}
		for i := 0; i < len(p.S); i += 2 {
			m.Links = append(m.Links, &errdetails.Help_Link{Description: p.s(i), Url: p.s(i + 1)})
		}
		return m
	case "retryinfo":
		m := &errdetails.RetryInfo{}
		if len(p.N) > 0 {
			m.RetryDelay = pbDur(p.n(0), p.n(1))
		}
		return m
	case "record":
		m := &golibskvspb.Record{Key: p.s(0), Version: p.s(1), Value: p.b(0)}
		if len(p.N) > 0 {
			m.UpdatedAt = pbTime(p.n(0), p.n(1))
		}
		if len(p.N) > 2 {
			m.ExpiresAt = pbTime(p.n(2), p.n(3))
		}
		return m
	case "status":
		m := &rpcstatus.Status{Code: int32(p.n(0)), Message: p.s(0)}
		for i := range p.B {
			m.Details = append(m.Details, &anypb.Any{TypeUrl: p.s(1 + i), Value: p.b(i)})
		}
		return m
	case "timestamp":
		return pbTime(p.n(0), p.n(1))
	case "duration":
		return pbDur(p.n(0), p.n(1))
	case "any":
		return &anypb.Any{TypeUrl: p.s(0), Value: p.b(0)}
	case "fieldmask":
		return &fieldmaskpb.FieldMask{Paths: append([]string(nil), p.S...)}
	case "empty":
		return &emptypb.Empty{}
	case "struct":
		m := &structpb.Struct{Fields: map[string]*structpb.Value{}}
		for i, k := range p.S {
			var v *structpb.Value
			switch i % 6 {
			case 0:
				v = structpb.NewStringValue(p.s(i + 1))
			case 1:
				v = structpb.NewNumberValue(float64(p.n(i)))
			case 2:
				v = structpb.NewBoolValue(p.n(i)&1 == 1)
			case 3:
				v = structpb.NewNullValue()
			case 4:
				v = structpb.NewListValue(&structpb.ListValue{Values: []*structpb.Value{structpb.NewStringValue(p.s(i + 1)), structpb.NewNumberValue(float64(p.n(i)) / 1000)}})
			case 5:
				v = structpb.NewStructValue(&structpb.Struct{Fields: map[string]*structpb.Value{k: structpb.NewStringValue(p.s(i + 1))}})
			}
			m.Fields[k] = v
		}
		return m
	case "stringvalue":
		return wrapperspb.String(p.s(0))
	case "bytesvalue":
		return wrapperspb.Bytes(p.b(0))
	case "int64value":
		return wrapperspb.Int64(p.n(0))
	case "uint64value":
		return wrapperspb.UInt64(uint64(p.n(0)))
	case "int32value":
		return wrapperspb.Int32(int32(p.n(0)))
	case "boolvalue":
		return wrapperspb.Bool(p.n(0)&1 == 1)
	case "doublevalue":
		return wrapperspb.Double(float64(p.n(0)) / 1024) // finite: NaN and the infinities are not marshalable
	}
	panic("bad proto message kind " + p.Kind)
}

// rawPB decodes the byte strings of the description (the texts stay as they are).
func rawPB(p *PB) *PB {
	if p == nil {
		return nil
	}
	n := *p
	if p.B != nil {
		n.B = make([]string, len(p.B))
		for i, x := range p.B {
			n.B[i] = Raw(x)
		}
	}
	return &n
}

func pbAny(p *PB, f func(string) bool) bool {
	if p == nil {
		return false
	}
	for _, x := range p.S {
		if f(x) {
			return true
		}
	}
	return false
}

func validatePB(p *PB) {
	newPB(p.Kind)
	for _, x := range p.S {
		if !utf8.ValidString(x) {
			panic("the string fields of a proto3 message are valid UTF-8")
		}
	}
}

// wellKnown: the message is a well-known type (google.protobuf.*) or a populated field of it, at any depth, holds one.
func wellKnown(m protoreflect.Message, depth int) bool {
	if strings.HasPrefix(string(m.Descriptor().FullName()), "google.protobuf.") {
		return true
	}
	found := false
	if depth > 8 {
		return false
	}
	m.Range(func(fd protoreflect.FieldDescriptor, v protoreflect.Value) bool {
		if fd.Message() == nil || fd.IsMap() && fd.MapValue().Message() == nil {
			return true
		}
		switch {
		case fd.IsList():
			for i := 0; i < v.List().Len() && !found; i++ {
				found = wellKnown(v.List().Get(i).Message(), depth+1)
			}
		case fd.IsMap():
			v.Map().Range(func(_ protoreflect.MapKey, mv protoreflect.Value) bool {
				found = wellKnown(mv.Message(), depth+1)
				return !found
			})
		default:
			found = wellKnown(v.Message(), depth+1)
		}
		return !found
	})
	return found
}

// scribbleMsg overwrites what ExtractObject filled in, in place: every byte of every bytes field, every scalar, every
// element and map entry, at every depth.
func scribbleMsg(m protoreflect.Message, depth int) {
	if depth > 8 {
		return
	}
	m.Range(func(fd protoreflect.FieldDescriptor, v protoreflect.Value) bool {
		switch {
		case fd.IsList():
			l := v.List()
			for i := 0; i < l.Len(); i++ {
				scribbleValue(fd, l.Get(i), func(nv protoreflect.Value) { l.Set(i, nv) }, depth)
			}
		case fd.IsMap():
			mp := v.Map()
			mp.Range(func(k protoreflect.MapKey, mv protoreflect.Value) bool {
				scribbleValue(fd.MapValue(), mv, func(nv protoreflect.Value) { mp.Set(k, nv) }, depth)
				return true
			})
		default:
			scribbleValue(fd, v, func(nv protoreflect.Value) { m.Set(fd, nv) }, depth)
		}
		return true
	})
}

func scribbleValue(fd protoreflect.FieldDescriptor, v protoreflect.Value, set func(protoreflect.Value), depth int) {
	switch fd.Kind() {
	case protoreflect.MessageKind, protoreflect.GroupKind:
		scribbleMsg(v.Message(), depth+1)
	case protoreflect.BytesKind:
		b := v.Bytes()
		for i := range b {
			b[i] = '#'
		}
	case protoreflect.StringKind:
		set(protoreflect.ValueOfString("overwritten by the caller"))
	case protoreflect.Int64Kind, protoreflect.Sint64Kind, protoreflect.Sfixed64Kind:
		set(protoreflect.ValueOfInt64(-42))
	case protoreflect.Int32Kind, protoreflect.Sint32Kind, protoreflect.Sfixed32Kind:
		set(protoreflect.ValueOfInt32(-42))
	case protoreflect.Uint64Kind, protoreflect.Fixed64Kind:
		set(protoreflect.ValueOfUint64(42))
	case protoreflect.Uint32Kind, protoreflect.Fixed32Kind:
		set(protoreflect.ValueOfUint32(42))
	case protoreflect.BoolKind:
		set(protoreflect.ValueOfBool(!v.Bool()))
	case protoreflect.DoubleKind:
		set(protoreflect.ValueOfFloat64(-42.5))
	case protoreflect.FloatKind:
		set(protoreflect.ValueOfFloat32(-42.5))
	}
}

// extractPB extracts the object of e into a fresh message of the embedded message's type and compares: proto.Equal with
// the embedded message, and the same JSON text as the embedded message has under json.Marshal (what EmbedObject wrote).
func extractPB(stage, target string, e error, p *PB, want proto.Message, wantJSON []byte) (proto.Message, *vstat.Violation) {
	got := newPB(p.Kind)
	if !gerrors.ExtractObject(e, got) {
		return nil, vstat.V("errors:extract-failed", "%s: ExtractObject into %s %T returned false for (%d bytes) %q (embedded %T %s)", stage, target, got, len(e.Error()), clip(e.Error()), want, clip(string(wantJSON)))
	}
	gotJSON, err := json.Marshal(got)
	if !proto.Equal(got, want) || err != nil || string(gotJSON) != string(wantJSON) {
		return nil, vstat.V("errors:extract-different-object", "%s: ExtractObject into %s %T returned %s (proto.Equal with the embedded message: %v), embedded was %s (message %q)", stage, target, got, clip(string(gotJSON)), proto.Equal(got, want), clip(string(wantJSON)), clip(e.Error()))
	}
	return got, nil
}
