package p_errors

// FOREIGN EXTRACTION TARGETS: the type of the extraction target differs from the type of the embedded object, the way it
// does for real callers - the receiving service declares only the fields it needs (narrower), is a version ahead (wider),
// was written without json tags (encoding/json matches keys case-insensitively), groups the fields in anonymous embedded
// structs, keeps some fields as any / json.Number / json.RawMessage, or is simply the wrong type. ExtractObject "returns
// ... whether err contains the object value and it was extracted successfully"; the object travels as "json-marshaled
// version" (EmbedObject), so the yardstick is encoding/json itself: ExtractObject must report success exactly when
// json.Unmarshal of the embedded JSON text into an identically prepared target succeeds, and on success leave the
// target as json.Unmarshal leaves it (unknown keys skipped, absent keys untouched, ...). Nothing of encoding/json's
// rules is modelled here. The same yardstick covers objects whose own MarshalJSON writes keys their decoding side does
// not declare (Lit shapes discriminated*, lit.go).

import (
	"encoding/json"
	"reflect"
	"strings"

	gerrors "github.com/acquirecloud/golibs/errors"
	"verifharness/internal/vstat"
)

// ForeignIntoKinds are the foreign target kinds (Chain.Into); the suffix "+used" = the target held other content before
// (json.Unmarshal of foreignStale into it), as a re-used variable does.
//
//	narrow     a struct with two of the object's fields
//	wide       a struct with all fields of Obj and three more
//	cased      a struct without tags whose field names differ from the keys in case only
//	embedded   the fields spread over an anonymous struct and an anonymous pointer-to-struct
//	loose      fields of type any, json.Number, []any, map[string]any, json.RawMessage
//	empty      struct{}: every key is unknown to it
//	typed      a map[string]json.RawMessage (takes every JSON object, nothing else)
//	mismatch   a struct whose field for the key "s" is an int: encoding/json cannot store the object's string there
//	scalar     an int64: takes a bare number only
//	strings    a []string
var ForeignIntoKinds = []string{
	"narrow", "wide", "cased", "embedded", "loose", "empty", "typed", "mismatch", "scalar", "strings",
	"narrow+used", "wide+used", "cased+used", "embedded+used", "loose+used", "typed+used", "mismatch+used",
}

const foreignStale = `{"s":"stale","n":7,"l":["stale","staler","stalest","stalest of all"],"m":{"stale":1},"in":{"s":"stale inner","n":8},"x":{"stale":"x"},"extra":"kept","count":3,"more":{"k":["v"]}}`

type narrowT struct {
	S string   `json:"s"`
	L []string `json:"l"`
}

type wideT struct {
	S     string              `json:"s"`
	N     int64               `json:"n"`
	L     []string            `json:"l,omitempty"`
	M     map[string]int      `json:"m,omitempty"`
	In    *wideT              `json:"in,omitempty"`
	X     map[string]string   `json:"x,omitempty"`
	Extra string              `json:"extra"`
	Count *int                `json:"count"`
	More  map[string][]string `json:"more"`
}

type casedT struct {
	S  string
	N  int64
	L  []string
	M  map[string]int
	IN *casedT
	X  map[string]string
}

type headPart struct {
	S string   `json:"s"`
	L []string `json:"l"`
}

type TailPart struct {
	N int64          `json:"n"`
	M map[string]int `json:"m"`
}

type embeddedT struct {
	headPart
	*TailPart
	In *embeddedT `json:"in"`
}

type looseT struct {
	S  any             `json:"s"`
	N  json.Number     `json:"n"`
	L  []any           `json:"l"`
	M  map[string]any  `json:"m"`
	In json.RawMessage `json:"in"`
	X  any             `json:"x"`
}

type mismatchT struct {
	S int   `json:"s"`
	N int64 `json:"n"`
	L []string `json:"l"`
}

func isForeign(kind string) bool {
	for _, k := range ForeignIntoKinds {
		if k == kind {
			return true
		}
	}
	return false
}

// foreignTarget returns a pointer to a new target of the kind.
func foreignTarget(kind string) any {
	base, used := strings.CutSuffix(kind, "+used")
	var t any
	switch base {
	case "narrow":
		t = &narrowT{}
	case "wide":
		t = &wideT{}
	case "cased":
		t = &casedT{}
	case "embedded":
		t = &embeddedT{}
	case "loose":
		t = &looseT{}
	case "empty":
		t = &struct{}{}
	case "typed":
		t = &map[string]json.RawMessage{}
	case "mismatch":
		t = &mismatchT{}
	case "scalar":
		t = new(int64)
	case "strings":
		t = &[]string{}
	default:
		panic("bad foreign target kind " + kind)
	}
	if used {
		json.Unmarshal([]byte(foreignStale), t) // the content of the earlier use; a field that cannot take its part stays zero
	}
	return t
}

// extractForeign extracts the object of e into a foreign target and compares verdict and target with json.Unmarshal of
// the embedded JSON text into a target prepared in the same way. note is told what encoding/json said.
func extractForeign(stage string, e error, kind string, wantJSON []byte, note func(string)) *vstat.Violation {
	got, ref := foreignTarget(kind), foreignTarget(kind)
	refErr := json.Unmarshal(wantJSON, ref)
	ok := gerrors.ExtractObject(e, got)
	if refErr == nil {
		note("foreign_target_decodes:" + kind)
		if !ok {
			return vstat.V("errors:extract-failed", "%s: ExtractObject into a %s target (%T) returned false for (%d bytes) %q, although json.Unmarshal decodes the embedded JSON text %s into such a target (as %s)",
				stage, kind, got, len(e.Error()), clip(e.Error()), clip(string(wantJSON)), clip(js(ref)))
		}
		if !sameForeign(got, ref) {
			return vstat.V("errors:extract-different-object", "%s: ExtractObject left a %s target (%T) as %s, json.Unmarshal of the embedded text %s leaves such a target as %s (message %q)",
				stage, kind, got, clip(js(got)), clip(string(wantJSON)), clip(js(ref)), clip(e.Error()))
		}
		return nil
	}
	note("foreign_target_cannot_take_the_object:" + kind)
	if ok {
		return vstat.V("errors:extract-reported-undecodable", "%s: ExtractObject into a %s target (%T) returned true (target now %s), although json.Unmarshal of the embedded JSON text %s into such a target fails: %v (message %q)",
			stage, kind, got, clip(js(got)), clip(string(wantJSON)), refErr, clip(e.Error()))
	}
	return nil
}

// sameForeign compares two targets. A json.RawMessage inside a target (kinds loose, typed) keeps the JSON text of its
// part verbatim, and the text EmbedObject wrote may spell a string differently from the reference text the harness
// computes (an invalid byte of the object is written as the escape \ufffd, the reference object holds U+FFFD itself):
// targets that differ are compared once more by their JSON forms re-rendered through interface{} values.
func sameForeign(got, ref any) bool {
	if reflect.DeepEqual(got, ref) && js(got) == js(ref) {
		return true
	}
	g, okG := viaAny([]byte(js(got)))
	r, okR := viaAny([]byte(js(ref)))
	return okG && okR && string(g) == string(r)
}

// ---- objects whose MarshalJSON writes more than their decoding side declares (Lit shapes, lit.go) ----

// quota marshals with a "kind" discriminator (for readers in other languages) and has no UnmarshalJSON: its own
// decoding side does not know the key.
type quota struct {
	User  string `json:"user"`
	Limit int    `json:"limit"`
}

func (q quota) MarshalJSON() ([]byte, error) {
	type plain quota
	return json.Marshal(struct {
		Kind string `json:"kind"`
		plain
	}{"quota", plain(q)})
}

// event does the same through a pointer receiver and writes two more keys, one of them an object.
type event struct {
	Name string   `json:"name"`
	Tags []string `json:"tags,omitempty"`
}

func (ev *event) MarshalJSON() ([]byte, error) {
	type plain event
	return json.Marshal(struct {
		Type string         `json:"@type"`
		Meta map[string]any `json:"meta"`
		*plain
	}{"type.example/event", map[string]any{"v": 2, "name": ev.Name}, (*plain)(ev)})
}

// envelope has anonymous embedded struct fields (by value and by pointer) whose keys appear at the top level.
type envelope struct {
	headPart
	*TailPart
	Body string `json:"body"`
}
