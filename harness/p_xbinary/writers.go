package p_xbinary

import (
	"bufio"
	"bytes"
	"errors"
	"fmt"
	"io"
	"runtime"
	"strconv"
	"strings"
	"sync"

	"github.com/acquirecloud/golibs/xbinary"
	"verifharness/internal/vstat"
)

// Destination kinds of a writer history.
const (
	DBuf   = "buf"   // *bytes.Buffer: an io.Writer that is also an io.StringWriter
	DPlain = "plain" // io.Writer only
	DFrame = "frame" // a framing writer: its Write sends p as one length-prefixed frame through ANOTHER ObjectsWriter
	DYield = "yield" // io.Writer only, yields the processor inside Write before it looks at p
	// DBufio is the prefix of "bufio:<size>:<fill>": ObjectsWriter.Writer is a *bufio.Writer of <size> bytes over an
	// io.Writer-only sink; the harness itself has written <fill> (<= size) bytes into it before the history starts, so
	// the first item finds size-fill bytes of free space (0 included) and the following ones whatever the history left.
	DBufio = "bufio"
	// DQuota is an io.Writer-only sink with a quota that the history switches on for single steps (WStep.Fail): while
	// it is on, the sink accepts `room` more bytes and answers the Write that does not fit with (what still fitted,
	// error) - n == 0 or a partial write 0 < n < len(p) with an error, as io.Writer allows (a full disk, a socket with
	// a full send buffer). Afterwards the SAME Writer value works again.
	DQuota = "quota"
)

// BufioDst names a bufio destination.
func BufioDst(size, fill int) string { return fmt.Sprintf("%s:%d:%d", DBufio, size, fill) }

func dstKind(d string) string {
	if strings.HasPrefix(d, DBufio+":") {
		return DBufio
	}
	return d
}

// WStep writes one item to the destination Dst (modulo the number of destinations). Fork: before the item is written,
// every framing destination of the goroutine gets a by-value copy of the goroutine's writer AS IT IS NOW as its inner
// writer (`inner = *ow`, Writer re-pointed to the frame's own output) - the sink of a writer then owns a copy of it.
//
// Fail: the sink is out of order for the duration of this step: it takes Room % size bytes (size = the item's
// encoding, so the step always meets the fault; 0 = the failing Write returns n == 0, otherwise a Write of the step is
// a partial one) and fails. A quota destination does that itself and recovers when the step is over; for every other
// kind the Writer field points to a failing writer for this step and is re-pointed to the healthy destination by the
// next one. What ObjectsWriter returns for the failing step and what a torn item left in the sink is NOT judged (C15
// says nothing about a failing Writer; the sink's owner drops the torn bytes); the steps before and after it are
// ordinary writes and are judged as ever.
type WStep struct {
	Item Item `json:"item"`
	Dst  int  `json:"dst"`
	Fork bool `json:"fork,omitempty"`
	Fail bool `json:"fail,omitempty"`
	Room int  `json:"room,omitempty"`
}

// Case15W is a writer history for C15: every sequence is run by its own goroutine through ONE ObjectsWriter value
// whose exported Writer field is re-pointed before every item to one of that goroutine's own destinations
// (one instance of every kind in Dsts per goroutine). One sequence = no concurrency.
//
// ObjectsWriter is a plain exported struct (an exported io.Writer field and a scratch array), it carries no "must not be
// copied" remark and the package's own tests use it as a value, so `w2 := w1` is an ordinary way to obtain a writer.
// Copy: a base writer first writes the items Pre into a bytes.Buffer (none: it stays unused); then every writer of the
// history - the one of each goroutine and the inner one of each framing destination - starts as `w := base`, a by-value
// copy of that base writer, instead of a zero value. The copies are used interleaved (a framing destination encodes its
// frame header with its copy while the outer copy is inside Writer.Write) and by different goroutines on separate sinks.
type Case15W struct {
	Dsts []string  `json:"dsts"`
	Seqs [][]WStep `json:"seqs"`
	P1   bool      `json:"p1,omitempty"` // run with GOMAXPROCS(1)
	Pre  []Item    `json:"pre,omitempty"`
	Copy bool      `json:"copy,omitempty"`
	// PreFail > 0 (with Copy and a non-empty Pre): the sink of the base writer fails during the LAST item of Pre
	// after (PreFail-1) % size bytes - the writers of the history are copies of a writer whose last call failed.
	PreFail int `json:"prefail,omitempty"`
}

// Hash identifies the case.
func (c Case15W) Hash() uint64 { return vstat.Hash(c) }

// Info15W is what the classifier needs.
type Info15W struct {
	Items          int
	Repoints       int // Writer field changed between two items
	Goroutines     int
	kinds          map[string]bool
	P1             bool
	StringsOrBytes int
	LowSpace       int // items written when the bufio destination had fewer than 10 free bytes
	NoSpace        int // ... had no free byte at all
	CopiesUsed     int // writer values that started as a by-value copy of a writer that had written something
	CopiesUnused   int // ... of a writer that had not
	Forks          int // framing destinations whose inner writer was replaced by a copy of the outer writer in mid-history
	ForksUsed      int // ... when the outer writer had already written something
	FailedSteps    int // steps during which the sink was out of order
	FailN0         int // Write calls that the sink answered with (0, error)
	FailPartial    int // Write calls that the sink answered with (n, error), 0 < n < len(p)
	AfterRecovered int // judged items written to the same Writer value whose previous call had failed
	AfterRepointed int // judged items written after the Writer field was re-pointed away from a sink that had just failed
	AfterFault     int // judged items written by a writer value that has seen a failing sink at some earlier time
	FailRuns       int // two or more failing steps in a row
	CopiesFailed   int // writer values that started as a by-value copy of a writer whose last call had failed
}

// NonTrivial: the history differs from "one fresh ObjectsWriter into one bytes.Buffer".
func (i Info15W) NonTrivial() bool {
	return i.Repoints > 0 || i.Goroutines > 1 || i.kinds[DFrame] || i.kinds[DYield] || i.kinds[DPlain] || i.kinds[DBufio] || i.kinds[DQuota] || i.CopiesUsed > 0 || i.ForksUsed > 0 || i.AfterFault > 0
}

// Classes for the histogram.
func (i Info15W) Classes() []string {
	c := []string{fmt.Sprintf("writers_goroutines_%d", i.Goroutines)}
	if i.Repoints > 0 {
		c = append(c, "writers_Writer_field_repointed")
	}
	for _, k := range []string{DBuf, DPlain, DFrame, DYield, DBufio, DQuota} {
		if i.kinds[k] {
			c = append(c, "writers_dst_"+k)
		}
	}
	if i.LowSpace > 0 {
		c = append(c, "writers_bufio_item_met_lt_10_free_bytes")
	}
	if i.NoSpace > 0 {
		c = append(c, "writers_bufio_item_met_0_free_bytes")
	}
	if i.P1 {
		c = append(c, "writers_GOMAXPROCS_1")
	}
	if i.StringsOrBytes >= 2 {
		c = append(c, "writers_ge_2_byte_strings")
	}
	if i.CopiesUsed > 0 {
		c = append(c, "writers_are_copies_of_a_used_writer")
		if i.kinds[DFrame] {
			c = append(c, "writers_copies_of_a_used_writer_nested_in_framing_sink")
		}
		if i.Goroutines > 1 {
			c = append(c, "writers_copies_of_a_used_writer_on_ge_2_goroutines")
		}
	}
	if i.CopiesUnused > 0 {
		c = append(c, "writers_are_copies_of_an_unused_writer")
	}
	if i.Forks > 0 {
		c = append(c, "writers_framing_sink_given_copy_of_outer_writer")
	}
	if i.ForksUsed > 0 {
		c = append(c, "writers_framing_sink_given_copy_of_used_outer_writer")
	}
	if i.FailedSteps > 0 {
		c = append(c, "writers_sink_failed_during_a_step")
	}
	if i.FailN0 > 0 {
		c = append(c, "writers_sink_failed_with_n_0")
	}
	if i.FailPartial > 0 {
		c = append(c, "writers_sink_partial_write_with_error")
	}
	if i.FailRuns > 0 {
		c = append(c, "writers_sink_failed_ge_2_steps_in_a_row")
	}
	if i.AfterFault > 0 {
		c = append(c, "writers_item_judged_after_a_sink_failure")
	}
	if i.AfterRecovered > 0 {
		c = append(c, "writers_item_judged_on_recovered_sink_same_Writer_value")
	}
	if i.AfterRepointed > 0 {
		c = append(c, "writers_item_judged_after_Writer_repointed_from_failed_sink")
	}
	if i.CopiesFailed > 0 {
		c = append(c, "writers_are_copies_of_a_writer_whose_last_call_failed")
	}
	return c
}

type dest interface {
	// target is what ObjectsWriter.Writer is pointed at
	target() io.Writer
	// payload returns the bytes the destination received (the concatenated frame bodies for a framing writer)
	payload() ([]byte, *vstat.Violation)
}

type bufDest struct{ *bytes.Buffer } // Write and WriteString are promoted: io.StringWriter

func (d bufDest) target() io.Writer                   { return d }
func (d bufDest) payload() ([]byte, *vstat.Violation) { return d.Bytes(), nil }

type plainDest struct{ b []byte }

func (d *plainDest) Write(p []byte) (int, error)         { d.b = append(d.b, p...); return len(p), nil }
func (d *plainDest) target() io.Writer                   { return d }
func (d *plainDest) payload() ([]byte, *vstat.Violation) { return d.b, nil }

type yieldDest struct{ b []byte }

func (d *yieldDest) Write(p []byte) (int, error) {
	runtime.Gosched()
	d.b = append(d.b, p...)
	return len(p), nil
}
func (d *yieldDest) target() io.Writer                   { return d }
func (d *yieldDest) payload() ([]byte, *vstat.Violation) { return d.b, nil }

// quotaDest is an io.Writer and nothing else. While limited it accepts room more bytes - they go to the torn counter,
// not to the payload: the owner of the sink drops what a failed item left behind - and fails the Write that does not
// fit with (what fitted, errQuota); room < the size of the item of the step, so one Write of the step fails.
type quotaDest struct {
	b       []byte
	limited bool
	room    int
	torn    int
	n0      int // failing Writes answered with n == 0
	partial int // ... with 0 < n < len(p)
}

var errQuota = errors.New("harness sink: out of space for now")

func (d *quotaDest) limit(room int) { d.limited, d.room = true, room }
func (d *quotaDest) heal()          { d.limited, d.room = false, 0 }

func (d *quotaDest) Write(p []byte) (int, error) {
	if !d.limited {
		d.b = append(d.b, p...)
		return len(p), nil
	}
	if len(p) <= d.room {
		d.room -= len(p)
		d.torn += len(p)
		return len(p), nil
	}
	k := d.room
	d.room = 0
	d.torn += k
	if k == 0 {
		d.n0++
	} else {
		d.partial++
	}
	return k, errQuota
}
func (d *quotaDest) target() io.Writer                   { return d }
func (d *quotaDest) payload() ([]byte, *vstat.Violation) { return d.b, nil }

// bufioDest: the target is the *bufio.Writer itself (what a caller who buffers a file or a socket hands to
// ObjectsWriter), already holding `fill` bytes written by the harness.
type bufioDest struct {
	bw    *bufio.Writer
	under plainDest
	fill  []byte
}

func newBufioDest(kind string) *bufioDest {
	parts := strings.Split(kind, ":")
	if len(parts) != 3 {
		panic("bad bufio destination " + kind)
	}
	size, err1 := strconv.Atoi(parts[1])
	fill, err2 := strconv.Atoi(parts[2])
	if err1 != nil || err2 != nil || size < 1 || size > 1<<20 || fill < 0 {
		panic("bad bufio destination " + kind)
	}
	fill = min(fill, size)
	d := &bufioDest{fill: make([]byte, fill)}
	for j := range d.fill {
		d.fill[j] = canary(j)
	}
	d.bw = bufio.NewWriterSize(&d.under, size)
	if k, err := d.bw.Write(d.fill); k != fill || err != nil {
		panic(fmt.Sprintf("harness: bufio.Writer.Write returned (%d, %v)", k, err))
	}
	return d
}

func (d *bufioDest) target() io.Writer { return d.bw }

func (d *bufioDest) payload() ([]byte, *vstat.Violation) {
	if err := d.bw.Flush(); err != nil {
		panic(fmt.Sprintf("harness: bufio.Writer.Flush returned %v", err))
	}
	if len(d.under.b) < len(d.fill) || !bytes.Equal(d.under.b[:len(d.fill)], d.fill) {
		return nil, vstat.V("xbin:writer-history-bytes", "bufio.Writer: the %d bytes written before the first item did not arrive intact: %s", len(d.fill), short(d.under.b))
	}
	return d.under.b[len(d.fill):], nil
}

// frameDest uses p only during the call (as io.Writer demands): it is marshalled as one frame by a second ObjectsWriter.
type frameDest struct {
	inner xbinary.ObjectsWriter
	out   bytes.Buffer
	bad   *vstat.Violation
}

// newFrameDest: the inner writer is a zero value or (from != nil) a by-value copy of *from.
func newFrameDest(from *xbinary.ObjectsWriter) *frameDest {
	d := &frameDest{}
	if from != nil {
		d.inner = *from
	}
	d.inner.Writer = &d.out
	return d
}

// adopt replaces the inner writer by a by-value copy of *from (called between two items of the owning goroutine).
func (d *frameDest) adopt(from *xbinary.ObjectsWriter) {
	d.inner = *from
	d.inner.Writer = &d.out
}

func (d *frameDest) Write(p []byte) (int, error) {
	want := xbinary.WritebleBytesSize(p)
	n, err := d.inner.WriteBytes(p)
	if (err != nil || n != want) && d.bad == nil {
		d.bad = vstat.V("xbin:writer-count", "framing writer: inner ObjectsWriter.WriteBytes of %d bytes returned (%d, %v), predicted %d", len(p), n, err, want)
	}
	return len(p), nil
}

func (d *frameDest) target() io.Writer { return d }

func (d *frameDest) payload() ([]byte, *vstat.Violation) {
	if d.bad != nil {
		return nil, d.bad
	}
	var body []byte
	rest := d.out.Bytes()
	for len(rest) > 0 {
		n, b, err := xbinary.UnmarshalBytes(rest, false)
		if err != nil || n <= 0 || n > len(rest) {
			return nil, vstat.V("xbin:writer-frame-corrupt", "framing writer: the %d bytes it emitted do not parse as frames at offset %d: n=%d err=%v", d.out.Len(), d.out.Len()-len(rest), n, err)
		}
		body = append(body, b...)
		rest = rest[n:]
	}
	return body, nil
}

func newDest(kind string, from *xbinary.ObjectsWriter) dest {
	switch dstKind(kind) {
	case DBufio:
		return newBufioDest(kind)
	case DBuf:
		return bufDest{&bytes.Buffer{}}
	case DPlain:
		return &plainDest{}
	case DYield:
		return &yieldDest{}
	case DQuota:
		return &quotaDest{}
	case DFrame:
		return newFrameDest(from)
	}
	panic("bad destination kind " + kind)
}

// Run15W executes a writer history. Oracle (C15: "ObjectsWriter and Marshal emit identical bytes", counts == sizes):
// every write returns (size, nil) and every destination ends up with exactly the concatenation of the Marshal
// encodings of the items that were directed to it, in order. The steps with Fail (the sink is out of order while they
// run) are the exception: neither their result nor their bytes are judged - every other step is, whatever failed before it.
func Run15W(c Case15W) (info Info15W, v *vstat.Violation) {
	defer func() {
		if r := recover(); r != nil {
			v = panicViolation("xbin:c15-panic", r)
		}
	}()
	if len(c.Dsts) == 0 {
		panic("Case15W without destinations")
	}
	info.Goroutines = len(c.Seqs)
	info.P1 = c.P1
	info.kinds = map[string]bool{}
	type prepared struct {
		cds   []codec
		want  [][]byte // per destination
		dsts  []dest
		ow    *xbinary.ObjectsWriter
		v     *vstat.Violation
		low   int
		full  int
		forks [2]int // framing destinations that adopted a copy of the outer writer: [0] all, [1] when it had written
		// sink failures: steps, Writes answered (0, err) / (0<n<len, err), judged items on the recovered Writer value /
		// after a re-point away from the failed sink / any time after a failure, runs of >= 2 failing steps
		failed, n0, partial, recovered, repointed, after, runs int
	}
	var scratch Info15
	// the base writer: used for the items Pre (oracle as for every other write), then only copied
	var base *xbinary.ObjectsWriter
	baseFailed := false
	if c.Copy {
		var preBuf, preWant bytes.Buffer
		base = &xbinary.ObjectsWriter{Writer: &preBuf}
		for i, it := range c.Pre {
			cd := it.codec(&scratch)
			enc := make([]byte, cd.size)
			if n, err := cd.marshal(enc); err != nil || n != cd.size {
				return info, vstat.V("xbin:size-law", "base writer item #%d %s: Marshal into the predicted size %d returned (%d, %v)", i, cd.name, cd.size, n, err)
			}
			if c.PreFail > 0 && i == len(c.Pre)-1 && cd.size > 0 {
				// the base writer's last call meets a failing sink (not judged); its earlier items are judged below
				lim := &quotaDest{}
				lim.limit((c.PreFail - 1) % cd.size)
				base.Writer = lim
				cd.write(base)
				base.Writer = &preBuf
				baseFailed = true
				info.FailedSteps++
				info.FailN0 += lim.n0
				info.FailPartial += lim.partial
				break
			}
			preWant.Write(enc)
			if n, err := cd.write(base); err != nil || n != cd.size {
				return info, vstat.V("xbin:writer-count", "base writer item #%d %s: ObjectsWriter returned (%d, %v), Marshal wrote %d", i, cd.name, n, err, cd.size)
			}
		}
		if !bytes.Equal(preBuf.Bytes(), preWant.Bytes()) {
			return info, vstat.V("xbin:writer-bytes", "base writer: ObjectsWriter emitted %s, Marshal %s", short(preBuf.Bytes()), short(preWant.Bytes()))
		}
	}
	copied := func(n int) {
		if base == nil {
			return
		}
		if len(c.Pre) > 0 {
			info.CopiesUsed += n
		} else {
			info.CopiesUnused += n
		}
		if baseFailed {
			info.CopiesFailed += n
		}
	}
	ps := make([]*prepared, len(c.Seqs))
	for g, seq := range c.Seqs {
		p := &prepared{want: make([][]byte, len(c.Dsts)), ow: &xbinary.ObjectsWriter{}}
		if base != nil {
			w := *base // by-value copy of the (used) base writer
			p.ow = &w
			copied(1)
		}
		for _, k := range c.Dsts {
			p.dsts = append(p.dsts, newDest(k, base))
			if dstKind(k) == DFrame {
				copied(1)
			}
		}
		last := -1
		for i, st := range seq {
			cd := st.Item.codec(&scratch)
			enc := make([]byte, cd.size)
			if n, err := cd.marshal(enc); err != nil || n != cd.size {
				return info, vstat.V("xbin:size-law", "goroutine %d item #%d %s: Marshal into the predicted size %d returned (%d, %v)", g, i, cd.name, cd.size, n, err)
			}
			j := st.Dst % len(c.Dsts)
			if j < 0 {
				j += len(c.Dsts)
			}
			if !st.Fail {
				p.want[j] = append(p.want[j], enc...)
			}
			p.cds = append(p.cds, cd)
			info.kinds[dstKind(c.Dsts[j])] = true
			if last >= 0 && last != j {
				info.Repoints++
			}
			last = j
			if cd.body >= 0 {
				info.StringsOrBytes++
			}
			info.Items++
		}
		ps[g] = p
	}
	if c.P1 {
		defer runtime.GOMAXPROCS(runtime.GOMAXPROCS(1))
	}
	run := func(g int) {
		p := ps[g]
		defer func() {
			if r := recover(); r != nil {
				p.v = panicViolation("xbin:c15-panic", r)
			}
		}()
		ow := p.ow
		// the Writer value of the previous step when that step failed (nil otherwise); has this writer ever met a failure
		var failedOn io.Writer
		everFailed, failRun := baseFailed, 0
		for i, st := range c.Seqs[g] {
			j := st.Dst % len(c.Dsts)
			if j < 0 {
				j += len(c.Dsts)
			}
			if st.Fork {
				for _, d := range p.dsts {
					if fd, ok := d.(*frameDest); ok {
						fd.adopt(ow)
						p.forks[0]++
						if i > 0 || (base != nil && len(c.Pre) > 0) {
							p.forks[1]++
						}
					}
				}
			}
			if st.Fail {
				// the sink is out of order during this step: a quota destination itself (it recovers afterwards), any
				// other kind by way of a failing writer that the Writer field points to for this step only
				qd, own := p.dsts[j].(*quotaDest)
				if !own {
					qd = &quotaDest{}
				}
				n0, partial := qd.n0, qd.partial
				qd.limit(max(st.Room, 0) % max(p.cds[i].size, 1))
				ow.Writer = qd
				p.cds[i].write(ow) // not judged
				qd.heal()
				p.failed++
				p.n0 += qd.n0 - n0
				p.partial += qd.partial - partial
				failedOn, everFailed = qd, true
				if failRun++; failRun == 2 {
					p.runs++
				}
				continue
			}
			failRun = 0
			ow.Writer = p.dsts[j].target()
			if everFailed {
				p.after++
			}
			if failedOn != nil {
				if ow.Writer == failedOn {
					p.recovered++
				} else {
					p.repointed++
				}
				failedOn = nil
			}
			if bw, ok := ow.Writer.(*bufio.Writer); ok {
				if a := bw.Available(); a == 0 {
					p.full++
					p.low++
				} else if a < 10 {
					p.low++
				}
			}
			n, err := p.cds[i].write(ow)
			if (err != nil || n != p.cds[i].size) && p.v == nil {
				p.v = vstat.V("xbin:writer-count", "goroutine %d item #%d %s to destination %d (%s): ObjectsWriter returned (%d, %v), Marshal wrote %d", g, i, p.cds[i].name, j, c.Dsts[j], n, err, p.cds[i].size)
			}
		}
	}
	if len(c.Seqs) == 1 {
		run(0)
	} else {
		var wg sync.WaitGroup
		start := make(chan struct{})
		for g := range c.Seqs {
			wg.Add(1)
			go func() {
				defer wg.Done()
				<-start
				run(g)
			}()
		}
		close(start)
		wg.Wait()
	}
	for _, p := range ps {
		info.LowSpace += p.low
		info.NoSpace += p.full
		info.Forks += p.forks[0]
		info.ForksUsed += p.forks[1]
		info.FailedSteps += p.failed
		info.FailN0 += p.n0
		info.FailPartial += p.partial
		info.AfterRecovered += p.recovered
		info.AfterRepointed += p.repointed
		info.AfterFault += p.after
		info.FailRuns += p.runs
	}
	for g, p := range ps {
		if p.v != nil {
			return info, p.v
		}
		for j, d := range p.dsts {
			got, v := d.payload()
			if v != nil {
				v.Msg = fmt.Sprintf("goroutine %d destination %d: %s", g, j, v.Msg)
				return info, v
			}
			if !bytes.Equal(got, p.want[j]) {
				at := 0
				for at < len(got) && at < len(p.want[j]) && got[at] == p.want[j][at] {
					at++
				}
				return info, vstat.V("xbin:writer-history-bytes", "goroutine %d destination %d (%s) received %d bytes %s, the Marshal encodings of the items directed to it are %d bytes %s (first difference at offset %d)",
					g, j, c.Dsts[j], len(got), short(got), len(p.want[j]), short(p.want[j]), at)
			}
		}
	}
	return info, nil
}
