package p_xbinary

import (
	"bytes"
	"encoding/binary"
	"fmt"
	"runtime"
	"runtime/debug"
	"sync"
	"sync/atomic"
	"unsafe"

	"verifharness/internal/vstat"
)

// Case16B is a complete record with a body of tens of MiB whose content is non-zero and different at every position
// (patternFill of Seed), decoded under a chosen scheduling regime: Pad extra continuation groups make the prefix
// over-long, More bytes follow the record; Procs > 0 is the GOMAXPROCS value during the calls (1: the calling goroutine
// owns the only processor), Busy sibling goroutines compute and yield all the time while the decoders run, Rounds
// (>= 1) repetitions of the newBuf=true calls. A 80 MiB input is a few bytes of JSON.
type Case16B struct {
	L      int    `json:"l"`
	Seed   uint64 `json:"seed,omitempty"`
	Pad    int    `json:"pad,omitempty"`
	More   int    `json:"more,omitempty"`
	Procs  int    `json:"procs,omitempty"`
	Busy   int    `json:"busy,omitempty"`
	Rounds int    `json:"rounds,omitempty"`
	// Sparse: the record lies in the arena of the huge bodies (huge.go: zeroed address space that the operating system
	// backs lazily) and only blocks of 4 KiB at the start of the body, at every multiple of 2^28 and at its end carry the
	// pattern, the rest is zero - the way a body of 2 GiB and more is affordable: the input costs no memory, only the
	// copies that newBuf=true makes do.
	Sparse bool `json:"sparse,omitempty"`
}

// Hash identifies the case.
func (c Case16B) Hash() uint64 { return vstat.Hash(c) }

// Info16B is what the classifier needs.
type Info16B struct {
	Info16
	Body   int
	Procs  int
	Busy   int
	Copies int   // newBuf=true results compared in full right after the call
	Bytes  int64 // their total size
	Sparse bool
	// NoArena: the address space for a sparse case could not be had - nothing was decided
	NoArena bool
}

// NonTrivial: the body is at least 2^25 bytes and was copied at least once.
func (i Info16B) NonTrivial() bool { return i.Body >= 1<<25 && i.Copies > 0 }

// Classes for the histogram.
func (i Info16B) Classes() []string {
	c := append(i.Info16.Classes(), "big_record")
	if i.Sparse {
		c = append(c, "big_record_sparse_content_in_lazily_backed_arena")
	}
	switch {
	case i.Body >= 1<<32:
		c = append(c, "big_record_body_ge_4GiB")
	case i.Body >= 1<<31:
		c = append(c, "big_record_body_2GiB_to_4GiB")
	case i.Body >= 1<<30:
		c = append(c, "big_record_body_1GiB_to_2GiB")
	case i.Body >= 64<<20:
		c = append(c, "big_record_body_ge_64MiB")
	case i.Body >= 32<<20:
		c = append(c, "big_record_body_32MiB_to_64MiB")
	default:
		c = append(c, "big_record_body_lt_32MiB")
	}
	if i.Body >= 1<<24 && i.Body&(1<<24-1) == 0 {
		c = append(c, "big_record_body_whole_number_of_2^24_byte_blocks")
	}
	switch {
	case i.Procs == 1:
		c = append(c, "big_record_GOMAXPROCS_1")
	case i.Procs > 1:
		c = append(c, "big_record_GOMAXPROCS_set_gt_1")
	default:
		c = append(c, "big_record_GOMAXPROCS_default")
	}
	if i.Busy > 0 {
		c = append(c, "big_record_busy_sibling_goroutines")
		if i.Procs == 1 {
			c = append(c, "big_record_GOMAXPROCS_1_and_busy_sibling_goroutines")
		}
	}
	return c
}

// patternFill writes a non-zero, position-dependent pattern: the k-th 8-byte word is (k+seed) times an odd constant with
// the lowest bit of every byte set. No byte is zero, and two ranges at different offsets differ (the product is a
// bijection of k; forcing eight bits leaves 56 position-dependent ones per word).
func patternFill(b []byte, seed uint64) {
	k := seed
	i := 0
	for ; i+8 <= len(b); i += 8 {
		binary.LittleEndian.PutUint64(b[i:], k*0x9e3779b97f4a7c15|0x0101010101010101)
		k++
	}
	if i < len(b) {
		var w [8]byte
		binary.LittleEndian.PutUint64(w[:], k*0x9e3779b97f4a7c15|0x0101010101010101)
		copy(b[i:], w[:])
	}
}

var bigScratch []byte

// sparseBlock is the size of the patterned blocks of a sparse record.
const sparseBlock = 4 << 10

const bigChunk = 1 << 20

// checkCopyNow applies C16's "the returned bytes are a copy of a range of the input" to a large result AS IT IS WHEN
// THE CALL RETURNS: the result is read once, from its far end backwards, in chunks that are first copied to a scratch
// buffer (a frozen observation) and then compared with the range a decoder that consumed n bytes takes them from,
// in[n-len:n]. A chunk that differs is searched at every place where it could lie if the result were a copy of ANY
// range in[i:i+len]; it is not there -> violation. (For a correct copy the result is stable, so the order and the
// moment of the reads do not matter; a result that is still being filled in behind the caller's back is caught by the
// first chunk that is not there yet.)
func checkCopyNow(d decoder16, in []byte, o out16, where lazy) *vstat.Violation {
	data := o.data
	ln := len(data)
	if ln > len(in) {
		return vstat.V("xbin:result-outside-input:"+d.name, "%s: returned %d bytes from an input of %d", where, ln, len(in))
	}
	if cap(bigScratch) < bigChunk {
		bigScratch = make([]byte, bigChunk)
	}
	at := o.n - ln // where the body of a record of n bytes starts
	if at < 0 || at+ln > len(in) {
		at = len(in) - ln
	}
	slack := len(in) - ln // the result may be a copy of in[i:i+ln] for i = 0..slack
	for b := ln; b > 0; b -= min(b, bigChunk) {
		a := b - min(b, bigChunk)
		snap := bigScratch[:b-a]
		copy(snap, data[a:b])
		if bytes.Equal(snap, in[at+a:at+b]) {
			continue
		}
		if slack <= 4096 {
			// in[i+a:i+b] for i = 0..slack all lie in in[a:b+slack]
			if bytes.Contains(in[a:b+slack], snap) {
				// this chunk is a copy of another range: decide on the whole
				if bytes.Contains(in, data) {
					return nil
				}
			}
		} else if bytes.Contains(in, data) {
			return nil
		}
		x := 0
		for x < len(snap) && snap[x] == in[at+a+x] {
			x++
		}
		x = min(x, len(snap)-1)
		return vstat.V("xbin:copy-not-from-input:"+d.name, "%s: read right after the call returned, the %d returned bytes are not a copy of any range of the input: result[%d] = %#02x, in[%d] = %#02x (result[%d:%d] observed as %s, the input has %s there)",
			where, ln, a+x, snap[x], at+a+x, in[at+a+x], a, b, short(snap), short(in[at+a:at+b]))
	}
	p := uintptr(unsafe.Pointer(unsafe.SliceData(data)))
	if inside(p, ln, in) {
		return vstat.V("xbin:newbuf-aliases-input:"+d.name, "%s: the result of newBuf=true lies inside the input buffer", where)
	}
	return nil
}

var busySink atomic.Uint64

// Run16B builds the record in place in the arena of the long-run cases (guard bytes, prefix, body, More bytes, guard
// bytes) and decodes it. Oracle: C16's per call for every Unmarshal function (check16) except that the results of the
// two newBuf=true decoders - copies of tens of MiB - are judged by checkCopyNow, immediately after the call returned
// and before the calling goroutine gives up its processor. Each copy is dropped and collected before the next call, so
// the process holds the input and one result at a time.
func Run16B(c Case16B) (info Info16B, v *vstat.Violation) {
	maxL := 1 << 30
	if c.Sparse {
		maxL = 1 << 33
	}
	if c.L < 0 || c.L > maxL || c.Pad < 0 || c.Pad > 8 || c.More < 0 || c.More > 1<<16 || c.Procs < 0 || c.Procs > 256 || c.Busy < 0 || c.Busy > 256 {
		panic(fmt.Sprintf("bad Case16B %+v", c))
	}
	prefix := PutUvarint(nil, uint64(c.L), c.Pad)
	n := len(prefix) + c.L + c.More
	var in []byte
	if c.Sparse {
		if !ReserveArena(n + arenaPage) {
			return Info16B{Body: c.L, Sparse: true, NoArena: true}, nil
		}
		in = zeroArena[:n:n]
		copy(in, prefix)
		defer releaseArena(0, len(prefix)+sparseBlock)
		body := in[len(prefix) : len(prefix)+c.L]
		for off := 0; off < c.L; off += 1 << 28 {
			blk := body[off:min(off+sparseBlock, c.L)]
			patternFill(blk, c.Seed+uint64(off))
			defer releaseArena(len(prefix)+off, len(blk))
		}
		if c.L > sparseBlock {
			patternFill(body[c.L-sparseBlock:], c.Seed+uint64(c.L))
		}
		defer releaseArena(n-c.More-min(c.L, sparseBlock), c.More+min(c.L, sparseBlock))
	} else {
		ReserveLong(8 + n + 32)
		a := longArena[: 8+n+32 : 8+n+32]
		for i := 0; i < 8; i++ {
			a[i] = 0xA5
		}
		for i := 8 + n; i < len(a); i++ {
			a[i] = 0xA5
		}
		in = a[8 : 8+n : 8+n]
		copy(in, prefix)
		patternFill(in[len(prefix):len(prefix)+c.L], c.Seed)
	}
	for i := len(prefix) + c.L; i < n; i++ {
		in[i] = byte(0xC0 + i%7)
	}
	info = Info16B{Info16: Classify(in), Body: c.L, Procs: c.Procs, Busy: c.Busy, Sparse: c.Sparse}

	if c.Procs > 0 {
		defer runtime.GOMAXPROCS(runtime.GOMAXPROCS(c.Procs))
	}
	// the siblings: compute, yield, compute ... until told to stop; the calls start when all of them are running
	var stop atomic.Bool
	var started atomic.Int32
	var wg sync.WaitGroup
	for g := 0; g < c.Busy; g++ {
		wg.Add(1)
		go func() {
			defer wg.Done()
			started.Add(1)
			x := uint64(g) + 1
			for !stop.Load() {
				for k := 0; k < 2048; k++ {
					x = x*0x9e3779b97f4a7c15 + 1
				}
				busySink.Store(x)
				runtime.Gosched()
			}
		}()
	}
	defer func() {
		stop.Store(true)
		wg.Wait()
	}()
	for int(started.Load()) < c.Busy {
		runtime.Gosched()
	}

	for r := 0; r < max(c.Rounds, 1); r++ {
		for _, d := range decoders16 {
			if !d.newBuf {
				if r == 0 {
					if _, v := check16(d, in, "cap==len"); v != nil {
						return info, v
					}
				}
				continue
			}
			var o out16
			if v := guard16(d, in, &o); v != nil {
				v.Msg = fmt.Sprintf("%s(%s) %s", d.name, short(in), v.Msg)
				return info, v
			}
			where := lazy(func() string {
				return fmt.Sprintf("%s(%s) [GOMAXPROCS %d, %d busy goroutines, round %d]", d.name, short(in), runtime.GOMAXPROCS(0), c.Busy, r)
			})
			switch {
			case o.err != nil:
				if o.n != 0 {
					return info, vstat.V("xbin:error-with-consumed:"+d.name, "%s: failed (%v) but reports %d bytes consumed", where, o.err, o.n)
				}
			case o.n <= 0 || o.n > len(in):
				return info, vstat.V("xbin:consumed-out-of-range:"+d.name, "%s: succeeded with n=%d for an input of %d bytes", where, o.n, len(in))
			case len(o.data) > 0:
				if v := checkCopyNow(d, in, o, where); v != nil {
					return info, v
				}
				info.Copies++
				info.Bytes += int64(len(o.data))
			}
			o = out16{}
			debug.FreeOSMemory() // collect the copy and hand its memory back before the next one is made
		}
	}
	return info, nil
}
