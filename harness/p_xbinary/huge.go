package p_xbinary

import (
	"bytes"
	"fmt"
	"runtime/debug"
	"syscall"
	"unsafe"

	"github.com/acquirecloud/golibs/xbinary"
	"verifharness/internal/vstat"
)

// Case15Z is a byte string / string of L zero bytes - the value class "too large to copy around": lengths with a
// 5-byte prefix (>= 2^28) and beyond 1 GiB. The value is a window of an arena of zeroed memory whose pages are never
// written (the operating system backs it lazily, so a 1 GiB value costs address space, not resident memory), the sink
// only counts what it is given, and the round trip is done in place: the prefix the writer emitted is put in front of
// the arena's zero bytes and decoded from there with newBuf=false. Nothing here copies or scans the body.
type Case15Z struct {
	K string `json:"k"` // KBytes or KString
	L int    `json:"l"`
	// Copy: the stream is also decoded with newBuf=true - the one step that does copy the body (the process then holds
	// L bytes of resident memory): (size, L bytes equal to the body, nil), outside the source's memory.
	Copy bool `json:"copy,omitempty"`
}

// Hash identifies the case.
func (c Case15Z) Hash() uint64 { return vstat.Hash(c) }

// Info15Z is what the classifier needs.
type Info15Z struct {
	L      int
	Prefix int
	Calls  int // Write calls the sink saw
	// NoArena: the address space for the case could not be had - nothing was decided
	NoArena bool
	Copied  bool // decoded with newBuf=true as well
}

// NonTrivial: the length is at a prefix boundary or the body is larger than 1 GiB.
func (i Info15Z) NonTrivial() bool { return near7(uint64(i.L)) || i.L > 1<<30 }

// Classes for the histogram.
func (i Info15Z) Classes() []string {
	c := []string{"huge_zero_body", fmt.Sprintf("bytes_prefix_groups_%d", groups(uint64(i.L)))}
	switch {
	case i.L > 1<<32:
		c = append(c, "huge_body_gt_4GiB")
	case i.L > 1<<31:
		c = append(c, "huge_body_2GiB_to_4GiB")
	case i.L > 1<<30:
		c = append(c, "huge_body_1GiB_to_2GiB")
	case i.L >= 1<<28:
		c = append(c, "huge_body_256MiB_to_1GiB")
	}
	if near7(uint64(i.L)) {
		c = append(c, "near_7bit_group_boundary")
	}
	if i.Copied {
		c = append(c, "huge_body_decoded_with_newBuf_true")
		if i.L > 1<<31-1 {
			c = append(c, "huge_body_gt_MaxInt32_decoded_with_newBuf_true")
		}
	}
	return c
}

var (
	zeroArena   []byte
	arenaMapped bool // the arena is an anonymous mapping of its own (not a Go heap object)
)

const arenaPage = 1 << 16 // granularity of the arena's size and of releaseArena (a multiple of every usual page size)

// ReserveArena makes sure the arena holds n bytes of zeroed memory that nothing has touched yet: an anonymous private
// mapping made with MAP_NORESERVE (address space only - no commit charge, pages appear when they are first written,
// reading an untouched page reads the kernel's zero page), without transparent huge pages so that touching ten bytes
// costs one small page. If the mapping cannot be had, a fresh Go allocation does the same job up to 6 GiB (it comes
// straight from the operating system, already zero, so the runtime does not clear it); beyond that the answer is
// false - the environment has no room for the case, which is then not decided (never a violation). Reserve once, for
// the largest case of the run.
func ReserveArena(n int) bool {
	if cap(zeroArena) >= n {
		return true
	}
	n = (n + arenaPage - 1) &^ (arenaPage - 1)
	b, err := syscall.Mmap(-1, 0, n, syscall.PROT_READ|syscall.PROT_WRITE, syscall.MAP_PRIVATE|syscall.MAP_ANON|syscall.MAP_NORESERVE)
	if err != nil && n > 6<<30 {
		return false
	}
	if arenaMapped {
		syscall.Munmap(zeroArena[:cap(zeroArena)])
	}
	zeroArena, arenaMapped = nil, false
	if err == nil {
		_ = syscall.Madvise(b, syscall.MADV_NOHUGEPAGE)
		zeroArena, arenaMapped = b, true
		return true
	}
	zeroArena = make([]byte, n)
	return true
}

// releaseArena makes arena[off:off+n] zero again after the harness wrote there. A mapped arena gives the pages back
// to the operating system (they read as zero afterwards), so that a long run of cases which write a few bytes at
// scattered offsets of a many-GiB arena does not collect resident memory.
func releaseArena(off, n int) {
	if n <= 0 {
		return
	}
	clear(zeroArena[off : off+n])
	if !arenaMapped {
		return
	}
	lo := off &^ (arenaPage - 1)
	hi := min((off+n+arenaPage-1)&^(arenaPage-1), cap(zeroArena))
	_ = syscall.Madvise(zeroArena[lo:hi:hi], syscall.MADV_DONTNEED)
}

// countingSink is an io.Writer that counts: it keeps the first 16 bytes of the stream and never looks at the rest.
type countingSink struct {
	total int64
	calls int
	head  [16]byte
	nhead int
}

func (s *countingSink) Write(p []byte) (int, error) {
	if s.nhead < len(s.head) {
		s.nhead += copy(s.head[s.nhead:], p)
	}
	s.total += int64(len(p))
	s.calls++
	return len(p), nil
}

// Run15Z applies the parts of C15's oracle that need no copy of the body: size law (prefix of 1..10 bytes), every
// destination of 0..prefix+6 bytes is rejected with (0, error), ObjectsWriter returns the predicted size and hands the
// sink exactly that many bytes, and what it emitted decodes in place to (size, a value of L bytes at source[prefix]).
func Run15Z(c Case15Z) (info Info15Z, v *vstat.Violation) {
	defer func() {
		if r := recover(); r != nil {
			v = panicViolation("xbin:c15-panic", r)
		}
	}()
	L := c.L
	if L < 0 || L > 1<<36 || (c.K != KBytes && c.K != KString) {
		panic(fmt.Sprintf("bad Case15Z %+v", c))
	}
	info.L = L
	if !ReserveArena(L + 32) {
		info.NoArena = true
		return info, nil
	}
	a := zeroArena[: L+32 : L+32]
	val := a[:L:L]
	var (
		size    int
		name    string
		marshal func(dst []byte) (int, error)
		write   func(ow *xbinary.ObjectsWriter) (int, error)
		decode  func(src []byte) (n int, ptr *byte, ln int, err error)
		dup     func(src []byte) (n int, r []byte, err error) // newBuf=true; r views the result
	)
	if c.K == KBytes {
		name = "bytes"
		size = xbinary.WritebleBytesSize(val)
		marshal = func(dst []byte) (int, error) { return xbinary.MarshalBytes(val, dst) }
		write = func(ow *xbinary.ObjectsWriter) (int, error) { return ow.WriteBytes(val) }
		decode = func(src []byte) (int, *byte, int, error) {
			n, r, err := xbinary.UnmarshalBytes(src, false)
			return n, unsafe.SliceData(r), len(r), err
		}
		dup = func(src []byte) (int, []byte, error) { return xbinary.UnmarshalBytes(src, true) }
	} else {
		name = "string"
		s := unsafe.String(unsafe.SliceData(val), L)
		size = xbinary.WritableStringSize(s)
		marshal = func(dst []byte) (int, error) { return xbinary.MarshalString(s, dst) }
		write = func(ow *xbinary.ObjectsWriter) (int, error) { return ow.WriteString(s) }
		decode = func(src []byte) (int, *byte, int, error) {
			n, r, err := xbinary.UnmarshalString(src, false)
			return n, unsafe.StringData(r), len(r), err
		}
		dup = func(src []byte) (int, []byte, error) {
			n, r, err := xbinary.UnmarshalString(src, true)
			return n, strView(r), err
		}
	}
	where := fmt.Sprintf("%s of %d zero bytes", name, L)
	p := size - L
	info.Prefix = p
	if p < 1 || p > 10 {
		return info, vstat.V("xbin:size-law", "%s: predicted size %d, i.e. a prefix of %d bytes", where, size, p)
	}
	// destinations of 0..prefix+6 bytes (as far as they are shorter than the encoding)
	var small [16]byte
	for d := 0; d <= p+6 && d < size; d++ {
		n, err := marshal(small[:d:d])
		if err == nil {
			return info, vstat.V("xbin:short-dst-accepted", "%s: Marshal into %d bytes (needs %d) returned (%d, nil)", where, d, size, n)
		}
		if n != 0 {
			return info, vstat.V("xbin:short-dst-count", "%s: Marshal into %d bytes (needs %d) failed but returned n=%d, want 0", where, d, size, n)
		}
	}
	// the stream writer into a sink that counts
	sink := &countingSink{}
	ow := &xbinary.ObjectsWriter{Writer: sink}
	n, err := write(ow)
	info.Calls = sink.calls
	if err != nil || n != size {
		return info, vstat.V("xbin:writer-count", "%s: ObjectsWriter returned (%d, %v), the predicted size is %d and the sink received %d bytes in %d Write calls", where, n, err, size, sink.total, sink.calls)
	}
	if sink.total != int64(size) {
		return info, vstat.V("xbin:writer-bytes", "%s: ObjectsWriter returned (%d, nil) but the sink received %d bytes in %d Write calls", where, n, sink.total, sink.calls)
	}
	for j := p; j < sink.nhead; j++ {
		if sink.head[j] != 0 {
			return info, vstat.V("xbin:writer-bytes", "%s: the stream starts with %x, expected a prefix of %d bytes followed by the zero bytes of the body", where, sink.head[:sink.nhead], p)
		}
	}
	// round trip in place: the emitted prefix in front of L zero bytes of the arena (val is not used any more)
	src := a[:size:size]
	copy(src[:p], sink.head[:p])
	defer clear(a[:p])
	dn, ptr, ln, err := decode(src)
	if err != nil {
		return info, vstat.V("xbin:roundtrip-error", "%s: Unmarshal of the writer's prefix %x followed by the body failed: %v", where, sink.head[:p], err)
	}
	if dn != size {
		return info, vstat.V("xbin:roundtrip-consumed", "%s: Unmarshal consumed %d bytes, the writer wrote %d", where, dn, size)
	}
	if ln != L {
		return info, vstat.V("xbin:roundtrip-value", "%s: Unmarshal returned a value of %d bytes", where, ln)
	}
	if L > 0 && ptr != &src[p] {
		return info, vstat.V("xbin:nocopy-not-aliasing", "%s: the result does not start at source[%d] (newBuf=false must return the input range)", where, p)
	}
	if !c.Copy {
		return info, nil
	}
	// the same stream decoded with newBuf=true
	info.Copied = true
	defer debug.FreeOSMemory() // the copy is garbage when the case is over: hand its memory back
	dn, r, err := dup(src)
	if err != nil {
		return info, vstat.V("xbin:roundtrip-error", "%s: Unmarshal(newBuf=true) of the writer's prefix %x followed by the body failed (n=%d): %v", where, sink.head[:p], dn, err)
	}
	if dn != size {
		return info, vstat.V("xbin:roundtrip-consumed", "%s: Unmarshal(newBuf=true) consumed %d bytes, the writer wrote %d", where, dn, size)
	}
	if len(r) != L {
		return info, vstat.V("xbin:roundtrip-value", "%s: Unmarshal(newBuf=true) returned a value of %d bytes", where, len(r))
	}
	if L > 0 && inside(uintptr(unsafe.Pointer(unsafe.SliceData(r))), cap(r), src) {
		return info, vstat.V("xbin:newbuf-aliases-source", "%s: the result of newBuf=true (len %d, cap %d) is backed by the source buffer", where, len(r), cap(r))
	}
	for lo := 0; lo < L; lo += 1 << 24 {
		hi := min(lo+1<<24, L)
		if !bytes.Equal(r[lo:hi], src[p+lo:p+hi]) {
			return info, vstat.V("xbin:roundtrip-value", "%s: Unmarshal(newBuf=true) returned a value that differs from the body within [%d, %d)", where, lo, hi)
		}
	}
	return info, nil
}
