//go:build linux && (amd64 || arm64)

package p_xbinary

import (
	"sync"
	"syscall"
	"unsafe"
)

// The guard arena is one anonymous private mapping, made once per process and kept for its whole life:
//
//	[ one inaccessible page ][ guardData bytes, read/write ][ one inaccessible page ]
//
// A slice that ENDS at the last data byte has unmapped memory right behind it, a slice that BEGINS at the first data
// byte has unmapped memory right in front of it: a load or store of the code under test that leaves the slice on that
// side - through unsafe, assembly, a word-sized peek - faults instead of quietly reading a neighbour.
const guardData = 16 << 20

var (
	guardOnce sync.Once
	guardFull []byte // the whole mapping, nil if it could not be made
	guardPage int
	guardMu   sync.Mutex
)

func guardInit() {
	guardOnce.Do(func() {
		page := syscall.Getpagesize()
		if page <= 0 || guardData%page != 0 {
			return
		}
		m, err := syscall.Mmap(-1, 0, guardData+2*page, syscall.PROT_READ|syscall.PROT_WRITE, syscall.MAP_ANON|syscall.MAP_PRIVATE)
		if err != nil {
			return
		}
		if syscall.Mprotect(m[:page], syscall.PROT_NONE) != nil || syscall.Mprotect(m[page+guardData:], syscall.PROT_NONE) != nil {
			_ = syscall.Munmap(m)
			return
		}
		guardFull, guardPage = m, page
	})
}

// guardAvailable reports whether this process has a guard arena.
func guardAvailable() bool {
	guardInit()
	return guardFull != nil
}

// guardCapacity is the longest slice that can be placed.
func guardCapacity() int {
	if !guardAvailable() {
		return 0
	}
	return guardData
}

// guardAcquire / guardRelease: one placed slice at a time per side (the arena is shared by the whole process).
func guardAcquire() { guardMu.Lock() }
func guardRelease() { guardMu.Unlock() }

// guardSlice returns n bytes of the arena with len == cap == n that end at the inaccessible page behind the data
// (atEnd) or begin right behind the inaccessible page in front of it (!atEnd). n == 0 gives an empty slice whose data
// pointer is the boundary itself. The two placements do not overlap as long as 2n <= guardData. Call with the arena
// acquired, n <= guardCapacity().
func guardSlice(n int, atEnd bool) []byte {
	off := guardPage
	if atEnd {
		off = guardPage + guardData - n
	}
	return unsafe.Slice(&guardFull[off], n)
}

// guardWhere says where a faulting address lies relative to the arena ("" = not in or next to it).
func guardWhere(addr uintptr) string {
	if guardFull == nil {
		return ""
	}
	base := uintptr(unsafe.Pointer(&guardFull[0]))
	switch {
	case addr >= base && addr < base+uintptr(guardPage):
		return "in the inaccessible page in front of the buffer"
	case addr >= base+uintptr(guardPage+guardData) && addr < base+uintptr(len(guardFull)):
		return "in the inaccessible page behind the buffer"
	}
	return ""
}
