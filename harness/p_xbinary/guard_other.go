//go:build !(linux && (amd64 || arm64))

package p_xbinary

// No guard arena on this platform: the guard-page presentations are skipped (class guard_pages_unavailable and an
// "inconclusive" note in the evidence), everything else runs as usual.

func guardAvailable() bool                { return false }
func guardCapacity() int                  { return 0 }
func guardAcquire()                       {}
func guardRelease()                       {}
func guardSlice(n int, atEnd bool) []byte { panic("no guard arena") }
func guardWhere(addr uintptr) string      { return "" }
