package p_xbinary

import (
	"bytes"
	"encoding/hex"
	"fmt"
	"strings"

	"verifharness/internal/vstat"
)

// Case16H is a buffer-reuse history for C16: the inputs (hex) are copied one after the other into the SAME memory
// and decoded from there, as a caller with one I/O buffer does.
type Case16H struct {
	Ins []string `json:"ins"`
}

// Hash identifies the case.
func (c Case16H) Hash() uint64 { return vstat.Hash(c) }

// Info16H is what the classifier needs.
type Info16H struct {
	Rounds        int
	Overwrites    int  // rounds whose bytes differ from what the memory held before
	SameLenChange bool // a round replaced a well-formed item by another one of the same length at the same offset
	AnyNonTrivial bool // some round's input is non-trivial by the one-shot rule
	Offsets       int
	Kept          int
	Scribbled     int // byte strings returned with newBuf=true that were overwritten in place by the harness (their owner)
}

// NonTrivial: the memory was really re-used (a later round changed it) - the part of the domain a one-shot input cannot reach.
func (i Info16H) NonTrivial() bool { return i.Overwrites > 0 }

// Classes for the histogram.
func (i Info16H) Classes() []string {
	c := []string{fmt.Sprintf("history_rounds_%d", min(i.Rounds, 6))}
	if i.Rounds > 6 {
		c[0] = "history_rounds_ge_7"
	}
	if i.Overwrites > 0 {
		c = append(c, "history_memory_overwritten")
	}
	if i.SameLenChange {
		c = append(c, "history_same_length_item_replaced")
	}
	if i.AnyNonTrivial {
		c = append(c, "history_with_hostile_prefix")
	}
	if i.Offsets > i.Rounds*2 {
		c = append(c, "history_multi_item_rounds")
	}
	if i.Kept > 0 {
		c = append(c, "history_earlier_newBuf_results_rechecked")
	}
	if i.Scribbled > 0 {
		c = append(c, "history_newBuf_results_overwritten_in_place_then_decoded_again")
	}
	return c
}

type kept16 struct {
	what  string
	view  []byte // the value as returned (newBuf=true), still referenced
	snap  []byte // what it was when it was returned / what its owner has turned it into since
	owned bool   // a []byte (UnmarshalBytes): the caller may write it; a string's bytes are never written
	done  bool   // already overwritten by its owner
}

// owned: the result is a byte slice that belongs to the caller.
func (d decoder16) owned() bool { return d.newBuf && strings.HasPrefix(d.name, "UnmarshalBytes") }

// Run16H executes a history: one arena per case and presentation (cap == len, cap > len); every round overwrites it
// in place and every Unmarshal function is applied to the whole input and to the suffixes that start where the
// harness's own reading of the length prefixes puts the next items (at most 6 offsets). Oracle per call: C16's.
// Additionally everything returned with newBuf=true in an earlier round must still hold the bytes it held then.
// At the end of every round the owner of each byte slice returned with newBuf=true in that round overwrites it in place
// (every byte up to the capacity is flipped); the newBuf=true decoders are then applied to the same memory once more and,
// in the following rounds, to whatever comes next: the per-call oracle ("a copy of a range of the input") holds on, and
// the overwritten values keep what their owner wrote.
func Run16H(c Case16H) (info Info16H, v *vstat.Violation) {
	ins := make([][]byte, len(c.Ins))
	maxLen := 0
	for i, h := range c.Ins {
		b, err := hex.DecodeString(h)
		if err != nil {
			panic("bad hex in Case16H: " + err.Error())
		}
		ins[i] = b
		maxLen = max(maxLen, len(b))
	}
	info.Rounds = len(ins)
	a := make([]byte, maxLen)
	b := make([]byte, maxLen+40)
	for i := range b {
		b[i] = 0xA5
	}
	var kept []kept16
	var prev []byte
	for r, input := range ins {
		one := Classify(input)
		info.AnyNonTrivial = info.AnyNonTrivial || one.NonTrivial()
		if r > 0 && !bytes.Equal(input, prev) {
			info.Overwrites++
			p := Classify(prev)
			if p.Terminated && one.Terminated && p.Groups == one.Groups && p.Val == one.Val && one.Val <= uint64(one.Remaining) && one.Val > 0 {
				info.SameLenChange = true
			}
		}
		prev = input
		copy(a, input)
		copy(b[8:], input)
		forms := [2][]byte{a[:len(input):len(input)], b[8 : 8+len(input)]}
		// where items start according to the harness's reading of the prefixes (chooses suffixes, decides nothing)
		offs := []int{0}
		for off := 0; len(offs) < 6; {
			k := Classify(input[off:])
			if !k.Terminated || k.Val > uint64(k.Remaining) {
				break
			}
			off += k.Groups + int(k.Val)
			if off >= len(input) {
				break
			}
			offs = append(offs, off)
		}
		info.Offsets += len(offs)
		for fi, whole := range forms {
			form := fmt.Sprintf("round %d of %d, cap==len", r+1, len(ins))
			if fi == 1 {
				form = fmt.Sprintf("round %d of %d, cap>len", r+1, len(ins))
			}
			for _, off := range offs {
				in := whole[off:]
				for _, d := range decoders16 {
					o, v := check16(d, in, form)
					if v != nil {
						return info, v
					}
					if d.newBuf && o.err == nil && len(o.data) > 0 && len(kept) < 256 {
						kept = append(kept, kept16{what: fmt.Sprintf("%s in %s at offset %d", d.name, form, off), view: o.data, snap: append([]byte(nil), o.data...), owned: d.owned()})
					}
				}
			}
		}
		checkKept := func(when string) *vstat.Violation {
			for _, k := range kept {
				if !bytes.Equal(k.view, k.snap) {
					was := "was"
					if k.done {
						was = "was overwritten by its owner with"
					}
					return vstat.V("xbin:earlier-newbuf-result-changed", "%s round %d: the value returned by %s %s %s and is now %s", when, r+1, k.what, was, short(k.snap), short(k.view))
				}
			}
			return nil
		}
		if v := checkKept("after"); v != nil {
			return info, v
		}
		// the owner overwrites what this round returned to it with newBuf=true ...
		scribbled := false
		for i := range kept {
			k := &kept[i]
			if !k.owned || k.done {
				continue
			}
			full := k.view[:cap(k.view)]
			flip(full)
			k.view, k.snap, k.done = full, append([]byte(nil), full...), true
			info.Scribbled++
			scribbled = true
		}
		if !scribbled {
			continue
		}
		// ... and decodes the same memory again (one presentation: what matters here is the order of the events)
		form := fmt.Sprintf("round %d of %d, cap==len, again after the newBuf=true results were overwritten in place", r+1, len(ins))
		for _, off := range offs {
			for _, d := range decoders16 {
				if !d.newBuf {
					continue
				}
				if _, v := check16(d, forms[0][off:], form); v != nil {
					return info, v
				}
			}
		}
		if v := checkKept("after the second pass of"); v != nil {
			return info, v
		}
	}
	info.Kept = len(kept)
	return info, nil
}
