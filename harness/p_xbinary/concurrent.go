package p_xbinary

import (
	"bytes"
	"fmt"
	"runtime"
	"sync"

	"verifharness/internal/vstat"
)

// Case16C is a set of inputs decoded by G goroutines AT THE SAME TIME. The Unmarshal functions are plain functions of
// their argument (no receiver, no documented state), so "for every byte string each Unmarshal function returns
// without panicking ..." holds for a call whatever other calls are in progress, as long as nobody writes the input.
// Shared=false: input i belongs to goroutine i mod G. Shared=true: every goroutine decodes every input from the SAME
// memory (read-only), each starting at a different place of the list. Rot: every goroutine goes through the Unmarshal
// functions starting with function number Rot of decoders16 (so the first call of all goroutines can be any of them).
type Case16C struct {
	Ins    []Case16 `json:"ins"`
	G      int      `json:"g"`
	Shared bool     `json:"shared,omitempty"`
	P1     bool     `json:"p1,omitempty"` // run with GOMAXPROCS(1)
	Rot    int      `json:"rot,omitempty"`
}

// Hash identifies the case.
func (c Case16C) Hash() uint64 { return vstat.Hash(c) }

// Info16C is what the classifier needs.
type Info16C struct {
	G          int
	Inputs     int
	Shared, P1 bool
	Calls      int
	Failing    int // goroutines that had at least one rejected input
	Succeeding int // goroutines that had at least one successful newBuf=true decode of a non-empty value
	Hostile    bool
}

// NonTrivial: at least two goroutines were rejecting inputs at the same time (the decoders' failure path ran concurrently).
func (i Info16C) NonTrivial() bool { return i.Failing >= 2 }

// Classes for the histogram.
func (i Info16C) Classes() []string {
	c := []string{fmt.Sprintf("concurrent_goroutines_%d", i.G)}
	if i.Shared {
		c = append(c, "concurrent_same_memory_read_by_all")
	} else {
		c = append(c, "concurrent_inputs_partitioned")
	}
	if i.P1 {
		c = append(c, "concurrent_GOMAXPROCS_1")
	}
	if i.Failing >= 2 {
		c = append(c, "concurrent_rejections_on_ge_2_goroutines")
	}
	if i.Succeeding >= 2 {
		c = append(c, "concurrent_newBuf_copies_on_ge_2_goroutines")
	}
	if i.Failing >= 1 && i.Succeeding >= 1 {
		c = append(c, "concurrent_rejections_and_copies_mixed")
	}
	if i.Hostile {
		c = append(c, "concurrent_with_hostile_prefix")
	}
	return c
}

type res16 struct {
	in, dec int
	o       out16
}

// Run16C executes the case. Oracle: C16's per call (no panic, error -> n == 0, success -> 0 < n <= len(in), result
// inside the input / a copy of a range outside it), and every concurrent call returns what the same call returns
// when it is made alone afterwards (n, success or failure, the bytes). The reference calls come AFTER the concurrent
// phase on purpose: made first they would warm up whatever state the functions might share. A death of the process
// inside a decoder (the Go runtime aborts on some kinds of concurrent misuse, and that cannot be recovered) is
// turned into a violation of C16 by the driver.
func Run16C(c Case16C) (info Info16C, v *vstat.Violation) {
	G := min(max(c.G, 1), 64)
	rot := c.Rot % len(decoders16)
	if rot < 0 {
		rot += len(decoders16)
	}
	info.G, info.Inputs, info.Shared, info.P1 = G, len(c.Ins), c.Shared, c.P1
	ins := make([][]byte, len(c.Ins))
	for i, ci := range c.Ins {
		b := ci.Bytes()
		ins[i] = append(make([]byte, 0, len(b)), b...)
		info.Hostile = info.Hostile || Classify(b).NonTrivial()
	}
	work := make([][]int, G)
	for g := range work {
		if c.Shared {
			from := 0
			if len(ins) > 0 {
				from = g * len(ins) / G
			}
			for k := range ins {
				work[g] = append(work[g], (from+k)%len(ins))
			}
			continue
		}
		for i := g; i < len(ins); i += G {
			work[g] = append(work[g], i)
		}
	}
	results := make([][]res16, G)
	viol := make([]*vstat.Violation, G)
	for g := range results {
		results[g] = make([]res16, 0, len(work[g])*len(decoders16))
	}
	if c.P1 {
		defer runtime.GOMAXPROCS(runtime.GOMAXPROCS(1))
	}
	var wg sync.WaitGroup
	start := make(chan struct{})
	for g := 0; g < G; g++ {
		wg.Add(1)
		go func() {
			defer wg.Done()
			form := fmt.Sprintf("goroutine %d of %d", g+1, G)
			<-start
			for _, i := range work[g] {
				for k := range decoders16 {
					di := (k + rot) % len(decoders16)
					d := decoders16[di]
					o, v := check16(d, ins[i], form)
					if v != nil {
						if viol[g] == nil {
							viol[g] = v
						}
						continue
					}
					results[g] = append(results[g], res16{in: i, dec: di, o: o})
				}
			}
		}()
	}
	close(start)
	wg.Wait()
	for _, v := range viol {
		if v != nil {
			return info, v
		}
	}
	ref := make([][]out16, len(ins))
	for i := range ins {
		ref[i] = make([]out16, len(decoders16))
		for di, d := range decoders16 {
			o, v := check16(d, ins[i], "alone, after the concurrent calls")
			if v != nil {
				return info, v
			}
			ref[i][di] = o
		}
	}
	for g, rs := range results {
		failing, copied := false, false
		for _, r := range rs {
			info.Calls++
			want, d := ref[r.in][r.dec], decoders16[r.dec]
			if r.o.err != nil {
				failing = true
			} else if d.newBuf && len(r.o.data) > 0 {
				copied = true
			}
			if (r.o.err == nil) != (want.err == nil) || r.o.n != want.n || !bytes.Equal(r.o.data, want.data) {
				return info, vstat.V("xbin:concurrent-result-differs:"+d.name, "%s(%s) on goroutine %d of %d returned (n=%d, %s, err=%v); the same call made alone returns (n=%d, %s, err=%v)",
					d.name, short(ins[r.in]), g+1, G, r.o.n, short(r.o.data), r.o.err, want.n, short(want.data), want.err)
			}
		}
		if failing {
			info.Failing++
		}
		if copied {
			info.Succeeding++
		}
	}
	return info, nil
}
