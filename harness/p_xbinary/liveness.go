package p_xbinary

import (
	"bytes"
	"fmt"
	"runtime"
	"strings"
	"unsafe"
	"weak"

	"github.com/acquirecloud/golibs/xbinary"
	"verifharness/internal/vstat"
)

// Case15G asks whether values decoded with newBuf=true are independent of the source buffer in the sense that matters
// to whoever drops or recycles that buffer: the items are encoded back to back into a source allocation of its own
// (Front bytes in front of the encoding, Slack bytes of spare capacity behind it, at least 64 bytes in all), every byte
// string / string is decoded with newBuf=true (the numbers are skipped over), the decoded values listed in Keep (item
// indices; none listed = all of them) are kept, everything else - the source first of all - is dropped, and the
// garbage collector is asked whether the source allocation is still reachable.
type Case15G struct {
	Items []Item `json:"items"`
	Front int    `json:"front,omitempty"`
	Slack int    `json:"slack,omitempty"`
	Keep  []int  `json:"keep,omitempty"`
}

// Hash identifies the case.
func (c Case15G) Hash() uint64 { return vstat.Hash(c) }

// Info15G is what the classifier needs.
type Info15G struct {
	Source       int // bytes of the source allocation
	Kept         int // decoded values kept alive
	KeptEmpty    int // of them: empty ones
	KeptNonEmpty int
	Rounds       int  // drop-and-collect experiments made
	Undecided    bool // the control experiment (harness-made clones kept instead) did not see the source collected either
}

// NonTrivial: an empty decoded value was kept alive, or the source is a large object of its own (>= 32 KiB).
func (i Info15G) NonTrivial() bool { return !i.Undecided && (i.KeptEmpty > 0 || i.Source >= 32<<10) }

// Classes for the histogram.
func (i Info15G) Classes() []string {
	c := []string{"liveness_source_dropped_results_kept"}
	if i.Undecided {
		return append(c, "liveness_undecided_control_not_collected")
	}
	if i.KeptEmpty > 0 {
		c = append(c, "liveness_empty_result_kept")
		if i.KeptNonEmpty == 0 {
			c = append(c, "liveness_only_empty_results_kept")
		}
	}
	if i.KeptNonEmpty > 0 {
		c = append(c, "liveness_non_empty_result_kept")
	}
	switch {
	case i.Source >= 32<<10:
		c = append(c, "liveness_source_ge_32KiB")
	case i.Source >= 1<<10:
		c = append(c, "liveness_source_1KiB_to_32KiB")
	default:
		c = append(c, "liveness_source_lt_1KiB")
	}
	return c
}

// kept holds decoded values with their static types: an empty string converted to an interface value loses its data
// pointer (the runtime substitutes a shared zero value), so `any` would hide what is asked here.
type kept struct {
	b [][]byte
	s []string
}

// within: ptr lies in the memory of buf, spare capacity included.
func within(ptr uintptr, buf []byte) bool {
	if ptr == 0 || cap(buf) == 0 {
		return false
	}
	base := uintptr(unsafe.Pointer(unsafe.SliceData(buf)))
	return ptr >= base && ptr < base+uintptr(cap(buf))
}

// decodeAndDrop makes the source allocation, decodes, and returns only what is to stay alive plus a weak pointer to
// the source. clone: the control - the values kept are copies made by the harness (bytes.Clone / strings.Clone), which
// shows that the procedure itself leaves nothing behind that reaches the source. into lists the items whose result
// (the library's, before cloning) points into the source allocation.
//
//go:noinline
func decodeAndDrop(c Case15G, enc []byte, ends []int, clone bool) (k *kept, wp weak.Pointer[byte], into []string, v *vstat.Violation) {
	total := max(c.Front+len(enc)+c.Slack, 64)
	big := make([]byte, total)
	for i := range big {
		big[i] = 0xA5
	}
	src := big[c.Front : c.Front+len(enc)]
	copy(src, enc)
	keep := map[int]bool{}
	for _, i := range c.Keep {
		keep[i] = true
	}
	k = &kept{}
	start := 0
	for i, it := range c.Items {
		end := ends[i]
		if it.K != KBytes && it.K != KString {
			start = end
			continue
		}
		want := it.Content()
		where := fmt.Sprintf("item %d of %d (%s of %d bytes at source[%d:%d], source allocation of %d bytes)", i, len(c.Items), it.K, len(want), c.Front+start, c.Front+end, total)
		var ptr uintptr
		if it.K == KBytes {
			n, r, err := xbinary.UnmarshalBytes(src[start:], true)
			if err != nil || n != end-start || !bytes.Equal(r, want) {
				return nil, wp, nil, vstat.V("xbin:roundtrip-value", "%s: UnmarshalBytes(newBuf=true) returned (%d, %s, %v)", where, n, short(r), err)
			}
			ptr = uintptr(unsafe.Pointer(unsafe.SliceData(r)))
			if clone {
				r = bytes.Clone(r)
			}
			if len(c.Keep) == 0 || keep[i] {
				k.b = append(k.b, r)
			}
		} else {
			n, r, err := xbinary.UnmarshalString(src[start:], true)
			if err != nil || n != end-start || r != string(want) {
				return nil, wp, nil, vstat.V("xbin:roundtrip-value", "%s: UnmarshalString(newBuf=true) returned (%d, %s, %v)", where, n, short([]byte(r)), err)
			}
			ptr = uintptr(unsafe.Pointer(unsafe.StringData(r)))
			if clone {
				r = strings.Clone(r)
			}
			if len(c.Keep) == 0 || keep[i] {
				k.s = append(k.s, r)
			}
		}
		if within(ptr, big) && (len(c.Keep) == 0 || keep[i]) {
			into = append(into, where)
		}
		start = end
	}
	return k, weak.Make(&big[0]), into, nil
}

// collected: is the object behind wp gone after up to three collections.
func collected(wp weak.Pointer[byte]) bool {
	for i := 0; i < 3; i++ {
		runtime.GC()
		if wp.Value() == nil {
			return true
		}
	}
	return false
}

// Run15G: see Case15G. Verdict: the source allocation must become collectable while the kept values are alive. Two
// experiments with the library's values, each followed by the control with harness-made clones; a violation needs the
// source to survive in BOTH experiments and to be collected in BOTH controls (a control that fails says the
// procedure, not the library, keeps the source: undecided, never a violation).
func Run15G(c Case15G) (info Info15G, v *vstat.Violation) {
	defer func() {
		if r := recover(); r != nil {
			v = panicViolation("xbin:c15-panic", r)
		}
	}()
	if len(c.Items) == 0 || len(c.Items) > 64 || c.Front < 0 || c.Front > 1<<24 || c.Slack < 0 || c.Slack > 1<<24 {
		panic(fmt.Sprintf("bad Case15G %+v", c))
	}
	var enc []byte
	var ends []int
	var scratch Info15
	for _, it := range c.Items {
		cd := it.codec(&scratch)
		buf := make([]byte, cd.size)
		n, err := cd.marshal(buf)
		if err != nil || n != cd.size {
			return info, vstat.V("xbin:size-law", "%s: Marshal into %d bytes returned (%d, %v)", cd.name, cd.size, n, err)
		}
		enc = append(enc, buf...)
		ends = append(ends, len(enc))
	}
	info.Source = max(c.Front+len(enc)+c.Slack, 64)
	keep := map[int]bool{}
	for _, i := range c.Keep {
		keep[i] = true
	}
	for i, it := range c.Items {
		if (it.K == KBytes || it.K == KString) && (len(c.Keep) == 0 || keep[i]) {
			info.Kept++
			if len(it.Content()) == 0 {
				info.KeptEmpty++
			} else {
				info.KeptNonEmpty++
			}
		}
	}
	var into []string
	for round := 0; round < 2; round++ {
		k, wp, in, v := decodeAndDrop(c, enc, ends, false)
		if v != nil {
			return info, v
		}
		gone := collected(wp)
		runtime.KeepAlive(k)
		info.Rounds++
		if gone {
			return info, nil
		}
		into = in
		k2, wp2, _, v := decodeAndDrop(c, enc, ends, true)
		if v != nil {
			return info, v
		}
		gone2 := collected(wp2)
		runtime.KeepAlive(k2)
		if !gone2 {
			info.Undecided = true
			return info, nil
		}
	}
	detail := "none of the kept values points into it - it is reachable some other way"
	if len(into) > 0 {
		detail = "pointing into it: " + strings.Join(into, "; ")
	}
	return info, vstat.V("xbin:newbuf-result-keeps-source-alive",
		"%d values decoded with newBuf=true were kept (%d of them empty) and the source buffer dropped: after 3 garbage collections the source allocation of %d bytes is still reachable, twice in a row, while the same experiment with harness-made clones of the values sees it collected (%s)",
		info.Kept, info.KeptEmpty, info.Source, detail)
}
