package p_xbinary

import (
	"bytes"
	"encoding/binary"
	"fmt"
	"hash/adler32"
	"hash/crc32"
	"hash/crc64"
	"hash/fnv"
	"runtime"
	"strings"
	"sync"

	"verifharness/internal/vstat"
)

// Case16K is a SEQUENCE of decodes over complete records whose bodies are different byte strings of one length that
// agree under a cheap hash - the kind of key a decoder might remember earlier results under. The Unmarshal functions
// are functions of their argument: what a call returns is a sub-range of ITS input or a copy of one, whatever was
// decoded before it. K bodies (the fill stream of Seed and K-1 variants of it that collide with it under Hash, forged
// by construction) are wrapped into records (exact length prefix with Pad extra groups, More bytes behind) and decoded
// back to back: for every ordered pair (i, j) of bodies, for every pair of the four functions that return bytes
// (UnmarshalBytes / UnmarshalString x newBuf false / true) - so newBuf true-true, true-false, false-true, false-false
// and the byte-slice and the string decoder in either order - first the one on record i, then the other on record j.
// Mode 0: all calls on one goroutine; 1: the same sequence, but every record is decoded by a goroutine of its own
// (hand-over, one call at a time); 2: one goroutine per record, all decoding all records at the same time.
type Case16K struct {
	Kind string `json:"hash"`
	L    int    `json:"l"`
	K    int    `json:"k"`
	Seed uint64 `json:"seed"`
	Pad  int    `json:"pad,omitempty"`
	More int    `json:"more,omitempty"`
	Mode int    `json:"mode,omitempty"`
	P1   bool   `json:"p1,omitempty"` // modes 1 and 2 with GOMAXPROCS(1)
}

// Hash identifies the case.
func (c Case16K) Hash() uint64 { return vstat.Hash(c) }

// CollisionHashes are the keys under which the bodies of a case agree (besides their length). crc*: forged by solving
// for a patch of as many bytes as the checksum has, anywhere in the body (the checksum is affine over GF(2) in them);
// adler32: the second-difference pattern +1,-2,+1 on three neighbouring bytes keeps both of its sums; fnv*-32: two
// 8-byte blocks that lead from the initial state to the same state (birthday search, once per process), in front of a
// common rest; bytesum / bytexor / permutation: +1,-1 / the same bit flipped in two bytes / two unequal bytes swapped;
// ends8: equal first and last 8 bytes; prefixN: equal first N bytes. 64-bit FNV is out of reach and not covered.
var CollisionHashes = []string{"crc32-ieee", "crc32-castagnoli", "crc32-koopman", "crc64-iso", "crc64-ecma", "adler32",
	"fnv1-32", "fnv1a-32", "bytesum", "bytexor", "permutation", "ends8", "prefix16", "prefix32", "prefix64"}

var (
	crc32Tabs = map[string]*crc32.Table{"crc32-ieee": crc32.IEEETable, "crc32-castagnoli": crc32.MakeTable(crc32.Castagnoli), "crc32-koopman": crc32.MakeTable(crc32.Koopman)}
	crc64Tabs = map[string]*crc64.Table{"crc64-iso": crc64.MakeTable(crc64.ISO), "crc64-ecma": crc64.MakeTable(crc64.ECMA)}
)

// collisionKey is the reference: what the bodies of a case must agree in (computed with the standard library).
func collisionKey(kind string, b []byte) string {
	switch kind {
	case "crc32-ieee", "crc32-castagnoli", "crc32-koopman":
		return fmt.Sprintf("%08x", crc32.Checksum(b, crc32Tabs[kind]))
	case "crc64-iso", "crc64-ecma":
		return fmt.Sprintf("%016x", crc64.Checksum(b, crc64Tabs[kind]))
	case "adler32":
		return fmt.Sprintf("%08x", adler32.Checksum(b))
	case "fnv1-32":
		h := fnv.New32()
		h.Write(b)
		return fmt.Sprintf("%08x", h.Sum32())
	case "fnv1a-32":
		h := fnv.New32a()
		h.Write(b)
		return fmt.Sprintf("%08x", h.Sum32())
	case "bytesum":
		s := uint64(0)
		for _, x := range b {
			s += uint64(x)
		}
		return fmt.Sprint(s)
	case "bytexor":
		s := byte(0)
		for _, x := range b {
			s ^= x
		}
		return fmt.Sprint(s)
	case "permutation":
		var cnt [256]int
		for _, x := range b {
			cnt[x]++
		}
		return fmt.Sprint(cnt)
	case "ends8":
		return string(b[:8]) + string(b[len(b)-8:])
	case "prefix16":
		return string(b[:16])
	case "prefix32":
		return string(b[:32])
	case "prefix64":
		return string(b[:64])
	}
	panic("unknown collision hash " + kind)
}

// collisionMinLen is the shortest body that has a different body of the same length and key.
func collisionMinLen(kind string) int {
	switch kind {
	case "crc32-ieee", "crc32-castagnoli", "crc32-koopman":
		return 5
	case "crc64-iso", "crc64-ecma":
		return 9
	case "adler32":
		return 3
	case "fnv1-32", "fnv1a-32":
		return 8
	case "ends8", "prefix16":
		return 17
	case "prefix32":
		return 33
	case "prefix64":
		return 65
	}
	return 2
}

var (
	fnvOnce  [2]sync.Once
	fnvPairs [2][][2][8]byte
)

// fnvBlocks returns pairs of different 8-byte blocks that take 32-bit FNV-1 (a=0) / FNV-1a (a=1) from its initial
// state to the same state: a birthday search over a deterministic candidate sequence, done once per process.
func fnvBlocks(a int) [][2][8]byte {
	fnvOnce[a].Do(func() {
		seen := make(map[uint32]uint64, 1<<19)
		for i := uint64(1); i < 1<<19 && len(fnvPairs[a]) < 8; i++ {
			var blk [8]byte
			fillStream(blk[:], 0, i*0x9e3779b97f4a7c15+uint64(a))
			h := uint32(2166136261)
			for _, x := range blk {
				if a == 0 {
					h = h*16777619 ^ uint32(x)
				} else {
					h = (h ^ uint32(x)) * 16777619
				}
			}
			if j, ok := seen[h]; ok {
				var other [8]byte
				fillStream(other[:], 0, j*0x9e3779b97f4a7c15+uint64(a))
				if other != blk {
					fnvPairs[a] = append(fnvPairs[a], [2][8]byte{other, blk})
				}
				continue
			}
			seen[h] = i
		}
	})
	return fnvPairs[a]
}

// affinePatch overwrites b[q:q+w] so that key(b) becomes target, for a key that is affine over GF(2) in those bytes
// and bijective in them (a CRC of 8*w bits): Gaussian elimination over the effects of the 8*w single bits.
func affinePatch(b []byte, q, w int, key func([]byte) uint64, target uint64) bool {
	for k := 0; k < w; k++ {
		b[q+k] = 0
	}
	h0 := key(b)
	var basisV, basisM [64]uint64
	var have [64]bool
	for j := 0; j < 8*w; j++ {
		b[q+j/8] = 1 << uint(j%8)
		v, m := key(b)^h0, uint64(1)<<uint(j)
		b[q+j/8] = 0
		for bit := 63; bit >= 0 && v != 0; bit-- {
			if v&(1<<uint(bit)) == 0 {
				continue
			}
			if !have[bit] {
				have[bit], basisV[bit], basisM[bit] = true, v, m
				break
			}
			v ^= basisV[bit]
			m ^= basisM[bit]
		}
	}
	v, m := target^h0, uint64(0)
	for bit := 63; bit >= 0 && v != 0; bit-- {
		if v&(1<<uint(bit)) == 0 {
			continue
		}
		if !have[bit] {
			return false
		}
		v ^= basisV[bit]
		m ^= basisM[bit]
	}
	for j := 0; j < 8*w; j++ {
		if m&(1<<uint(j)) != 0 {
			b[q+j/8] |= 1 << uint(j%8)
		}
	}
	return true
}

// CollidingBodies builds the bodies of a case: bodies[0] is the fill stream of seed (adjusted where the construction
// needs room: a byte that must be able to grow is made < 128 ...), the others are pairwise different variants of the
// same length with the same key. Every variant is verified against the standard library's hash; at least two bodies
// come back (the length is raised to the minimum of the kind, k lowered to what the length has room for).
func CollidingBodies(kind string, l, k int, seed uint64) [][]byte {
	l = min(max(l, collisionMinLen(kind)), 1<<20)
	k = min(max(k, 2), 6)
	base := make([]byte, l)
	fillStream(base, 0, seed)
	s1, s2 := int(mix64(seed)%(1<<30)), int(mix64(seed+1)%(1<<30))
	var vars [][]byte
	slots := func(lo, hi, size int) (at func(i int) int, n int) { // non-overlapping slots of `size` bytes in base[lo:hi]
		n = (hi - lo) / size
		return func(i int) int { return lo + (s1+i)%n*size }, n
	}
	switch kind {
	case "crc32-ieee", "crc32-castagnoli", "crc32-koopman", "crc64-iso", "crc64-ecma":
		w, key := 4, func(b []byte) uint64 { return uint64(crc32.Checksum(b, crc32Tabs[kind])) }
		if t := crc64Tabs[kind]; t != nil {
			w, key = 8, func(b []byte) uint64 { return crc64.Checksum(b, t) }
		}
		target := key(base)
		for i := 1; i < k; i++ {
			v := append([]byte(nil), base...)
			q := (s1 + 7*i) % (l - w + 1) // the patch
			p := (s2 + i) % (l - w)       // the byte that differs, outside the patch
			if p >= q {
				p += w
			}
			v[p] ^= byte(1 + (s2>>8+i)%255)
			if affinePatch(v, q, w, key, target) {
				vars = append(vars, v)
			}
		}
	case "fnv1-32", "fnv1a-32":
		a := 0
		if kind == "fnv1a-32" {
			a = 1
		}
		prs := fnvBlocks(a)
		pr := prs[s1%len(prs)]
		copy(base, pr[0][:])
		vars = append(vars, append(append([]byte(nil), pr[1][:]...), base[8:]...))
	case "adler32":
		at, n := slots(0, l, 3)
		for i := 1; i < k && i <= n; i++ {
			p := at(i)
			base[p], base[p+1], base[p+2] = base[p]&0x7f, base[p+1]|2, base[p+2]&0x7f
		}
		for i := 1; i < k && i <= n; i++ {
			v, p := append([]byte(nil), base...), at(i)
			v[p], v[p+1], v[p+2] = v[p]+1, v[p+1]-2, v[p+2]+1
			vars = append(vars, v)
		}
	case "bytesum", "bytexor", "permutation":
		at, n := slots(0, l, 2)
		for i := 1; i < k && i <= n; i++ {
			p := at(i)
			switch kind {
			case "bytesum":
				base[p], base[p+1] = base[p]&0x7f, base[p+1]|1
			case "permutation":
				if base[p] == base[p+1] {
					base[p+1] ^= 0x20
				}
			}
		}
		for i := 1; i < k && i <= n; i++ {
			v, p := append([]byte(nil), base...), at(i)
			switch kind {
			case "bytesum":
				v[p], v[p+1] = v[p]+1, v[p+1]-1
			case "bytexor":
				m := byte(1) << uint((s2+i)%8)
				v[p], v[p+1] = v[p]^m, v[p+1]^m
			default:
				v[p], v[p+1] = v[p+1], v[p]
			}
			vars = append(vars, v)
		}
	default: // ends8, prefixN: one byte of the free region differs
		lo, hi := 8, l-8
		if kind != "ends8" {
			lo, hi = collisionMinLen(kind)-1, l
		}
		at, n := slots(lo, hi, 1)
		for i := 1; i < k && i <= n; i++ {
			v := append([]byte(nil), base...)
			v[at(i)] ^= byte(1 + (s2+i)%255)
			vars = append(vars, v)
		}
	}
	out, want := [][]byte{base}, collisionKey(kind, base)
	for _, v := range vars {
		if len(v) != l || collisionKey(kind, v) != want {
			panic(fmt.Sprintf("harness bug: the %s variant of a body of %d bytes (seed %d) does not collide", kind, l, seed))
		}
		dup := false
		for _, o := range out {
			dup = dup || bytes.Equal(o, v)
		}
		if !dup {
			out = append(out, v)
		}
	}
	if len(out) < 2 {
		panic(fmt.Sprintf("harness bug: no %s collision for a body of %d bytes (seed %d)", kind, l, seed))
	}
	return out
}

func mix64(x uint64) uint64 {
	var b [8]byte
	fillStream(b[:], 0, x)
	return binary.LittleEndian.Uint64(b[:])
}

// Info16K is what the classifier needs.
type Info16K struct {
	Hash  string
	L, K  int
	Mode  int
	P1    bool
	Pairs int // ordered pairs (decoder on record i, decoder on a colliding record j) executed back to back
	Calls int
}

// NonTrivial: at least one collision pair was decoded.
func (i Info16K) NonTrivial() bool { return i.Pairs > 0 }

// Classes for the histogram.
func (i Info16K) Classes() []string {
	c := []string{"collision_sequence", "collision_bodies_agree_in_length_and_" + i.Hash, fmt.Sprintf("collision_bodies_%d", i.K)}
	switch i.Mode {
	case 0:
		c = append(c, "collision_sequence_on_one_goroutine")
	case 1:
		c = append(c, "collision_sequence_handed_from_goroutine_to_goroutine")
	default:
		c = append(c, "collision_records_decoded_at_the_same_time")
	}
	if i.P1 && i.Mode != 0 {
		c = append(c, "collision_goroutines_GOMAXPROCS_1")
	}
	switch {
	case i.L <= 16:
		c = append(c, "collision_body_le_16_bytes")
	case i.L <= 64:
		c = append(c, "collision_body_17_to_64_bytes")
	case i.L <= 1024:
		c = append(c, "collision_body_65_bytes_to_1KiB")
	default:
		c = append(c, "collision_body_gt_1KiB")
	}
	return c
}

// byteDecoders16 are the indices (in decoders16) of the functions that return bytes.
var byteDecoders16 = func() (ix []int) {
	for i, d := range decoders16 {
		if strings.HasPrefix(d.name, "UnmarshalBytes") || strings.HasPrefix(d.name, "UnmarshalString") {
			ix = append(ix, i)
		}
	}
	return ix
}()

// Run16K executes the case; the oracle is C16's per call (check16: no panic, error -> n == 0, success -> 0 < n <= len,
// the result a sub-range of THIS input by pointer arithmetic, or equal to one byte for byte and outside the input).
func Run16K(c Case16K) (info Info16K, v *vstat.Violation) {
	kind := c.Kind
	ok := false
	for _, h := range CollisionHashes {
		ok = ok || h == kind
	}
	if !ok {
		panic(fmt.Sprintf("bad Case16K %+v", c))
	}
	bodies := CollidingBodies(kind, c.L, c.K, c.Seed)
	K, L := len(bodies), len(bodies[0])
	mode := min(max(c.Mode, 0), 2)
	info = Info16K{Hash: kind, L: L, K: K, Mode: mode, P1: c.P1}
	ins := make([][]byte, K)
	for i, b := range bodies {
		in := PutUvarint(make([]byte, 0, 12+L+c.More), uint64(L), min(max(c.Pad, 0), 4))
		in = append(in, b...)
		for k := 0; k < min(max(c.More, 0), 64); k++ {
			in = append(in, 0xA5)
		}
		ins[i] = in[:len(in):len(in)]
	}
	if c.P1 && mode != 0 {
		defer runtime.GOMAXPROCS(runtime.GOMAXPROCS(1))
	}
	if mode == 2 {
		viol := make([]*vstat.Violation, K)
		calls := make([]int, K)
		start := make(chan struct{})
		var wg sync.WaitGroup
		for g := 0; g < K; g++ {
			wg.Add(1)
			go func() {
				defer wg.Done()
				form := fmt.Sprintf("goroutine %d of %d, records whose bodies agree in length and %s decoded at the same time", g+1, K, kind)
				<-start
				for round := 0; round < 4 && viol[g] == nil; round++ {
					for k := 0; k < K; k++ {
						for _, di := range byteDecoders16 {
							calls[g]++
							if _, v := check16(decoders16[di], ins[(g+k)%K], form); v != nil && viol[g] == nil {
								viol[g] = v
							}
						}
					}
				}
			}()
		}
		close(start)
		wg.Wait()
		for g := range viol {
			info.Calls += calls[g]
			if viol[g] != nil && v == nil {
				v = viol[g]
			}
		}
		info.Pairs = K * (K - 1)
		return info, v
	}
	// modes 0 and 1: one call at a time; in mode 1 record i is always decoded by worker goroutine i
	call := func(i int, f func()) { f() }
	if mode == 1 {
		work := make([]chan func(), K)
		var wg sync.WaitGroup
		for i := range work {
			work[i] = make(chan func())
			wg.Add(1)
			go func() {
				defer wg.Done()
				for f := range work[i] {
					f()
				}
			}()
		}
		defer func() {
			for _, w := range work {
				close(w)
			}
			wg.Wait()
		}()
		call = func(i int, f func()) {
			done := make(chan struct{})
			work[i] <- func() { defer close(done); f() }
			<-done
		}
	}
	forms := [2]string{"call 1 of: ", "call 2 of: "}
	recName := []string{"0", "1", "2", "3", "4", "5"}
	tail := fmt.Sprintf(" - bodies of %d bytes that differ and agree in %s (mode %d; the calls before these two decoded the same records in the other orders)", L, kind, mode)
	for i := 0; i < K; i++ {
		for j := 0; j < K; j++ {
			if i == j {
				continue
			}
			for _, d1 := range byteDecoders16 {
				for _, d2 := range byteDecoders16 {
					for step, x := range [2][2]int{{i, d1}, {j, d2}} {
						form := forms[step] + decoders16[d1].name + " on record " + recName[i] + ", then " + decoders16[d2].name + " on record " + recName[j] + tail
						call(x[0], func() { _, v = check16(decoders16[x[1]], ins[x[0]], form) })
						info.Calls++
						if v != nil {
							return info, v
						}
					}
					info.Pairs++
				}
			}
		}
	}
	return info, nil
}
