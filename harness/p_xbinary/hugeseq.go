package p_xbinary

import (
	"bytes"
	"fmt"
	"unsafe"

	"github.com/acquirecloud/golibs/xbinary"
	"verifharness/internal/vstat"
)

// ZItem is one item of a huge stream: a number (kinds b, h, w, q, v with the value U) or a byte string / string of L
// ZERO bytes (a window of the arena of huge.go, whatever its length).
type ZItem struct {
	K string `json:"k"`
	U uint64 `json:"u,omitempty"`
	L int    `json:"l,omitempty"`
}

// Case15ZS is a STREAM of items written by ONE ObjectsWriter into a counting sink, some of them too large to copy
// (up to 2^33 bytes and more): C15 is about "any concatenation of encoded items" and about every value, so a value of
// 4 GiB + 3 bytes that FOLLOWS a value of 3 bytes on the same writer, with other items between them, is part of the
// quantifier like any other history - and it is the only way to see a writer (or a decoder) that keeps something from
// one item to the next in a narrower integer than the length. As in Case15Z nothing copies or scans a body: the values
// are windows of the untouched arena, the sink counts and keeps the first 16 bytes of every item, and the whole stream
// is then laid out in place in the arena (the prefixes and numbers the writer emitted are put at the offsets where
// they belong, the zero bytes between them are the bodies) and decoded item by item with newBuf=false.
type Case15ZS struct {
	Items []ZItem `json:"items"`
}

// Hash identifies the case.
func (c Case15ZS) Hash() uint64 { return vstat.Hash(c) }

// Limits of a stream: the arena is address space only, but it has to exist.
const (
	MaxSeqItemLen = 1<<33 + 1<<17
	MaxSeqHuge    = 3 // items of 2^28 bytes and more per stream
	MaxSeqItems   = 64
	seqHuge       = 1 << 28
	// SeqArenaBytes holds every stream of up to 12 items within the limits (about 27 GiB of address space)
	SeqArenaBytes = MaxSeqHuge*(MaxSeqItemLen+16) + 12*(seqHuge+16)
)

// seqModBits are the widths a length may be narrowed to (uint8, uint16, int32 / 31 bits, uint32).
var seqModBits = []int{8, 16, 31, 32}

// Info15ZS is what the classifier needs.
type Info15ZS struct {
	Items     int
	Strings   int
	Huge      int          // byte strings of >= 2^28 bytes
	MaxLen    int          // longest byte string
	Total     int64        // bytes of the stream
	Congruent map[int]bool // bits -> some byte string's length differs from an EARLIER one's but agrees with it modulo 2^bits
	Between   bool         // ... with at least one other item between the two
	Shrinking bool         // ... and the later one is the shorter one
	Repeated  bool         // a byte-string length occurs twice
	Decoded2G bool         // a value of >= 2^31 bytes was decoded from the stream at a non-zero offset
	Calls     int
	NoArena   bool // the address space for the stream could not be had - nothing was decided
}

// NonTrivial: a value larger than 1 GiB, or two byte strings of one stream whose lengths agree in their low 16 / 31 / 32 bits.
func (i Info15ZS) NonTrivial() bool {
	return i.MaxLen > 1<<30 || i.Congruent[16] || i.Congruent[31] || i.Congruent[32]
}

// Classes for the histogram.
func (i Info15ZS) Classes() []string {
	c := []string{"huge_stream"}
	switch {
	case i.Items >= 4:
		c = append(c, "huge_stream_items_ge_4")
	default:
		c = append(c, fmt.Sprintf("huge_stream_items_%d", i.Items))
	}
	for _, b := range seqModBits {
		if i.Congruent[b] {
			c = append(c, fmt.Sprintf("huge_stream_length_congruent_mod_2^%d_to_an_earlier_length", b))
		}
	}
	if i.Between {
		c = append(c, "huge_stream_congruent_lengths_with_items_between")
	}
	if i.Shrinking {
		c = append(c, "huge_stream_shorter_value_after_congruent_longer_one")
	}
	if i.Repeated {
		c = append(c, "huge_stream_length_repeated")
	}
	if i.Huge >= 2 {
		c = append(c, "huge_stream_ge_2_values_of_256MiB_and_more")
	}
	switch {
	case i.MaxLen >= 1<<32:
		c = append(c, "huge_stream_value_ge_4GiB")
	case i.MaxLen >= 1<<31:
		c = append(c, "huge_stream_value_2GiB_to_4GiB")
	case i.MaxLen >= seqHuge:
		c = append(c, "huge_stream_value_256MiB_to_2GiB")
	}
	if i.Decoded2G {
		c = append(c, "huge_stream_value_ge_2GiB_decoded_behind_other_items")
	}
	switch {
	case i.Total >= 1<<33:
		c = append(c, "huge_stream_total_ge_8GiB")
	case i.Total >= 1<<32:
		c = append(c, "huge_stream_total_4GiB_to_8GiB")
	}
	return c
}

// segSink is an io.Writer that counts; per item (begin) it keeps the first 16 bytes and never looks at the rest.
type segSink struct {
	total int64
	calls int
	item  int64
	head  [16]byte
	nhead int
}

func (s *segSink) begin() { s.item, s.nhead = 0, 0 }

func (s *segSink) Write(p []byte) (int, error) {
	if s.nhead < len(s.head) {
		s.nhead += copy(s.head[s.nhead:], p)
	}
	s.item += int64(len(p))
	s.total += int64(len(p))
	s.calls++
	return len(p), nil
}

type zcodec struct {
	name   string
	size   int
	body   int // -1: a number
	lead   int // bytes the harness puts into the arena: the whole encoding of a number, the prefix of a byte string
	head   [16]byte
	write  func(ow *xbinary.ObjectsWriter) (int, error)
	mar    func(dst []byte) (int, error)
	decode func(src []byte) (n int, ok bool, shown string, ptr *byte, err error)
}

func (it ZItem) zcodec(arena []byte) zcodec {
	if it.K != KBytes && it.K != KString {
		var scratch Info15
		cd := Item{K: it.K, U: it.U}.codec(&scratch)
		return zcodec{name: cd.name, size: cd.size, body: -1, lead: cd.size, write: cd.write, mar: cd.marshal,
			decode: func(src []byte) (int, bool, string, *byte, error) {
				d := cd.decode(src, false)
				if d.err != nil {
					return d.n, false, "", nil, d.err
				}
				return d.n, d.same(), d.shown(), nil, nil
			}}
	}
	L := it.L
	val := arena[:L:L]
	if it.K == KBytes {
		return zcodec{name: fmt.Sprintf("bytes of %d zero bytes", L), size: xbinary.WritebleBytesSize(val), body: L,
			write: func(ow *xbinary.ObjectsWriter) (int, error) { return ow.WriteBytes(val) },
			mar:   func(dst []byte) (int, error) { return xbinary.MarshalBytes(val, dst) },
			decode: func(src []byte) (int, bool, string, *byte, error) {
				n, r, err := xbinary.UnmarshalBytes(src, false)
				return n, len(r) == L, fmt.Sprintf("a value of %d bytes", len(r)), unsafe.SliceData(r), err
			}}
	}
	s := unsafe.String(unsafe.SliceData(arena), L)
	return zcodec{name: fmt.Sprintf("string of %d zero bytes", L), size: xbinary.WritableStringSize(s), body: L,
		write: func(ow *xbinary.ObjectsWriter) (int, error) { return ow.WriteString(s) },
		mar:   func(dst []byte) (int, error) { return xbinary.MarshalString(s, dst) },
		decode: func(src []byte) (int, bool, string, *byte, error) {
			n, r, err := xbinary.UnmarshalString(src, false)
			return n, len(r) == L, fmt.Sprintf("a value of %d bytes", len(r)), unsafe.StringData(r), err
		}}
}

// seqSmall: encodings up to this size are also produced by Marshal and compared with what the writer emitted
const seqSmall = 1 << 16

// Run15ZS executes a huge stream. Oracle (C15): for every item the writer returns (predicted size, nil) and hands the
// sink exactly that many bytes; an encoding of up to 64 KiB starts with the same (up to 16) bytes as the Marshal
// encoding, a larger one is rejected by Marshal for every destination of 0..prefix+6 bytes and is a prefix of 1..10
// bytes followed by zero bytes; the stream - what the writer emitted, laid out in the arena - decodes item by item
// (newBuf=false) to the same item sequence: (size, value, nil), byte strings of L bytes starting at their place in
// the stream, and the sizes add up to the number of bytes the sink received.
func Run15ZS(c Case15ZS) (info Info15ZS, v *vstat.Violation) {
	defer func() {
		if r := recover(); r != nil {
			v = panicViolation("xbin:c15-panic", r)
		}
	}()
	info.Items = len(c.Items)
	info.Congruent = map[int]bool{}
	if len(c.Items) == 0 || len(c.Items) > MaxSeqItems {
		panic(fmt.Sprintf("bad Case15ZS: %d items", len(c.Items)))
	}
	// classification and limits
	type seen struct{ l, at int }
	var earlier []seen
	budget := 0
	for i, it := range c.Items {
		if it.K != KBytes && it.K != KString {
			budget += 16
			continue
		}
		if it.L < 0 || it.L > MaxSeqItemLen {
			panic(fmt.Sprintf("bad Case15ZS: item #%d has length %d", i, it.L))
		}
		budget += it.L + 16
		info.Strings++
		info.MaxLen = max(info.MaxLen, it.L)
		if it.L >= seqHuge {
			info.Huge++
		}
		for _, e := range earlier {
			if e.l == it.L {
				info.Repeated = true
				continue
			}
			for _, b := range seqModBits {
				if (e.l^it.L)&(1<<b-1) == 0 {
					info.Congruent[b] = true
					if b >= 16 {
						info.Between = info.Between || i-e.at > 1
						info.Shrinking = info.Shrinking || it.L < e.l
					}
				}
			}
		}
		earlier = append(earlier, seen{it.L, i})
	}
	if info.Huge > MaxSeqHuge {
		panic(fmt.Sprintf("bad Case15ZS: %d items of 2^28 bytes and more", info.Huge))
	}
	if !ReserveArena(budget + 64) {
		info.NoArena = true
		return info, nil
	}
	arena := zeroArena[:cap(zeroArena)]

	// phase 1: everything goes through one writer into one sink
	sink := &segSink{}
	ow := &xbinary.ObjectsWriter{Writer: sink}
	cds := make([]zcodec, len(c.Items))
	var total int64
	for i, it := range c.Items {
		cd := it.zcodec(arena)
		where := fmt.Sprintf("stream item #%d of %d, %s", i, len(c.Items), cd.name)
		if cd.body >= 0 {
			cd.lead = cd.size - cd.body
			if cd.lead < 1 || cd.lead > 10 {
				return info, vstat.V("xbin:size-law", "%s: predicted size %d, i.e. a prefix of %d bytes", where, cd.size, cd.lead)
			}
		}
		sink.begin()
		n, err := cd.write(ow)
		if err != nil || n != cd.size {
			return info, vstat.V("xbin:writer-count", "%s: ObjectsWriter returned (%d, %v), the predicted size is %d and the sink received %d bytes for this item (the writer has written %d items before)", where, n, err, cd.size, sink.item, i)
		}
		if sink.item != int64(cd.size) {
			return info, vstat.V("xbin:writer-bytes", "%s: ObjectsWriter returned (%d, nil) but the sink received %d bytes for this item", where, n, sink.item)
		}
		cd.head = sink.head
		nh := min(cd.size, len(cd.head))
		if cd.size <= seqSmall {
			enc := make([]byte, cd.size)
			if n, err := cd.mar(enc); err != nil || n != cd.size {
				return info, vstat.V("xbin:size-law", "%s: Marshal into a buffer of the predicted size %d returned (%d, %v)", where, cd.size, n, err)
			}
			if !bytes.Equal(cd.head[:nh], enc[:nh]) {
				return info, vstat.V("xbin:writer-bytes", "%s: ObjectsWriter emitted %x..., Marshal %x... (the writer has written %d items before)", where, cd.head[:nh], enc[:nh], i)
			}
		} else {
			var small [16]byte
			for d := 0; d <= cd.lead+6; d++ {
				n, err := cd.mar(small[:d:d])
				if err == nil {
					return info, vstat.V("xbin:short-dst-accepted", "%s: Marshal into %d bytes (needs %d) returned (%d, nil)", where, d, cd.size, n)
				}
				if n != 0 {
					return info, vstat.V("xbin:short-dst-count", "%s: Marshal into %d bytes (needs %d) failed but returned n=%d, want 0", where, d, cd.size, n)
				}
			}
			for j := cd.lead; j < nh; j++ {
				if cd.head[j] != 0 {
					return info, vstat.V("xbin:writer-bytes", "%s: the item's bytes start with %x, expected a prefix of %d bytes followed by the zero bytes of the body", where, cd.head[:nh], cd.lead)
				}
			}
		}
		cds[i] = cd
		total += int64(cd.size)
	}
	info.Calls, info.Total = sink.calls, total
	if sink.total != total {
		return info, vstat.V("xbin:writer-bytes", "stream of %d items: the sink received %d bytes, the predicted sizes add up to %d", len(cds), sink.total, total)
	}
	if total > int64(len(arena)) {
		return info, vstat.V("xbin:size-law", "stream of %d items: the predicted sizes add up to %d bytes, the values to less than %d", len(cds), total, budget)
	}

	// phase 2: the stream in place - what the writer emitted in front of every body, at the offset where it belongs
	offs := make([]int, len(cds))
	off := 0
	for i, cd := range cds {
		offs[i] = off
		copy(arena[off:off+cd.lead], cd.head[:cd.lead])
		off += cd.size
	}
	defer func() {
		for i, cd := range cds {
			releaseArena(offs[i], cd.lead)
		}
	}()
	stream := arena[:total:total]
	off = 0
	for i, cd := range cds {
		where := fmt.Sprintf("stream item #%d of %d, %s, at offset %d of %d", i, len(cds), cd.name, off, total)
		if off != offs[i] {
			return info, vstat.V("xbin:roundtrip-consumed", "%s: the items before it were written as %d bytes", where, offs[i])
		}
		n, ok, shown, ptr, err := cd.decode(stream[off:])
		if err != nil {
			return info, vstat.V("xbin:roundtrip-error", "%s: Unmarshal of the writer's output %x followed by the rest of the stream failed: %v", where, cd.head[:cd.lead], err)
		}
		if n != cd.size {
			return info, vstat.V("xbin:roundtrip-consumed", "%s: Unmarshal consumed %d bytes, the writer wrote %d", where, n, cd.size)
		}
		if !ok {
			return info, vstat.V("xbin:roundtrip-value", "%s: Unmarshal returned %s", where, shown)
		}
		if cd.body > 0 && ptr != &stream[off+cd.lead] {
			return info, vstat.V("xbin:nocopy-not-aliasing", "%s: the result does not start at stream[%d] (newBuf=false must return the input range)", where, off+cd.lead)
		}
		if cd.body >= 1<<31 && off > 0 {
			info.Decoded2G = true
		}
		off += n
	}
	if int64(off) != total {
		return info, vstat.V("xbin:concat-leftover", "stream of %d items: decoding consumed %d of %d bytes", len(cds), off, total)
	}
	return info, nil
}
