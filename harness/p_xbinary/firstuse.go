package p_xbinary

import (
	"encoding/json"
	"fmt"
	"os"
	"os/exec"
	"path/filepath"
	"regexp"
	"strings"

	"verifharness/internal/vstat"
)

// Case16F is a "first use" case for C16: the concurrent case C is executed as THE VERY FIRST use of the library in a
// fresh process, Tries times (a fresh process every time). Whatever the Unmarshal functions set up lazily on their
// first call (tables, pools, caches) exists once per process, and only the calls that arrive while it is being set up
// can see it half done - a moment that the other units, which share one long-lived test process, meet at most once.
// "For every byte string each Unmarshal function returns without panicking ..." has no "except for the first calls of
// a process": a server that starts decoding on all its workers at once makes exactly these calls.
type Case16F struct {
	C     Case16C `json:"c"`
	Tries int     `json:"tries"`
}

// Hash identifies the case.
func (c Case16F) Hash() uint64 { return vstat.Hash(c) }

// Environment of a child process: the case (JSON of a Case16C) and where to put the verdict.
const (
	FirstUseCaseEnv = "VERIF_XBIN_FIRSTUSE_CASE"
	FirstUseOutEnv  = "VERIF_XBIN_FIRSTUSE_OUT"
	FirstUseChild   = "TestC16FirstUseChild"
)

// FirstUseVerdict is what a child leaves behind.
type FirstUseVerdict struct {
	Done bool             `json:"done"`
	Info Info16C          `json:"info"`
	V    *vstat.Violation `json:"v,omitempty"`
}

// Info16F is what the classifier needs.
type Info16F struct {
	Children int
	Last     Info16C
	Rot      int
}

// NonTrivial: at least one fresh process ran the case on two or more goroutines.
func (i Info16F) NonTrivial() bool { return i.Children > 0 && i.Last.G >= 2 }

// Classes for the histogram (per case; the children are counted in first_use_child_processes).
func (i Info16F) Classes() []string {
	c := []string{"first_use_in_fresh_process", "first_use_first_call_" + decoders16[i.Rot].name}
	if i.Last.Shared {
		c = append(c, "first_use_same_first_call_on_all_goroutines")
	} else {
		c = append(c, "first_use_inputs_partitioned")
	}
	if i.Last.Succeeding >= 2 {
		c = append(c, "first_use_newBuf_copies_on_ge_2_goroutines")
	}
	return c
}

// FirstUseChildMain is the body of the child test: nothing in this process has called the library before Run16C does
// (from all goroutines of the case at once; its reference calls come after the concurrent phase).
func FirstUseChildMain() error {
	var c Case16C
	if err := json.Unmarshal([]byte(os.Getenv(FirstUseCaseEnv)), &c); err != nil {
		return fmt.Errorf("bad %s: %v", FirstUseCaseEnv, err)
	}
	info, v := Run16C(c)
	b, err := json.Marshal(FirstUseVerdict{Done: true, Info: info, V: v})
	if err != nil {
		return err
	}
	return os.WriteFile(os.Getenv(FirstUseOutEnv), b, 0o644)
}

var crashLine = regexp.MustCompile(`(?m)^(panic: .*|fatal error: .*)$`)

// Run16F executes the case: Tries child processes (the test binary itself, restricted to the child test), each with the
// driver's environment minus the stats / replay variables (a child must not write the parent's stats file; the
// parent reports for it). The first child that reports a violation, or that dies with a Go panic / fatal error whose
// trace runs through the library, decides. A child that fails for another reason is an infrastructure error (err).
func Run16F(c Case16F, scratch string) (info Info16F, v *vstat.Violation, err error) {
	info.Rot = c.C.Rot % len(decoders16)
	if info.Rot < 0 {
		info.Rot += len(decoders16)
	}
	self, err := os.Executable()
	if err != nil {
		return info, nil, err
	}
	raw, err := json.Marshal(c.C)
	if err != nil {
		return info, nil, err
	}
	out := filepath.Join(scratch, fmt.Sprintf("firstuse-%d.json", os.Getpid()))
	var env []string
	for _, kv := range os.Environ() {
		if strings.HasPrefix(kv, "VERIF_STATS") || strings.HasPrefix(kv, "VERIF_REPLAY=") || strings.HasPrefix(kv, FirstUseCaseEnv+"=") || strings.HasPrefix(kv, FirstUseOutEnv+"=") {
			continue
		}
		env = append(env, kv)
	}
	env = append(env, FirstUseCaseEnv+"="+string(raw), FirstUseOutEnv+"="+out)
	for t := 0; t < max(c.Tries, 1); t++ {
		os.Remove(out)
		cmd := exec.Command(self, "-test.run=^"+FirstUseChild+"$", "-test.count=1", "-test.timeout=300s")
		cmd.Env = env
		log, runErr := cmd.CombinedOutput()
		info.Children++
		var verdict FirstUseVerdict
		if b, rerr := os.ReadFile(out); rerr == nil && json.Unmarshal(b, &verdict) == nil && verdict.Done {
			os.Remove(out)
			info.Last = verdict.Info
			if verdict.V != nil {
				verdict.V.Msg = fmt.Sprintf("fresh process #%d of %d, the first calls of the library in it: %s", t+1, max(c.Tries, 1), verdict.V.Msg)
				return info, verdict.V, nil
			}
			if runErr != nil {
				return info, nil, fmt.Errorf("child process #%d reported no violation but ended with %v:\n%s", t+1, runErr, tailOf(log, 3000))
			}
			continue
		}
		// no verdict: the process died
		txt := string(log)
		if m := crashLine.FindStringIndex(txt); m != nil && strings.Contains(txt[m[0]:min(len(txt), m[0]+8000)], "github.com/acquirecloud/golibs/") {
			return info, vstat.V("xbin:first-use-process-died", "fresh process #%d of %d died during the first calls of the library in it: %s", t+1, max(c.Tries, 1), txt[m[0]:m[1]]), nil
		}
		return info, nil, fmt.Errorf("child process #%d left no verdict (%v):\n%s", t+1, runErr, tailOf(log, 3000))
	}
	return info, nil, nil
}

func tailOf(b []byte, n int) string {
	if len(b) > n {
		b = b[len(b)-n:]
	}
	return string(b)
}
