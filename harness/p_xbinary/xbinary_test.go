package p_xbinary

import (
	"encoding/binary"
	"encoding/hex"
	"encoding/json"
	"fmt"
	"os"
	"path/filepath"
	"runtime"
	"runtime/debug"
	"strconv"
	"strings"
	"sync"
	"testing"

	"pgregory.net/rapid"
	"verifharness/internal/enum"
	"verifharness/internal/vstat"
)

func TestMain(m *testing.M) {
	// the decoders allocate an error value per rejected input; a larger GC target roughly halves the CPU cost of a run
	debug.SetGCPercent(400)
	vstat.Main(m)
}

// =============================================================================================
// C15

func record15(c Case15, info Info15) {
	st := vstat.For("C15")
	var h uint64
	if info.NonTrivial() {
		h = c.Hash()
	}
	st.Case(info.NonTrivial(), h, func() any { return c }, info.Classes()...)
	st.AddExtra("short_destination_rejections_checked", info.ShortDst)
	st.AddExtra("sink_kind_and_fill_level_writes_checked", info.SinkWrites)
	st.AddExtra("marshal_calls_into_destinations_next_to_an_inaccessible_page", info.GuardDst)
	st.AddExtra("items_checked", int64(info.Items))
	st.AddExtra("newBuf_results_overwritten_in_place", info.Scribbled)
}

// mix is a fixed bit mixer used to pick "a value of that bit length" in the enumerations (a pure function of its argument).
func mix(x uint64) uint64 {
	x += 0x9e3779b97f4a7c15
	x = (x ^ (x >> 30)) * 0xbf58476d1ce4e5b9
	x = (x ^ (x >> 27)) * 0x94d049bb133111eb
	return x ^ (x >> 31)
}

// boundaryValues: every bit length 0..64 (smallest, largest and one mixed value of that length) and every
// 2^(7k), 2^(8k) with the neighbours -2..+2 (wrapping at 2^64, which gives 2^64-1, 2^64-2, 0, 1, 2).
func boundaryValues() []uint64 {
	seen := map[uint64]bool{}
	var out []uint64
	add := func(v uint64) {
		if !seen[v] {
			seen[v] = true
			out = append(out, v)
		}
	}
	add(0)
	for b := 1; b <= 64; b++ {
		lo := uint64(1) << (b - 1)
		hi := lo - 1 + lo
		add(lo)
		add(hi)
		add(lo | (mix(uint64(b)) & (lo - 1)))
	}
	for d := -2; d <= 2; d++ {
		for k := 1; k <= 9; k++ {
			add(uint64(1)<<(7*k) + uint64(int64(d)))
		}
		for k := 1; k <= 8; k++ {
			var p uint64
			if k < 8 {
				p = 1 << (8 * k)
			}
			add(p + uint64(int64(d)))
		}
	}
	return out
}

func bytesItem(kind string, n int, seed uint64, nb bool) Item {
	return Item{K: kind, L: n, Seed: seed, NB: nb}
}

func TestC15Exhaustive(t *testing.T) {
	st := vstat.For("C15")
	shard, shards := vstat.Shard()
	idx := 0
	count := map[string]int64{}
	one := func(part string, c Case15) {
		idx++
		if idx%shards != shard {
			return
		}
		info, v := Run15(c)
		st.Report(t, "TestC15Exhaustive", c, v)
		record15(c, info)
		count[part]++
	}
	// all bytes, all uint16
	for v := 0; v < 256; v++ {
		one("byte_all_256", Case15{Items: []Item{{K: KByte, U: uint64(v)}}})
	}
	for v := 0; v < 65536; v++ {
		one("uint16_all_65536", Case15{Items: []Item{{K: KU16, U: uint64(v)}}})
	}
	// bit lengths and group / byte boundaries for the 32/64-bit and variable-length kinds
	bv := boundaryValues()
	for _, v := range bv {
		one("varint_boundaries", Case15{Items: []Item{{K: KVar, U: v}}})
		one("uint64_boundaries", Case15{Items: []Item{{K: KU64, U: v}}})
		if v>>32 == 0 || v >= ^uint64(0)-2 {
			one("uint32_boundaries", Case15{Items: []Item{{K: KU32, U: v}}})
		}
	}
	// all strings of length 0..3 over {0x00, 'a', 0xff}
	alpha := []byte{0x00, 'a', 0xff}
	enumStrings := func(f func(s []byte)) {
		f(nil)
		buf := make([]byte, 0, 3)
		enum.Lists(len(alpha), 3, 0, 1, func(ix []int) {
			if len(ix) == 0 {
				return
			}
			buf = buf[:0]
			for _, i := range ix {
				buf = append(buf, alpha[i])
			}
			f(buf)
		})
	}
	for _, kind := range []string{KBytes, KString} {
		for _, nb := range []bool{false, true} {
			enumStrings(func(s []byte) {
				one("strings_len_0_3_alphabet_3", Case15{Items: []Item{{K: kind, D: hex.EncodeToString(s), NB: nb}}})
			})
		}
	}
	// lengths: 0..260 completely (1/2-byte prefix), around 2^14 and 2^21
	var lens []int
	for n := 0; n <= 260; n++ {
		lens = append(lens, n)
	}
	for n := 1<<14 - 4; n <= 1<<14+4; n++ {
		lens = append(lens, n)
	}
	for _, n := range vstat.Pick([]int{1<<21 - 1, 1 << 21}, []int{1<<21 - 3, 1<<21 - 2, 1<<21 - 1, 1 << 21, 1<<21 + 1, 1<<21 + 2}) {
		lens = append(lens, n)
	}
	for i, n := range lens {
		if n < 1<<20 {
			one("length_boundaries", Case15{Items: []Item{bytesItem(KBytes, n, uint64(n), i%2 == 0)}})
			one("length_boundaries", Case15{Items: []Item{bytesItem(KString, n, uint64(n)+7, i%2 == 1)}})
			continue
		}
		kind := KBytes
		if i%2 == 1 {
			kind = KString
		}
		one("length_boundaries_multi_MB", Case15{Items: []Item{bytesItem(kind, n, uint64(n), n%2 == 0)}})
	}
	// concatenations: every list of representative items up to the depth
	rep := []Item{
		{K: KByte, U: 0}, {K: KByte, U: 0x80}, {K: KU16, U: 0x0100}, {K: KU16, U: 0xffff}, {K: KU32, U: 0x80000000}, {K: KU32, U: 1},
		{K: KU64, U: 1 << 63}, {K: KU64, U: 0x0102030405060708},
		{K: KVar, U: 0}, {K: KVar, U: 127}, {K: KVar, U: 128}, {K: KVar, U: 1<<14 - 1}, {K: KVar, U: 1 << 35}, {K: KVar, U: 1<<63 - 1}, {K: KVar, U: ^uint64(0)},
		{K: KBytes}, {K: KBytes, NB: true}, {K: KBytes, D: "00", NB: true}, {K: KBytes, D: "80ff7f", NB: false}, bytesItem(KBytes, 127, 1, true), bytesItem(KBytes, 128, 2, false),
		{K: KString}, {K: KString, D: "61", NB: false}, {K: KString, D: "ff80", NB: true}, bytesItem(KString, 128, 3, true), bytesItem(KString, 129, 4, false),
	}
	depth := vstat.Pick(2, 3)
	{
		items := make([]Item, 0, depth)
		// sharding is done by `one`; enumerate everything here
		enum.Lists(len(rep), depth, 0, 1, func(ix []int) {
			if len(ix) < 2 {
				return
			}
			items = items[:0]
			for _, i := range ix {
				items = append(items, rep[i])
			}
			one("concatenations", Case15{Items: append([]Item(nil), items...)})
		})
	}
	parts := map[string]any{"shards": shards, "concat_depth": depth, "concat_alphabet": len(rep)}
	for k, v := range count {
		parts[k] = v
	}
	st.SetExhaustive("codec_values", parts)
}

// ---- rapid generators

func genNumeric(t *rapid.T, width int) uint64 {
	var v uint64
	switch rapid.IntRange(0, 9).Draw(t, "numClass") {
	case 0, 1, 2: // a value of a drawn bit length
		b := rapid.IntRange(0, width).Draw(t, "bitlen")
		if b > 0 {
			lo := uint64(1) << (b - 1)
			v = rapid.Uint64Range(lo, lo-1+lo).Draw(t, "val")
		}
	case 3, 4, 5: // 2^(7k) +- {0,1,2}
		k := rapid.IntRange(1, 9).Draw(t, "k7")
		v = uint64(1)<<(7*k) + uint64(int64(rapid.IntRange(-2, 2).Draw(t, "delta")))
	case 6, 7: // 2^(8k) +- {0,1,2}, k=8 wraps to the top of the range
		k := rapid.IntRange(1, 8).Draw(t, "k8")
		if k < 8 {
			v = 1 << (8 * k)
		}
		v += uint64(int64(rapid.IntRange(-2, 2).Draw(t, "delta")))
	default:
		v = rapid.Uint64().Draw(t, "val")
	}
	if width < 64 {
		v &= uint64(1)<<width - 1
	}
	return v
}

func genBytesItem(t *rapid.T, kind string, huge **bool) Item {
	var n int
	// rapid's integer draws favour small values and the ends of the range: the frequencies of the classes are
	// measured (class histogram in the evidence), not assumed.
	switch c := rapid.IntRange(0, 15).Draw(t, "lenClass"); {
	case *huge == nil: // the one multi-megabyte value of this case (3/4-byte prefix boundary)
		n = rapid.IntRange(1<<21-2, 1<<21+2).Draw(t, "len")
		*huge = new(bool)
	case c <= 2:
		n = rapid.IntRange(0, 3).Draw(t, "len")
	case c <= 5:
		n = rapid.IntRange(124, 132).Draw(t, "len")
	case c <= 7 || c == 15:
		n = rapid.IntRange(0, 300).Draw(t, "len")
	case c == 12:
		if k := rapid.IntRange(0, 7).Draw(t, "bigClass"); k == 3 || k == 4 { // 2/3-byte prefix boundary
			n = rapid.IntRange(1<<14-4, 1<<14+4).Draw(t, "len")
		} else {
			n = rapid.IntRange(300, 6000).Draw(t, "len")
		}
	default:
		n = rapid.IntRange(4, 123).Draw(t, "len")
	}
	it := Item{K: kind, L: n, NB: rapid.Bool().Draw(t, "newBuf")}
	headMax := min(n, 24)
	var head []byte
	switch rapid.IntRange(0, 3).Draw(t, "content") {
	case 0: // text
		s := rapid.StringN(0, headMax, headMax).Draw(t, "text")
		head = []byte(s)
	case 1: // arbitrary bytes
		head = rapid.SliceOfN(rapid.Byte(), 0, headMax).Draw(t, "head")
	case 2: // hostile bytes
		head = rapid.SliceOfN(rapid.SampledFrom([]byte{0x00, 0x7f, 0x80, 0xff, 0xc0, 0xed, 0xa0, 'a'}), 0, headMax).Draw(t, "head")
	default:
	}
	it.D = hex.EncodeToString(head)
	if n > len(head) {
		if kind == KString && rapid.IntRange(0, 2).Draw(t, "asciiFill") == 0 && n <= 300 {
			// a printable fill keeps some longer strings valid UTF-8
			it.D += hex.EncodeToString([]byte(strings.Repeat("z", n-len(head))))
		} else {
			it.Seed = rapid.Uint64().Draw(t, "seed")
		}
	}
	return it
}

func genItem(t *rapid.T, huge **bool) Item {
	switch k := rapid.IntRange(0, 15).Draw(t, "kind"); {
	case k == 0:
		return Item{K: KByte, U: genNumeric(t, 8)}
	case k == 1:
		return Item{K: KU16, U: genNumeric(t, 16)}
	case k <= 3:
		return Item{K: KU32, U: genNumeric(t, 32)}
	case k <= 5:
		return Item{K: KU64, U: genNumeric(t, 64)}
	case k <= 9:
		return Item{K: KVar, U: genNumeric(t, 64)}
	case k <= 12:
		return genBytesItem(t, KBytes, huge)
	default:
		return genBytesItem(t, KString, huge)
	}
}

func genCase15(t *rapid.T) Case15 {
	n := rapid.IntRange(1, 20).Draw(t, "items")
	// every destination length 0..size+1 of a 2 MB value costs about a second, so few cases get one (the first byte
	// string of the case becomes the big one); huge == nil means "still to be placed"
	huge := new(bool)
	if rapid.IntRange(0, 1023).Draw(t, "hugeGate") == 613 {
		huge = nil
	}
	c := Case15{}
	for i := 0; i < n; i++ {
		c.Items = append(c.Items, genItem(t, &huge))
	}
	return c
}

func TestC15Rapid(t *testing.T) {
	st := vstat.For("C15")
	rapid.Check(t, func(t *rapid.T) {
		c := genCase15(t)
		info, v := Run15(c)
		st.Report(t, "TestC15Rapid", c, v)
		record15(c, info)
	})
}

// case15FromBytes is the data-provider layer of FuzzC15: it reads a list of (kind, value / length, content) from raw fuzz bytes.
func case15FromBytes(data []byte) Case15 {
	next := func(n int) []byte {
		if len(data) < n {
			b := make([]byte, n)
			copy(b, data)
			data = nil
			return b
		}
		b := data[:n]
		data = data[n:]
		return b
	}
	c := Case15{}
	// one execution must stay far below the 10 s per-input limit of the fuzz engine even on a busy machine: every
	// destination length costs a call, so the lengths of one case share a budget
	budget := 20000
	for len(data) > 0 && len(c.Items) < 8 {
		h := next(1)[0]
		kind := []string{KByte, KU16, KU32, KU64, KVar, KVar, KBytes, KString}[h&7]
		mode := (h >> 3) & 3
		nb := h&0x80 != 0
		switch kind {
		case KBytes, KString:
			raw := binary.LittleEndian.Uint32(next(4))
			var n int
			switch mode {
			case 0:
				n = int(raw % 4)
			case 1:
				n = 120 + int(raw%16)
			case 2:
				n = 1<<14 - 8 + int(raw%16)
			default:
				n = int(raw % 20000)
			}
			if n > budget {
				n = int(raw % 256)
			}
			budget -= n
			head := next(min(n, 8))
			c.Items = append(c.Items, Item{K: kind, L: n, D: hex.EncodeToString(head), Seed: uint64(raw), NB: nb})
		default:
			raw := binary.LittleEndian.Uint64(next(8))
			v := raw
			switch mode {
			case 1:
				v = uint64(1)<<(7*(1+raw%9)) + uint64(int64(raw>>8%5)-2)
			case 2:
				if k := 1 + raw%8; k < 8 {
					v = uint64(1) << (8 * k)
				} else {
					v = 0
				}
				v += uint64(int64(raw>>8%5) - 2)
			case 3:
				v = raw >> (raw >> 58)
			}
			c.Items = append(c.Items, Item{K: kind, U: v})
		}
	}
	return c
}

// FuzzC15 is the native fuzz target of C15 (thorough tier): raw bytes -> item list -> the same oracle.
func FuzzC15(f *testing.F) {
	f.Add([]byte{})
	f.Add([]byte{0x0c, 0x01, 0, 0, 0, 0, 0, 0, 0})             // varint 2^14 -2..+2
	f.Add([]byte{0x8e, 0x07, 0, 0, 0, 0xff, 0xfe, 0x80, 0x00}) // bytes of length 127
	f.Add([]byte{0x17, 0x05, 0, 0, 0, 0x04, 0xff, 0xff, 0xff, 0xff, 0xff, 0xff, 0xff, 0xff})
	f.Add([]byte{0x03, 1, 2, 3, 4, 5, 6, 7, 8, 0x02, 1, 2, 3, 4, 5, 6, 7, 8, 0x01, 1, 2, 3, 4, 5, 6, 7, 8, 0x00, 1, 2, 3, 4, 5, 6, 7, 8})
	st := vstat.For("C15")
	f.Fuzz(func(t *testing.T, data []byte) {
		c := case15FromBytes(data)
		info, v := Run15(c)
		st.Report(t, "FuzzC15", c, v)
		record15(c, info)
	})
}

// =============================================================================================
// C16

func record16(in []byte, info Info16) {
	var h uint64
	if info.NonTrivial() {
		h = vstat.HashBytes(in)
	}
	vstat.For("C16").Case(info.NonTrivial(), h, func() any { return NewCase16(in) }, info.Classes()...)
}

// record16c is record16 for a case in the compact form (large inputs are neither hashed byte by byte nor kept as hex).
func record16c(c Case16, in []byte, info Info16) {
	if c.Fill == 0 {
		record16(in, info)
		return
	}
	var h uint64
	if info.NonTrivial() {
		h = vstat.Hash(c)
	}
	vstat.For("C16").Case(info.NonTrivial(), h, func() any { return c }, info.Classes()...)
}

func TestC16Exhaustive(t *testing.T) {
	st := vstat.For("C16")
	shard, shards := vstat.Shard()
	counts := map[string]int64{}
	idx := 0
	one := func(part string, in []byte) {
		idx++
		if idx%shards != shard {
			return
		}
		info, v := Run16Bytes(in)
		if v != nil {
			st.Report(t, "TestC16Exhaustive", NewCase16(in), v)
		}
		record16(in, info)
		counts[part]++
	}
	// (a) every byte string of length 0..2
	one("all_len_le_2", nil)
	for a := 0; a < 256; a++ {
		one("all_len_le_2", []byte{byte(a)})
	}
	for a := 0; a < 256; a++ {
		for b := 0; b < 256; b++ {
			one("all_len_le_2", []byte{byte(a), byte(b)})
		}
	}
	// sweep of lengths 3..4(5) over the bytes that matter to a group decoder
	sweep := []byte{0x00, 0x01, 0x02, 0x03, 0x04, 0x05, 0x7e, 0x7f, 0x80, 0x81, 0x82, 0x83, 0xfe, 0xff}
	sweepDepth := vstat.Pick(4, 5)
	buf := make([]byte, 0, 16)
	enum.Lists(len(sweep), sweepDepth, 0, 1, func(ix []int) {
		if len(ix) < 3 {
			return
		}
		buf = buf[:0]
		for _, i := range ix {
			buf = append(buf, sweep[i])
		}
		one("sweep_len_3_up", buf)
	})
	// (b) every group string over the extreme group bytes up to 10 bytes: this contains every prefix made of
	// all-ones / all-zero groups with each kind of last group, i.e. 2^63-1, 2^64-1 and the over-long forms
	groupsAlpha := vstat.Pick([]byte{0xff, 0x80, 0x7f, 0x01}, []byte{0xff, 0x80, 0x7f, 0x01, 0x00})
	gDepth := 10
	enum.Lists(len(groupsAlpha), gDepth, 0, 1, func(ix []int) {
		if len(ix) < 5 {
			return
		}
		buf = buf[:0]
		for _, i := range ix {
			buf = append(buf, groupsAlpha[i])
		}
		one("group_strings", buf)
	})
	// the fixed hostile list (also the fuzz seeds)
	for _, h := range Hostile16() {
		one("hostile_constants", h)
	}
	// (c) large records: every body length within 9 of 2^k, k = 8..18 (thorough ..22) - complete, cut short by one
	// byte, followed by three more bytes, with an over-long prefix, and with a prefix that promises one byte more
	maxPow := vstat.Pick(18, 22)
	largeRecord := func(part string, n int) {
		idx++
		if idx%shards != shard {
			return
		}
		minimal, padded, plus1 := PutUvarint(nil, uint64(n), 0), PutUvarint(nil, uint64(n), 1), PutUvarint(nil, uint64(n+1), 0)
		for _, c := range []Case16{
			{In: hex.EncodeToString(minimal), Fill: n, Seed: uint64(n)},
			{In: hex.EncodeToString(minimal), Fill: n - 1, Seed: uint64(n)},
			{In: hex.EncodeToString(minimal), Fill: n + 3, Seed: uint64(n)},
			{In: hex.EncodeToString(padded), Fill: n, Seed: uint64(n)},
			{In: hex.EncodeToString(plus1), Fill: n, Seed: uint64(n)},
		} {
			in := c.Bytes()
			info, v := Run16Bytes(in)
			if v != nil {
				st.Report(t, "TestC16Exhaustive", c, v)
			}
			record16c(c, in, info)
			counts[part]++
		}
	}
	for k := 8; k <= maxPow; k++ {
		for d := -9; d <= 9; d++ {
			largeRecord("large_records", 1<<k+d)
		}
	}
	// (d) records whose body is a whole number of blocks, or one byte less / more: k * 2^m - 1..+1 for the block sizes
	// 2^12 (a page), 2^16 and 2^20 and k = 1..4 (thorough 1..8) - powers of two are only the k = 1, 2, 4 of these. The
	// bodies are the seeded fill stream up to their last byte, so a result that is not the WHOLE body (newBuf=true: a
	// copy of it) is not "a copy of a range of the input"; same five shapes as above.
	for _, m := range []int{12, 16, 20} {
		for k := 1; k <= vstat.Pick(4, 8); k++ {
			for d := -1; d <= 1; d++ {
				largeRecord("block_multiple_records", k<<m+d)
			}
		}
	}
	parts := map[string]any{"shards": shards, "sweep_alphabet": len(sweep), "sweep_depth": sweepDepth, "group_alphabet": len(groupsAlpha), "group_depth": gDepth, "large_record_max_pow2": maxPow, "block_multiple_max_bytes": vstat.Pick(4, 8) << 20}
	for k, v := range counts {
		parts[k] = v
	}
	st.SetExhaustive("decoder_inputs", parts)
}

// most extreme first: rapid shrinks towards the head of the list
var hostileVals = []uint64{^uint64(0), ^uint64(0) - 1, 1<<63 + 1, 1 << 63, 1<<63 - 1, 1<<63 - 2, 1 << 62, 1<<62 - 1, 1<<32 + 1, 1 << 32, 1<<32 - 1, 1<<31 + 1, 1 << 31, 1<<31 - 1}

// genGrammar: prefix (varint in one of several shapes) followed by a body.
func genGrammar(t *rapid.T) []byte {
	body := rapid.SliceOfN(rapid.Byte(), 0, 20).Draw(t, "body")
	return append(genPrefix(t, len(body)), body...)
}

// genBigLen draws a body length of the "large" class: within 9 of a power of two 2^9..2^maxPow, or anything up to 2^maxPow.
func genBigLen(t *rapid.T, maxPow int) int {
	if rapid.IntRange(0, 3).Draw(t, "bigLenClass") == 0 {
		return rapid.IntRange(256, 1<<maxPow).Draw(t, "bigLen")
	}
	return 1<<rapid.IntRange(9, maxPow).Draw(t, "bigPow") + rapid.IntRange(-9, 9).Draw(t, "bigDelta")
}

// genGrammarCase: genGrammar, but one case in twelve has a large body (up to 256 KiB; the enumeration of
// TestC16Exhaustive goes further) in the compact form of Case16: the same hostile / relative / over-long prefixes in front of a record of that size, sometimes cut short.
func genGrammarCase(t *rapid.T) Case16 {
	if rapid.IntRange(0, 11).Draw(t, "largeBody") != 0 {
		return NewCase16(genGrammar(t))
	}
	n := genBigLen(t, 18)
	var prefix []byte
	if rapid.IntRange(0, 2).Draw(t, "exactPrefix") != 0 {
		pad := 0
		if rapid.IntRange(0, 5).Draw(t, "padded") == 0 {
			pad = rapid.IntRange(1, 3).Draw(t, "pad")
		}
		prefix = PutUvarint(nil, uint64(n), pad)
	} else {
		prefix = genPrefix(t, n)
	}
	fill := n
	switch rapid.IntRange(0, 5).Draw(t, "tail") {
	case 0: // body cut short
		fill = n - rapid.IntRange(1, min(n, 20)).Draw(t, "cut")
	case 1: // something follows the record
		fill = n + rapid.IntRange(1, 20).Draw(t, "more")
	}
	return Case16{In: hex.EncodeToString(prefix), Fill: fill, Seed: rapid.Uint64().Draw(t, "seed")}
}

// genGroups: how many groups a run has - 1..12, or (one in eight) as many as exhaust a shift counter of 7, 8, 15 or 16
// bits that grows by 7 per group: 2^w/7 -2..+2 (18, 36, 4681, 9362 bytes; the runs of 2^31/7 bytes are enumerated by
// TestC16WordRuns).
func genGroups(t *rapid.T) int {
	if rapid.IntRange(0, 7).Draw(t, "wordRun") != 0 {
		return rapid.IntRange(1, 12).Draw(t, "groups")
	}
	w := rapid.SampledFrom([]int{7, 8, 8, 15, 16}).Draw(t, "word")
	return (1<<w)/7 + rapid.IntRange(-2, 2).Draw(t, "wordDelta")
}

// genPrefix: a length prefix in front of a body of bodyLen bytes.
func genPrefix(t *rapid.T, bodyLen int) []byte {
	var out []byte
	switch rapid.IntRange(0, 9).Draw(t, "shape") {
	case 0, 1, 2, 3, 4: // a well-formed number, possibly padded to an over-long form
		var v uint64
		switch rapid.IntRange(0, 5).Draw(t, "valClass") {
		case 0:
			v = rapid.SampledFrom(hostileVals).Draw(t, "hostile")
		case 1: // relative to what follows: len(buf)-idx +- 2
			v = uint64(int64(bodyLen) + int64(rapid.IntRange(-2, 2).Draw(t, "delta")))
		case 2: // wraps the signed sum idx+ln back into range: 2^64 - small, 2^63 + small
			v = uint64(rapid.IntRange(-24, 24).Draw(t, "wrap"))
			if rapid.Bool().Draw(t, "half") {
				v += 1 << 63
			}
		case 3:
			v = uint64(1)<<(7*rapid.IntRange(1, 9).Draw(t, "k")) + uint64(int64(rapid.IntRange(-2, 2).Draw(t, "delta")))
		case 4:
			v = uint64(rapid.IntRange(0, 40).Draw(t, "small"))
		default:
			v = rapid.Uint64().Draw(t, "val")
		}
		pad := 0
		if rapid.IntRange(0, 3).Draw(t, "padded") == 0 {
			pad = rapid.IntRange(1, 4).Draw(t, "pad")
		}
		out = PutUvarint(nil, v, pad)
	case 5, 6: // 1..12 arbitrary groups (one in eight: 2^w/7 -2..+2 groups), the last one terminating (or not)
		g := genGroups(t)
		for i := 0; i < g; i++ {
			b := rapid.Byte().Draw(t, "g") | 0x80
			out = append(out, b)
		}
		if rapid.IntRange(0, 4).Draw(t, "terminated") != 0 {
			out[g-1] &= 0x7f
		}
	default: // all-0x80 / all-0xff runs with a chosen last group
		g := genGroups(t)
		fill := rapid.SampledFrom([]byte{0x80, 0xff}).Draw(t, "fill")
		for i := 0; i < g; i++ {
			out = append(out, fill)
		}
		if rapid.Bool().Draw(t, "terminated") {
			out = append(out, rapid.SampledFrom([]byte{0x00, 0x01, 0x02, 0x7e, 0x7f}).Draw(t, "last"))
		}
	}
	return out
}

func TestC16RapidGrammar(t *testing.T) {
	st := vstat.For("C16")
	rapid.Check(t, func(t *rapid.T) {
		c := genGrammarCase(t)
		in := c.Bytes()
		info, v := Run16Bytes(in)
		if v != nil {
			st.Report(t, "TestC16RapidGrammar", c, v)
		}
		record16c(c, in, info)
	})
}

// genMutated: a valid encoding (1..3 items written by the harness's own writer) with one mutation.
func genMutated(t *rapid.T) []byte {
	var enc []byte
	prefixEnd := 0
	n := rapid.IntRange(1, 3).Draw(t, "items")
	for i := 0; i < n; i++ {
		switch rapid.IntRange(0, 5).Draw(t, "kind") {
		case 0:
			enc = PutUvarint(enc, rapid.Uint64().Draw(t, "v"), 0)
		case 1:
			enc = binary.BigEndian.AppendUint64(enc, rapid.Uint64().Draw(t, "v"))
		default:
			var ln int
			switch rapid.IntRange(0, 3).Draw(t, "lenClass") {
			case 0:
				ln = rapid.IntRange(0, 3).Draw(t, "len")
			case 1:
				ln = rapid.IntRange(125, 130).Draw(t, "len")
			default:
				ln = rapid.IntRange(0, 40).Draw(t, "len")
			}
			enc = PutUvarint(enc, uint64(ln), 0)
			if i == 0 {
				prefixEnd = len(enc)
			}
			content := rapid.SliceOfN(rapid.Byte(), 0, min(ln, 6)).Draw(t, "content")
			for len(content) < ln {
				content = append(content, byte('a'+len(content)%26))
			}
			enc = append(enc, content...)
		}
	}
	if prefixEnd == 0 {
		prefixEnd = 1
	}
	pos := func(label string) int {
		if rapid.Bool().Draw(t, label+"InPrefix") {
			return rapid.IntRange(0, prefixEnd-1).Draw(t, label)
		}
		return rapid.IntRange(0, len(enc)-1).Draw(t, label)
	}
	switch rapid.IntRange(0, 6).Draw(t, "mutation") {
	case 0: // truncate
		enc = enc[:rapid.IntRange(0, len(enc)-1).Draw(t, "cut")]
	case 1: // flip one bit
		p := pos("at")
		enc[p] ^= 1 << rapid.IntRange(0, 7).Draw(t, "bit")
	case 2: // overwrite one byte with an extreme one
		enc[pos("at")] = rapid.SampledFrom([]byte{0x00, 0x7f, 0x80, 0xff}).Draw(t, "byte")
	case 3: // extend the prefix: set the continuation bit of its last byte and insert groups
		ins := rapid.SliceOfN(rapid.SampledFrom([]byte{0x80, 0xff, 0x81, 0x00, 0x01, 0x7f}), 1, 10).Draw(t, "ins")
		enc[prefixEnd-1] |= 0x80
		enc = append(enc[:prefixEnd:prefixEnd], append(ins, enc[prefixEnd:]...)...)
	case 4: // delete one byte
		p := pos("at")
		enc = append(enc[:p:p], enc[p+1:]...)
	case 5: // append
		enc = append(enc, rapid.SliceOfN(rapid.Byte(), 1, 8).Draw(t, "tail")...)
	default: // rewrite the first prefix to length +- delta, keeping the body
		v, k := uint64(0), 0
		for k < len(enc) {
			v |= uint64(enc[k]&127) << (7 * k)
			k++
			if enc[k-1] <= 127 || k == 9 {
				break
			}
		}
		v += uint64(int64(rapid.IntRange(-3, 3).Draw(t, "delta")))
		enc = append(PutUvarint(nil, v, 0), enc[k:]...)
	}
	return enc
}

func TestC16RapidMutate(t *testing.T) {
	st := vstat.For("C16")
	rapid.Check(t, func(t *rapid.T) {
		in := genMutated(t)
		info, v := Run16Bytes(in)
		if v != nil {
			st.Report(t, "TestC16RapidMutate", NewCase16(in), v)
		}
		record16(in, info)
	})
}

// FuzzC16 is the native fuzz target (thorough tier): one entry point feeding the bytes to every Unmarshal function.
func FuzzC16(f *testing.F) {
	for _, h := range Hostile16() {
		f.Add(h)
	}
	st := vstat.For("C16")
	f.Fuzz(func(t *testing.T, data []byte) {
		info, v := Run16Bytes(data)
		if v != nil {
			st.Report(t, "FuzzC16", NewCase16(data), v)
		}
		record16(data, info)
	})
}

// =============================================================================================
// C15: writer histories

func record15W(c Case15W, info Info15W) {
	st := vstat.For("C15")
	var h uint64
	if info.NonTrivial() {
		h = c.Hash()
	}
	st.Case(info.NonTrivial(), h, func() any { return c }, info.Classes()...)
	st.AddExtra("writer_history_items", int64(info.Items))
}

var allDsts = []string{DBuf, DPlain, DFrame, DYield}

// TestC15WritersExhaustive: every list of up to 3 (thorough 4) steps over a small item alphabet x every destination,
// one ObjectsWriter, the four destination kinds.
func TestC15WritersExhaustive(t *testing.T) {
	st := vstat.For("C15")
	shard, shards := vstat.Shard()
	items := []Item{
		{K: KString, D: "6162"}, {K: KString, D: "ff00"}, {K: KString}, bytesItem(KString, 300, 5, false),
		{K: KBytes, D: "010203"}, bytesItem(KBytes, 244, 6, false), bytesItem(KBytes, 300, 7, false),
		{K: KVar, U: 300}, {K: KU32, U: 0x01020304},
	}
	var alpha []WStep
	for _, it := range items {
		for d := range allDsts {
			alpha = append(alpha, WStep{Item: it, Dst: d})
		}
	}
	depth := vstat.Pick(3, 4)
	n := enum.Lists(len(alpha), depth, shard, shards, func(ix []int) {
		seq := make([]WStep, len(ix))
		for i, k := range ix {
			seq[i] = alpha[k]
		}
		c := Case15W{Dsts: allDsts, Seqs: [][]WStep{seq}}
		info, v := Run15W(c)
		st.Report(t, "TestC15WritersExhaustive", c, v)
		record15W(c, info)
	})
	// *bufio.Writer destinations: every list of 1..2 items into one bufio.Writer of each size below that the harness
	// has filled to EVERY level 0..size beforehand (the default size 4096: the levels 4096-12..4096), so the prefix of
	// the first item meets every amount of free space and the second item whatever the first one left
	bn, idx := int64(0), 0
	for _, size := range []int{1, 2, 3, 4, 7, 10, 11, 16, 32, 4096} {
		for fill := 0; fill <= size; fill++ {
			if size == 4096 && fill < size-12 {
				continue
			}
			dsts := []string{BufioDst(size, fill)}
			enum.Lists(len(items), 2, 0, 1, func(ix []int) {
				idx++
				if len(ix) == 0 || idx%shards != shard {
					return
				}
				seq := make([]WStep, len(ix))
				for i, k := range ix {
					seq[i] = WStep{Item: items[k]}
				}
				c := Case15W{Dsts: dsts, Seqs: [][]WStep{seq}}
				info, v := Run15W(c)
				st.Report(t, "TestC15WritersExhaustive", c, v)
				record15W(c, info)
				bn++
			})
		}
	}
	// copies of a writer: every list of 1..2 steps with all writers of the history (the goroutine's and the inner ones
	// of the framing destinations) being by-value copies of a base writer that has written nothing / a number / a
	// string before; and every list of exactly 2 (thorough 2..3) steps through a zero-value writer whose framing
	// destinations are given a copy of that writer before step 2 (thorough: before step 2 or step 3)
	cn := int64(0)
	runW := func(c Case15W) {
		idx++
		if idx%shards != shard {
			return
		}
		info, v := Run15W(c)
		st.Report(t, "TestC15WritersExhaustive", c, v)
		record15W(c, info)
		cn++
	}
	pres := [][]Item{nil, {{K: KVar, U: 300}}, {{K: KString, D: "6162"}}}
	forkDepth := vstat.Pick(2, 3)
	enum.Lists(len(alpha), forkDepth, 0, 1, func(ix []int) {
		if len(ix) == 0 {
			return
		}
		seq := make([]WStep, len(ix))
		for i, k := range ix {
			seq[i] = alpha[k]
		}
		if len(ix) <= 2 {
			for _, pre := range pres {
				runW(Case15W{Dsts: allDsts, Seqs: [][]WStep{append([]WStep(nil), seq...)}, Pre: pre, Copy: true})
			}
		}
		for at := 1; at < len(seq); at++ {
			fs := append([]WStep(nil), seq...)
			fs[at].Fork = true
			runW(Case15W{Dsts: allDsts, Seqs: [][]WStep{fs}})
		}
	})
	// sinks that are out of order for a while: `before` (nothing or one item), then ONE failing step - every item of
	// the alphabet, the sink taking r bytes of it before it fails, for every r = 0..size-1 (sizes above 12: the first
	// five and the last two, which covers n == 0, a torn prefix, a complete prefix with (0, error) for the body, a torn
	// body) - or two failing steps in a row, then every item as the first judged write after the failure, to the same
	// destination (a quota sink that recovered: the Writer value does not change; any other kind: the Writer field
	// pointed to a failing writer and is re-pointed) or to another one, and one more item behind it; also as copies of a
	// base writer whose last call failed
	fn := int64(0)
	var scratch Info15
	faultDsts := []string{DQuota, DBuf, DFrame, BufioDst(7, 3)}
	for _, bad := range items {
		size := bad.codec(&scratch).size
		for room := 0; room < size; room++ {
			if size > 12 && room > 4 && room < size-2 {
				continue
			}
			for _, next := range items {
				for failDst := range faultDsts {
					for _, nextDst := range []int{failDst, (failDst + 1) % len(faultDsts)} {
						idx++
						if idx%shards != shard {
							continue
						}
						for shape := 0; shape < 4; shape++ {
							seq := []WStep{{Item: bad, Dst: failDst, Fail: true, Room: room}, {Item: next, Dst: nextDst}, {Item: items[(room+shape)%len(items)], Dst: failDst}}
							c := Case15W{Dsts: faultDsts}
							switch shape {
							case 1: // something was written before the failure
								seq = append([]WStep{{Item: next, Dst: failDst}}, seq...)
							case 2: // the sink fails twice in a row
								seq = append([]WStep{{Item: next, Dst: failDst, Fail: true, Room: room / 2}}, seq...)
							case 3: // the writers are copies of a writer whose last call failed that way
								c.Copy, c.Pre, c.PreFail = true, []Item{next, bad}, room+1
								seq = seq[1:]
							}
							c.Seqs = [][]WStep{seq}
							info, v := Run15W(c)
							st.Report(t, "TestC15WritersExhaustive", c, v)
							record15W(c, info)
							fn++
						}
					}
				}
			}
		}
	}
	st.SetExhaustive("writer_histories", map[string]any{"step_alphabet": len(alpha), "depth": depth, "lists": n, "bufio_fill_level_lists": bn, "copied_writer_lists": cn, "copied_writer_depth": forkDepth, "failing_sink_lists": fn, "shards": shards})
}

var drawnDsts = append(append([]string(nil), allDsts...), DQuota)

// genDst draws a destination kind; a third are *bufio.Writer of a small drawn size (or the default 4096) pre-filled
// to a drawn level.
func genDst(t *rapid.T) string {
	if rapid.IntRange(0, 2).Draw(t, "bufioDst") != 0 {
		return rapid.SampledFrom(drawnDsts).Draw(t, "dstKind")
	}
	switch rapid.IntRange(0, 5).Draw(t, "bufioSizeClass") {
	case 0:
		return BufioDst(4096, 4096-rapid.IntRange(0, 24).Draw(t, "bufioFree"))
	case 1:
		size := rapid.IntRange(25, 300).Draw(t, "bufioSize")
		return BufioDst(size, rapid.IntRange(0, size).Draw(t, "bufioFill"))
	default:
		size := rapid.IntRange(1, 24).Draw(t, "bufioSize")
		return BufioDst(size, rapid.IntRange(0, size).Draw(t, "bufioFill"))
	}
}

func genSmallItem(t *rapid.T) Item {
	switch k := rapid.IntRange(0, 9).Draw(t, "kind"); {
	case k <= 2:
		kind := []string{KByte, KU16, KU32, KU64, KVar}[rapid.IntRange(0, 4).Draw(t, "numKind")]
		return Item{K: kind, U: genNumeric(t, 64)}
	default:
		kind := KBytes
		if k >= 6 {
			kind = KString
		}
		var n int
		switch rapid.IntRange(0, 5).Draw(t, "lenClass") {
		case 0:
			n = rapid.IntRange(0, 3).Draw(t, "len")
		case 1:
			n = rapid.IntRange(240, 260).Draw(t, "len")
		case 2:
			n = rapid.IntRange(120, 132).Draw(t, "len")
		case 3:
			n = rapid.IntRange(0, 2000).Draw(t, "len")
		default:
			n = rapid.IntRange(1, 64).Draw(t, "len")
		}
		head := rapid.SliceOfN(rapid.Byte(), 0, min(n, 12)).Draw(t, "head")
		return Item{K: kind, L: n, D: hex.EncodeToString(head), Seed: rapid.Uint64().Draw(t, "seed")}
	}
}

func genCase15W(t *rapid.T, minG, maxG int) Case15W {
	nd := rapid.IntRange(1, 4).Draw(t, "dsts")
	c := Case15W{}
	for i := 0; i < nd; i++ {
		c.Dsts = append(c.Dsts, genDst(t))
	}
	g := rapid.IntRange(minG, maxG).Draw(t, "goroutines")
	// half of the histories meet sinks that fail for a while
	faulty := rapid.Bool().Draw(t, "failingSinks")
	for i := 0; i < g; i++ {
		n := rapid.IntRange(1, 12).Draw(t, "steps")
		seq := make([]WStep, n)
		for j := range seq {
			seq[j] = WStep{Item: genSmallItem(t), Dst: rapid.IntRange(0, nd-1).Draw(t, "dst")}
			// the framing destinations are handed a copy of the goroutine's writer as it is at this point
			seq[j].Fork = rapid.IntRange(0, 9).Draw(t, "fork") == 0
			// the sink is out of order during one step in eight (the step after a failing one: one in two, so that sinks
			// stay out of order for a while): it takes Room bytes - none, a few, any number - of the item and fails
			failOdds := 7
			if j > 0 && seq[j-1].Fail {
				failOdds = 1
			}
			if faulty && rapid.IntRange(0, failOdds).Draw(t, "sinkFails") == 0 {
				seq[j].Fail = true
				switch rapid.IntRange(0, 3).Draw(t, "roomClass") {
				case 0:
				case 1, 2:
					seq[j].Room = rapid.IntRange(1, 11).Draw(t, "room")
				default:
					seq[j].Room = rapid.IntRange(0, 2100).Draw(t, "room")
				}
			}
		}
		c.Seqs = append(c.Seqs, seq)
	}
	if g > 1 {
		c.P1 = rapid.IntRange(0, 3).Draw(t, "gomaxprocs1") == 0
	}
	// a third of the histories: every writer is a by-value copy of a base writer that has written 0..3 items
	if rapid.IntRange(0, 2).Draw(t, "copiedWriters") == 0 {
		c.Copy = true
		for i, n := 0, rapid.IntRange(0, 3).Draw(t, "preItems"); i < n; i++ {
			c.Pre = append(c.Pre, genSmallItem(t))
		}
		if faulty && len(c.Pre) > 0 && rapid.IntRange(0, 2).Draw(t, "baseWriterFailed") == 0 {
			c.PreFail = rapid.IntRange(1, 12).Draw(t, "preFailRoom")
		}
	}
	return c
}

func TestC15RapidWriters(t *testing.T) {
	st := vstat.For("C15")
	rapid.Check(t, func(t *rapid.T) {
		c := genCase15W(t, 1, 1)
		info, v := Run15W(c)
		st.Report(t, "TestC15RapidWriters", c, v)
		record15W(c, info)
	})
}

// TestC15RapidWritersConcurrent: 2..4 goroutines, each with its own ObjectsWriter and destinations (run with -race in the thorough tier).
func TestC15RapidWritersConcurrent(t *testing.T) {
	st := vstat.For("C15")
	rapid.Check(t, func(t *rapid.T) {
		c := genCase15W(t, 2, 4)
		info, v := Run15W(c)
		st.Report(t, "TestC15RapidWritersConcurrent", c, v)
		record15W(c, info)
	})
}

// =============================================================================================
// C16: buffer-reuse histories

func record16H(c Case16H, info Info16H) {
	var h uint64
	if info.NonTrivial() {
		h = c.Hash()
	}
	st := vstat.For("C16")
	st.Case(info.NonTrivial(), h, func() any { return c }, info.Classes()...)
	st.AddExtra("history_newBuf_results_overwritten_in_place", int64(info.Scribbled))
}

// TestC16HistoryExhaustive: every history of 2..3 (thorough 4) rounds over a small alphabet of inputs.
func TestC16HistoryExhaustive(t *testing.T) {
	st := vstat.For("C16")
	shard, shards := vstat.Shard()
	alpha := []string{"", "00", "0161", "0162", "026162", "026261", "03616263", "0a30313233343536373839", "0a39383736353433323130",
		"01610162", "01620161", "0561", "ffffffffffffffffff01", "8000", "02ffff"}
	// streams: one buffer is refilled 12 / 24 times with a new record of the same shape (a value of L bytes that is
	// different every round; or a 4-byte key that repeats in runs of three followed by such a value)
	streams := int64(0)
	if shard == 0 {
		for _, rounds := range []int{12, 24} {
			for _, withKey := range []bool{false, true} {
				for _, L := range []int{1, 2, 3, 9, 63, 64, 65, 127, 128} {
					c := Case16H{}
					for r := 0; r < rounds; r++ {
						var in []byte
						if withKey {
							in = append(PutUvarint(in, 4, 0), 'k', 'e', 'y', byte('0'+(r/3)%10))
						}
						in = PutUvarint(in, uint64(L), 0)
						for j := 0; j < L; j++ {
							in = append(in, byte('a'+(r+j)%26))
						}
						c.Ins = append(c.Ins, hex.EncodeToString(in))
					}
					info, v := Run16H(c)
					if v != nil {
						st.Report(t, "TestC16HistoryExhaustive", c, v)
					}
					record16H(c, info)
					streams++
				}
			}
		}
	}
	depth := vstat.Pick(3, 4)
	n := enum.Lists(len(alpha), depth, shard, shards, func(ix []int) {
		if len(ix) < 2 {
			return // one round is a one-shot input: the other units' domain
		}
		c := Case16H{}
		for _, k := range ix {
			c.Ins = append(c.Ins, alpha[k])
		}
		info, v := Run16H(c)
		if v != nil {
			st.Report(t, "TestC16HistoryExhaustive", c, v)
		}
		record16H(c, info)
	})
	st.SetExhaustive("buffer_reuse_histories", map[string]any{"input_alphabet": len(alpha), "depth": depth, "lists": n, "streams_of_12_and_24_rounds": streams, "shards": shards})
}

// genHistory: 2..5 (sometimes 6..16) rounds. A round is the encoding of 1..3 length-prefixed items - with the lengths of the previous
// round and new content (so the offsets coincide), or with new lengths - or a grammar / mutated input.
func genHistory(t *rapid.T) Case16H {
	rounds := rapid.IntRange(2, 5).Draw(t, "rounds")
	if rapid.IntRange(0, 9).Draw(t, "long") == 7 {
		rounds = rapid.IntRange(6, 16).Draw(t, "rounds")
	}
	var lens []int
	newShape := func() {
		k := rapid.IntRange(1, 3).Draw(t, "items")
		lens = lens[:0]
		for i := 0; i < k; i++ {
			if rapid.IntRange(0, 4).Draw(t, "lenClass") == 0 {
				lens = append(lens, rapid.IntRange(0, 200).Draw(t, "len"))
			} else {
				lens = append(lens, rapid.IntRange(1, 64).Draw(t, "len"))
			}
		}
	}
	newShape()
	c := Case16H{}
	for r := 0; r < rounds; r++ {
		var in []byte
		switch m := rapid.IntRange(0, 9).Draw(t, "round"); {
		case m == 8:
			in = genGrammar(t)
		case m == 9:
			in = genMutated(t)
		default:
			if m >= 6 {
				newShape()
			}
			for _, n := range lens {
				in = PutUvarint(in, uint64(n), 0)
				if rapid.Bool().Draw(t, "smallAlphabet") {
					in = append(in, rapid.SliceOfN(rapid.SampledFrom([]byte{'a', 'b'}), n, n).Draw(t, "content")...)
				} else {
					in = append(in, rapid.SliceOfN(rapid.Byte(), n, n).Draw(t, "content")...)
				}
			}
		}
		c.Ins = append(c.Ins, hex.EncodeToString(in))
	}
	return c
}

func TestC16RapidHistory(t *testing.T) {
	st := vstat.For("C16")
	rapid.Check(t, func(t *rapid.T) {
		c := genHistory(t)
		info, v := Run16H(c)
		if v != nil {
			st.Report(t, "TestC16RapidHistory", c, v)
		}
		record16H(c, info)
	})
}

// =============================================================================================
// C16: concurrent decoders

func record16C(c Case16C, info Info16C) {
	var h uint64
	if info.NonTrivial() {
		h = c.Hash()
	}
	st := vstat.For("C16")
	st.Case(info.NonTrivial(), h, func() any { return c }, info.Classes()...)
	st.AddExtra("concurrent_decoder_calls_compared", int64(info.Calls))
}

// genConcurrent: 2..8 goroutines, 2..48 inputs in the compact form: a grammar prefix (hostile, relative to the body,
// over-long, unterminated ...) or the exact length in front of a body of 0..40 (sometimes up to 5000, rarely up to
// 128 KiB) bytes, or a grammar / mutated input as the one-shot units draw them.
func genConcurrent(t *rapid.T) Case16C {
	c := Case16C{G: rapid.IntRange(2, 8).Draw(t, "goroutines")}
	n := rapid.IntRange(2, 48).Draw(t, "inputs")
	large := 0
	for i := 0; i < n; i++ {
		switch k := rapid.IntRange(0, 9).Draw(t, "inputKind"); {
		case k == 8:
			c.Ins = append(c.Ins, NewCase16(genGrammar(t)))
		case k == 9:
			c.Ins = append(c.Ins, NewCase16(genMutated(t)))
		default:
			body := rapid.IntRange(0, 40).Draw(t, "bodyLen")
			switch rapid.IntRange(0, 15).Draw(t, "bodyClass") {
			case 0, 1:
				body = rapid.IntRange(0, 5000).Draw(t, "bodyLen")
			case 2:
				if large < 2 {
					body = genBigLen(t, 17)
					large++
				}
			}
			var prefix []byte
			if k >= 6 {
				prefix = PutUvarint(nil, uint64(body), 0)
			} else {
				prefix = genPrefix(t, body)
			}
			c.Ins = append(c.Ins, Case16{In: hex.EncodeToString(prefix), Fill: body, Seed: rapid.Uint64().Draw(t, "seed")})
		}
	}
	c.Shared = rapid.IntRange(0, 3).Draw(t, "sameMemory") == 0
	c.P1 = rapid.IntRange(0, 7).Draw(t, "gomaxprocs1") == 0
	return c
}

// TestC16RapidConcurrent: the decoders called from several goroutines at once (run with -race in the thorough tier).
func TestC16RapidConcurrent(t *testing.T) {
	st := vstat.For("C16")
	rapid.Check(t, func(t *rapid.T) {
		c := genConcurrent(t)
		info, v := Run16C(c)
		if v != nil {
			st.Report(t, "TestC16RapidConcurrent", c, v)
		}
		record16C(c, info)
	})
}

// =============================================================================================
// C16: very long runs of continuation bytes

func record16L(c Case16L, info Info16L) {
	var h uint64
	if info.NonTrivial() {
		h = c.Hash()
	}
	vstat.For("C16").Case(info.NonTrivial(), h, func() any { return c }, info.Classes()...)
}

// inflight leaves the case that is about to run in the replay directory (as a replay file of the given test) and
// returns the function that removes it again: if the process does not survive the case - the driver then reports
// signature process-crash with the log - the file that is still there says which case it was and replays it.
func inflight(prop, test string, c any) (done func()) {
	if vstat.ReplayPath() != "" {
		return func() {}
	}
	d := os.Getenv("VERIF_REPLAY_DIR")
	if d == "" {
		d = "/verif/replays"
	}
	d = filepath.Join(d, prop)
	if os.MkdirAll(d, 0o755) != nil {
		return func() {}
	}
	raw, _ := json.Marshal(c)
	seed := os.Getenv("VERIF_SHARDSEED")
	if seed == "" {
		seed = "0"
	}
	b, _ := json.MarshalIndent(vstat.Envelope{Property: prop, Test: test, Seed: seed, Sig: "process-crash",
		Msg: "the test process did not survive this case (it was running when the process died)", Case: raw}, "", " ")
	p := filepath.Join(d, fmt.Sprintf("%s-inflight-seed%s.json", test, seed))
	if os.WriteFile(p, b, 0o644) != nil {
		return func() {}
	}
	return func() { os.Remove(p) }
}

// TestC16LongRuns: inputs that begin with 2^20 .. 2^26 continuation bytes (1 .. 64 MiB), i.e. a variable-length number
// that goes on for megabytes - unterminated, terminated, terminated and followed by a body, behind a first group that
// makes the number non-zero - given to every Unmarshal function. At 2^20 (thorough: up to 2^22) every combination of
// head x run byte x tail; at the larger sizes four representative ones.
func TestC16LongRuns(t *testing.T) {
	st := vstat.For("C16")
	shard, shards := vstat.Shard()
	sizes := vstat.Pick([]int{1 << 20, 1 << 23, 3 << 23, 1 << 26}, []int{1 << 20, 1<<21 + 1, 1 << 22, 1 << 23, 1<<24 - 1, 3 << 23, 1 << 25, 1<<26 - 7, 1 << 26})
	heads := []string{"", "85", "ff"}
	bs := []int{0x80, 0xff, 0x81}
	// nothing / a final zero group / the largest final group / a final group and more bytes / a final group and a body of 5
	tails := []string{"", "00", "7f", "014142", "006162636465"}
	var cases []Case16L
	for _, n := range sizes {
		if n == 1<<20 || (vstat.Thorough() && n <= 1<<22) {
			for _, h := range heads {
				for _, b := range bs {
					for _, tl := range tails {
						cases = append(cases, Case16L{Head: h, Run: n, B: b, Tail: tl})
					}
				}
			}
			continue
		}
		cases = append(cases, Case16L{Run: n, B: 0x80}, Case16L{Run: n, B: 0x80, Tail: "00"}, Case16L{Run: n, B: 0xff},
			Case16L{Head: "85", Run: n, B: 0x80, Tail: "006162636465"})
	}
	maxRun := 0
	for _, n := range sizes {
		maxRun = max(maxRun, n)
	}
	ReserveLong(8 + maxRun + 64)
	ran := int64(0)
	for i, c := range cases {
		if i%shards != shard {
			continue
		}
		done := inflight("C16", "TestC16LongRuns", c)
		info, v := Run16L(c)
		done()
		if v != nil {
			st.Report(t, "TestC16LongRuns", c, v)
		}
		record16L(c, info)
		ran++
	}
	st.SetExhaustive("long_continuation_runs", map[string]any{"run_lengths": sizes, "cases": ran, "shards": shards})
}

// TestC16WordRuns: runs of continuation bytes whose length crosses a word-size boundary of a shift counter. A decoder
// of 7-bit groups adds 7 to its shift per continuation byte; counted in a type of w bits (int8 .. uint32 - a signed
// type is exhausted at w-1) the shift wraps, or turns negative (Go panics on a negative shift amount), after 2^w/7
// bytes of a number that goes on: 18, 36, 4681, 9362, 306783378 and 613566756 bytes. Enumerated: run = 2^w/7 -2..+2 x
// first byte {none, 85, ff} x run byte {80, ff, 81, c3} x tail {unterminated, 00, 7f, 01+2 bytes, 00+a body of 5} for
// w = 7, 8, 15, 16; w = 31 (293 MiB, one arena, one presentation per case): quick two cases - the longest run
// unterminated and terminated -, thorough every length -2..+2 unterminated and terminated, three run bytes; w = 32
// (585 MiB) thorough only.
func TestC16WordRuns(t *testing.T) {
	st := vstat.For("C16")
	shard, shards := vstat.Shard()
	heads := []string{"", "85", "ff"}
	bs := []int{0x80, 0xff, 0x81, 0xc3}
	tails := []string{"", "00", "7f", "014142", "006162636465"}
	var cases []Case16L
	for _, w := range []int{7, 8, 15, 16} {
		for d := -2; d <= 2; d++ {
			for _, h := range heads {
				for _, b := range bs {
					for _, tl := range tails {
						cases = append(cases, Case16L{Head: h, Run: (1<<w)/7 + d, B: b, Tail: tl})
					}
				}
			}
		}
	}
	small := len(cases)
	n31 := (1 << 31) / 7
	if vstat.Thorough() {
		for d := -2; d <= 2; d++ {
			b := bs[(d+2)%3]
			cases = append(cases, Case16L{Run: n31 + d, B: b}, Case16L{Run: n31 + d, B: b, Tail: []string{"00", "7f", "006162636465"}[(d+2)%3]})
		}
		cases = append(cases, Case16L{Head: "85", Run: n31 + 2, B: 0xff, Tail: "014142"})
		n32 := (1 << 32) / 7
		cases = append(cases, Case16L{Run: n32 - 1, B: 0x80, Tail: "00"}, Case16L{Run: n32 + 2, B: 0xff}, Case16L{Run: n32 + 2, B: 0x80, Tail: "006162636465"})
	} else {
		cases = append(cases, Case16L{Run: n31 + 2, B: 0x80}, Case16L{Run: n31 + 2, B: 0xff, Tail: "006162636465"})
	}
	if shard == shards-1 {
		maxRun := 0
		for _, c := range cases {
			maxRun = max(maxRun, c.Run)
		}
		ReserveLong(8 + maxRun + 64) // one allocation for all the huge cases
	}
	ran, huge := int64(0), int64(0)
	for i, c := range cases {
		// the small cases are dealt round robin; the huge ones (one arena of hundreds of MB) all belong to the last shard
		if (i < small && i%shards != shard) || (i >= small && shard != shards-1) {
			continue
		}
		done := inflight("C16", "TestC16WordRuns", c)
		info, v := Run16L(c)
		done()
		if v != nil {
			st.Report(t, "TestC16WordRuns", c, v)
		}
		record16L(c, info)
		ran++
		if i >= small {
			huge++
		}
	}
	st.SetExhaustive("shift_counter_boundary_runs", map[string]any{"word_sizes": ShiftWords, "cases": ran, "cases_of_2^31/7_bytes_and_more": huge, "shards": shards})
	st.SetExtra("word_runs_peak_resident_kB", peakRSSkB())
}

// =============================================================================================
// C16: records whose body is tens of MiB, copied (newBuf=true) under different scheduling regimes

func record16B(c Case16B, info Info16B) {
	if info.NoArena {
		vstat.For("C16").Inconclusivef("record with a body of %d bytes: no address space for the arena", c.L)
		return
	}
	var h uint64
	if info.NonTrivial() {
		h = c.Hash()
	}
	st := vstat.For("C16")
	st.Case(info.NonTrivial(), h, func() any { return c }, info.Classes()...)
	st.AddExtra("big_record_newBuf_copies_compared_in_full", int64(info.Copies))
	st.AddExtra("big_record_newBuf_bytes_compared", info.Bytes)
}

// TestC16BigCopies: complete records with a body of k*2^24 -1..+1 bytes, k = 2..5 (32..80 MiB; quick: seven of them),
// and of lengths in between, non-zero position-dependent content, with a minimal / over-long prefix, alone or followed by
// three bytes; every one decoded (a) with GOMAXPROCS(1), (b) with GOMAXPROCS(1) and busy sibling goroutines, (c) with
// the processors of the run and two busy siblings per processor (thorough also GOMAXPROCS(2), and without siblings).
// The newBuf=true results are compared in full, far end first, the moment the call returns.
func TestC16BigCopies(t *testing.T) {
	st := vstat.For("C16")
	shard, shards := vstat.Shard()
	lens := vstat.Pick(
		[]int{2<<24 - 1, 2 << 24, 2<<24 + 1, 40<<20 + 777, 3 << 24, 4<<24 + 1, 5 << 24},
		[]int{2<<24 - 1, 2 << 24, 2<<24 + 1, 36<<20 + 5, 40<<20 + 777, 3<<24 - 1, 3 << 24, 3<<24 + 1, 4<<24 - 1, 4 << 24, 4<<24 + 1, 72<<20 + 12345, 5<<24 - 1, 5 << 24, 5<<24 + 1})
	type regime struct{ procs, busy int }
	regimes := vstat.Pick(
		[]regime{{1, 0}, {1, 3}, {0, -2}},
		[]regime{{1, 0}, {1, 3}, {1, 16}, {2, 0}, {2, 4}, {0, 0}, {0, -2}})
	rounds := vstat.Pick(2, 4)
	maxLen := 0
	for _, n := range lens {
		maxLen = max(maxLen, n)
	}
	ReserveLong(8 + maxLen + 64)
	ran, idx := int64(0), 0
	for li, n := range lens {
		for _, rg := range regimes {
			idx++
			if idx%shards != shard {
				continue
			}
			c := Case16B{L: n, Seed: uint64(n) + uint64(idx), Pad: []int{0, 0, 1, 2}[(li+idx)%4], More: []int{0, 3}[idx/2%2], Procs: rg.procs, Busy: rg.busy, Rounds: rounds}
			if rg.busy < 0 {
				c.Busy = -rg.busy * runtime.GOMAXPROCS(0)
			}
			info, v := Run16B(c)
			if v != nil {
				st.Report(t, "TestC16BigCopies", c, v)
			}
			record16B(c, info)
			ran++
		}
	}
	st.SetExhaustive("big_copies", map[string]any{"body_lengths": lens, "regimes_GOMAXPROCS_busy": fmt.Sprint(regimes), "rounds": rounds, "cases": ran, "shards": shards})
	st.SetExtra("big_copies_peak_resident_kB", peakRSSkB())
}

// TestC16HugeCopies: complete records whose body is 2 GiB and more - above MaxInt32 bytes, where a length kept in 32
// bits, or a limit on what is worth copying, first matters - decoded by every function, newBuf=true included (the
// decoder really duplicates the body). Sparse cases of the big-copies type: the input is address space, the process
// holds one copy at a time (2 GiB resident for a body of 2^31 bytes). Same oracle as big_copies: error -> n == 0, success ->
// the result compared in full with the input the moment the call returns. Thorough tier only (memory that a process
// touches for the first time costs several seconds per GiB here): 2^31-1, 2^31, 2^31+1 (over-long prefix, 3 bytes
// behind), 2^32+5; run on its own in the quick tier it does the body of 2^31 bytes.
func TestC16HugeCopies(t *testing.T) {
	st := vstat.For("C16")
	cases := vstat.Pick(
		[]Case16B{{L: 1 << 31, Seed: 11, Sparse: true, Rounds: 1}},
		[]Case16B{{L: 1<<31 - 1, Seed: 7, Sparse: true, Rounds: 1}, {L: 1 << 31, Seed: 11, Sparse: true, Rounds: 1},
			{L: 1<<31 + 1, Seed: 13, Pad: 2, More: 3, Sparse: true, Rounds: 1}, {L: 1<<32 + 5, Seed: 17, Sparse: true, Procs: 1, Rounds: 1}})
	var lens []int
	for _, c := range cases {
		done := inflight("C16", "TestC16HugeCopies", c)
		info, v := Run16B(c)
		done()
		if v != nil {
			st.Report(t, "TestC16HugeCopies", c, v)
		}
		record16B(c, info)
		lens = append(lens, c.L)
	}
	st.SetExhaustive("huge_copies", map[string]any{"body_lengths": lens, "cases": len(cases)})
	st.SetExtra("huge_copies_peak_resident_kB", peakRSSkB())
}

// =============================================================================================
// C16: the first calls of a process

func record16F(c Case16F, info Info16F) {
	var h uint64
	if info.NonTrivial() {
		h = c.Hash()
	}
	st := vstat.For("C16")
	st.Case(info.NonTrivial(), h, func() any { return c }, info.Classes()...)
	st.AddExtra("first_use_child_processes", int64(info.Children))
}

// firstUseInputs: small VALID inputs - one-byte, empty and two-byte records, one- and two-group numbers, eight bytes
// for the fixed-width decoders.
var firstUseInputs = []string{"0100", "0161", "01ff", "0180", "00", "026162", "05", "7f", "8001", "ff7f", "0102030405060708"}

// TestC16FirstUse: for every Unmarshal function x every small valid input, a fresh process (the test binary itself,
// re-executed for TestC16FirstUseChild) whose very first library calls are that function on that input, made by 32
// goroutines at once (and then the other functions); plus, for every function, a fresh process in which 11 goroutines
// start with that function on 11 different inputs. Each such case runs in `tries` fresh processes.
func TestC16FirstUse(t *testing.T) {
	st := vstat.For("C16")
	shard, shards := vstat.Shard()
	tries := vstat.EnvInt("VERIF_XBIN_FIRSTUSE_TRIES", vstat.Pick(2, 6))
	scratch := os.Getenv("VERIF_TMP")
	if scratch == "" {
		scratch = t.TempDir()
	}
	var cases []Case16F
	for rot := range decoders16 {
		for _, in := range firstUseInputs {
			cases = append(cases, Case16F{C: Case16C{Ins: []Case16{{In: in}}, G: 32, Shared: true, Rot: rot}, Tries: tries})
		}
		var all []Case16
		for _, in := range firstUseInputs {
			all = append(all, Case16{In: in})
		}
		cases = append(cases, Case16F{C: Case16C{Ins: all, G: len(all), Rot: rot}, Tries: tries})
	}
	ran := int64(0)
	for i, c := range cases {
		if i%shards != shard {
			continue
		}
		info, v, err := Run16F(c, scratch)
		if err != nil {
			t.Fatalf("first-use case %+v: %v", c, err)
		}
		if v != nil {
			st.Report(t, "TestC16FirstUse", c, v)
		}
		record16F(c, info)
		ran++
	}
	st.SetExhaustive("first_use", map[string]any{"functions": len(decoders16), "inputs": len(firstUseInputs), "cases": ran, "fresh_processes_per_case": tries, "shards": shards})
}

// TestC16FirstUseChild runs only in a child process of TestC16FirstUse / TestReplay.
func TestC16FirstUseChild(t *testing.T) {
	if os.Getenv(FirstUseCaseEnv) == "" {
		t.Skip("not a first-use child process")
	}
	if err := FirstUseChildMain(); err != nil {
		t.Fatalf("first-use child: %v", err)
	}
}

// =============================================================================================
// C15: values decoded with newBuf=true do not keep the source buffer reachable

func record15G(c Case15G, info Info15G) {
	var h uint64
	if info.NonTrivial() {
		h = c.Hash()
	}
	st := vstat.For("C15")
	st.Case(info.NonTrivial(), h, func() any { return c }, info.Classes()...)
	st.AddExtra("liveness_drop_and_collect_experiments", int64(info.Rounds))
}

// TestC15LivenessExhaustive: every list of 1..2 (thorough 3) items from an alphabet of empty, short and 300-byte byte
// strings / strings and two numbers, in source allocations of 64 bytes .. 64 KiB (the encoding at the start or behind 16
// bytes, no / 64 KiB spare capacity), all decoded values kept - and, for the lists of two and more, each one kept alone.
func TestC15LivenessExhaustive(t *testing.T) {
	// every case asks for several full collections: with one processor a collection involves no other thread, which
	// keeps its cost at a millisecond on a loaded machine too (the verdict does not depend on it)
	defer runtime.GOMAXPROCS(runtime.GOMAXPROCS(1))
	st := vstat.For("C15")
	shard, shards := vstat.Shard()
	alphabet := []Item{
		{K: KBytes}, {K: KString}, {K: KBytes, D: "61"}, {K: KString, D: "c3a9"}, {K: KBytes, L: 300, Seed: 5}, {K: KString, L: 300, Seed: 6},
		{K: KVar, U: 300}, {K: KU16, U: 7},
	}
	depth := vstat.Pick(2, 3)
	var ran int64
	idx := 0
	enum.Lists(len(alphabet), depth, 0, 1, func(l []int) {
		if len(l) == 0 {
			return
		}
		items := make([]Item, len(l))
		strs := 0
		for i, a := range l {
			items[i] = alphabet[a]
			if items[i].K == KBytes || items[i].K == KString {
				strs++
			}
		}
		if strs == 0 {
			return
		}
		keeps := [][]int{nil}
		if strs > 1 {
			for i, it := range items {
				if it.K == KBytes || it.K == KString {
					keeps = append(keeps, []int{i})
				}
			}
		}
		for _, fs := range [][2]int{{0, 0}, {16, 0}, {0, 64 << 10}} {
			for _, keep := range keeps {
				idx++
				if idx%shards != shard {
					continue
				}
				c := Case15G{Items: items, Front: fs[0], Slack: fs[1], Keep: keep}
				info, v := Run15G(c)
				if v != nil {
					st.Report(t, "TestC15LivenessExhaustive", c, v)
				}
				record15G(c, info)
				ran++
			}
		}
	})
	st.SetExhaustive("newBuf_liveness", map[string]any{"alphabet": len(alphabet), "max_items": depth, "cases": ran, "shards": shards})
}

func genCase15G(t *rapid.T) Case15G {
	n := rapid.IntRange(1, 8).Draw(t, "items")
	c := Case15G{}
	huge := new(bool) // no multi-megabyte values here
	strs := []int{}
	for i := 0; i < n; i++ {
		var it Item
		switch rapid.IntRange(0, 5).Draw(t, "itemClass") {
		case 0:
			it = Item{K: rapid.SampledFrom([]string{KBytes, KString}).Draw(t, "emptyKind")}
		case 1:
			it = genItem(t, &huge)
		default:
			it = genBytesItem(t, rapid.SampledFrom([]string{KBytes, KString}).Draw(t, "kind"), &huge)
		}
		it.NB = false // the flag is not used here: everything is decoded with newBuf=true
		if it.K == KBytes || it.K == KString {
			strs = append(strs, i)
		}
		c.Items = append(c.Items, it)
	}
	if len(strs) == 0 {
		c.Items = append(c.Items, Item{K: KBytes})
		strs = append(strs, len(c.Items)-1)
	}
	if rapid.IntRange(0, 2).Draw(t, "keepSome") == 0 {
		for _, i := range strs {
			if rapid.Bool().Draw(t, "keep") {
				c.Keep = append(c.Keep, i)
			}
		}
	}
	c.Front = rapid.SampledFrom([]int{0, 0, 1, 8, 16, 4096}).Draw(t, "front")
	c.Slack = rapid.SampledFrom([]int{0, 0, 1, 64, 4096, 64 << 10, 1 << 20}).Draw(t, "slack")
	return c
}

func TestC15RapidLiveness(t *testing.T) {
	defer runtime.GOMAXPROCS(runtime.GOMAXPROCS(1)) // see TestC15LivenessExhaustive
	st := vstat.For("C15")
	rapid.Check(t, func(t *rapid.T) {
		c := genCase15G(t)
		info, v := Run15G(c)
		if v != nil {
			st.Report(t, "TestC15RapidLiveness", c, v)
		}
		record15G(c, info)
	})
}

// =============================================================================================
// C15: byte strings of 256 MiB and more (5-byte prefix), beyond 1 GiB, 2 GiB and 4 GiB

func record15Z(c Case15Z, info Info15Z) {
	if info.NoArena {
		vstat.For("C15").Inconclusivef("huge body of %d bytes: no address space for the arena", c.L)
		return
	}
	var h uint64
	if info.NonTrivial() {
		h = c.Hash()
	}
	vstat.For("C15").Case(info.NonTrivial(), h, func() any { return c }, info.Classes()...)
}

func peakRSSkB() int64 {
	b, err := os.ReadFile("/proc/self/status")
	if err != nil {
		return -1
	}
	for _, l := range strings.Split(string(b), "\n") {
		if strings.HasPrefix(l, "VmHWM:") {
			f := strings.Fields(l)
			if len(f) >= 2 {
				n, _ := strconv.ParseInt(f[1], 10, 64)
				return n
			}
		}
	}
	return -1
}

// TestC15HugeBodies: zero-filled values of the lengths 2^21, 2^28 (4/5-byte prefix), 2^29, 2^30 (thorough: 2^31, 2^32,
// 2^32+2^30) with their neighbours, as bytes and as string, written into a counting sink and decoded in place.
func TestC15HugeBodies(t *testing.T) {
	st := vstat.For("C15")
	var lens []int
	// the arena is address space that is never touched, so 4 GiB cost what 2 MiB cost: both tiers visit every boundary
	// (thorough adds 2^33 and lengths between the boundaries)
	for _, p := range vstat.Pick([]int{21, 28, 29, 30, 31, 32}, []int{21, 28, 29, 30, 31, 32, 33}) {
		for d := -2; d <= 2; d++ {
			lens = append(lens, 1<<p+d)
		}
	}
	lens = append(lens, 1<<30+1<<20+5, 3<<30+7, 1<<32+1<<30+1)
	if vstat.Thorough() {
		lens = append(lens, 1<<31+12345, 5<<30+1<<16+3, 1<<33+1<<32+9)
	}
	maxLen := 0
	for _, n := range lens {
		maxLen = max(maxLen, n)
	}
	ReserveArena(maxLen + 32) // the cases reserve what they need when the whole is not to be had
	for _, n := range lens {
		for _, k := range []string{KBytes, KString} {
			c := Case15Z{K: k, L: n}
			info, v := Run15Z(c)
			st.Report(t, "TestC15HugeBodies", c, v)
			record15Z(c, info)
		}
	}
	// thorough: the round trip with newBuf=true too, across MaxInt32 and 2^32 (the decoder duplicates the body: the process
	// holds up to 4 GiB for a moment)
	var copied []int
	if vstat.Thorough() {
		for _, c := range []Case15Z{{K: KBytes, L: 1<<31 - 1, Copy: true}, {K: KBytes, L: 1 << 31, Copy: true}, {K: KString, L: 1 << 31, Copy: true}, {K: KString, L: 1<<31 + 1, Copy: true}, {K: KBytes, L: 1<<32 + 1, Copy: true}} {
			info, v := Run15Z(c)
			st.Report(t, "TestC15HugeBodies", c, v)
			record15Z(c, info)
			copied = append(copied, c.L)
		}
	}
	st.SetExhaustive("huge_bodies", map[string]any{"lengths": lens, "kinds": 2, "arena_bytes": maxLen + 32, "lengths_decoded_with_newBuf_true": copied})
	st.SetExtra("huge_bodies_peak_resident_kB", peakRSSkB())
}

// =============================================================================================
// C15: streams with values too large to copy (several items on ONE writer, decoded as one concatenation in place)

func record15ZS(c Case15ZS, info Info15ZS) {
	if info.NoArena {
		vstat.For("C15").Inconclusivef("huge stream of %d items: no address space for the arena", len(c.Items))
		return
	}
	var h uint64
	if info.NonTrivial() {
		h = c.Hash()
	}
	st := vstat.For("C15")
	st.Case(info.NonTrivial(), h, func() any { return c }, info.Classes()...)
	st.AddExtra("huge_stream_items", int64(info.Items))
}

// TestC15HugeSeqExhaustive: every stream `first, spacer, second` (and `first, spacer, second, spacer, first`) on one
// writer where first is a byte string / string of b bytes, second one of b + k*2^m bytes - the same low m bits, so
// whatever is kept of a length in m bits cannot tell them apart - in both orders, with nothing / a number / another
// byte string between them; and the streams of the values around 2^31 and 2^32 bytes.
func TestC15HugeSeqExhaustive(t *testing.T) {
	st := vstat.For("C15")
	shard, shards := vstat.Shard()
	ReserveArena(SeqArenaBytes) // the cases reserve what they need when the whole is not to be had
	idx, ran := 0, int64(0)
	one := func(items ...ZItem) {
		idx++
		if idx%shards != shard {
			return
		}
		c := Case15ZS{Items: append([]ZItem(nil), items...)}
		info, v := Run15ZS(c)
		st.Report(t, "TestC15HugeSeqExhaustive", c, v)
		record15ZS(c, info)
		ran++
	}
	bases := vstat.Pick([]int{0, 1, 3, 127, 128, 300}, []int{0, 1, 2, 3, 5, 127, 128, 129, 300, 16383, 16384, 1<<21 + 1})
	mods := []int{8, 16, 31, 32}
	ks := vstat.Pick([]int{1}, []int{1, 2})
	spacers := [][]ZItem{nil, {{K: KU16, U: 0x1234}}, {{K: KVar, U: 300}}, {{K: KString, L: 2}}, {{K: KByte, U: 7}, {K: KBytes, L: 77}, {K: KU64, U: 1 << 40}}}
	kinds := [][2]string{{KBytes, KBytes}, {KBytes, KString}, {KString, KBytes}, {KString, KString}}
	for _, b := range bases {
		for _, m := range mods {
			for _, k := range ks {
				big := b + k<<m
				if big > MaxSeqItemLen {
					continue
				}
				for _, sp := range spacers {
					for _, kk := range kinds {
						lo, hi := ZItem{K: kk[0], L: b}, ZItem{K: kk[1], L: big}
						one(append(append([]ZItem{lo}, sp...), hi)...)
						one(append(append([]ZItem{hi}, sp...), lo)...)
						if 2*big+b+64 < SeqArenaBytes {
							one(append(append(append(append([]ZItem{lo}, sp...), hi), sp...), lo)...)
							one(append(append(append(append([]ZItem{hi}, sp...), lo), sp...), hi)...)
						}
					}
				}
			}
		}
	}
	// the values around 2^31 and 2^32 bytes behind each other in one stream
	for _, p := range []int{31, 32} {
		for _, kind := range []string{KBytes, KString} {
			one(ZItem{K: kind, L: 1<<p - 1}, ZItem{K: kind, L: 1 << p}, ZItem{K: kind, L: 1<<p + 1})
			one(ZItem{K: KVar, U: 1 << p}, ZItem{K: kind, L: 1 << p}, ZItem{K: KU32, U: 1<<32 - 1}, ZItem{K: kind, L: 1<<p - 1}, ZItem{K: kind, L: 5})
		}
	}
	st.SetExhaustive("huge_streams", map[string]any{"base_lengths": bases, "congruent_modulo_2^": mods, "multiples": ks, "spacers": len(spacers), "cases": ran, "shards": shards, "arena_bytes": SeqArenaBytes})
	st.SetExtra("huge_streams_peak_resident_kB", peakRSSkB())
}

// genCase15ZS: 2..8 items; a quarter are numbers, the others byte strings / strings whose length is small, around
// 2^16, at a prefix / 2^31 / 2^32 boundary, anything up to 2^33 - or (3 in 8) derived from the length of an EARLIER byte
// string of the same stream: that length + or - k*2^m (m = 8, 16, 31, 32; k = 1..2), or the same length again.
func genCase15ZS(t *rapid.T) Case15ZS {
	n := rapid.IntRange(2, 8).Draw(t, "items")
	c := Case15ZS{}
	var lens []int
	huge := 0
	for i := 0; i < n; i++ {
		k := rapid.IntRange(0, 7).Draw(t, "kind")
		if k <= 1 {
			kind := []string{KByte, KU16, KU32, KU64, KVar}[rapid.IntRange(0, 4).Draw(t, "numKind")]
			c.Items = append(c.Items, ZItem{K: kind, U: genNumeric(t, 64)})
			continue
		}
		kind := KBytes
		if k >= 5 {
			kind = KString
		}
		var L int
		cls := rapid.IntRange(0, 7).Draw(t, "lenClass")
		if cls >= 5 && len(lens) == 0 {
			cls = rapid.IntRange(0, 4).Draw(t, "lenClass0")
		}
		switch cls {
		case 0, 1:
			L = rapid.IntRange(0, 300).Draw(t, "len")
		case 2:
			L = rapid.IntRange(0, 1<<17).Draw(t, "len")
		case 3:
			p := rapid.SampledFrom([]int{7, 14, 16, 21, 28, 30, 31, 32, 33}).Draw(t, "pow")
			L = 1<<p + rapid.IntRange(-2, 2).Draw(t, "delta")
		case 4:
			L = rapid.IntRange(seqHuge, MaxSeqItemLen).Draw(t, "len")
		case 5, 6:
			prev := rapid.SampledFrom(lens).Draw(t, "earlier")
			m := rapid.SampledFrom(seqModBits).Draw(t, "modBits")
			d := rapid.IntRange(1, 2).Draw(t, "multiple") << m
			if rapid.Bool().Draw(t, "down") && prev >= d {
				L = prev - d
			} else {
				L = prev + d
			}
		default:
			L = rapid.SampledFrom(lens).Draw(t, "earlier")
		}
		if L > MaxSeqItemLen || (L >= seqHuge && huge >= MaxSeqHuge) {
			L &= 1<<17 - 1 // the same low bits, within the limits of a stream
		}
		if L >= seqHuge {
			huge++
		}
		lens = append(lens, L)
		c.Items = append(c.Items, ZItem{K: kind, L: L})
	}
	return c
}

func TestC15RapidHugeSeq(t *testing.T) {
	st := vstat.For("C15")
	ReserveArena(SeqArenaBytes) // the cases reserve what they need when the whole is not to be had
	rapid.Check(t, func(t *rapid.T) {
		c := genCase15ZS(t)
		info, v := Run15ZS(c)
		st.Report(t, "TestC15RapidHugeSeq", c, v)
		record15ZS(c, info)
	})
	st.SetExtra("huge_streams_rapid_peak_resident_kB", peakRSSkB())
}

// =============================================================================================
// C16: sequences of decodes over records whose bodies collide under a cheap hash

func record16K(c Case16K, info Info16K) {
	st := vstat.For("C16")
	st.Case(info.NonTrivial(), c.Hash(), func() any { return c }, info.Classes()...)
	if info.Mode == 2 {
		st.AddExtra("collision_pairs_decoded_at_the_same_time_"+info.Hash, int64(info.Pairs))
	} else {
		st.AddExtra("collision_pairs_decoded_back_to_back_"+info.Hash, int64(info.Pairs))
	}
	st.AddExtra("collision_sequence_decoder_calls", int64(info.Calls))
}

// collisionLens: body lengths of the enumerated collision cases (each is raised to the minimum of its hash kind).
var collisionLens = []int{2, 3, 5, 8, 9, 16, 17, 24, 33, 64, 65, 100, 255, 256, 1000, 4096, 70000}

// TestC16Collisions: every hash kind x body length x {one goroutine, hand-over, at the same time}, 2..4 bodies.
func TestC16Collisions(t *testing.T) {
	st := vstat.For("C16")
	shard, shards := vstat.Shard()
	ran, idx := int64(0), 0
	for _, h := range CollisionHashes {
		for li, l := range collisionLens {
			for mode := 0; mode <= 2; mode++ {
				idx++
				if idx%shards != shard {
					continue
				}
				c := Case16K{Kind: h, L: l, K: 2 + (li+mode)%3, Seed: uint64(idx)*1000003 + uint64(vstat.EnvInt("VERIF_SEED", 1)), Pad: []int{0, 0, 1, 3}[(li+idx)%4], More: []int{0, 3}[idx/3%2], Mode: mode, P1: idx%5 == 0}
				info, v := Run16K(c)
				if v != nil {
					st.Report(t, "TestC16Collisions", c, v)
				}
				record16K(c, info)
				ran++
			}
		}
	}
	st.SetExhaustive("collision_sequences", map[string]any{"hashes": CollisionHashes, "body_lengths": collisionLens, "cases": ran, "shards": shards})
}

func genCollision(t *rapid.T) Case16K {
	c := Case16K{Kind: rapid.SampledFrom(CollisionHashes).Draw(t, "hash"), K: rapid.IntRange(2, 4).Draw(t, "bodies"), Seed: rapid.Uint64().Draw(t, "seed")}
	switch rapid.IntRange(0, 9).Draw(t, "lenClass") {
	case 0:
		c.L = genBigLen(t, 16)
	case 1, 2:
		c.L = rapid.IntRange(2, 600).Draw(t, "len")
	default:
		c.L = rapid.IntRange(2, 48).Draw(t, "len")
	}
	if rapid.IntRange(0, 3).Draw(t, "padded") == 0 {
		c.Pad = rapid.IntRange(1, 3).Draw(t, "pad")
	}
	if rapid.IntRange(0, 3).Draw(t, "followed") == 0 {
		c.More = rapid.IntRange(1, 20).Draw(t, "more")
	}
	c.Mode = rapid.SampledFrom([]int{0, 0, 1, 2}).Draw(t, "mode")
	c.P1 = c.Mode != 0 && rapid.IntRange(0, 3).Draw(t, "gomaxprocs1") == 0
	return c
}

func TestC16RapidCollisions(t *testing.T) {
	st := vstat.For("C16")
	rapid.Check(t, func(t *rapid.T) {
		c := genCollision(t)
		info, v := Run16K(c)
		if v != nil {
			st.Report(t, "TestC16RapidCollisions", c, v)
		}
		record16K(c, info)
	})
}

// =============================================================================================
// C16: inputs that live on the goroutine stack, decoded while the stack grows

var stackNote sync.Once

func record16S(c Case16S, info Info16S) {
	st := vstat.For("C16")
	st.Case(info.NonTrivial(), c.Hash(), func() any { return c }, info.Classes()...)
	st.AddExtra("stack_input_decoder_calls", int64(info.Calls))
	st.AddExtra("stack_input_decoder_calls_during_which_the_stack_moved", int64(info.Moved))
	if info.Calls > 0 && info.OnStack == 0 {
		stackNote.Do(func() {
			st.Inconclusivef("stack inputs: the local array of the probe does not lie next to another local of its frame - it seems to be heap allocated in this build, so inputs on the goroutine stack are not exercised")
		})
	}
}

// stackInputs: fixed inputs of the enumerated stack cases (valid records, numbers, rejected inputs).
var stackInputs = []string{"", "00", "0161", "05616263646500", "1168656c6c6f2d737461636b2d696e707574", "8100", "ff7f", "0102030405060708", "0561", "80", "ffffffffffffffffff01", "8000" + "41"}

// TestC16StackInputs: every Unmarshal function x fixed inputs x frame size class, a descent across the first stack sizes.
func TestC16StackInputs(t *testing.T) {
	st := vstat.For("C16")
	shard, shards := vstat.Shard()
	ran, idx := int64(0), 0
	long := "3c" + strings.Repeat("6a", 60)
	for d := range decoders16 {
		for ii, in := range append([]string{long, "c801" + strings.Repeat("5a", 200)}, stackInputs...) {
			for step := 0; step <= 2; step++ {
				idx++
				if idx%shards != shard {
					continue
				}
				c := Case16S{In: in, D: d, Big: (ii+step)%4 == 3, Pre: (idx * 7) % 64, Depth: []int{1500, 900, 400}[step], Step: step}
				info, v := Run16S(c)
				if v != nil {
					st.Report(t, "TestC16StackInputs", c, v)
				}
				record16S(c, info)
				ran++
			}
		}
	}
	st.SetExhaustive("stack_inputs", map[string]any{"inputs": len(stackInputs) + 2, "functions": len(decoders16), "cases": ran, "shards": shards})
}

func genStackCase(t *rapid.T) Case16S {
	var in []byte
	switch rapid.IntRange(0, 5).Draw(t, "inputKind") {
	case 0:
		in = genGrammar(t)
	case 1:
		in = genMutated(t)
	default: // a complete record, sometimes followed by more
		n := rapid.IntRange(0, 60).Draw(t, "bodyLen")
		if rapid.IntRange(0, 5).Draw(t, "longBody") == 0 {
			n = rapid.IntRange(61, 1000).Draw(t, "bodyLen")
		}
		pad := 0
		if rapid.IntRange(0, 5).Draw(t, "padded") == 0 {
			pad = rapid.IntRange(1, 3).Draw(t, "pad")
		}
		in = PutUvarint(nil, uint64(n), pad)
		body := make([]byte, n+rapid.IntRange(0, 1).Draw(t, "more")*3)
		fillStream(body, 0, rapid.Uint64().Draw(t, "seed"))
		in = append(in, body...)
	}
	if len(in) > 1024 {
		in = in[:1024]
	}
	c := Case16S{In: hex.EncodeToString(in), D: rapid.IntRange(0, len(decoders16)-1).Draw(t, "function"), Step: rapid.IntRange(0, 2).Draw(t, "frameClass"),
		Pre: rapid.IntRange(0, 63).Draw(t, "pre")}
	c.Big = len(in) > 64 || rapid.IntRange(0, 3).Draw(t, "bigArray") == 0
	c.Depth = rapid.IntRange(100, []int{3000, 1800, 800}[c.Step]).Draw(t, "depth")
	return c
}

func TestC16RapidStackInputs(t *testing.T) {
	st := vstat.For("C16")
	rapid.Check(t, func(t *rapid.T) {
		c := genStackCase(t)
		info, v := Run16S(c)
		if v != nil {
			st.Report(t, "TestC16RapidStackInputs", c, v)
		}
		record16S(c, info)
	})
}

// =============================================================================================

// TestReplay re-runs one saved case; the envelope's test name tells which case type it holds.
func TestReplay(t *testing.T) {
	p := vstat.ReplayPath()
	if p == "" {
		t.Skip("no replay requested")
	}
	env, err := vstat.LoadReplay(p, nil)
	if err != nil {
		t.Fatalf("cannot load %s: %v", p, err)
	}
	switch {
	case strings.Contains(env.Test, "Writers"):
		var c Case15W
		if _, err := vstat.LoadReplay(p, &c); err != nil {
			t.Fatalf("cannot load %s: %v", p, err)
		}
		info, v := Run15W(c)
		vstat.For("C15").Report(t, "TestReplay", c, v)
		record15W(c, info)
	case strings.Contains(env.Test, "Liveness"):
		var c Case15G
		if _, err := vstat.LoadReplay(p, &c); err != nil {
			t.Fatalf("cannot load %s: %v", p, err)
		}
		defer runtime.GOMAXPROCS(runtime.GOMAXPROCS(1))
		info, v := Run15G(c)
		vstat.For("C15").Report(t, "TestReplay", c, v)
		record15G(c, info)
	case strings.Contains(env.Test, "HugeSeq"):
		var c Case15ZS
		if _, err := vstat.LoadReplay(p, &c); err != nil {
			t.Fatalf("cannot load %s: %v", p, err)
		}
		info, v := Run15ZS(c)
		vstat.For("C15").Report(t, "TestReplay", c, v)
		record15ZS(c, info)
	case strings.Contains(env.Test, "HugeBodies"):
		var c Case15Z
		if _, err := vstat.LoadReplay(p, &c); err != nil {
			t.Fatalf("cannot load %s: %v", p, err)
		}
		info, v := Run15Z(c)
		vstat.For("C15").Report(t, "TestReplay", c, v)
		record15Z(c, info)
	case strings.Contains(env.Test, "BigCopies"), strings.Contains(env.Test, "HugeCopies"):
		var c Case16B
		if _, err := vstat.LoadReplay(p, &c); err != nil {
			t.Fatalf("cannot load %s: %v", p, err)
		}
		if !c.Sparse {
			c.Rounds = max(c.Rounds, 8) // the schedule is met by chance: more repetitions than the search spends per case
		}
		info, v := Run16B(c)
		vstat.For("C16").Report(t, "TestReplay", c, v)
		record16B(c, info)
	case strings.Contains(env.Test, "LongRuns"), strings.Contains(env.Test, "WordRuns"):
		var c Case16L
		if _, err := vstat.LoadReplay(p, &c); err != nil {
			t.Fatalf("cannot load %s: %v", p, err)
		}
		info, v := Run16L(c)
		vstat.For("C16").Report(t, "TestReplay", c, v)
		record16L(c, info)
	case strings.Contains(env.Test, "Collisions"):
		var c Case16K
		if _, err := vstat.LoadReplay(p, &c); err != nil {
			t.Fatalf("cannot load %s: %v", p, err)
		}
		info, v := Run16K(c)
		vstat.For("C16").Report(t, "TestReplay", c, v)
		record16K(c, info)
	case strings.Contains(env.Test, "StackInputs"):
		var c Case16S
		if _, err := vstat.LoadReplay(p, &c); err != nil {
			t.Fatalf("cannot load %s: %v", p, err)
		}
		info, v := Run16S(c)
		vstat.For("C16").Report(t, "TestReplay", c, v)
		record16S(c, info)
	case strings.Contains(env.Test, "FirstUse"):
		var c Case16F
		if _, err := vstat.LoadReplay(p, &c); err != nil {
			t.Fatalf("cannot load %s: %v", p, err)
		}
		c.Tries = max(c.Tries, 25) // the moment is met by chance: more fresh processes than the search spends per case
		info, v, err := Run16F(c, t.TempDir())
		if err != nil {
			t.Fatalf("first-use case: %v", err)
		}
		vstat.For("C16").Report(t, "TestReplay", c, v)
		record16F(c, info)
	case strings.Contains(env.Test, "C16RapidConcurrent"):
		var c Case16C
		if _, err := vstat.LoadReplay(p, &c); err != nil {
			t.Fatalf("cannot load %s: %v", p, err)
		}
		info, v := Run16C(c)
		vstat.For("C16").Report(t, "TestReplay", c, v)
		record16C(c, info)
	case strings.Contains(env.Test, "History"):
		var c Case16H
		if _, err := vstat.LoadReplay(p, &c); err != nil {
			t.Fatalf("cannot load %s: %v", p, err)
		}
		info, v := Run16H(c)
		vstat.For("C16").Report(t, "TestReplay", c, v)
		record16H(c, info)
	case strings.Contains(env.Test, "C15") || env.Property == "C15":
		var c Case15
		if _, err := vstat.LoadReplay(p, &c); err != nil {
			t.Fatalf("cannot load %s: %v", p, err)
		}
		info, v := Run15(c)
		vstat.For("C15").Report(t, "TestReplay", c, v)
		record15(c, info)
	case strings.Contains(env.Test, "C16") || env.Property == "C16":
		var c Case16
		if _, err := vstat.LoadReplay(p, &c); err != nil {
			t.Fatalf("cannot load %s: %v", p, err)
		}
		info, v := Run16(c)
		vstat.For("C16").Report(t, "TestReplay", c, v)
		record16(c.Bytes(), info)
	default:
		t.Fatalf("replay file %s: unknown test %q / property %q", p, env.Test, env.Property)
	}
}
