// Package p_xbinary decides C15 (binary codec: round trip, size law, short destinations, writer/marshal
// agreement, concatenation, newBuf independence) and C16 (the decoders are total on arbitrary bytes).
package p_xbinary

import (
	"bufio"
	"bytes"
	"encoding/hex"
	"fmt"
	"math/bits"
	"path/filepath"
	"runtime"
	"runtime/debug"
	"strings"
	"sync"
	"unicode/utf8"
	"unsafe"

	"github.com/acquirecloud/golibs/xbinary"
	"verifharness/internal/vstat"
)

// =============================================================================================
// C15

// Kinds of an item.
const (
	KByte   = "b"
	KU16    = "h"
	KU32    = "w"
	KU64    = "q"
	KVar    = "v" // variable-length uint
	KBytes  = "B"
	KString = "S"
)

// Item is one value to encode. Numeric kinds use U (truncated to the width of the kind). Byte strings and
// strings have the content hex(D) followed by the deterministic fill stream of Seed up to the total length L
// (so a multi-megabyte value is still a few bytes of JSON). NB: decode with newBuf=true.
type Item struct {
	K    string `json:"k"`
	U    uint64 `json:"u,omitempty"`
	D    string `json:"d,omitempty"`
	L    int    `json:"l,omitempty"`
	Seed uint64 `json:"seed,omitempty"`
	NB   bool   `json:"nb,omitempty"`
}

// Case15 is a sequence of items: each is checked on its own, then the whole sequence as one concatenation.
type Case15 struct {
	Items []Item `json:"items"`
}

// Hash identifies the case.
func (c Case15) Hash() uint64 { return vstat.Hash(c) }

// Content expands the byte content of a B/S item.
func (it Item) Content() []byte {
	head, _ := hex.DecodeString(it.D)
	n := it.L
	if n < len(head) {
		n = len(head)
	}
	out := make([]byte, n)
	copy(out, head)
	fillStream(out, len(head), it.Seed)
	return out
}

// fillStream writes the deterministic fill stream of seed into out[from:].
func fillStream(out []byte, from int, seed uint64) {
	s, n := seed, len(out)
	for i := from; i < n; {
		// splitmix64 expansion of the seed: a pure function of the case, not a random source
		s += 0x9e3779b97f4a7c15
		z := s
		z = (z ^ (z >> 30)) * 0xbf58476d1ce4e5b9
		z = (z ^ (z >> 27)) * 0x94d049bb133111eb
		z ^= z >> 31
		for k := 0; k < 8 && i < n; k++ {
			out[i] = byte(z >> (8 * k))
			i++
		}
	}
}

// Info15 is what the classifier of C15 needs.
type Info15 struct {
	Items    int
	Near7    bool // a varint value / a byte-string length within 2 of 2^(7k)
	Near8    bool // a fixed-width value within 2 of 2^(8k) or of the top of its range
	ShortDst int64
	// writes through an ObjectsWriter into the sinks of sinkSweep (io.Writer-only, bufio.Writer at every fill level)
	SinkWrites int64
	// byte strings returned with newBuf=true that the harness overwrote in place (up to their capacity), as their
	// owner may, before it decoded the same encoding again
	Scribbled int64
	// Marshal calls into destinations placed next to an inaccessible page (guardSweep15)
	GuardDst int64
	classes  map[string]struct{}
}

func (i *Info15) class(c string) {
	if i.classes == nil {
		i.classes = map[string]struct{}{}
	}
	i.classes[c] = struct{}{}
}

// NonTrivial is the rule of C15.
func (i Info15) NonTrivial() bool { return i.Near7 || i.Near8 }

// Classes for the histogram (sorted by the caller's map iteration being irrelevant: counters only).
func (i Info15) Classes() []string {
	out := make([]string, 0, len(i.classes)+2)
	for c := range i.classes {
		out = append(out, c)
	}
	if i.Near7 {
		out = append(out, "near_7bit_group_boundary")
	}
	if i.Near8 {
		out = append(out, "near_8bit_or_max_boundary")
	}
	return out
}

func near(v, b uint64) bool { return v-b <= 2 || b-v <= 2 }

func near7(v uint64) bool {
	for k := 1; k <= 9; k++ {
		if near(v, 1<<(7*k)) {
			return true
		}
	}
	return false
}

func near8(v uint64, width int) bool {
	for k := 1; 8*k < width; k++ {
		if near(v, 1<<(8*k)) {
			return true
		}
	}
	if width == 64 {
		return v >= ^uint64(0)-2
	}
	return v >= (uint64(1)<<width)-3
}

func groups(v uint64) int {
	g := (bits.Len64(v) + 6) / 7
	if g == 0 {
		g = 1
	}
	return g
}

// decoded is the result of one Unmarshal call in a comparable form.
type decoded struct {
	n     int
	err   error
	same  func() bool   // does the decoded value equal the item (re-evaluable after the source was mutated)
	shown func() string // printable decoded value
	ptr   uintptr       // memory of the decoded data (B/S only, 0 if empty)
	ln    int
	// where the result's data pointer points, whatever its length and capacity (B/S only): an empty value that still
	// points into the source keeps the whole source buffer reachable
	dataPtr uintptr
	// backing array of the result, res[:cap(res)] (byte strings; for strings the data itself). capLn==0: nothing to alias
	capPtr uintptr
	capLn  int
	grow   func() // appends to the decoded byte string as its owner would (byte strings only)
	// scribble overwrites the decoded byte string in place, res[:cap(res)], as its owner may (byte strings only; a
	// decoded string is immutable)
	scribble func()
}

var growSink []byte

type codec struct {
	name    string
	size    int // predicted by Writable*Size (fixed kinds: 1/2/4/8)
	body    int // body length of B/S, -1 for numeric kinds
	marshal func(dst []byte) (int, error)
	write   func(ow *xbinary.ObjectsWriter) (int, error)
	decode  func(src []byte, newBuf bool) decoded
}

func short(b []byte) string {
	if len(b) <= 24 {
		return fmt.Sprintf("%x(len %d)", b, len(b))
	}
	return fmt.Sprintf("%x…%x(len %d)", b[:12], b[len(b)-8:], len(b))
}

func (it Item) codec(info *Info15) codec {
	num := func(v uint64) func() string { return func() string { return fmt.Sprintf("%d(%#x)", v, v) } }
	switch it.K {
	case KByte:
		x := byte(it.U)
		info.Near8 = info.Near8 || near8(uint64(x), 8)
		info.class("kind_byte")
		return codec{name: fmt.Sprintf("byte(%d)", x), size: 1, body: -1,
			marshal: func(dst []byte) (int, error) { return xbinary.MarshalByte(x, dst) },
			write:   func(ow *xbinary.ObjectsWriter) (int, error) { return ow.WriteByte(x) },
			decode: func(src []byte, _ bool) decoded {
				n, v, err := xbinary.UnmarshalByte(src)
				return decoded{n: n, err: err, same: func() bool { return v == x }, shown: num(uint64(v))}
			}}
	case KU16:
		x := uint16(it.U)
		info.Near8 = info.Near8 || near8(uint64(x), 16)
		info.class("kind_uint16")
		return codec{name: fmt.Sprintf("uint16(%d)", x), size: 2, body: -1,
			marshal: func(dst []byte) (int, error) { return xbinary.MarshalUint16(x, dst) },
			write:   func(ow *xbinary.ObjectsWriter) (int, error) { return ow.WriteUint16(x) },
			decode: func(src []byte, _ bool) decoded {
				n, v, err := xbinary.UnmarshalUint16(src)
				return decoded{n: n, err: err, same: func() bool { return v == x }, shown: num(uint64(v))}
			}}
	case KU32:
		x := uint32(it.U)
		info.Near8 = info.Near8 || near8(uint64(x), 32)
		info.class("kind_uint32")
		info.class(fmt.Sprintf("fixed_bitlen_%02d", bits.Len64(uint64(x))))
		return codec{name: fmt.Sprintf("uint32(%d)", x), size: 4, body: -1,
			marshal: func(dst []byte) (int, error) { return xbinary.MarshalUint32(x, dst) },
			write:   func(ow *xbinary.ObjectsWriter) (int, error) { return ow.WriteUint32(x) },
			decode: func(src []byte, _ bool) decoded {
				n, v, err := xbinary.UnmarshalUint32(src)
				return decoded{n: n, err: err, same: func() bool { return v == x }, shown: num(uint64(v))}
			}}
	case KU64:
		x := it.U
		info.Near8 = info.Near8 || near8(x, 64)
		info.class("kind_uint64")
		info.class(fmt.Sprintf("fixed_bitlen_%02d", bits.Len64(x)))
		return codec{name: fmt.Sprintf("uint64(%d)", x), size: 8, body: -1,
			marshal: func(dst []byte) (int, error) { return xbinary.MarshalUint64(x, dst) },
			write:   func(ow *xbinary.ObjectsWriter) (int, error) { return ow.WriteUint64(x) },
			decode: func(src []byte, _ bool) decoded {
				n, v, err := xbinary.UnmarshalUint64(src)
				return decoded{n: n, err: err, same: func() bool { return v == x }, shown: num(v)}
			}}
	case KVar:
		x := uint(it.U)
		info.Near7 = info.Near7 || near7(it.U) || it.U >= ^uint64(0)-2
		info.class("kind_varint")
		info.class(fmt.Sprintf("varint_bitlen_%02d", bits.Len64(it.U)))
		info.class(fmt.Sprintf("varint_groups_%02d", groups(it.U)))
		return codec{name: fmt.Sprintf("uint(%d)", x), size: xbinary.WritableUintSize(uint64(x)), body: -1,
			marshal: func(dst []byte) (int, error) { return xbinary.MarshalUint(x, dst) },
			write:   func(ow *xbinary.ObjectsWriter) (int, error) { return ow.WriteUint(x) },
			decode: func(src []byte, _ bool) decoded {
				n, v, err := xbinary.UnmarshalUint(src)
				return decoded{n: n, err: err, same: func() bool { return v == x }, shown: num(uint64(v))}
			}}
	case KBytes, KString:
		x := it.Content()
		info.Near7 = info.Near7 || near7(uint64(len(x)))
		info.class(fmt.Sprintf("bytes_prefix_groups_%d", groups(uint64(len(x)))))
		switch {
		case len(x) == 0:
			info.class("bytes_len_0")
		case utf8.Valid(x):
			info.class("bytes_valid_utf8")
		default:
			info.class("bytes_invalid_utf8")
		}
		if len(x) >= 1<<20 {
			info.class("bytes_multi_MB")
		}
		if it.NB {
			info.class("decode_newBuf_true")
		} else {
			info.class("decode_newBuf_false")
		}
		if it.K == KBytes {
			info.class("kind_bytes")
			return codec{name: "bytes " + short(x), size: xbinary.WritebleBytesSize(x), body: len(x),
				marshal: func(dst []byte) (int, error) { return xbinary.MarshalBytes(x, dst) },
				write:   func(ow *xbinary.ObjectsWriter) (int, error) { return ow.WriteBytes(x) },
				decode: func(src []byte, nb bool) decoded {
					n, r, err := xbinary.UnmarshalBytes(src, nb)
					d := decoded{n: n, err: err, same: func() bool { return bytes.Equal(r, x) }, shown: func() string { return short(r) }, ln: len(r), capLn: cap(r)}
					d.dataPtr = uintptr(unsafe.Pointer(unsafe.SliceData(r)))
					if len(r) > 0 {
						d.ptr = uintptr(unsafe.Pointer(unsafe.SliceData(r)))
					}
					if cap(r) > 0 {
						d.capPtr = uintptr(unsafe.Pointer(unsafe.SliceData(r)))
					}
					d.grow = func() { growSink = append(r, 0xEE, 0xEE, 0xEE, 0xEE, 0xEE, 0xEE, 0xEE, 0xEE, 0xEE, 0xEE, 0xEE, 0xEE) }
					d.scribble = func() { flip(r[:cap(r)]) }
					return d
				}}
		}
		info.class("kind_string")
		xs := string(x)
		return codec{name: "string " + short(x), size: xbinary.WritableStringSize(xs), body: len(x),
			marshal: func(dst []byte) (int, error) { return xbinary.MarshalString(xs, dst) },
			write:   func(ow *xbinary.ObjectsWriter) (int, error) { return ow.WriteString(xs) },
			decode: func(src []byte, nb bool) decoded {
				n, r, err := xbinary.UnmarshalString(src, nb)
				d := decoded{n: n, err: err, same: func() bool { return r == xs }, shown: func() string { return short([]byte(r)) }, ln: len(r)}
				d.dataPtr = uintptr(unsafe.Pointer(unsafe.StringData(r)))
				if len(r) > 0 {
					d.ptr = uintptr(unsafe.Pointer(unsafe.StringData(r)))
					d.capPtr, d.capLn = d.ptr, len(r) // an empty string has no data to alias
				}
				return d
			}}
	}
	panic("bad item kind " + it.K)
}

// Run15 executes the case against the codec and the oracle of C15.
func Run15(c Case15) (info Info15, v *vstat.Violation) {
	defer func() {
		if r := recover(); r != nil {
			v = panicViolation("xbin:c15-panic", r)
		}
	}()
	v = run15(c, &info)
	return info, v
}

func flip(b []byte) {
	for i := range b {
		b[i] = ^b[i]
	}
}

func inside(ptr uintptr, ln int, buf []byte) bool {
	if len(buf) == 0 || ln == 0 {
		return false
	}
	base := uintptr(unsafe.Pointer(unsafe.SliceData(buf)))
	return ptr+uintptr(ln) > base && ptr < base+uintptr(cap(buf))
}

func run15(c Case15, info *Info15) *vstat.Violation {
	info.Items = len(c.Items)
	cds := make([]codec, len(c.Items))
	encs := make([][]byte, len(c.Items))
	maxSize := 0
	for i, it := range c.Items {
		cds[i] = it.codec(info)
		if cds[i].size > maxSize {
			maxSize = cds[i].size
		}
	}
	if maxSize < 0 || maxSize > 1<<26 {
		return vstat.V("xbin:size-law", "a predicted size of %d bytes is absurd for the items of this case", maxSize)
	}
	scratch := make([]byte, maxSize+1)
	for i, cd := range cds {
		where := fmt.Sprintf("item #%d %s", i, cd.name)
		size := cd.size
		if cd.body >= 0 && size < cd.body+1 {
			return vstat.V("xbin:size-law", "%s: predicted size %d is smaller than body %d + 1 prefix byte", where, size, cd.body)
		}
		// exact-size destination
		enc := make([]byte, size)
		n, err := cd.marshal(enc)
		if err != nil || n != size {
			return vstat.V("xbin:size-law", "%s: Marshal into a buffer of the predicted size %d returned (%d, %v)", where, size, n, err)
		}
		encs[i] = enc
		// every destination length 0..size+1
		for d := 0; d <= size+1; d++ {
			dst := scratch[:d:d]
			if d >= size {
				for j := range dst {
					dst[j] = 0xA5
				}
			}
			n, err := cd.marshal(dst)
			if d < size {
				info.ShortDst++
				if err == nil {
					return vstat.V("xbin:short-dst-accepted", "%s: Marshal into %d bytes (needs %d) returned (%d, nil)", where, d, size, n)
				}
				if n != 0 {
					return vstat.V("xbin:short-dst-count", "%s: Marshal into %d bytes (needs %d) failed but returned n=%d, want 0", where, d, size, n)
				}
				continue
			}
			if err != nil || n != size {
				return vstat.V("xbin:dst-rejected", "%s: Marshal into %d bytes (needs %d) returned (%d, %v)", where, d, size, n, err)
			}
			if !bytes.Equal(dst[:size], enc) {
				return vstat.V("xbin:encoding-differs", "%s: Marshal into %d bytes wrote %s, into %d bytes it wrote %s", where, d, short(dst[:size]), size, short(enc))
			}
		}
		// the same sweep on windows big[8:8+d] of a larger array (data in front, spare capacity behind, len < cap):
		// a short window is rejected like a short buffer and nothing outside dst[:n] (dst[:len] on failure) changes
		if v := windowSweep(where, cd, enc, info); v != nil {
			return v
		}
		// ... and on destinations with len == cap that end right in front of an inaccessible page / begin right behind
		// one: an access outside the destination that changes nothing (or would restore what it read) is a memory fault
		if v := guardSweep15(where, cd, enc, info); v != nil {
			return v
		}
		// the stream writer emits the same bytes and the same count
		var bb bytes.Buffer
		ow := &xbinary.ObjectsWriter{Writer: &bb}
		n, err = cd.write(ow)
		if err != nil || n != size {
			return vstat.V("xbin:writer-count", "%s: ObjectsWriter returned (%d, %v), Marshal wrote %d", where, n, err, size)
		}
		if !bytes.Equal(bb.Bytes(), enc) {
			return vstat.V("xbin:writer-bytes", "%s: ObjectsWriter emitted %s, Marshal %s", where, short(bb.Bytes()), short(enc))
		}
		// ... and so it does into the other kinds of sink: a writer that is an io.Writer and nothing else, and a
		// *bufio.Writer that already holds 0..sweepBufio bytes (every amount of free space, none included)
		if v := sinkSweep(where, cd, enc, info); v != nil {
			return v
		}
		// round trip
		if cd.body < 0 {
			if v := checkDecoded(where, cd.decode(enc, false), size); v != nil {
				return v
			}
			continue
		}
		// decoded from a source with cap == len and from a window of a larger array (spare capacity, data behind)
		for form := 0; form < 2; form++ {
			for _, nb := range []bool{false, true} {
				src := make([]byte, size, size+form*24)
				copy(src, enc)
				for j := size; j < cap(src); j++ {
					src[:cap(src)][j] = 0xA5
				}
				w := fmt.Sprintf("%s newBuf=%v source cap-len=%d", where, nb, cap(src)-len(src))
				d := cd.decode(src, nb)
				if v := checkDecoded(w, d, size); v != nil {
					return v
				}
				if v := checkAlias(w, d, src, 0, size-cd.body, nb, append([]byte(nil), src[:cap(src)]...)); v != nil {
					return v
				}
				if v := checkSurvives(w, d, src, 0, size-cd.body, nb); v != nil {
					return v
				}
				if v := checkOwned(w, cd, d, enc, nb, info); v != nil {
					return v
				}
			}
		}
	}
	if len(c.Items) < 2 {
		return nil
	}
	info.class("concatenation")
	// concatenation: written back to back by Marshal and by one ObjectsWriter, decoded item by item
	total := 0
	for _, cd := range cds {
		total += cd.size
	}
	buf := make([]byte, total)
	for j := range buf {
		buf[j] = canary(j)
	}
	var bb bytes.Buffer
	ow := &xbinary.ObjectsWriter{Writer: &bb}
	off, wn := 0, 0
	for i, cd := range cds {
		dst := buf[off:] // the rest of the buffer, or (every other item) a window of exactly the needed length
		if i%2 == 1 {
			dst = buf[off : off+cd.size]
		}
		n, err := cd.marshal(dst)
		if err == nil && n == cd.size {
			for j := off + n; j < total && j < off+n+64; j++ {
				if buf[j] != canary(j) {
					return vstat.V("xbin:wrote-outside-dst", "item #%d %s: Marshal at offset %d returned n=%d but changed the byte at offset %d (destination len %d cap %d)", i, cd.name, off, n, j, len(dst), cap(dst))
				}
			}
		}
		if err != nil || n != cd.size {
			return vstat.V("xbin:concat-marshal", "item #%d %s: Marshal at offset %d of a %d byte buffer returned (%d, %v), predicted %d", i, cd.name, off, total, n, err, cd.size)
		}
		if !bytes.Equal(buf[off:off+n], encs[i]) {
			return vstat.V("xbin:encoding-differs", "item #%d %s: encoding inside a sequence %s differs from the stand-alone encoding %s", i, cd.name, short(buf[off:off+n]), short(encs[i]))
		}
		off += n
		n, err = cd.write(ow)
		if err != nil || n != cd.size {
			return vstat.V("xbin:writer-count", "item #%d %s: ObjectsWriter in a sequence returned (%d, %v), predicted %d", i, cd.name, n, err, cd.size)
		}
		wn += n
	}
	if wn != total || !bytes.Equal(bb.Bytes(), buf) {
		return vstat.V("xbin:writer-bytes", "sequence of %d items: ObjectsWriter emitted %d bytes %s, Marshal %d bytes %s", len(cds), bb.Len(), short(bb.Bytes()), total, short(buf))
	}
	off = 0
	ds := make([]decoded, len(cds))
	offs := make([]int, len(cds))
	for i, cd := range cds {
		where := fmt.Sprintf("sequence item #%d %s at offset %d/%d newBuf=%v", i, cd.name, off, total, c.Items[i].NB)
		if off > total {
			return vstat.V("xbin:concat-overrun", "%s: previous items consumed more than was written", where)
		}
		d := cd.decode(buf[off:], c.Items[i].NB)
		if v := checkDecoded(where, d, cd.size); v != nil {
			return v
		}
		ds[i], offs[i] = d, off
		off += d.n
	}
	if off != total {
		return vstat.V("xbin:concat-leftover", "sequence of %d items: decoding consumed %d of %d bytes", len(cds), off, total)
	}
	pristine := append([]byte(nil), buf...)
	for i, cd := range cds {
		if cd.body < 0 {
			continue
		}
		where := fmt.Sprintf("sequence item #%d %s newBuf=%v", i, cd.name, c.Items[i].NB)
		if v := checkAlias(where, ds[i], buf, offs[i], cd.size-cd.body, c.Items[i].NB, pristine); v != nil {
			return v
		}
	}
	// the values decoded with newBuf=true were appended to by now: every item still decodes from the source
	off = 0
	for i, cd := range cds {
		d := cd.decode(buf[off:], false)
		if v := checkDecoded(fmt.Sprintf("sequence item #%d %s at offset %d, decoded again after the newBuf=true values were grown", i, cd.name, off), d, cd.size); v != nil {
			return v
		}
		off += d.n
	}
	for i, cd := range cds {
		if cd.body < 0 {
			continue
		}
		where := fmt.Sprintf("sequence item #%d %s newBuf=%v", i, cd.name, c.Items[i].NB)
		if v := checkSurvives(where, ds[i], buf, offs[i], cd.size-cd.body, c.Items[i].NB); v != nil {
			return v
		}
	}
	// the owner of every byte string that was returned with newBuf=true overwrites it in place; the source (restored:
	// checkSurvives left the encodings of those items flipped) then decodes to the same item sequence once more
	copy(buf, pristine)
	scribbled := false
	for i := range cds {
		if c.Items[i].NB && ds[i].scribble != nil {
			ds[i].scribble()
			info.Scribbled++
			scribbled = true
		}
	}
	if scribbled {
		info.class("newBuf_results_overwritten_in_place_then_decoded_again")
		off = 0
		for i, cd := range cds {
			d := cd.decode(buf[off:], true)
			if v := checkDecoded(fmt.Sprintf("sequence item #%d %s at offset %d, decoded again (newBuf=true) after the byte strings returned with newBuf=true were overwritten in place by their owner", i, cd.name, off), d, cd.size); v != nil {
				v.Sig = "xbin:newbuf-result-not-owned"
				return v
			}
			off += d.n
		}
	}
	return nil
}

func canary(p int) byte { return byte(p*37+11) | 1 }

// sweepBufio is the buffer size of the *bufio.Writer sinks of sinkSweep: larger than the longest prefix / fixed-width
// value (10 bytes), small enough to visit every fill level for every item.
const sweepBufio = 16

// sinkSweep: the item goes through an ObjectsWriter (a) into a sink that implements io.Writer and nothing else and
// (b) into a *bufio.Writer of sweepBufio bytes over such a sink, into which the harness has already written `fill`
// bytes, for every fill = 0..sweepBufio (values above 64 KiB: 0, 1, sweepBufio-1, sweepBufio). Oracle: the call
// returns (size, nil) and, after Flush, the sink holds the fill bytes followed by exactly the Marshal encoding.
func sinkSweep(where string, cd codec, enc []byte, info *Info15) *vstat.Violation {
	size := cd.size
	under := &plainDest{}
	ow := &xbinary.ObjectsWriter{Writer: under}
	n, err := cd.write(ow)
	if err != nil || n != size {
		return vstat.V("xbin:writer-count", "%s: ObjectsWriter into an io.Writer-only sink returned (%d, %v), Marshal wrote %d", where, n, err, size)
	}
	if !bytes.Equal(under.b, enc) {
		return vstat.V("xbin:writer-bytes", "%s: ObjectsWriter emitted %s into an io.Writer-only sink, Marshal %s", where, short(under.b), short(enc))
	}
	info.SinkWrites++
	var pre [sweepBufio]byte
	for j := range pre {
		pre[j] = canary(j)
	}
	bw := bufio.NewWriterSize(under, sweepBufio)
	for fill := 0; fill <= sweepBufio; fill++ {
		if size > 64<<10 && fill > 1 && fill < sweepBufio-1 {
			continue
		}
		under.b = under.b[:0]
		bw.Reset(under)
		if k, err := bw.Write(pre[:fill]); k != fill || err != nil {
			panic(fmt.Sprintf("harness: bufio.Writer.Write returned (%d, %v)", k, err))
		}
		ow.Writer = bw
		n, err := cd.write(ow)
		if err != nil || n != size {
			return vstat.V("xbin:writer-count", "%s: ObjectsWriter into a bufio.Writer of %d bytes holding %d returned (%d, %v), Marshal wrote %d", where, sweepBufio, fill, n, err, size)
		}
		if err := bw.Flush(); err != nil {
			panic(fmt.Sprintf("harness: bufio.Writer.Flush returned %v", err))
		}
		if len(under.b) < fill || !bytes.Equal(under.b[:fill], pre[:fill]) || !bytes.Equal(under.b[fill:], enc) {
			got := under.b[min(fill, len(under.b)):]
			return vstat.V("xbin:writer-bytes", "%s: ObjectsWriter into a bufio.Writer of %d bytes holding %d: after Flush the sink has %d bytes (%d expected), after the first %d: %s, Marshal %s",
				where, sweepBufio, fill, len(under.b), fill+size, fill, short(got), short(enc))
		}
		info.SinkWrites++
	}
	return nil
}

// windowSweep: Marshal into big[8:8+d] for every d in 0..size+1, big being 8 canary bytes, size+1 window bytes and
// 16 more canary bytes. The windows grow, so whatever a call may legitimately touch (dst[:len(dst)]) is never part of
// a later "outside" region and no byte has to be restored. Every rejected call costs an error value in the library,
// so for sizes above 2048 (where the len == cap sweep already visits every length) the windows are the lengths
// 0..64, size-64..size+1 and every (size/64)-th one in between; the whole outside region is compared after each call.
func windowSweep(where string, cd codec, enc []byte, info *Info15) *vstat.Violation {
	size := cd.size
	total := 8 + size + 1 + 16
	big := make([]byte, total)
	for j := range big {
		big[j] = canary(j)
	}
	pristine := append([]byte(nil), big...)
	stride := 1
	if size > 2048 {
		stride = size / 64
	}
	for d := 0; d <= size+1; d++ {
		if stride > 1 && d > 64 && d+64 < size && d%stride != 0 {
			continue
		}
		dst := big[8 : 8+d]
		n, err := cd.marshal(dst)
		keep := d
		if d < size {
			info.ShortDst++
			if err == nil {
				return vstat.V("xbin:short-dst-accepted", "%s: Marshal into a window of %d bytes with capacity %d (needs %d) returned (%d, nil)", where, d, cap(dst), size, n)
			}
			if n != 0 {
				return vstat.V("xbin:short-dst-count", "%s: Marshal into a window of %d bytes with capacity %d (needs %d) failed but returned n=%d, want 0", where, d, cap(dst), size, n)
			}
		} else {
			if err != nil || n != size {
				return vstat.V("xbin:dst-rejected", "%s: Marshal into a window of %d bytes with capacity %d (needs %d) returned (%d, %v)", where, d, cap(dst), size, n, err)
			}
			if !bytes.Equal(dst[:size], enc) {
				return vstat.V("xbin:encoding-differs", "%s: Marshal into a window of %d bytes wrote %s, into a buffer of %d bytes %s", where, d, short(dst[:size]), size, short(enc))
			}
			keep = n
		}
		lo := 8 + keep // first byte that must be untouched
		bad := -1
		if !bytes.Equal(big[:8], pristine[:8]) {
			bad = 0
		} else if !bytes.Equal(big[lo:], pristine[lo:]) {
			bad = lo
		}
		if bad >= 0 {
			for bad < total && big[bad] == pristine[bad] {
				bad++
			}
			return vstat.V("xbin:wrote-outside-dst", "%s: Marshal into a window of %d bytes with capacity %d (needs %d) returned (%d, %v) and changed the byte at window offset %d", where, d, cap(dst), size, n, err, bad-8)
		}
	}
	return nil
}

// guardSweep15: Marshal into a destination of d bytes (len == cap == d) that ENDS at the last byte in front of an
// inaccessible page, and into one that BEGINS at the first byte behind an inaccessible page, for d = 0..size+1 (sizes
// above 64: 0..32 and size-16..size+1). Writing dst[n:len(dst)] is the callee's right, touching anything outside
// dst[:len(dst)] is not: there it is a memory fault (signature out-of-bounds-access), whatever the bytes are afterwards.
// The results obey the same law as on the heap. Items larger than the guard arena are skipped (class).
func guardSweep15(where string, cd codec, enc []byte, info *Info15) *vstat.Violation {
	size := cd.size
	switch {
	case !guardAvailable():
		info.class("guard_pages_unavailable")
		guardNote15.Do(func() {
			vstat.For("C15").Inconclusivef("guard-page placement of Marshal destinations is not available in this process: accesses outside the destination that change no byte are not observed")
		})
		return nil
	case size+1 > guardCapacity():
		info.class("guard_pages_item_too_big_heap_only")
		return nil
	}
	info.class("guard_pages_around_marshal_destination")
	guardAcquire()
	defer guardRelease()
	for _, atEnd := range []bool{true, false} {
		side := "ends in front of an inaccessible page"
		if !atEnd {
			side = "begins behind an inaccessible page"
		}
		for d := 0; d <= size+1; d++ {
			if size > 64 && d > 32 && d < size-16 {
				d = size - 16
			}
			dst := guardSlice(d, atEnd)
			for j := range dst {
				dst[j] = 0xA5
			}
			var n int
			var err error
			if v := faultGuard("xbin:out-of-bounds-access:Marshal", dst, func() { n, err = cd.marshal(dst) }); v != nil {
				v.Msg = fmt.Sprintf("%s: Marshal into a destination of %d bytes (needs %d) that %s: %s", where, d, size, side, v.Msg)
				return v
			}
			info.GuardDst++
			if d < size {
				if err == nil {
					return vstat.V("xbin:short-dst-accepted", "%s: Marshal into %d bytes (needs %d), a destination that %s, returned (%d, nil)", where, d, size, side, n)
				}
				if n != 0 {
					return vstat.V("xbin:short-dst-count", "%s: Marshal into %d bytes (needs %d), a destination that %s, failed but returned n=%d, want 0", where, d, size, side, n)
				}
				continue
			}
			if err != nil || n != size {
				return vstat.V("xbin:dst-rejected", "%s: Marshal into %d bytes (needs %d), a destination that %s, returned (%d, %v)", where, d, size, side, n, err)
			}
			if !bytes.Equal(dst[:size], enc) {
				return vstat.V("xbin:encoding-differs", "%s: Marshal into %d bytes, a destination that %s, wrote %s, into a heap buffer of %d bytes %s", where, d, side, short(dst[:size]), size, short(enc))
			}
		}
	}
	return nil
}

var guardNote15 sync.Once

// faultGuard runs f on this goroutine with memory faults turned into panics and reports a fault - but not an ordinary
// panic, which is left to the caller's own recover - under sig, located relative to buf.
func faultGuard(sig string, buf []byte, f func()) (v *vstat.Violation) {
	defer debug.SetPanicOnFault(debug.SetPanicOnFault(true))
	defer func() {
		if r := recover(); r != nil {
			fa, ok := r.(interface{ Addr() uintptr })
			if !ok || fa.Addr() < 4096 {
				panic(r)
			}
			v = panicViolation(sig, r)
			v.Msg = faultText(fa.Addr(), buf) + "; " + v.Msg
		}
	}()
	f()
	return nil
}

func checkDecoded(where string, d decoded, size int) *vstat.Violation {
	if d.err != nil {
		return vstat.V("xbin:roundtrip-error", "%s: Unmarshal of the encoder's output failed: %v", where, d.err)
	}
	if d.n != size {
		return vstat.V("xbin:roundtrip-consumed", "%s: Unmarshal consumed %d bytes, the encoder wrote %d", where, d.n, size)
	}
	if !d.same() {
		return vstat.V("xbin:roundtrip-value", "%s: Unmarshal returned %s", where, d.shown())
	}
	return nil
}

// checkAlias: the item was decoded from src[start:] and has a prefix of `prefix` bytes; pristine is what src holds
// (spare capacity included).
// newBuf=false -> a non-empty result is exactly src[start+prefix:][:len]. newBuf=true -> the result's backing array
// res[:cap(res)] (whatever its length, 0 included) does not overlap the memory of src, the result's data pointer does
// not point into src[:cap(src)] even when length and capacity are 0 (pointer identity: the cheap form of what
// Run15G asks the garbage collector), and appending to the result as its owner would leaves src unchanged.
func checkAlias(where string, d decoded, src []byte, start, prefix int, newBuf bool, pristine []byte) *vstat.Violation {
	if !newBuf {
		if d.ln == 0 {
			return nil
		}
		wantPtr := uintptr(unsafe.Pointer(&src[start+prefix]))
		if d.ptr != wantPtr {
			return vstat.V("xbin:nocopy-not-aliasing", "%s: the result does not start at source[%d] (newBuf=false must return the input range)", where, start+prefix)
		}
		return nil
	}
	if d.capLn > 0 && inside(d.capPtr, d.capLn, src) {
		return vstat.V("xbin:newbuf-aliases-source", "%s: the result (len %d, cap %d) is backed by the source buffer", where, d.ln, d.capLn)
	}
	if within(d.dataPtr, src) {
		return vstat.V("xbin:newbuf-result-points-into-source", "%s: the result (len %d, cap %d) holds a pointer into the source buffer (offset %d of its %d bytes): nothing can be read through it, but the whole source stays reachable for as long as the decoded value lives", where, d.ln, d.capLn,
			d.dataPtr-uintptr(unsafe.Pointer(unsafe.SliceData(src))), cap(src))
	}
	if d.grow != nil {
		d.grow()
		if !bytes.Equal(src[:cap(src)][:len(pristine)], pristine) {
			return vstat.V("xbin:newbuf-append-corrupts-source", "%s: appending to the decoded value (len %d, cap %d) changed the source buffer", where, d.ln, d.capLn)
		}
	}
	return nil
}

// checkSurvives: a non-empty newBuf=true result keeps its value when every byte of the item's encoding in src is
// flipped (src is left flipped).
func checkSurvives(where string, d decoded, src []byte, start, prefix int, newBuf bool) *vstat.Violation {
	if !newBuf || d.ln == 0 {
		return nil
	}
	flip(src[start : start+prefix+d.ln])
	if !d.same() {
		return vstat.V("xbin:newbuf-depends-on-source", "%s: after overwriting the source buffer the decoded value changed to %s", where, d.shown())
	}
	return nil
}

// checkOwned: a byte string returned with newBuf=true belongs to the caller, who overwrites it in place (every byte up
// to the capacity). The item's encoding - a fresh copy of it - must decode to the item as before, with newBuf=true and
// with newBuf=false.
func checkOwned(where string, cd codec, d decoded, enc []byte, newBuf bool, info *Info15) *vstat.Violation {
	if !newBuf || d.scribble == nil {
		return nil
	}
	d.scribble()
	info.Scribbled++
	info.class("newBuf_results_overwritten_in_place_then_decoded_again")
	for _, nb := range []bool{true, false} {
		src := append(make([]byte, 0, len(enc)), enc...)
		d2 := cd.decode(src, nb)
		if v := checkDecoded(fmt.Sprintf("%s: decoded again (newBuf=%v) after the value returned with newBuf=true was overwritten in place by its owner", where, nb), d2, cd.size); v != nil {
			v.Sig = "xbin:newbuf-result-not-owned"
			return v
		}
	}
	return nil
}

// =============================================================================================
// C16

// Case16 is one input byte string: hex(In) followed by Fill bytes of the deterministic fill stream of Seed (so an
// input of hundreds of KiB is still a few bytes of JSON).
type Case16 struct {
	In   string `json:"in"`
	Fill int    `json:"fill,omitempty"`
	Seed uint64 `json:"seed,omitempty"`
}

// Bytes returns the input.
func (c Case16) Bytes() []byte {
	b, err := hex.DecodeString(c.In)
	if err != nil {
		panic("bad hex in Case16: " + err.Error())
	}
	if c.Fill <= 0 {
		return b
	}
	out := make([]byte, len(b)+c.Fill)
	copy(out, b)
	fillStream(out, len(b), c.Seed)
	return out
}

// NewCase16 wraps raw bytes.
func NewCase16(in []byte) Case16 { return Case16{In: hex.EncodeToString(in)} }

// Info16 is what the classifier of C16 needs: the harness's own reading of the input as varint prefix + body.
type Info16 struct {
	Len        int
	Groups     int    // bytes of the leading varint (0 if the input is empty)
	Terminated bool   // the varint has a final group (byte <= 127) inside the input
	Val        uint64 // its value modulo 2^64
	Over64     bool   // significant bits beyond 64 were dropped
	Overlong   bool   // more groups than the value needs
	Remaining  int    // bytes after the prefix
	Guard      int    // guard-page presentations made by Run16Bytes (GuardNone for the other case types)
}

// Classify reads the input the way a length-prefixed decoder would (classification only, never an oracle).
func Classify(in []byte) (i Info16) {
	i.Len = len(in)
	for k, b := range in {
		i.Groups = k + 1
		g := uint64(b & 127)
		if k < 9 {
			i.Val |= g << (7 * k)
		} else if k == 9 {
			i.Val |= g << 63
			if g > 1 {
				i.Over64 = true
			}
		} else if g != 0 {
			i.Over64 = true
		}
		if b <= 127 {
			i.Terminated = true
			break
		}
	}
	if i.Terminated {
		i.Remaining = len(in) - i.Groups
		i.Overlong = i.Groups > 1 && in[i.Groups-1] == 0
	}
	return i
}

// NonTrivial is the rule of C16: the prefix decodes to a length larger than what follows, or >= 2^31.
func (i Info16) NonTrivial() bool {
	return i.Terminated && (i.Val > uint64(i.Remaining) || i.Val >= 1<<31)
}

// Classes for the histogram.
func (i Info16) Classes() []string {
	var c []string
	switch i.Guard {
	case GuardPlaced:
		c = append(c, "guard_pages_behind_and_in_front_of_input")
		switch {
		case i.Len == 0:
			c = append(c, "guard_pages_empty_input")
		case i.Len < 8:
			c = append(c, "guard_pages_input_1-7_bytes")
		case i.Len <= 16:
			c = append(c, "guard_pages_input_8-16_bytes")
		case i.Len < 4<<10:
			c = append(c, "guard_pages_input_17_bytes_to_4KiB")
		default:
			c = append(c, "guard_pages_input_ge_4KiB")
		}
	case GuardTooBig:
		c = append(c, "guard_pages_input_too_big_heap_only")
	case GuardUnavailable:
		c = append(c, "guard_pages_unavailable")
	}
	switch {
	case i.Len == 0:
		return append(c, "empty_input")
	case !i.Terminated:
		c = append(c, "prefix_unterminated")
	default:
		switch {
		case i.Val > uint64(i.Remaining):
			c = append(c, "prefix_gt_remaining")
		case i.Val == uint64(i.Remaining):
			c = append(c, "prefix_eq_remaining")
		default:
			c = append(c, "prefix_lt_remaining")
		}
		if i.Val > uint64(i.Remaining) && i.Val <= uint64(i.Remaining)+2 {
			c = append(c, "prefix_just_above_remaining")
		}
		switch {
		case i.Val >= 1<<63:
			c = append(c, "prefix_ge_2^63")
		case i.Val >= 1<<63-2:
			c = append(c, "prefix_2^63-1_or_-2")
		case i.Val >= 1<<32:
			c = append(c, "prefix_2^32..2^63")
		case i.Val >= 1<<31:
			c = append(c, "prefix_2^31..2^32")
		}
		if i.Overlong {
			c = append(c, "prefix_overlong")
		}
	}
	if i.Over64 {
		c = append(c, "prefix_exceeds_64_bits")
	}
	if w := ShiftWord(i.Groups); w != 0 {
		c = append(c, fmt.Sprintf("prefix_of_2^%d/7_groups_shift_counter_boundary", w))
	}
	switch {
	case i.Groups >= 11:
		c = append(c, "prefix_groups_ge_11")
	case i.Groups == 10:
		c = append(c, "prefix_groups_10")
	case i.Groups == 9:
		c = append(c, "prefix_groups_9")
	case i.Groups >= 5:
		c = append(c, "prefix_groups_5-8")
	default:
		c = append(c, "prefix_groups_1-4")
	}
	if i.Len < 8 {
		c = append(c, "shorter_than_8")
	}
	switch {
	case i.Len >= 64<<10:
		c = append(c, "input_ge_64KiB")
	case i.Len >= 4<<10:
		c = append(c, "input_4KiB_to_64KiB")
	}
	if i.Terminated && i.Val <= uint64(i.Remaining) {
		switch {
		case i.Val > 64<<10:
			c = append(c, "complete_record_body_gt_64KiB")
		case i.Val >= 4<<10:
			c = append(c, "complete_record_body_4KiB_to_64KiB")
		}
		if i.Val >= 1<<20 {
			c = append(c, "complete_record_body_ge_1MiB")
		}
		for _, m := range []uint{12, 16, 20} {
			if i.Val >= 1<<m && i.Val&(1<<m-1) == 0 {
				c = append(c, fmt.Sprintf("complete_record_body_whole_number_of_2^%d_byte_blocks", m))
			}
		}
	}
	return c
}

type out16 struct {
	n    int
	err  error
	data []byte // view of the returned bytes / string (nil for numeric decoders)
	has  bool
}

type decoder16 struct {
	name   string
	newBuf bool
	f      func(in []byte) out16
}

func strView(s string) []byte {
	if len(s) == 0 {
		return nil
	}
	return unsafe.Slice(unsafe.StringData(s), len(s))
}

var decoders16 = []decoder16{
	{"UnmarshalByte", false, func(in []byte) out16 { n, _, err := xbinary.UnmarshalByte(in); return out16{n: n, err: err} }},
	{"UnmarshalUint16", false, func(in []byte) out16 { n, _, err := xbinary.UnmarshalUint16(in); return out16{n: n, err: err} }},
	{"UnmarshalUint32", false, func(in []byte) out16 { n, _, err := xbinary.UnmarshalUint32(in); return out16{n: n, err: err} }},
	{"UnmarshalUint64", false, func(in []byte) out16 { n, _, err := xbinary.UnmarshalUint64(in); return out16{n: n, err: err} }},
	{"UnmarshalUint", false, func(in []byte) out16 { n, _, err := xbinary.UnmarshalUint(in); return out16{n: n, err: err} }},
	{"UnmarshalBytes(newBuf=false)", false, func(in []byte) out16 {
		n, r, err := xbinary.UnmarshalBytes(in, false)
		return out16{n: n, err: err, data: r, has: true}
	}},
	{"UnmarshalBytes(newBuf=true)", true, func(in []byte) out16 {
		n, r, err := xbinary.UnmarshalBytes(in, true)
		return out16{n: n, err: err, data: r, has: true}
	}},
	{"UnmarshalString(newBuf=false)", false, func(in []byte) out16 {
		n, r, err := xbinary.UnmarshalString(in, false)
		return out16{n: n, err: err, data: strView(r), has: true}
	}},
	{"UnmarshalString(newBuf=true)", true, func(in []byte) out16 {
		n, r, err := xbinary.UnmarshalString(in, true)
		return out16{n: n, err: err, data: strView(r), has: true}
	}},
}

type lazy func() string

func (l lazy) String() string { return l() }

// guard16 makes one decoder call. Besides ordinary panics it turns a memory fault of the call (an access to an unmapped
// or protected address: the guard pages of the guard-page presentations, or wherever a wild pointer leads) into a
// panic - debug.SetPanicOnFault, which covers the calling goroutine only, so the decoder runs right here - and reports
// it under its own signature, with the faulting address relative to the input.
func guard16(d decoder16, in []byte, o *out16) (v *vstat.Violation) {
	defer debug.SetPanicOnFault(debug.SetPanicOnFault(true))
	defer func() {
		if r := recover(); r != nil {
			if fa, ok := r.(interface{ Addr() uintptr }); ok && fa.Addr() >= 4096 {
				v = panicViolation("xbin:out-of-bounds-access:"+d.name, r)
				v.Msg = faultText(fa.Addr(), in) + "; " + v.Msg
				return
			}
			v = panicViolation("xbin:decoder-panic:"+d.name, r)
		}
	}()
	*o = d.f(in)
	return nil
}

// faultText describes a faulting address relative to the buffer the call was given (no absolute addresses: the same
// case gives the same text).
func faultText(addr uintptr, buf []byte) string {
	base := uintptr(unsafe.Pointer(unsafe.SliceData(buf)))
	where := guardWhere(addr)
	if where == "" {
		where = "outside the guard arena"
	}
	if base == 0 {
		return fmt.Sprintf("memory fault %s (the buffer is nil)", where)
	}
	off := int64(addr) - int64(base)
	switch {
	case off < 0:
		return fmt.Sprintf("memory fault %d bytes BEFORE the first byte of the buffer of %d bytes, %s", -off, len(buf), where)
	case off >= int64(len(buf)):
		return fmt.Sprintf("memory fault at offset %d of a buffer of %d bytes (%d past its last byte), %s", off, len(buf), off-int64(len(buf))+1, where)
	}
	return fmt.Sprintf("memory fault at offset %d INSIDE the buffer of %d bytes, %s", off, len(buf), where)
}

// panicViolation describes a recovered panic by its value and the function:line frames between the panic and the
// harness. Unlike debug.Stack() the text holds no argument addresses, so the same input gives the same message
// (rapid only shrinks failures whose message reproduces exactly).
func panicViolation(sig string, r any) *vstat.Violation {
	pcs := make([]uintptr, 32)
	n := runtime.Callers(3, pcs)
	frames := runtime.CallersFrames(pcs[:n])
	var b strings.Builder
	for {
		f, more := frames.Next()
		if f.Function != "" && !strings.HasPrefix(f.Function, "runtime.") {
			fmt.Fprintf(&b, "\n  %s (%s:%d)", f.Function, filepath.Base(f.File), f.Line)
		}
		if !more || strings.HasSuffix(f.Function, ".Run16Bytes") || strings.HasSuffix(f.Function, ".run15") {
			break
		}
	}
	return vstat.V(sig, "panic: %v%s", r, b.String())
}

// Run16 feeds the input to every Unmarshal function.
func Run16(c Case16) (Info16, *vstat.Violation) { return Run16Bytes(c.Bytes()) }

// Guard-page presentations of an input (Info16.Guard).
const (
	GuardNone        = 0 // not a Run16Bytes case
	GuardPlaced      = 1 // presented behind and in front of an inaccessible page
	GuardTooBig      = 2 // longer than the guard arena: heap presentations only
	GuardUnavailable = 3 // no guard arena in this process (platform, mmap refused)
)

var guardNote sync.Once

// Run16Bytes is Run16 on raw bytes. The input is presented four times: as a heap slice whose capacity equals its
// length (reading past the end through the slice panics), inside a larger array (a result past the end shows up as a
// result outside in[0:len]), and - guard-page placement - as a slice with len == cap that ENDS at the last byte in
// front of an inaccessible page and as one that BEGINS at the first byte behind an inaccessible page: there an access
// outside the slice that goes around the bounds checks (unsafe word loads, assembly) and changes no result is a memory
// fault, which guard16 reports. On every presentation the per-call oracle is the same, and the guard-page calls must
// return what the same call returned for the heap copy (n, success, bytes).
func Run16Bytes(input []byte) (Info16, *vstat.Violation) {
	info := Classify(input)
	exact := append([]byte(nil), input...) // nil for the empty input
	if cap(exact) != len(exact) {
		exact = exact[:len(exact):len(exact)]
	}
	big := make([]byte, len(input)+40)
	for i := range big {
		big[i] = 0xA5
	}
	slack := big[8 : 8+len(input)]
	copy(slack, input)
	ref := make([]out16, len(decoders16))
	for fi, in := range [][]byte{exact, slack} {
		form := "cap==len"
		if fi == 1 {
			form = "cap>len"
		}
		for di, d := range decoders16 {
			o, v := check16(d, in, form)
			if v != nil {
				return info, v
			}
			if fi == 0 {
				ref[di] = o
			}
		}
	}
	switch {
	case !guardAvailable():
		info.Guard = GuardUnavailable
		guardNote.Do(func() {
			vstat.For("C16").Inconclusivef("guard-page placement of decoder inputs is not available in this process (platform without the mmap/mprotect arena, or the mapping was refused): over-reads that change no result are not observed")
		})
		return info, nil
	case len(input) > guardCapacity():
		info.Guard = GuardTooBig
		return info, nil
	}
	info.Guard = GuardPlaced
	guardAcquire()
	defer guardRelease()
	for _, atEnd := range []bool{true, false} {
		in := guardSlice(len(input), atEnd)
		copy(in, input)
		form := "guard page behind the input"
		if !atEnd {
			form = "guard page in front of the input"
		}
		for di, d := range decoders16 {
			o, v := check16(d, in, form)
			if v != nil {
				return info, v
			}
			if w := ref[di]; o.n != w.n || (o.err == nil) != (w.err == nil) || !bytes.Equal(o.data, w.data) {
				return info, vstat.V("xbin:placement-dependent-result:"+d.name,
					"%s(%s): returned (n=%d, err=%v, %s) for the input placed with a %s and (n=%d, err=%v, %s) for a heap copy of the same bytes",
					d.name, short(in), o.n, o.err, short(o.data), form, w.n, w.err, short(w.data))
			}
		}
	}
	return info, nil
}

// check16 calls one decoder on in and applies the oracle of C16 to what it returns.
func check16(d decoder16, in []byte, form string) (o out16, v *vstat.Violation) {
	if v := guard16(d, in, &o); v != nil {
		v.Msg = fmt.Sprintf("%s(%s) [%s] %s", d.name, short(in), form, v.Msg)
		return o, v
	}
	where := lazy(func() string { return fmt.Sprintf("%s(%s) [%s]", d.name, short(in), form) })
	if o.err != nil {
		if o.n != 0 {
			return o, vstat.V("xbin:error-with-consumed:"+d.name, "%s: failed (%v) but reports %d bytes consumed", where, o.err, o.n)
		}
		return o, nil
	}
	if o.n <= 0 || o.n > len(in) {
		return o, vstat.V("xbin:consumed-out-of-range:"+d.name, "%s: succeeded with n=%d for an input of %d bytes", where, o.n, len(in))
	}
	if !o.has || len(o.data) == 0 {
		return o, nil
	}
	if len(o.data) > len(in) {
		return o, vstat.V("xbin:result-outside-input:"+d.name, "%s: returned %d bytes from an input of %d", where, len(o.data), len(in))
	}
	p := uintptr(unsafe.Pointer(unsafe.SliceData(o.data)))
	base := uintptr(unsafe.Pointer(unsafe.SliceData(in)))
	if !d.newBuf {
		if p < base || p-base > uintptr(len(in)-len(o.data)) {
			return o, vstat.V("xbin:result-outside-input:"+d.name, "%s: the returned %d bytes are not a sub-range of in[0:%d]", where, len(o.data), len(in))
		}
		return o, nil
	}
	if !bytes.Contains(in, o.data) {
		return o, vstat.V("xbin:copy-not-from-input:"+d.name, "%s: the returned bytes %s are not a copy of any range of the input", where, short(o.data))
	}
	if inside(p, len(o.data), in) {
		return o, vstat.V("xbin:newbuf-aliases-input:"+d.name, "%s: the result of newBuf=true lies inside the input buffer", where)
	}
	return o, nil
}

// PutUvarint is the harness's own writer of a 7-bit-group little-endian number with `pad` extra
// continuation groups (over-long form when pad > 0). It only builds inputs; it is not an oracle.
func PutUvarint(dst []byte, v uint64, pad int) []byte {
	for v > 127 {
		dst = append(dst, 128|byte(v&127))
		v >>= 7
	}
	if pad == 0 {
		return append(dst, byte(v))
	}
	dst = append(dst, 128|byte(v))
	for i := 1; i < pad; i++ {
		dst = append(dst, 128)
	}
	return append(dst, 0)
}

// Hostile16 are the fixed adversarial inputs (fuzz seeds and part of the exhaustive list).
func Hostile16() [][]byte {
	var out [][]byte
	vals := []uint64{0, 1, 127, 128, 1<<31 - 1, 1 << 31, 1<<31 + 1, 1<<32 - 1, 1 << 32, 1<<32 + 1,
		1<<62 - 1, 1 << 62, 1<<63 - 2, 1<<63 - 1, 1 << 63, 1<<63 + 1, 1<<63 + 9, 1<<63 + 10, 1<<63 + 11, ^uint64(0) - 10, ^uint64(0) - 9, ^uint64(0) - 8, ^uint64(0) - 1, ^uint64(0)}
	bodies := [][]byte{nil, {0}, {1, 2, 3}, bytes.Repeat([]byte{0x61}, 20)}
	for _, v := range vals {
		for pad := 0; pad <= 2; pad++ {
			for _, b := range bodies {
				out = append(out, append(PutUvarint(nil, v, pad), b...))
			}
		}
	}
	for g := 1; g <= 12; g++ {
		for _, fill := range []byte{0x80, 0xff} {
			p := bytes.Repeat([]byte{fill}, g)
			out = append(out, p)
			for _, last := range []byte{0x00, 0x01, 0x02, 0x7f} {
				out = append(out, append(append([]byte(nil), p...), last), append(append([]byte(nil), p...), last, 0x41, 0x42))
			}
		}
	}
	return out
}
