package p_xbinary

import (
	"encoding/hex"
	"fmt"

	"verifharness/internal/vstat"
)

// Case16L is a hostile input of the class "very long run of continuation bytes": hex(Head), then Run bytes of the
// value B (0x80..0xff: every one of them says "the number goes on"), then hex(Tail) - nothing (the number never
// ends), a final group, or a final group and a body. A 64 MiB input is a few bytes of JSON. The same form serves the
// runs whose length crosses a word-size boundary of a shift counter (2^w/7 bytes, w = 7 .. 32: 18 bytes .. 585 MiB).
type Case16L struct {
	Head string `json:"head,omitempty"`
	Run  int    `json:"run"`
	B    int    `json:"b"`
	Tail string `json:"tail,omitempty"`
}

// Hash identifies the case.
func (c Case16L) Hash() uint64 { return vstat.Hash(c) }

// Info16L is what the classifier needs: the one-shot reading of the input plus the length of the run.
type Info16L struct {
	Info16
	Run int
}

// NonTrivial: the prefix has at least 2^20 groups, or the run ends within 3 bytes of a word-size boundary of a shift
// counter.
func (i Info16L) NonTrivial() bool { return i.Run >= 1<<20 || ShiftWord(i.Run) != 0 }

// ShiftWords are the widths of the integer types a decoder may count its shift in. The shift grows by 7 per
// continuation byte, so a counter of w bits (signed: w-1) is exhausted after 2^w/7 bytes of a number that goes on.
var ShiftWords = []int{7, 8, 15, 16, 31, 32}

// ShiftWord tells whether a run of n continuation bytes ends within 3 bytes of 2^w/7 for one of the ShiftWords (0: no).
func ShiftWord(n int) int {
	for _, w := range ShiftWords {
		if d := n - (1<<w)/7; d >= -3 && d <= 3 {
			return w
		}
	}
	return 0
}

// Classes for the histogram.
func (i Info16L) Classes() []string {
	c := i.Info16.Classes()
	if w := ShiftWord(i.Run); w != 0 {
		c = append(c, "continuation_run_ends_at_shift_counter_boundary", fmt.Sprintf("continuation_run_of_2^%d/7_bytes", w))
		if i.Terminated {
			c = append(c, "continuation_run_at_shift_counter_boundary_terminated")
		} else {
			c = append(c, "continuation_run_at_shift_counter_boundary_unterminated")
		}
	}
	if i.Run < 1<<20 {
		return c
	}
	c = append(c, "long_continuation_run")
	switch {
	case i.Run >= 256<<20:
		c = append(c, "long_continuation_run_ge_256MiB")
	case i.Run >= 32<<20:
		c = append(c, "long_continuation_run_ge_32MiB")
	case i.Run >= 8<<20:
		c = append(c, "long_continuation_run_8MiB_to_32MiB")
	default:
		c = append(c, "long_continuation_run_lt_8MiB")
	}
	return c
}

var longArena []byte

// hugeRun: from this run length on a case is decoded in one presentation only (cap > len).
const hugeRun = 1 << 27

// ReserveLong makes sure the arena of the long-run cases holds n bytes (allocate once, for the largest case of the run).
func ReserveLong(n int) {
	if cap(longArena) < n {
		longArena = nil
		longArena = make([]byte, n)
	}
}

// Run16L builds the input in place in one arena (8 guard bytes, the input, 32 guard bytes: no copy of a 64 MiB input
// is ever made) and gives it to every Unmarshal function, once as a slice with cap == len and once with spare
// capacity behind it. Oracle: C16's per call (no panic, error -> n == 0, success -> 0 < n <= len(in), the result inside
// the input or a copy of a range of it). A decoder that needs stack or memory in proportion to the run does not panic,
// it kills the process ("fatal error: stack overflow" cannot be recovered): the driver reports the dead process as a
// violation of C16 (signature process-crash), the case that was running is left in the replay directory by the test.
func Run16L(c Case16L) (info Info16L, v *vstat.Violation) {
	head, err1 := hex.DecodeString(c.Head)
	tail, err2 := hex.DecodeString(c.Tail)
	if err1 != nil || err2 != nil || c.Run < 0 || c.Run > 1<<30 || c.B < 0x80 || c.B > 0xff {
		panic(fmt.Sprintf("bad Case16L %+v", c))
	}
	n := len(head) + c.Run + len(tail)
	ReserveLong(8 + n + 32)
	a := longArena[: 8+n+32 : 8+n+32]
	for i := 0; i < 8; i++ {
		a[i] = 0xA5
	}
	for i := 8 + n; i < len(a); i++ {
		a[i] = 0xA5
	}
	in := a[8 : 8+n]
	copy(in, head)
	run := in[len(head) : len(head)+c.Run]
	if len(run) > 0 {
		run[0] = byte(c.B)
		for k := 1; k < len(run); k *= 2 {
			copy(run[k:], run[:k])
		}
	}
	copy(in[len(head)+c.Run:], tail)
	info = Info16L{Info16: Classify(in), Run: c.Run}
	for fi, form := range []string{"cap==len", "cap>len"} {
		if fi == 0 && c.Run >= hugeRun {
			continue // every call walks hundreds of MB: one presentation
		}
		x := in[:n:n]
		if fi == 1 {
			x = in
		}
		for _, d := range decoders16 {
			if _, v := check16(d, x, form); v != nil {
				return info, v
			}
		}
	}
	return info, nil
}
