package p_xbinary

import (
	"bytes"
	"encoding/hex"
	"fmt"
	"runtime/debug"
	"unsafe"

	"github.com/acquirecloud/golibs/xbinary"
	"verifharness/internal/vstat"
)

// Case16S is one byte string that lives ON THE GOROUTINE STACK of the caller - a local array that does not escape,
// sliced - given to ONE Unmarshal function (D, index in decoders16) again and again while the goroutine descends: a
// fresh goroutine (small initial stack) first goes down Pre small frames, then Depth frames of a recursion whose frame
// size is chosen by Step (0: a few words, 1: about 100 bytes, 2: about 300 bytes), and at every level the array is
// filled with the input and decoded. Go moves a goroutine's stack when it grows (8 KiB, 16 KiB, 32 KiB ...), and the
// check that triggers the move sits in the prologue of every function: descending in small steps, some call at each
// boundary finds the stack exhausted right inside the library - in the decoder's own prologue or in that of a function
// it calls - so the input MOVES during the call. A byte slice argument is a pointer the runtime updates; an address
// kept as an integer is not. One function and one input per descent: another call at the same level (a longer call
// chain, an error path that formats a message) would take the boundary away.
// Big: the array has 1024 bytes instead of 64 (the input is cut to the array's size).
type Case16S struct {
	In    string `json:"in"`
	D     int    `json:"d"`
	Big   bool   `json:"big,omitempty"`
	Pre   int    `json:"pre,omitempty"`
	Depth int    `json:"depth"`
	Step  int    `json:"step,omitempty"`
}

// Hash identifies the case.
func (c Case16S) Hash() uint64 { return vstat.Hash(c) }

// Info16S is what the classifier needs.
type Info16S struct {
	Info16
	D       int
	Step    int
	Big     bool
	Calls   int  // decoder calls on a stack input
	Moved   int  // of them, calls during which the input's address changed (the stack was moved inside the library call)
	OnStack int  // calls whose input lay within 64 KiB of another local of the same frame (self-check of the harness)
	Success bool // the function accepts the input
	Bytes   bool // it returned a non-empty value
}

// NonTrivial: the stack was moved during at least one decoder call.
func (i Info16S) NonTrivial() bool { return i.Moved > 0 }

// Classes for the histogram.
func (i Info16S) Classes() []string {
	name := decoders16[i.D].name
	c := []string{"stack_input", "stack_input_" + name, fmt.Sprintf("stack_input_descent_frame_size_class_%d", i.Step)}
	if i.Big {
		c = append(c, "stack_input_array_of_1024_bytes")
	} else {
		c = append(c, "stack_input_array_of_64_bytes")
	}
	if i.OnStack == i.Calls && i.Calls > 0 {
		c = append(c, "stack_input_confirmed_next_to_a_local_of_its_frame")
	}
	if i.Moved > 0 {
		c = append(c, "stack_moved_during_decoder_call", "stack_moved_during_"+name)
		if i.Success {
			c = append(c, "stack_moved_during_successful_decode")
		}
		if i.Bytes && !decoders16[i.D].newBuf {
			c = append(c, "stack_moved_during_zero_copy_decode_of_non_empty_value")
		}
		if i.Bytes && decoders16[i.D].newBuf {
			c = append(c, "stack_moved_during_copying_decode_of_non_empty_value")
		}
	}
	switch {
	case i.Calls >= 2000:
		c = append(c, "stack_input_descent_ge_2000_levels")
	case i.Calls >= 500:
		c = append(c, "stack_input_descent_500_to_1999_levels")
	default:
		c = append(c, "stack_input_descent_lt_500_levels")
	}
	return c
}

// stackRun is the state of one descent (on the heap, shared by all levels).
type stackRun struct {
	src     []byte // the input (heap copy the arrays are filled from)
	d       int
	big     bool
	refN    int // what the same call returns for a heap copy of the input
	refOK   bool
	refData []byte
	before  uintptr // address of the input right before the library call (kept in memory: not recomputed afterwards)

	calls, moved, onStack int
	sink                  int
	code                  int // first failure (0 = none)
	n, ln                 int
	errText               string
	got                   []byte
}

// Verdict codes of stackDecode.
const (
	sOK = iota
	sErrConsumed
	sConsumedRange
	sTooLong
	sNotSubRange
	sNotACopy
	sAliases
	sDiffers
)

// stackDecode makes the call and applies C16's oracle to it, with the input's address range taken AFTER the call (in
// is a pointer into the caller's frame: the runtime has updated it if the stack was moved). It only touches in through
// direct calls of functions that do not retain their argument, so the caller's array stays on the stack
// (go build -gcflags=-m: "in does not escape", no "moved to heap" for the arrays of stackProbe64 / stackProbe1024).
//
//go:noinline
func stackDecode(r *stackRun, in []byte) {
	var (
		n    int
		err  error
		data []byte
		s    string
	)
	r.before = uintptr(unsafe.Pointer(unsafe.SliceData(in)))
	switch r.d {
	case 0:
		n, _, err = xbinary.UnmarshalByte(in)
	case 1:
		n, _, err = xbinary.UnmarshalUint16(in)
	case 2:
		n, _, err = xbinary.UnmarshalUint32(in)
	case 3:
		n, _, err = xbinary.UnmarshalUint64(in)
	case 4:
		n, _, err = xbinary.UnmarshalUint(in)
	case 5:
		n, data, err = xbinary.UnmarshalBytes(in, false)
	case 6:
		n, data, err = xbinary.UnmarshalBytes(in, true)
	case 7:
		n, s, err = xbinary.UnmarshalString(in, false)
		data = strView(s)
	default:
		n, s, err = xbinary.UnmarshalString(in, true)
		data = strView(s)
	}
	base := uintptr(unsafe.Pointer(unsafe.SliceData(in)))
	r.calls++
	if base != r.before {
		r.moved++
	}
	code := sOK
	switch {
	case err != nil && n != 0:
		code = sErrConsumed
	case err != nil:
	case n <= 0 || n > len(in):
		code = sConsumedRange
	case len(data) > len(in):
		code = sTooLong
	case len(data) > 0:
		p := uintptr(unsafe.Pointer(unsafe.SliceData(data)))
		switch {
		case !decoders16[r.d].newBuf && (p < base || p-base > uintptr(len(in)-len(data))):
			code = sNotSubRange
		case decoders16[r.d].newBuf && !bytes.Contains(in, data):
			code = sNotACopy
		case decoders16[r.d].newBuf && inside(p, len(data), in):
			code = sAliases
		}
	}
	if code == sOK && ((err == nil) != r.refOK || n != r.refN || (err == nil && !bytes.Equal(data, r.refData))) {
		code = sDiffers
	}
	if code != sOK && r.code == sOK {
		r.code, r.n, r.ln = code, n, len(data)
		if err != nil {
			r.errText = err.Error()
		}
		if code != sNotSubRange && code != sTooLong { // never read through a pointer that is known to be wild
			r.got = append([]byte(nil), data...)
		}
	}
}

//go:noinline
func stackProbe64(r *stackRun) {
	var a [64]byte
	var mark byte
	n := copy(a[:], r.src)
	if d := int64(uintptr(unsafe.Pointer(&a[0]))) - int64(uintptr(unsafe.Pointer(&mark))); d > -1<<16 && d < 1<<16 {
		r.onStack++
	}
	stackDecode(r, a[:n])
	mark = a[0]
	_ = mark
}

//go:noinline
func stackProbe1024(r *stackRun) {
	var a [1024]byte
	var mark byte
	n := copy(a[:], r.src)
	if d := int64(uintptr(unsafe.Pointer(&a[0]))) - int64(uintptr(unsafe.Pointer(&mark))); d > -1<<16 && d < 1<<16 {
		r.onStack++
	}
	stackDecode(r, a[:n])
	mark = a[0]
	_ = mark
}

func (r *stackRun) probe() {
	if r.big {
		stackProbe1024(r)
	} else {
		stackProbe64(r)
	}
}

//go:noinline
func stackDescend0(r *stackRun, depth int) {
	r.probe()
	if depth > 0 && r.code == sOK {
		stackDescend0(r, depth-1)
	}
}

//go:noinline
func stackDescend1(r *stackRun, depth int) {
	var pad [72]byte
	pad[depth%72] = byte(depth)
	r.probe()
	if depth > 0 && r.code == sOK {
		stackDescend1(r, depth-1)
	}
	r.sink += int(pad[(depth+1)%72])
}

//go:noinline
func stackDescend2(r *stackRun, depth int) {
	var pad [264]byte
	pad[depth%264] = byte(depth)
	r.probe()
	if depth > 0 && r.code == sOK {
		stackDescend2(r, depth-1)
	}
	r.sink += int(pad[(depth+1)%264])
}

//go:noinline
func stackPre(k int, f func()) {
	var pad [8]byte
	pad[k%8] = 1
	if k > 0 {
		stackPre(k-1, f)
	} else {
		f()
	}
	_ = pad[(k+1)%8]
}

// Run16S executes the case. Oracle per call: C16's (no panic, error -> n == 0, success -> 0 < n <= len(in), a
// newBuf=false result lies inside in[0:len] AS THE INPUT LIES WHEN THE CALL HAS RETURNED, a newBuf=true result equals a
// range of it and lies outside), plus: the call returns the n, the success/failure and the bytes that the same call
// returns for a heap copy of the input (where a value lives does not matter to a function of its bytes).
func Run16S(c Case16S) (info Info16S, v *vstat.Violation) {
	src, err := hex.DecodeString(c.In)
	if err != nil || c.D < 0 || c.D >= len(decoders16) {
		panic(fmt.Sprintf("bad Case16S %+v", c))
	}
	big := c.Big || len(src) > 64
	if len(src) > 1024 {
		src = src[:1024]
	}
	d := decoders16[c.D]
	info = Info16S{Info16: Classify(src), D: c.D, Step: min(max(c.Step, 0), 2), Big: big}
	heap := append(make([]byte, 0, len(src)), src...)
	ref, v := check16(d, heap, "heap copy of the stack input")
	if v != nil {
		return info, v
	}
	info.Success, info.Bytes = ref.err == nil, ref.err == nil && len(ref.data) > 0
	r := &stackRun{src: src, d: c.D, big: big, refN: ref.n, refOK: ref.err == nil, refData: append([]byte(nil), ref.data...)}
	depth, pre := min(max(c.Depth, 0), 20000), min(max(c.Pre, 0), 512)
	done := make(chan *vstat.Violation)
	go func() {
		var pv *vstat.Violation
		defer func() { done <- pv }()
		defer debug.SetPanicOnFault(debug.SetPanicOnFault(true))
		defer func() {
			if p := recover(); p != nil {
				pv = vstat.V("xbin:decoder-panic:"+d.name, "%s(%s) [input in a local array of the caller, on the goroutine stack]: panic: %v", d.name, short(src), p)
			}
		}()
		stackPre(pre, func() {
			switch info.Step {
			case 0:
				stackDescend0(r, depth)
			case 1:
				stackDescend1(r, depth)
			default:
				stackDescend2(r, depth)
			}
		})
	}()
	v = <-done
	info.Calls, info.Moved, info.OnStack = r.calls, r.moved, r.onStack
	if v != nil {
		return info, v
	}
	where := fmt.Sprintf("%s(%s) [input in a local array of the caller, on the goroutine stack; a descent of small frames on a fresh goroutine]", d.name, short(src))
	switch r.code {
	case sErrConsumed:
		v = vstat.V("xbin:error-with-consumed:"+d.name, "%s: failed (%s) but reports %d bytes consumed", where, r.errText, r.n)
	case sConsumedRange:
		v = vstat.V("xbin:consumed-out-of-range:"+d.name, "%s: succeeded with n=%d for an input of %d bytes", where, r.n, len(src))
	case sTooLong:
		v = vstat.V("xbin:result-outside-input:"+d.name, "%s: returned %d bytes from an input of %d", where, r.ln, len(src))
	case sNotSubRange:
		v = vstat.V("xbin:result-outside-input:"+d.name, "%s: the returned %d bytes are not a sub-range of in[0:%d] as the input lies when the call has returned (the goroutine's stack, and the input with it, may have been moved during the call)", where, r.ln, len(src))
	case sNotACopy:
		v = vstat.V("xbin:copy-not-from-input:"+d.name, "%s: the returned bytes %s are not a copy of any range of the input", where, short(r.got))
	case sAliases:
		v = vstat.V("xbin:newbuf-aliases-input:"+d.name, "%s: the result of newBuf=true lies inside the input buffer", where)
	case sDiffers:
		v = vstat.V("xbin:placement-dependent-result:"+d.name, "%s: returned (n=%d, err=%q, %s) for the input on the stack and (n=%d, ok=%v, %s) for a heap copy of the same bytes",
			where, r.n, r.errText, short(r.got), ref.n, ref.err == nil, short(ref.data))
	}
	return info, v
}
