package p_blocks

import (
	"fmt"
	"runtime"
	"sync"
	"sync/atomic"

	cbytes "github.com/acquirecloud/golibs/container/bytes"
	"verifharness/internal/vstat"
)

// ConcCase is the concurrent part of C17: G goroutines each run Iters rounds of
// {ArrangeBlock, stamp the block with the own id, verify, FreeBlock}, holding at most Hold blocks at a time
// and keeping Keep of them at the end. Nothing in the oracle depends on the schedule.
type ConcCase struct {
	BS    int  `json:"bs"`
	Segs  int  `json:"segs"`
	Over  int  `json:"over"`
	G     int  `json:"g"`
	Iters int  `json:"iters"`
	Hold  int  `json:"hold"`
	Keep  int  `json:"keep"`
	Yield bool `json:"yield"`
}

// ConcInfo classifies a concurrent case.
type ConcInfo struct {
	Contended bool // G*Hold > Count: ErrExhausted is a legitimate answer
	Exhausted int64
	Arranged  int64
	MultiSeg  bool
}

func (i ConcInfo) Classes() []string {
	c := []string{"concurrent"}
	if i.Contended {
		c = append(c, "concurrent_more_demand_than_blocks")
	}
	if i.Exhausted > 0 {
		c = append(c, "concurrent_exhausted_seen")
	}
	if i.MultiSeg {
		c = append(c, "segments_ge_2")
	}
	return c
}

func concStamp(g, it, idx, j int) byte {
	x := uint32(g)*0x9E3779B1 ^ uint32(it)*0x85EBCA6B ^ uint32(idx)*0xC2B2AE35
	x ^= x >> 13
	return byte(x>>(uint(j&3)*8)) + byte(j*29) + 1
}

// RunConcurrent executes the case.
func RunConcurrent(c ConcCase) (info ConcInfo, v *vstat.Violation) {
	return info, vstat.Guard("blocks:panic", func() *vstat.Violation { return runConcurrent(c, &info) })
}

type held struct{ idx, it int }

func runConcurrent(c ConcCase, info *ConcInfo) *vstat.Violation {
	if !ValidBS(c.BS) || c.Segs < 1 || c.G < 1 || c.Hold < 1 {
		panic("bad concurrent case")
	}
	segSize := SegSize(c.BS)
	size := int64(c.Segs)*segSize + int64(max(c.Over, 0))%segSize
	count := c.Segs * c.BS * 8
	geo := fmt.Sprintf("bs=%d segments=%d size=%d G=%d iters=%d hold=%d keep=%d", c.BS, c.Segs, size, c.G, c.Iters, c.Hold, c.Keep)
	buf := cbytes.NewInMemBytes(int(size))
	b, err := cbytes.NewBlocks(c.BS, buf, false)
	if err != nil || b == nil {
		return vstat.V("blocks:ctor-rejects-valid", "NewBlocks(%s) failed: %v", geo, err)
	}
	base, _ := buf.Buffer(0, int(size))
	offs, v := blockGeometry(b, base, c.BS, c.Segs, count, "NewBlocks("+geo+")")
	if v != nil {
		return v
	}
	info.MultiSeg = c.Segs >= 2
	contended := c.G*c.Hold > count
	info.Contended = contended
	minAvail := count - c.G*c.Hold

	owner := make([]atomic.Int32, count)
	var (
		stop      atomic.Bool
		mu        sync.Mutex
		first     *vstat.Violation
		exhausted atomic.Int64
		arranged  atomic.Int64
	)
	fail := func(v *vstat.Violation) {
		mu.Lock()
		if first == nil {
			first = v
		}
		mu.Unlock()
		stop.Store(true)
	}
	kept := make([][]held, c.G+1)
	var wg sync.WaitGroup
	for g := 1; g <= c.G; g++ {
		wg.Add(1)
		go func(g int) {
			defer wg.Done()
			defer func() {
				if r := recover(); r != nil {
					fail(vstat.V("blocks:panic", "goroutine %d of [%s] panicked: %v", g, geo, r))
				}
			}()
			var mine []held
			verify := func(h held, when string) bool {
				blk := base[offs[h.idx] : offs[h.idx]+int64(c.BS)]
				for j := range blk {
					if blk[j] != concStamp(g, h.it, h.idx, j) {
						fail(vstat.V("blocks:user-data-overwritten", "[%s] goroutine %d %s: byte %d of its block %d is %#x, it wrote %#x: the block was also given to someone else or the allocator wrote into it", geo, g, when, j, h.idx, blk[j], concStamp(g, h.it, h.idx, j)))
						return false
					}
				}
				return true
			}
			release := func(p int, when string) bool {
				h := mine[p]
				mine[p] = mine[len(mine)-1]
				mine = mine[:len(mine)-1]
				if !verify(h, when) {
					return false
				}
				if !owner[h.idx].CompareAndSwap(int32(g), 0) {
					fail(vstat.V("blocks:double-allocation", "[%s] goroutine %d %s: block %d that it holds is registered to goroutine %d", geo, g, when, h.idx, owner[h.idx].Load()))
					return false
				}
				if err := b.FreeBlock(h.idx); err != nil {
					fail(vstat.V("blocks:free-rejected", "[%s] goroutine %d %s: FreeBlock(%d) of its own allocated block failed with %v", geo, g, when, h.idx, err))
					return false
				}
				return true
			}
			for it := 0; it < c.Iters && !stop.Load(); it++ {
				when := fmt.Sprintf("round %d", it)
				if len(mine) >= c.Hold {
					if !release((it*7+g)%len(mine), when) {
						return
					}
				}
				if a := b.Available(); a < minAvail || a < 0 || a > count {
					fail(vstat.V("blocks:available", "[%s] goroutine %d %s: Available()=%d is outside [max(0,Count-G*hold)=%d, Count=%d]", geo, g, when, a, max(0, minAvail), count))
					return
				}
				idx, err := b.ArrangeBlock()
				if err != nil {
					if !isExhausted(err) {
						fail(vstat.V("blocks:arrange-error", "[%s] goroutine %d %s: ArrangeBlock failed with %v", geo, g, when, err))
						return
					}
					if !contended {
						fail(vstat.V("blocks:exhausted-while-free", "[%s] goroutine %d %s: ArrangeBlock reports ErrExhausted although at most G*hold=%d of %d blocks can be allocated at any time", geo, g, when, c.G*c.Hold, count))
						return
					}
					exhausted.Add(1)
					if len(mine) > 0 {
						if !release((it*5+g)%len(mine), when) {
							return
						}
					}
					continue
				}
				arranged.Add(1)
				if idx < 0 || idx >= count {
					fail(vstat.V("blocks:arrange-out-of-range", "[%s] goroutine %d %s: ArrangeBlock returned %d, outside [0,%d)", geo, g, when, idx, count))
					return
				}
				if !owner[idx].CompareAndSwap(0, int32(g)) {
					fail(vstat.V("blocks:double-allocation", "[%s] goroutine %d %s: ArrangeBlock returned %d which goroutine %d holds and has not freed", geo, g, when, idx, owner[idx].Load()))
					return
				}
				blk, err := b.Block(idx)
				if err != nil || len(blk) != c.BS || ptrDiff(blk, base) != offs[idx] {
					fail(vstat.V("blocks:block-error", "[%s] goroutine %d %s: Block(%d) returned len=%d err=%v", geo, g, when, idx, len(blk), err))
					return
				}
				for j := range blk {
					blk[j] = concStamp(g, it, idx, j)
				}
				h := held{idx, it}
				mine = append(mine, h)
				if c.Yield {
					runtime.Gosched()
				}
				if !verify(h, when) || !verify(mine[(it*3)%len(mine)], when) {
					return
				}
			}
			for len(mine) > c.Keep && !stop.Load() {
				if !release(len(mine)-1, "final release") {
					return
				}
			}
			for _, h := range mine {
				if !verify(h, "at the end") {
					return
				}
			}
			kept[g] = mine
		}(g)
	}
	wg.Wait()
	info.Exhausted = exhausted.Load()
	info.Arranged = arranged.Load()
	if first != nil {
		return first
	}
	// quiescence: the union of the kept sets is the allocated set
	alloc := make([]bool, count)
	n := 0
	for g := 1; g <= c.G; g++ {
		for _, h := range kept[g] {
			if alloc[h.idx] {
				return vstat.V("blocks:double-allocation", "[%s] at quiescence block %d is held twice", geo, h.idx)
			}
			if owner[h.idx].Load() != int32(g) {
				return vstat.V("blocks:double-allocation", "[%s] at quiescence block %d held by goroutine %d is registered to %d", geo, h.idx, g, owner[h.idx].Load())
			}
			alloc[h.idx] = true
			n++
		}
	}
	if b.Count() != count {
		return vstat.V("blocks:count", "[%s] at quiescence Count()=%d want %d", geo, b.Count(), count)
	}
	if b.Available() != count-n {
		return vstat.V("blocks:available", "[%s] at quiescence Available()=%d want Count-held=%d-%d=%d", geo, b.Available(), count, n, count-n)
	}
	return snapshotCheck(base, c.BS, false, count, alloc, n, "["+geo+"] at quiescence", 3)
}
