package p_blocks

import (
	"fmt"
	"runtime"
	"sync"
	"sync/atomic"

	cbytes "github.com/acquirecloud/golibs/container/bytes"
	"verifharness/internal/vstat"
)

// ConcCase is the concurrent part of C17: G goroutines each run Iters rounds of
// {ArrangeBlock, stamp the block with the own id, verify, FreeBlock}, holding at most Hold blocks at a time
// and keeping Keep of them at the end. Nothing in the oracle depends on the schedule.
//
// Reopened allocators and the first Available() call of an allocator's life: with Pre > 0 the bytes get a history
// first - an allocator opened on them makes Pre ArrangeBlock calls and frees most of these blocks again: it keeps at most
// G*Hold of them, spread evenly over the Pre indexes, minus every PreFree-th of those (PreFree < 2: none) - and the allocator
// under test is then opened on the SAME bytes (a reopen); the blocks that are allocated at that point are the initial
// holdings of the goroutines (at most Hold each), so the concurrent phase begins with FreeBlock as well as ArrangeBlock calls. With Late > 0 nobody calls
// Available() on the allocator under test - not the workers, not the bookkeeping of the harness - until the workers
// have together completed Late-1 ArrangeBlock/FreeBlock calls; then an extra goroutine (the observer) makes the FIRST
// Available() call while the workers go on; the workers' own Available() checks begin when that call has returned.
// With ParkSeg > 0 (needs Late > 0) the interleaving is forced through the storage: the workers are held between two
// rounds, the observer makes its call, and if during that call the header of a segment >= ParkSeg is read from the
// Buffer, that read is parked (the Buffer of the case is a wrapper around the in-memory one) while the workers are
// let go and complete ParkOps more calls; an implementation whose Available() does not read the storage is simply
// not parked and the workers are let go when the call has returned.
type ConcCase struct {
	BS      int  `json:"bs"`
	Segs    int  `json:"segs"`
	Over    int  `json:"over"`
	G       int  `json:"g"`
	Iters   int  `json:"iters"`
	Hold    int  `json:"hold"`
	Keep    int  `json:"keep"`
	Yield   bool `json:"yield"`
	Pre     int  `json:"pre,omitempty"`
	PreFree int  `json:"prefree,omitempty"`
	Late    int  `json:"late,omitempty"`
	ParkSeg int  `json:"parkseg,omitempty"`
	ParkOps int  `json:"parkops,omitempty"`
}

// ConcInfo classifies a concurrent case.
type ConcInfo struct {
	Contended bool // G*Hold > Count: ErrExhausted is a legitimate answer
	Exhausted int64
	Arranged  int64
	MultiSeg  bool
	Reopened  int  // blocks that were allocated when the allocator under test was opened (Pre > 0)
	ReopenedN int  // ... segments holding one of them
	Late      bool // the first Available() call was left to the observer
	LateRaced bool // ... and workers were still running when it was made
	LateOps   int64
	AfterOps  int64 // ArrangeBlock/FreeBlock calls completed after the first Available() call had begun
	Held      bool  // the workers were held between two rounds when the call began (ParkSeg > 0)
	Parked    bool  // a header read made during the first Available() call was parked
	ParkedOps int64 // calls the workers completed while it was parked
}

func (i ConcInfo) Classes() []string {
	c := []string{"concurrent"}
	if i.Contended {
		c = append(c, "concurrent_more_demand_than_blocks")
	}
	if i.Exhausted > 0 {
		c = append(c, "concurrent_exhausted_seen")
	}
	if i.MultiSeg {
		c = append(c, "segments_ge_2")
	}
	if i.Reopened > 0 {
		c = append(c, "concurrent_on_reopened_allocator_with_allocated_blocks")
		if i.ReopenedN >= 2 {
			c = append(c, "concurrent_on_reopened_allocator_with_allocated_blocks_in_ge_2_segments")
		}
	}
	if i.Late {
		c = append(c, "concurrent_first_available_call_left_to_observer")
		if i.LateRaced && i.AfterOps > 0 {
			c = append(c, "concurrent_first_available_call_overlapped_by_arrange_free")
			if i.Reopened > 0 && i.MultiSeg {
				c = append(c, "concurrent_first_available_call_overlapped_on_reopened_multi_segment_allocator")
			}
		} else {
			c = append(c, "concurrent_first_available_call_was_quiet")
		}
		if i.Held {
			c = append(c, "concurrent_first_available_call_with_workers_held")
		}
		if i.Parked {
			c = append(c, "concurrent_first_available_call_header_read_parked")
		}
	}
	return c
}

// gateBuf is the Buffer of the concurrent cases: the in-memory buffer of the library, plus one schedule point - when
// armed, the next read of a segment header (the first block of a segment) of a segment >= parkSeg calls park on the
// calling goroutine before it is served. A storage may be slow at any call; the documentation of Buffer allows
// concurrent requests.
type gateBuf struct {
	in      cbytes.Buffer
	segSize int64
	parkSeg int64
	armed   atomic.Bool
	park    func()
}

func (g *gateBuf) Buffer(offs int64, size int) ([]byte, error) {
	if g.armed.Load() && offs%g.segSize == 0 && offs/g.segSize >= g.parkSeg && g.armed.CompareAndSwap(true, false) {
		g.park()
	}
	return g.in.Buffer(offs, size)
}

func (g *gateBuf) Close() error       { return g.in.Close() }
func (g *gateBuf) Size() int64        { return g.in.Size() }
func (g *gateBuf) Grow(n int64) error { return g.in.Grow(n) }
func (g *gateBuf) String() string     { return fmt.Sprint(g.in) }

func concStamp(g, it, idx, j int) byte {
	x := uint32(g)*0x9E3779B1 ^ uint32(it)*0x85EBCA6B ^ uint32(idx)*0xC2B2AE35
	x ^= x >> 13
	return byte(x>>(uint(j&3)*8)) + byte(j*29) + 1
}

// RunConcurrent executes the case.
func RunConcurrent(c ConcCase) (info ConcInfo, v *vstat.Violation) {
	return info, vstat.Guard("blocks:panic", func() *vstat.Violation { return runConcurrent(c, &info) })
}

type held struct{ idx, it int }

func runConcurrent(c ConcCase, info *ConcInfo) *vstat.Violation {
	if !ValidBS(c.BS) || c.Segs < 1 || c.G < 1 || c.Hold < 1 {
		panic("bad concurrent case")
	}
	segSize := SegSize(c.BS)
	size := int64(c.Segs)*segSize + int64(max(c.Over, 0))%segSize
	count := c.Segs * c.BS * 8
	geo := fmt.Sprintf("bs=%d segments=%d size=%d G=%d iters=%d hold=%d keep=%d", c.BS, c.Segs, size, c.G, c.Iters, c.Hold, c.Keep)
	if c.Pre > 0 {
		geo += fmt.Sprintf(" reopened after %d ArrangeBlock calls of which at most G*hold evenly spread ones were kept (PreFree=%d)", c.Pre, c.PreFree)
	}
	if c.Late > 0 {
		geo += fmt.Sprintf(" first Available() call made by an observer after %d worker calls", c.Late-1)
		if c.ParkSeg > 0 {
			geo += fmt.Sprintf(", workers held, header reads of segments >= %d made during that call parked for %d worker calls", c.ParkSeg, c.ParkOps)
		}
	}
	mem := cbytes.NewInMemBytes(int(size))
	base, _ := mem.Buffer(0, int(size))
	buf := &gateBuf{in: mem, segSize: segSize, parkSeg: int64(max(c.ParkSeg, 1))}
	// the history of the bytes before the allocator under test is opened on them
	initial := make([][]held, c.G+1)
	if c.Pre > 0 {
		a0, err := cbytes.NewBlocks(c.BS, buf, false)
		if err != nil || a0 == nil {
			return vstat.V("blocks:ctor-rejects-valid", "NewBlocks(%s) failed: %v", geo, err)
		}
		segsSeen := map[int]bool{}
		n, quota, chosen := min(c.Pre, count), c.G*c.Hold, 0
		var back []int // arranged first, freed again when all n calls have been made (a block freed at once would be handed out again)
		for k, g := 0, 1; k < n; k++ {
			idx, err := a0.ArrangeBlock()
			if err != nil || idx < 0 || idx >= count {
				return vstat.V("blocks:arrange-error", "[%s] preparation: ArrangeBlock #%d on the fresh allocator returned (%d, %v)", geo, k, idx, err)
			}
			// kept: at most G*Hold of the n blocks, spread evenly over them (so over the segments they reach), minus every PreFree-th
			give := (k+1)*quota/n > k*quota/n
			if give {
				chosen++
				give = !(c.PreFree >= 2 && chosen%c.PreFree == 0)
			}
			for t := 0; give && t < c.G && len(initial[g]) >= c.Hold; t++ { // the next goroutine that can hold one more
				g = g%c.G + 1
			}
			if !give || len(initial[g]) >= c.Hold {
				back = append(back, idx)
				continue
			}
			initial[g] = append(initial[g], held{idx, -1 - k})
			segsSeen[idx/(c.BS*8)] = true
			info.Reopened++
			g = g%c.G + 1
		}
		for _, idx := range back {
			if err := a0.FreeBlock(idx); err != nil {
				return vstat.V("blocks:free-rejected", "[%s] preparation: FreeBlock(%d) of a block arranged before failed with %v", geo, idx, err)
			}
		}
		info.ReopenedN = len(segsSeen)
	}
	b, err := cbytes.NewBlocks(c.BS, buf, false)
	if err != nil || b == nil {
		return vstat.V("blocks:ctor-rejects-valid", "NewBlocks(%s) failed: %v", geo, err)
	}
	offs, v := blockGeometry(b, base, c.BS, c.Segs, count, "NewBlocks("+geo+")")
	if v != nil {
		return v
	}
	info.MultiSeg = c.Segs >= 2
	contended := c.G*c.Hold > count
	info.Contended = contended
	minAvail := count - c.G*c.Hold

	owner := make([]atomic.Int32, count)
	var (
		stop      atomic.Bool
		mu        sync.Mutex
		first     *vstat.Violation
		exhausted atomic.Int64
		arranged  atomic.Int64
		// the first Available() call (Late > 0)
		availSeen atomic.Bool  // the first call has returned: from now on everybody may call Available()
		ops       atomic.Int64 // ArrangeBlock/FreeBlock calls completed by the workers
		running   atomic.Int32 // workers that have not finished
		pause     atomic.Bool  // workers wait between two rounds
		idle      atomic.Int32 // workers waiting
		resume    = make(chan struct{})
	)
	availSeen.Store(c.Late <= 0)
	running.Store(int32(c.G))
	for g := 1; g <= c.G; g++ {
		for _, h := range initial[g] {
			owner[h.idx].Store(int32(g))
			blk := base[offs[h.idx] : offs[h.idx]+int64(c.BS)]
			for j := range blk {
				blk[j] = concStamp(g, h.it, h.idx, j)
			}
		}
	}
	fail := func(v *vstat.Violation) {
		mu.Lock()
		if first == nil {
			first = v
		}
		mu.Unlock()
		stop.Store(true)
	}
	kept := make([][]held, c.G+1)
	var wg sync.WaitGroup
	for g := 1; g <= c.G; g++ {
		wg.Add(1)
		go func(g int) {
			defer wg.Done()
			defer running.Add(-1)
			defer func() {
				if r := recover(); r != nil {
					fail(vstat.V("blocks:panic", "goroutine %d of [%s] panicked: %v", g, geo, r))
				}
			}()
			mine := append([]held(nil), initial[g]...)
			verify := func(h held, when string) bool {
				blk := base[offs[h.idx] : offs[h.idx]+int64(c.BS)]
				for j := range blk {
					if blk[j] != concStamp(g, h.it, h.idx, j) {
						fail(vstat.V("blocks:user-data-overwritten", "[%s] goroutine %d %s: byte %d of its block %d is %#x, it wrote %#x: the block was also given to someone else or the allocator wrote into it", geo, g, when, j, h.idx, blk[j], concStamp(g, h.it, h.idx, j)))
						return false
					}
				}
				return true
			}
			release := func(p int, when string) bool {
				h := mine[p]
				mine[p] = mine[len(mine)-1]
				mine = mine[:len(mine)-1]
				if !verify(h, when) {
					return false
				}
				if !owner[h.idx].CompareAndSwap(int32(g), 0) {
					fail(vstat.V("blocks:double-allocation", "[%s] goroutine %d %s: block %d that it holds is registered to goroutine %d", geo, g, when, h.idx, owner[h.idx].Load()))
					return false
				}
				err := b.FreeBlock(h.idx)
				ops.Add(1)
				if err != nil {
					fail(vstat.V("blocks:free-rejected", "[%s] goroutine %d %s: FreeBlock(%d) of its own allocated block failed with %v", geo, g, when, h.idx, err))
					return false
				}
				return true
			}
			for it := 0; it < c.Iters && !stop.Load(); it++ {
				when := fmt.Sprintf("round %d", it)
				if pause.Load() { // the observer holds the workers between two rounds
					idle.Add(1)
					<-resume
				}
				if len(mine) >= c.Hold || (it == 0 && len(mine) > 0 && g%2 == 0) { // on a reopened allocator every other goroutine begins with a FreeBlock
					if !release((it*7+g)%len(mine), when) {
						return
					}
				}
				if availSeen.Load() {
					if a := b.Available(); a < minAvail || a < 0 || a > count {
						fail(vstat.V("blocks:available", "[%s] goroutine %d %s: Available()=%d is outside [max(0,Count-G*hold)=%d, Count=%d]", geo, g, when, a, max(0, minAvail), count))
						return
					}
				}
				idx, err := b.ArrangeBlock()
				ops.Add(1)
				if err != nil {
					if !isExhausted(err) {
						fail(vstat.V("blocks:arrange-error", "[%s] goroutine %d %s: ArrangeBlock failed with %v", geo, g, when, err))
						return
					}
					if !contended {
						fail(vstat.V("blocks:exhausted-while-free", "[%s] goroutine %d %s: ArrangeBlock reports ErrExhausted although at most G*hold=%d of %d blocks can be allocated at any time", geo, g, when, c.G*c.Hold, count))
						return
					}
					exhausted.Add(1)
					if len(mine) > 0 {
						if !release((it*5+g)%len(mine), when) {
							return
						}
					}
					continue
				}
				arranged.Add(1)
				if idx < 0 || idx >= count {
					fail(vstat.V("blocks:arrange-out-of-range", "[%s] goroutine %d %s: ArrangeBlock returned %d, outside [0,%d)", geo, g, when, idx, count))
					return
				}
				if !owner[idx].CompareAndSwap(0, int32(g)) {
					fail(vstat.V("blocks:double-allocation", "[%s] goroutine %d %s: ArrangeBlock returned %d which goroutine %d holds and has not freed", geo, g, when, idx, owner[idx].Load()))
					return
				}
				blk, err := b.Block(idx)
				if err != nil || len(blk) != c.BS || ptrDiff(blk, base) != offs[idx] {
					fail(vstat.V("blocks:block-error", "[%s] goroutine %d %s: Block(%d) returned len=%d err=%v", geo, g, when, idx, len(blk), err))
					return
				}
				for j := range blk {
					blk[j] = concStamp(g, it, idx, j)
				}
				h := held{idx, it}
				mine = append(mine, h)
				if c.Yield {
					runtime.Gosched()
				}
				if !verify(h, when) || !verify(mine[(it*3)%len(mine)], when) {
					return
				}
			}
			for len(mine) > c.Keep && !stop.Load() {
				if !release(len(mine)-1, "final release") {
					return
				}
			}
			for _, h := range mine {
				if !verify(h, "at the end") {
					return
				}
			}
			kept[g] = mine
		}(g)
	}
	if c.Late > 0 {
		info.Late = true
		wg.Add(1)
		go func() { // the observer
			defer wg.Done()
			released := false
			release := func() {
				if !released {
					released = true
					pause.Store(false)
					close(resume)
				}
			}
			defer release()
			defer func() {
				if r := recover(); r != nil {
					fail(vstat.V("blocks:panic", "the first Available() call of [%s] panicked: %v", geo, r))
				}
			}()
			for ops.Load() < int64(c.Late-1) && running.Load() > 0 {
				runtime.Gosched()
			}
			if c.ParkSeg > 0 {
				pause.Store(true)
				for idle.Load() < running.Load() { // every worker is waiting between two rounds or has finished
					runtime.Gosched()
				}
				info.Held = running.Load() > 0
				buf.park = func() { // runs inside the Available() call, on this goroutine
					info.Parked = true
					at := ops.Load()
					release()
					for ops.Load() < at+int64(max(c.ParkOps, 1)) && running.Load() > 0 {
						runtime.Gosched()
					}
					info.ParkedOps = ops.Load() - at
				}
				buf.armed.Store(true)
			}
			info.LateRaced = running.Load() > 0
			info.LateOps = ops.Load()
			a := b.Available() // the first call in the life of this allocator
			buf.armed.Store(false)
			availSeen.Store(true)
			release()
			if a < minAvail || a < 0 || a > count {
				fail(vstat.V("blocks:available", "[%s] the first Available() call, made while the workers were running, returned %d which is outside [max(0,Count-G*hold)=%d, Count=%d]", geo, a, max(0, minAvail), count))
			}
		}()
	}
	wg.Wait()
	info.AfterOps = ops.Load() - info.LateOps
	info.Exhausted = exhausted.Load()
	info.Arranged = arranged.Load()
	if first != nil {
		return first
	}
	// quiescence: the union of the kept sets is the allocated set
	alloc := make([]bool, count)
	n := 0
	for g := 1; g <= c.G; g++ {
		for _, h := range kept[g] {
			if alloc[h.idx] {
				return vstat.V("blocks:double-allocation", "[%s] at quiescence block %d is held twice", geo, h.idx)
			}
			if owner[h.idx].Load() != int32(g) {
				return vstat.V("blocks:double-allocation", "[%s] at quiescence block %d held by goroutine %d is registered to %d", geo, h.idx, g, owner[h.idx].Load())
			}
			alloc[h.idx] = true
			n++
		}
	}
	if b.Count() != count {
		return vstat.V("blocks:count", "[%s] at quiescence Count()=%d want %d", geo, b.Count(), count)
	}
	if b.Available() != count-n {
		return vstat.V("blocks:available", "[%s] at quiescence Available()=%d want Count-held=%d-%d=%d", geo, b.Available(), count, n, count-n)
	}
	return snapshotCheck(base, c.BS, false, count, alloc, n, "["+geo+"] at quiescence", 3)
}
