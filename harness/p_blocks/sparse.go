package p_blocks

import (
	"fmt"
	"sort"
	"unsafe"

	gerrors "github.com/acquirecloud/golibs/errors"
)

// sparseBuf is a container/bytes.Buffer of an arbitrary size that materialises only the ranges that are asked
// for. The allocator only ever asks for block-aligned ranges of one block (headers and user blocks), so the
// memory is the touched blocks. Any other request, or more than maxBytes materialised, is a panic (which Run
// reports: a block-sized range that is not block-aligned overlaps two blocks).
type sparseBuf struct {
	size     int64
	bs       int
	chunks   map[int64][]byte
	byPtr    map[*byte]int64
	bytes    int64
	maxBytes int64
}

const sparseCap = 48 << 20

func newSparse(size int64, bs int) *sparseBuf {
	return &sparseBuf{size: size, bs: bs, chunks: map[int64][]byte{}, byPtr: map[*byte]int64{}, maxBytes: sparseCap}
}

func (s *sparseBuf) Close() error { return nil }
func (s *sparseBuf) Size() int64  { return s.size }

// Grow enlarges the buffer the way the in-memory buffer of the library does: the content is kept, but it lives in
// fresh memory afterwards, so a slice handed out before the call no longer aliases the buffer.
func (s *sparseBuf) Grow(newSize int64) error {
	if newSize < s.size {
		return fmt.Errorf("the new size %d is below the current size %d: %w", newSize, s.size, gerrors.ErrInvalid)
	}
	n := s.cloneSized(newSize)
	s.size, s.chunks, s.byPtr, s.bytes = n.size, n.chunks, n.byPtr, n.bytes
	return nil
}
func (s *sparseBuf) String() string {
	return fmt.Sprintf("sparseBuf{size=%d, materialised=%d}", s.size, s.bytes)
}

func (s *sparseBuf) Buffer(offs int64, size int) ([]byte, error) {
	if offs < 0 || offs >= s.size {
		return nil, fmt.Errorf("offs=%d is out of bounds [0..%d): %w", offs, s.size, gerrors.ErrInvalid)
	}
	if offs+int64(size) > s.size {
		size = int(s.size - offs)
	}
	if offs%int64(s.bs) != 0 || (size != s.bs && offs+int64(size) != s.size) {
		panic(fmt.Sprintf("the allocator asked the buffer for [%d,%d): not one block-aligned block of %d bytes (such a range overlaps two blocks)", offs, offs+int64(size), s.bs))
	}
	if c, ok := s.chunks[offs]; ok {
		if len(c) < size {
			// a partial range at the old end of a buffer that was enlarged since
			d := make([]byte, size)
			copy(d, c)
			delete(s.byPtr, unsafe.SliceData(c))
			s.chunks[offs], s.byPtr[unsafe.SliceData(d)] = d, offs
			s.bytes += int64(size - len(c))
			c = d
		}
		return c[:size], nil
	}
	if s.bytes+int64(size) > s.maxBytes {
		panic(fmt.Sprintf("more than %d bytes of the sparse buffer were touched by one case", s.maxBytes))
	}
	c := make([]byte, size)
	s.chunks[offs] = c
	if size > 0 {
		s.byPtr[unsafe.SliceData(c)] = offs
	}
	s.bytes += int64(size)
	return c, nil
}

// offsetOf maps a slice handed out by Buffer back to its offset (-1: not the start of a handed-out range).
func (s *sparseBuf) offsetOf(b []byte) int64 {
	if len(b) == 0 {
		return -1
	}
	if o, ok := s.byPtr[unsafe.SliceData(b)]; ok {
		return o
	}
	return -1
}

// clone copies the materialised ranges: the same bytes in a fresh buffer.
func (s *sparseBuf) clone() *sparseBuf { return s.cloneSized(s.size) }

// cloneSized is the same bytes cut or followed by zero bytes to the given size, in a fresh buffer.
func (s *sparseBuf) cloneSized(size int64) *sparseBuf {
	n := newSparse(size, s.bs)
	n.maxBytes = s.maxBytes
	for o, c := range s.chunks {
		if o+int64(len(c)) > size {
			if o >= size {
				continue
			}
			c = c[:size-o]
		}
		d := make([]byte, len(c))
		copy(d, c)
		n.chunks[o] = d
		if len(d) > 0 {
			n.byPtr[unsafe.SliceData(d)] = o
		}
		n.bytes += int64(len(d))
	}
	return n
}

// sampleIndexes are the block indexes whose geometry is examined on a sparse buffer (Block() materialises a block).
func sampleIndexes(bs, segs, count int) []int {
	per := bs * 8
	cand := []int{0, 1, 7, 8, 9, per / 2, per - 2, per - 1, per, per + 1, 32767, 32768, 32769, 65535, 65536, 65537,
		per + 32768, per + 65536, count / 2, count - 2, count - 1,
		1<<24 - 1, 1 << 24, 1<<24 + 1, 1<<25 - 1, 1 << 25, 1<<25 + 1}
	seen := map[int]bool{}
	var out []int
	for _, i := range cand {
		if i >= 0 && i < count && !seen[i] {
			seen[i] = true
			out = append(out, i)
		}
	}
	sort.Ints(out)
	return out
}
