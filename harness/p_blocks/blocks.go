// Package p_blocks decides C17: the block allocator container/bytes.Blocks never hands out an index twice,
// keeps user blocks disjoint from each other and from its headers, counts correctly, fails with ErrExhausted
// exactly when nothing is free, keeps its whole state in the bytes, and rejects impossible geometries.
package p_blocks

import (
	"fmt"
	"math"
	"math/bits"
	"os"
	"path/filepath"
	"sort"
	"unsafe"

	cbytes "github.com/acquirecloud/golibs/container/bytes"
	gerrors "github.com/acquirecloud/golibs/errors"
	"github.com/acquirecloud/golibs/files"
	"verifharness/internal/vstat"
)

// Op is one step of a case. The argument N is interpreted relative to the current state, so every list is executable.
//
//	a        ArrangeBlock once (and stamp the block unless Case.NoStamp)
//	fill N   N>=0: ArrangeBlock N times; N<0: as many times as leaves -N-1 blocks free (-1 = fill up)
//	fa N     FreeBlock of the allocated index at position N (mod length, negative from the end) of the allocation list
//	drain N  N>=0: free N allocated blocks (front of the allocation list); N<0: all but -N-1
//	ff N     FreeBlock of the first free in-range index at or (cyclically) after N mod Count -> not-exist error
//	fo N     FreeBlock(Count+N), N>=0 -> invalid
//	fn N     FreeBlock(-1-N), N>=0 -> invalid
//	b N      Block(N mod Count): exact size, stable offset; write a new stamp
//	bo N     Block out of range (N>=0: Count+N, N<0: N) -> error
//	r        reopen: copy the bytes (in memory) or close and map the file again (mmap), continue on the new allocator
type Op struct {
	K string `json:"k"`
	N int    `json:"n,omitempty"`
}

// Case is a geometry plus an op list. Buffer size = Segs*segment + Over (rounded up to 4096 for mmap).
type Case struct {
	BS      int    `json:"bs"`
	Segs    int    `json:"segs"`
	Over    int    `json:"over"`
	Fit     bool   `json:"fit"`
	Backend string `json:"backend"` // "inmem" (default) or "mmap"
	NoStamp bool   `json:"nostamp,omitempty"`
	Ops     []Op   `json:"ops"`
}

// Info is what the classifier needs.
type Info struct {
	Rejected      bool // the constructor (rightly) refused the geometry
	ReallocAcross bool // a freed index was handed out again while another segment holds allocated blocks
	ReopenAlloc   bool // a continuing reopen with >= 1 allocated block
	Exhausted     bool
	Refill        bool // successful Arrange after an ErrExhausted
	FreeFree      bool
	FreeOOR       bool
	FreeNeg       bool
	Mmap          bool
	MultiSeg      bool
	Oversize      bool
	Snapshots     int // non-destructive reopen comparisons
}

// NonTrivial is the rule of C17.
func (i Info) NonTrivial() bool { return i.ReallocAcross || i.ReopenAlloc || i.Rejected || i.Exhausted }

// Classes for the histogram.
func (i Info) Classes() []string {
	var c []string
	add := func(b bool, s string) {
		if b {
			c = append(c, s)
		}
	}
	add(i.Rejected, "geometry_rejected")
	add(i.ReallocAcross, "realloc_across_segment")
	add(i.ReopenAlloc, "reopen_with_allocated")
	add(i.Exhausted, "exhausted")
	add(i.Refill, "arrange_after_exhausted")
	add(i.FreeFree, "free_of_free_index")
	add(i.FreeOOR, "free_out_of_range")
	add(i.FreeNeg, "free_negative")
	add(i.Mmap, "backend_mmap")
	add(i.MultiSeg, "segments_ge_2")
	add(i.Oversize, "oversized_buffer")
	return c
}

// Hash is a cheap FNV-1a hash of the case.
func (c Case) Hash() uint64 {
	h := uint64(14695981039346656037)
	mix := func(b uint64) {
		h ^= b
		h *= 1099511628211
	}
	mix(uint64(c.BS))
	mix(uint64(c.Segs))
	mix(uint64(c.Over))
	if c.Fit {
		mix(1)
	}
	if c.NoStamp {
		mix(2)
	}
	mix(uint64(len(c.Backend)))
	for _, o := range c.Ops {
		for i := 0; i < len(o.K); i++ {
			mix(uint64(o.K[i]))
		}
		mix(uint64(int64(o.N)))
	}
	return h
}

// ValidBS is the documented rule for block sizes: a power of two below the page size or a multiple of it.
func ValidBS(bs int) bool {
	if bs <= 0 {
		return false
	}
	ps := os.Getpagesize()
	if bs < ps {
		return bs&(bs-1) == 0
	}
	return bs%ps == 0
}

// SegSize is the byte size of one segment (header block + 8*bs user blocks).
func SegSize(bs int) int64 { return int64(bs*8+1) * int64(bs) }

// SegSizeFits tells whether the segment size of a valid block size is representable as an int64. When it is not
// (block sizes from 1 GiB up) no buffer can hold a segment: Buffer.Size() is an int64.
func SegSizeFits(bs int) bool {
	if bs <= 0 || uint64(bs) > math.MaxInt64/8-1 {
		return false
	}
	hi, lo := bits.Mul64(uint64(bs)*8+1, uint64(bs))
	return hi == 0 && lo <= math.MaxInt64
}

// Alphabet is the finite op alphabet of the exhaustive part.
func Alphabet() []Op {
	return []Op{{K: "a"}, {K: "fill", N: 8}, {K: "fa", N: 0}, {K: "fa", N: -1}, {K: "fa", N: 5}, {K: "ff", N: 0},
		{K: "fo", N: 0}, {K: "fn", N: 0}, {K: "b", N: 0}, {K: "bo", N: 0}, {K: "r"}}
}

func isInvalid(err error) bool   { return err != nil && gerrors.Is(err, gerrors.ErrInvalid) }
func isNotExist(err error) bool  { return err != nil && gerrors.Is(err, gerrors.ErrNotExist) }
func isExhausted(err error) bool { return err != nil && gerrors.Is(err, gerrors.ErrExhausted) }

// Run executes the case against the real allocator and the set model.
func Run(c Case) (info Info, v *vstat.Violation) {
	e := &env{c: c, info: &info}
	defer e.cleanup()
	return info, vstat.Guard("blocks:panic", func() *vstat.Violation { return e.run() })
}

type env struct {
	c       Case
	info    *Info
	bs      int
	segSize int64
	size    int64
	segs    int
	count   int
	b       *cbytes.Blocks
	base    []byte
	mm      *files.MMFile
	sp      *sparseBuf // backend "sparse": only touched blocks exist
	byOffs  map[int64]int
	dir     string
	fn      string

	alloc     []bool
	nalloc    int
	alist     []int
	apos      []int32
	gen       []uint32 // stamp generation of an allocated index, 0 = not stamped
	offs      []int64  // byte offset of block i in the buffer
	segAlloc  []int
	freedEver []bool
	seq       uint32
	sawExh    bool
}

func (e *env) cleanup() {
	if e.mm != nil {
		e.mm.Close()
		e.mm = nil
	}
	if e.dir != "" {
		os.RemoveAll(e.dir)
	}
}

// TmpRoot is the directory for scratch files.
func TmpRoot() string {
	if d := os.Getenv("VERIF_TMP"); d != "" {
		os.MkdirAll(d, 0o755)
		return d
	}
	return ""
}

func (e *env) run() *vstat.Violation {
	c := e.c
	e.bs = c.BS
	if !ValidBS(c.BS) || !SegSizeFits(c.BS) {
		// a Case with an invalid block size is a constructor case
		_, v := RunCtor(CtorCase{BS: c.BS, Size: int64(max(c.Over, 0)), Fit: c.Fit})
		e.info.Rejected = true
		return v
	}
	e.segSize = SegSize(c.BS)
	e.size = int64(max(c.Segs, 0))*e.segSize + int64(max(c.Over, 0))
	mmap := c.Backend == "mmap"
	if mmap {
		e.size = (e.size + 4095) / 4096 * 4096
		if e.size == 0 {
			e.size = 4096
		}
	}
	sparse := c.Backend == "sparse"
	if sparse {
		e.c.NoStamp = true // blocks are only touched by explicit b ops
	} else if e.size > 600<<20 {
		panic(fmt.Sprintf("case asks for a %d byte buffer: generator error", e.size))
	}
	e.segs = int(e.size / e.segSize)
	e.count = e.segs * c.BS * 8
	e.info.Mmap = mmap
	e.info.MultiSeg = e.segs >= 2
	e.info.Oversize = e.segs >= 1 && e.size%e.segSize != 0

	var buf cbytes.Buffer
	if mmap {
		d, err := os.MkdirTemp(TmpRoot(), "c17mm")
		if err != nil {
			panic("cannot create a scratch directory: " + err.Error())
		}
		e.dir = d
		e.fn = filepath.Join(d, "blocks.dat")
		mm, err := files.NewMMFile(e.fn, e.size)
		if err != nil {
			panic("environment: cannot map the scratch file: " + err.Error())
		}
		e.mm = mm
		buf = mm
	} else if sparse {
		e.sp = newSparse(e.size, c.BS)
		buf = e.sp
	} else {
		buf = cbytes.NewInMemBytes(int(e.size))
	}
	geo := fmt.Sprintf("bs=%d size=%d (segment=%d, %d segment(s) + %d) fit=%v %s", c.BS, e.size, e.segSize, e.segs, e.size%e.segSize, c.Fit, backendName(c))
	b, err := cbytes.NewBlocks(c.BS, buf, c.Fit)
	wantOK := e.segs >= 1 && !(c.Fit && e.size%e.segSize != 0)
	if !wantOK {
		e.info.Rejected = true
		if err == nil || b != nil {
			return vstat.V("blocks:ctor-bad-size-accepted", "NewBlocks(%s) returned (%v, %v): a buffer smaller than a segment, or not a multiple of it under fit, must be refused", geo, b, err)
		}
		if !isInvalid(err) {
			return vstat.V("blocks:ctor-wrong-error", "NewBlocks(%s): error %v is not of class ErrInvalid", geo, err)
		}
		return nil
	}
	if err != nil || b == nil {
		return vstat.V("blocks:ctor-rejects-valid", "NewBlocks(%s) failed: (%v, %v)", geo, b, err)
	}
	e.b = b
	e.alloc = make([]bool, e.count)
	e.apos = make([]int32, e.count)
	e.gen = make([]uint32, e.count)
	e.freedEver = make([]bool, e.count)
	e.segAlloc = make([]int, e.segs)
	if v := e.attach("NewBlocks(" + geo + ")"); v != nil {
		return v
	}
	if v := e.counters("NewBlocks(" + geo + ")"); v != nil {
		return v
	}
	small := e.size <= 64<<10
	for i, op := range c.Ops {
		where := fmt.Sprintf("op #%d %s(%d) [%s]", i, op.K, op.N, geo)
		if v := e.step(op, where); v != nil {
			return v
		}
		if v := e.counters("after " + where); v != nil {
			return v
		}
		if small || i%16 == 15 {
			if v := e.stamps("after " + where); v != nil {
				return v
			}
			mode := 3
			if e.count > 64 && !sparse {
				mode = 1 + i%2
			}
			if v := e.snapshot("after "+where, mode); v != nil {
				return v
			}
		}
	}
	where := fmt.Sprintf("at the end of the case [%s]", geo)
	if v := e.stamps(where); v != nil {
		return v
	}
	if e.size <= 40<<20 || sparse {
		if v := e.snapshot(where, 3); v != nil {
			return v
		}
	} else if !mmap {
		if v := e.snapshot(where, 1+len(c.Ops)%2); v != nil {
			return v
		}
	}
	if mmap {
		// the state must also survive close + map again from disk
		if v := e.reopen(where); v != nil {
			return v
		}
		if v := e.counters(where + " after the final reopen from disk"); v != nil {
			return v
		}
		if v := e.stamps(where + " after the final reopen from disk"); v != nil {
			return v
		}
		if e.size <= 40<<20 {
			if v := e.snapshot(where+" after the final reopen from disk", 3); v != nil {
				return v
			}
		}
	}
	return nil
}

func backendName(c Case) string {
	if c.Backend == "mmap" || c.Backend == "sparse" {
		return c.Backend
	}
	return "inmem"
}

func ptrDiff(p, base []byte) int64 {
	return int64(uintptr(unsafe.Pointer(unsafe.SliceData(p)))) - int64(uintptr(unsafe.Pointer(unsafe.SliceData(base))))
}

// attach reads the base of the buffer of the current allocator and checks the geometry of all blocks.
func (e *env) attach(where string) *vstat.Violation {
	b := e.b
	if b.Count() != e.count {
		return vstat.V("blocks:count", "%s: Count()=%d want segments*bs*8=%d", where, b.Count(), e.count)
	}
	if e.sp != nil {
		return e.attachSparse(where)
	}
	base, err := b.Bytes().Buffer(0, int(e.size))
	if err != nil || int64(len(base)) != e.size {
		panic(fmt.Sprintf("environment: Bytes().Buffer(0,%d) returned len=%d err=%v", e.size, len(base), err))
	}
	e.base = base
	offs, v := blockGeometry(b, base, e.bs, e.segs, e.count, where)
	if v != nil {
		return v
	}
	if e.offs != nil {
		for i := range offs {
			if offs[i] != e.offs[i] {
				return vstat.V("blocks:offset-changed-on-reopen", "%s: block %d is at offset %d, before the reopen it was at %d", where, i, offs[i], e.offs[i])
			}
		}
	}
	e.offs = offs
	return nil
}

// attachSparse examines the geometry of a sample of blocks only (Block() materialises the block); blocks touched
// later by a b op are examined then. Offsets come from the sparse buffer's own bookkeeping.
func (e *env) attachSparse(where string) *vstat.Violation {
	if e.offs == nil {
		e.offs = make([]int64, e.count)
		for i := range e.offs {
			e.offs[i] = -1
		}
		e.byOffs = map[int64]int{}
	}
	for _, i := range sampleIndexes(e.bs, e.segs, e.count) {
		blk, err := e.b.Block(i)
		if err != nil {
			return vstat.V("blocks:block-error", "%s: Block(%d) failed with %v although 0<=idx<Count=%d", where, i, err, e.count)
		}
		if len(blk) != e.bs {
			return vstat.V("blocks:block-size", "%s: Block(%d) has %d bytes, want the block size %d", where, i, len(blk), e.bs)
		}
		if v := e.sparseBlockAt(i, blk, where); v != nil {
			return v
		}
	}
	return nil
}

// sparseBlockAt checks the position of one block of a sparse buffer against the headers and all blocks seen so far.
func (e *env) sparseBlockAt(i int, blk []byte, where string) *vstat.Violation {
	o := e.sp.offsetOf(blk)
	bs := int64(e.bs)
	if o < 0 || o+bs > e.size {
		return vstat.V("blocks:block-outside-buffer", "%s: Block(%d) is not a range handed out by the buffer inside [0,%d) (offset %d)", where, i, e.size, o)
	}
	if s := o / e.segSize; s < int64(e.segs) && o < s*e.segSize+bs {
		return vstat.V("blocks:block-overlaps-header", "%s: Block(%d) covers [%d,%d) which overlaps the header [%d,%d) of segment %d", where, i, o, o+bs, s*e.segSize, s*e.segSize+bs, s)
	}
	if e.offs[i] >= 0 && e.offs[i] != o {
		return vstat.V("blocks:block-moved", "%s: Block(%d) is now at buffer offset %d, earlier at %d", where, i, o, e.offs[i])
	}
	// ranges of the sparse buffer are block-aligned, so two blocks overlap iff they have the same offset
	if j, ok := e.byOffs[o]; ok && j != i {
		return vstat.V("blocks:blocks-overlap", "%s: Block(%d) and Block(%d) are both at [%d,%d)", where, i, j, o, o+bs)
	}
	e.offs[i] = o
	e.byOffs[o] = i
	return nil
}

// blockBytes is the current content of block idx (its offset must be known).
func (e *env) blockBytes(idx int) []byte {
	if e.sp != nil {
		return e.sp.chunks[e.offs[idx]]
	}
	return e.base[e.offs[idx] : e.offs[idx]+int64(e.bs)]
}

// blockGeometry checks that every in-range block is exactly bs bytes inside the buffer, that the blocks are
// pairwise disjoint and that none touches a header (the first block of a segment).
func blockGeometry(b *cbytes.Blocks, base []byte, bs, segs, count int, where string) ([]int64, *vstat.Violation) {
	size := int64(len(base))
	segSize := SegSize(bs)
	offs := make([]int64, count)
	for i := 0; i < count; i++ {
		blk, err := b.Block(i)
		if err != nil {
			return nil, vstat.V("blocks:block-error", "%s: Block(%d) failed with %v although 0<=idx<Count=%d", where, i, err, count)
		}
		if len(blk) != bs {
			return nil, vstat.V("blocks:block-size", "%s: Block(%d) has %d bytes, want the block size %d", where, i, len(blk), bs)
		}
		o := ptrDiff(blk, base)
		if o < 0 || o+int64(bs) > size {
			return nil, vstat.V("blocks:block-outside-buffer", "%s: Block(%d) covers [%d,%d) which is not inside the buffer [0,%d)", where, i, o, o+int64(bs), size)
		}
		s := o / segSize
		if s < int64(segs) && o < s*segSize+int64(bs) {
			return nil, vstat.V("blocks:block-overlaps-header", "%s: Block(%d) covers [%d,%d) which overlaps the header [%d,%d) of segment %d", where, i, o, o+int64(bs), s*segSize, s*segSize+int64(bs), s)
		}
		if s+1 < int64(segs) && o+int64(bs) > (s+1)*segSize {
			return nil, vstat.V("blocks:block-overlaps-header", "%s: Block(%d) covers [%d,%d) which overlaps the header of segment %d at %d", where, i, o, o+int64(bs), s+1, (s+1)*segSize)
		}
		offs[i] = o
	}
	order := make([]int, count)
	for i := range order {
		order[i] = i
	}
	sort.Slice(order, func(x, y int) bool {
		if offs[order[x]] != offs[order[y]] {
			return offs[order[x]] < offs[order[y]]
		}
		return order[x] < order[y]
	})
	for k := 1; k < count; k++ {
		p, q := order[k-1], order[k]
		if offs[p]+int64(bs) > offs[q] {
			return nil, vstat.V("blocks:blocks-overlap", "%s: Block(%d)=[%d,%d) and Block(%d)=[%d,%d) overlap", where, p, offs[p], offs[p]+int64(bs), q, offs[q], offs[q]+int64(bs))
		}
	}
	return offs, nil
}

func (e *env) counters(where string) *vstat.Violation {
	if got := e.b.Count(); got != e.count {
		return vstat.V("blocks:count", "%s: Count()=%d want %d", where, got, e.count)
	}
	if got := e.b.Available(); got != e.count-e.nalloc {
		return vstat.V("blocks:available", "%s: Available()=%d want Count-allocated=%d-%d=%d", where, got, e.count, e.nalloc, e.count-e.nalloc)
	}
	return nil
}

func stampByte(idx int, gen uint32, j int) byte {
	x := uint32(idx)*0x9E3779B1 ^ gen*0x85EBCA6B
	x ^= x >> 15
	return byte(x>>(uint(j&3)*8)) + byte(j*131) + 1
}

func (e *env) writeStamp(blk []byte, idx int, gen uint32) {
	for j := range blk {
		blk[j] = stampByte(idx, gen, j)
	}
}

// stamps verifies that every allocated, stamped block still holds what the case wrote into it.
func (e *env) stamps(where string) *vstat.Violation {
	for _, idx := range e.alist {
		g := e.gen[idx]
		if g == 0 {
			continue
		}
		blk := e.blockBytes(idx)
		for j := range blk {
			if blk[j] != stampByte(idx, g, j) {
				return vstat.V("blocks:user-data-overwritten", "%s: byte %d of allocated block %d (buffer offset %d) is %#x, the case wrote %#x: something else wrote into a user block", where, j, idx, e.offs[idx]+int64(j), blk[j], stampByte(idx, g, j))
			}
		}
	}
	return nil
}

func (e *env) markAlloc(idx int) {
	e.alloc[idx] = true
	e.apos[idx] = int32(len(e.alist))
	e.alist = append(e.alist, idx)
	e.nalloc++
	e.segAlloc[idx/(e.bs*8)]++
	e.gen[idx] = 0
}

func (e *env) markFree(idx int) {
	p := int(e.apos[idx])
	last := e.alist[len(e.alist)-1]
	e.alist[p] = last
	e.apos[last] = int32(p)
	e.alist = e.alist[:len(e.alist)-1]
	e.alloc[idx] = false
	e.nalloc--
	e.segAlloc[idx/(e.bs*8)]--
	e.gen[idx] = 0
	e.freedEver[idx] = true
}

// arrange is one ArrangeBlock call checked against the model.
func (e *env) arrange(where0 string, call int) *vstat.Violation {
	idx, err := e.b.ArrangeBlock()
	where := callWhere{where0, call}
	if e.nalloc == e.count {
		e.info.Exhausted = true
		e.sawExh = true
		if err == nil {
			return vstat.V("blocks:arrange-on-full", "%s: ArrangeBlock returned index %d although all %d blocks are allocated", where, idx, e.count)
		}
		if !isExhausted(err) {
			return vstat.V("blocks:arrange-on-full-wrong-error", "%s: ArrangeBlock failed with %v, want ErrExhausted", where, err)
		}
		return nil
	}
	if err != nil {
		if isExhausted(err) {
			return vstat.V("blocks:exhausted-while-free", "%s: ArrangeBlock reports ErrExhausted although only %d of %d blocks are allocated (Available()=%d)", where, e.nalloc, e.count, e.b.Available())
		}
		return vstat.V("blocks:arrange-error", "%s: ArrangeBlock failed with %v although only %d of %d blocks are allocated", where, err, e.nalloc, e.count)
	}
	if idx < 0 || idx >= e.count {
		return vstat.V("blocks:arrange-out-of-range", "%s: ArrangeBlock returned %d, outside [0,%d)", where, idx, e.count)
	}
	if e.alloc[idx] {
		return vstat.V("blocks:double-allocation", "%s: ArrangeBlock returned %d which is still allocated", where, idx)
	}
	if e.freedEver[idx] {
		for s, n := range e.segAlloc {
			if n > 0 && s != idx/(e.bs*8) {
				e.info.ReallocAcross = true
			}
		}
	}
	if e.sawExh {
		e.info.Refill = true
	}
	e.markAlloc(idx)
	if !e.c.NoStamp {
		return e.stamp(idx, where.String())
	}
	return nil
}

// callWhere names a call of a bulk op; the text is only built when a violation is reported.
type callWhere struct {
	where string
	call  int
}

func (w callWhere) String() string {
	if w.call < 0 {
		return w.where
	}
	return fmt.Sprintf("%s call %d", w.where, w.call)
}

// stamp fetches the block through the API, checks size and position, and writes a fresh pattern.
func (e *env) stamp(idx int, where string) *vstat.Violation {
	blk, err := e.b.Block(idx)
	if err != nil {
		return vstat.V("blocks:block-error", "%s: Block(%d) failed with %v although 0<=idx<Count=%d", where, idx, err, e.count)
	}
	if len(blk) != e.bs {
		return vstat.V("blocks:block-size", "%s: Block(%d) has %d bytes, want the block size %d", where, idx, len(blk), e.bs)
	}
	if e.sp != nil {
		if v := e.sparseBlockAt(idx, blk, where); v != nil {
			return v
		}
	} else if o := ptrDiff(blk, e.base); o != e.offs[idx] {
		return vstat.V("blocks:block-moved", "%s: Block(%d) is now at buffer offset %d, earlier at %d", where, idx, o, e.offs[idx])
	}
	e.seq++
	e.writeStamp(blk, idx, e.seq)
	if e.alloc[idx] {
		e.gen[idx] = e.seq
	}
	return nil
}

func (e *env) free(idx int, where0 string, call int) *vstat.Violation {
	err := e.b.FreeBlock(idx)
	where := callWhere{where0, call}
	switch {
	case idx < 0 || idx >= e.count:
		if idx < 0 {
			e.info.FreeNeg = true
		} else {
			e.info.FreeOOR = true
		}
		if err == nil {
			return vstat.V("blocks:free-out-of-range-accepted", "%s: FreeBlock(%d) returned nil, the valid indexes are [0,%d)", where, idx, e.count)
		}
		if !isInvalid(err) {
			return vstat.V("blocks:free-out-of-range-wrong-error", "%s: FreeBlock(%d) failed with %v which is not of class ErrInvalid", where, idx, err)
		}
	case e.alloc[idx]:
		if err != nil {
			return vstat.V("blocks:free-rejected", "%s: FreeBlock(%d) failed with %v although the block is allocated", where, idx, err)
		}
		e.markFree(idx)
	default:
		e.info.FreeFree = true
		if err == nil {
			return vstat.V("blocks:free-of-free-accepted", "%s: FreeBlock(%d) returned nil although the block is not allocated", where, idx)
		}
		if !isNotExist(err) {
			return vstat.V("blocks:free-of-free-wrong-error", "%s: FreeBlock(%d) of a free block failed with %v which is not of class ErrNotExist", where, idx, err)
		}
	}
	return nil
}

func (e *env) step(op Op, where string) *vstat.Violation {
	switch op.K {
	case "a":
		return e.arrange(where, -1)
	case "fill":
		n := op.N
		if n < 0 {
			n = max(0, e.count-e.nalloc+n+1)
		}
		for k := 0; k < n; k++ {
			if v := e.arrange(where, k); v != nil {
				return v
			}
		}
	case "fa":
		if len(e.alist) == 0 {
			return nil
		}
		p := op.N % len(e.alist)
		if p < 0 {
			p += len(e.alist)
		}
		return e.free(e.alist[p], where, -1)
	case "fi":
		if e.nalloc == 0 {
			return nil
		}
		i := op.N % e.count
		if i < 0 {
			i += e.count
		}
		for !e.alloc[i] {
			i = (i + 1) % e.count
		}
		return e.free(i, where, -1)
	case "drain":
		n := op.N
		if n < 0 {
			n = max(0, len(e.alist)+n+1)
		}
		for k := 0; k < n && len(e.alist) > 0; k++ {
			// alternate between the oldest and the newest entry of the allocation list
			p := 0
			if k%2 == 1 {
				p = len(e.alist) - 1
			}
			if v := e.free(e.alist[p], where, k); v != nil {
				return v
			}
		}
	case "ff":
		if e.nalloc == e.count {
			return nil
		}
		i := op.N % e.count
		if i < 0 {
			i += e.count
		}
		for e.alloc[i] {
			i = (i + 1) % e.count
		}
		return e.free(i, where, -1)
	case "fo":
		return e.free(e.count+max(op.N, 0), where, -1)
	case "fn":
		return e.free(-1-max(op.N, 0), where, -1)
	case "b":
		i := op.N % e.count
		if i < 0 {
			i += e.count
		}
		return e.stamp(i, where)
	case "bo":
		i := op.N
		if i >= 0 {
			i += e.count
		}
		blk, err := e.b.Block(i)
		if err == nil {
			return vstat.V("blocks:block-out-of-range-accepted", "%s: Block(%d) returned %d bytes and no error, the valid indexes are [0,%d)", where, i, len(blk), e.count)
		}
	case "r":
		if e.nalloc > 0 {
			e.info.ReopenAlloc = true
		}
		return e.reopen(where)
	default:
		panic("bad op " + op.K)
	}
	return nil
}

// reopen continues the case on a second allocator: on a copy of the bytes, or on the file mapped again.
func (e *env) reopen(where string) *vstat.Violation {
	var buf cbytes.Buffer
	if e.mm != nil {
		if err := e.b.Close(); err != nil {
			return vstat.V("blocks:close-error", "%s: Close of the mapped file failed: %v", where, err)
		}
		e.mm = nil
		mm, err := files.NewMMFile(e.fn, -1)
		if err != nil {
			panic("environment: cannot map the scratch file again: " + err.Error())
		}
		e.mm = mm
		if mm.Size() != e.size {
			return vstat.V("blocks:file-size-changed", "%s: the file mapped again has %d bytes, it was created with %d", where, mm.Size(), e.size)
		}
		buf = mm
	} else if e.sp != nil {
		e.sp = e.sp.clone()
		e.byOffs = map[int64]int{}
		buf = e.sp
	} else {
		cp := cbytes.NewInMemBytes(int(e.size))
		dst, _ := cp.Buffer(0, int(e.size))
		copy(dst, e.base)
		buf = cp
	}
	b, err := cbytes.NewBlocks(e.bs, buf, e.c.Fit)
	if err != nil || b == nil {
		return vstat.V("blocks:reopen-rejected", "%s: NewBlocks on the same bytes failed: %v", where, err)
	}
	e.b = b
	return e.attach(where + " (reopened)")
}

// snapshot is the non-destructive reopen comparison: a fresh allocator on a copy of the bytes must report the
// same Count and Available, and the allocated set recovered from it by probing must equal the model.
// mode bit 1: FreeBlock(i) succeeds <=> i allocated; mode bit 2: ArrangeBlock until exhausted yields the complement.
func (e *env) snapshot(where string, mode int) *vstat.Violation {
	e.info.Snapshots++
	if e.sp != nil {
		return snapshotProbe(func() cbytes.Buffer { return e.sp.clone() }, e.bs, e.c.Fit, e.count, e.alloc, e.nalloc, where, mode, e.alist)
	}
	return snapshotCheck(e.base, e.bs, e.c.Fit, e.count, e.alloc, e.nalloc, where, mode)
}

func snapshotCheck(base []byte, bs int, fit bool, count int, alloc []bool, nalloc int, where string, mode int) *vstat.Violation {
	return snapshotProbe(func() cbytes.Buffer {
		cp := cbytes.NewInMemBytes(len(base))
		dst, _ := cp.Buffer(0, len(base))
		copy(dst, base)
		return cp
	}, bs, fit, count, alloc, nalloc, where, mode, nil)
}

// snapshotProbe: mk returns a fresh copy of the bytes. With alist != nil (large sparse geometries) the FreeBlock
// probe visits every allocated index and a sample of the free ones instead of all indexes (the ArrangeBlock
// probe determines the complement exactly in any case).
func snapshotProbe(mk func() cbytes.Buffer, bs int, fit bool, count int, alloc []bool, nalloc int, where string, mode int, alist []int) *vstat.Violation {
	open := func() (*cbytes.Blocks, *vstat.Violation) {
		r, err := cbytes.NewBlocks(bs, mk(), fit)
		if err != nil || r == nil {
			return nil, vstat.V("blocks:reopen-rejected", "%s: NewBlocks on a copy of the bytes failed: %v", where, err)
		}
		if r.Count() != count {
			return nil, vstat.V("blocks:reopen-count", "%s: an allocator opened on a copy of the bytes has Count()=%d, the live one %d", where, r.Count(), count)
		}
		if r.Available() != count-nalloc {
			return nil, vstat.V("blocks:reopen-available", "%s: an allocator opened on a copy of the bytes has Available()=%d, want Count-allocated=%d-%d=%d", where, r.Available(), count, nalloc, count-nalloc)
		}
		return r, nil
	}
	if mode&1 != 0 {
		r, v := open()
		if v != nil {
			return v
		}
		probe := func(i int) *vstat.Violation {
			err := r.FreeBlock(i)
			if (err == nil) != alloc[i] {
				return vstat.V("blocks:reopen-state", "%s: on a copy of the bytes FreeBlock(%d) returned %v, but allocated(%d)=%v in the model: the bytes do not carry the allocation state", where, i, err, i, alloc[i])
			}
			return nil
		}
		if alist == nil {
			for i := 0; i < count; i++ {
				if v := probe(i); v != nil {
					return v
				}
			}
		} else {
			// free indexes first (they must be refused while everything else is still allocated), then all allocated
			for _, i := range sampleIndexes(bs, count/(bs*8), count) {
				for d := -1; d <= 1; d++ {
					if j := i + d; j >= 0 && j < count && !alloc[j] {
						if v := probe(j); v != nil {
							return v
						}
					}
				}
			}
			for _, i := range alist {
				if v := probe(i); v != nil {
					return v
				}
			}
		}
		if r.Available() != count {
			return vstat.V("blocks:reopen-available", "%s: on a copy of the bytes, after freeing every allocated block Available()=%d want %d", where, r.Available(), count)
		}
	}
	if mode&2 != 0 {
		r, v := open()
		if v != nil {
			return v
		}
		seen := make([]bool, count)
		n := 0
		for {
			idx, err := r.ArrangeBlock()
			if err != nil {
				if !isExhausted(err) {
					return vstat.V("blocks:reopen-arrange-error", "%s: on a copy of the bytes ArrangeBlock failed with %v", where, err)
				}
				break
			}
			if idx < 0 || idx >= count {
				return vstat.V("blocks:reopen-state", "%s: on a copy of the bytes ArrangeBlock returned %d, outside [0,%d)", where, idx, count)
			}
			if alloc[idx] {
				return vstat.V("blocks:reopen-state", "%s: on a copy of the bytes ArrangeBlock returned %d, which is allocated in the model: the bytes do not carry the allocation state", where, idx)
			}
			if seen[idx] {
				return vstat.V("blocks:reopen-state", "%s: on a copy of the bytes ArrangeBlock returned %d twice", where, idx)
			}
			seen[idx] = true
			n++
		}
		if n != count-nalloc {
			return vstat.V("blocks:reopen-state", "%s: on a copy of the bytes ArrangeBlock handed out %d blocks before ErrExhausted, the model has %d free", where, n, count-nalloc)
		}
	}
	return nil
}

// ---------------------------------------------------------------------------------------------
// constructor cases

// CtorCase is one NewBlocks call. Fake: the buffer only reports its size and hands out zero bytes
// (forced for sizes above 4 MiB).
type CtorCase struct {
	BS   int   `json:"bs"`
	Size int64 `json:"size"`
	Fit  bool  `json:"fit"`
	Fake bool  `json:"fake,omitempty"`
}

// CtorInfo classifies a constructor case.
type CtorInfo struct {
	InvalidBS, TooSmall, FitMismatch, Accepted bool
}

func (i CtorInfo) Classes() []string {
	switch {
	case i.InvalidBS:
		return []string{"ctor_invalid_block_size", "geometry_rejected"}
	case i.TooSmall:
		return []string{"ctor_buffer_below_one_segment", "geometry_rejected"}
	case i.FitMismatch:
		return []string{"ctor_fit_not_a_multiple", "geometry_rejected"}
	}
	return []string{"ctor_accepted"}
}

type fakeBuf struct{ size int64 }

func (f *fakeBuf) Close() error     { return nil }
func (f *fakeBuf) Size() int64      { return f.size }
func (f *fakeBuf) Grow(int64) error { return gerrors.ErrUnimplemented }
func (f *fakeBuf) String() string   { return fmt.Sprintf("fakeBuf{size=%d}", f.size) }
func (f *fakeBuf) Buffer(offs int64, size int) ([]byte, error) {
	if offs < 0 || offs >= f.size {
		return nil, fmt.Errorf("offs=%d out of bounds [0..%d): %w", offs, f.size, gerrors.ErrInvalid)
	}
	if offs+int64(size) > f.size {
		size = int(f.size - offs)
	}
	return make([]byte, size), nil
}

// RunCtor checks one constructor call.
func RunCtor(c CtorCase) (info CtorInfo, v *vstat.Violation) {
	return info, vstat.Guard("blocks:ctor-panic", func() *vstat.Violation { return runCtor(c, &info) })
}

func runCtor(c CtorCase, info *CtorInfo) *vstat.Violation {
	size := max(c.Size, 0)
	valid := ValidBS(c.BS)
	var segSize int64
	segs := int64(0)
	huge := valid && !SegSizeFits(c.BS)
	if valid && !huge {
		segSize = SegSize(c.BS)
		segs = size / segSize
		if segs > 4096 {
			panic("constructor case with more than 4096 segments: generator error")
		}
	}
	var buf cbytes.Buffer
	fake := c.Fake || size > 4<<20
	if fake {
		buf = &fakeBuf{size: size}
	} else {
		buf = cbytes.NewInMemBytes(int(size))
	}
	call := fmt.Sprintf("NewBlocks(bs=%d, buffer of %d bytes, fit=%v)", c.BS, size, c.Fit)
	b, err := cbytes.NewBlocks(c.BS, buf, c.Fit)
	reject := ""
	switch {
	case !valid:
		info.InvalidBS = true
		reject = fmt.Sprintf("block size %d is neither a power of two below the page size %d nor a multiple of it", c.BS, os.Getpagesize())
	case huge:
		info.TooSmall = true
		reject = fmt.Sprintf("one segment of %d*8+1 blocks of %d bytes is larger than any buffer (its size does not fit an int64)", c.BS, c.BS)
	case segs < 1:
		info.TooSmall = true
		reject = fmt.Sprintf("the buffer is smaller than one segment (%d bytes)", segSize)
	case c.Fit && size%segSize != 0:
		info.FitMismatch = true
		reject = fmt.Sprintf("fit is set and the size is not a multiple of the segment (%d bytes)", segSize)
	}
	if reject != "" {
		if b != nil || err == nil {
			desc := "nil"
			if b != nil {
				desc = fmt.Sprintf("an allocator with Count()=%d Segments()=%d", b.Count(), b.Segments())
			}
			return vstat.V("blocks:ctor-invalid-accepted", "%s returned (%s, %v) although %s: want (nil, ErrInvalid)", call, desc, err, reject)
		}
		if !isInvalid(err) {
			return vstat.V("blocks:ctor-wrong-error", "%s: %s, but the error %v is not of class ErrInvalid", call, reject, err)
		}
		return nil
	}
	info.Accepted = true
	if err != nil || b == nil {
		return vstat.V("blocks:ctor-rejects-valid", "%s failed with (%v, %v) although the geometry is valid (%d segment(s) of %d bytes)", call, b, err, segs, segSize)
	}
	want := int(segs) * c.BS * 8
	if b.Count() != want {
		return vstat.V("blocks:count", "%s: Count()=%d want segments*bs*8=%d", call, b.Count(), want)
	}
	if b.Available() != want {
		return vstat.V("blocks:available", "%s on zero bytes: Available()=%d want Count()=%d", call, b.Available(), want)
	}
	if !fake {
		idx, err := b.ArrangeBlock()
		if err != nil || idx < 0 || idx >= want {
			return vstat.V("blocks:arrange-error", "%s: the first ArrangeBlock returned (%d, %v)", call, idx, err)
		}
		if b.Available() != want-1 {
			return vstat.V("blocks:available", "%s: Available()=%d after one ArrangeBlock, want %d", call, b.Available(), want-1)
		}
	}
	return nil
}
