// Package p_blocks decides C17: the block allocator container/bytes.Blocks never hands out an index twice,
// keeps user blocks disjoint from each other and from its headers, counts correctly, fails with ErrExhausted
// exactly when nothing is free, keeps its whole state in the bytes, and rejects impossible geometries.
package p_blocks

import (
	"fmt"
	"math"
	"math/bits"
	"os"
	"path/filepath"
	"runtime/debug"
	"sort"
	"sync"
	"unsafe"

	cbytes "github.com/acquirecloud/golibs/container/bytes"
	gerrors "github.com/acquirecloud/golibs/errors"
	"github.com/acquirecloud/golibs/files"
	"verifharness/internal/vstat"
)

// Op is one step of a case. The argument N is interpreted relative to the current state, so every list is executable.
//
//	a        ArrangeBlock once (and stamp the block unless Case.NoStamp)
//	fill N   N>=0: ArrangeBlock N times; N<0: as many times as leaves -N-1 blocks free (-1 = fill up)
//	fa N     FreeBlock of the allocated index at position N (mod length, negative from the end) of the allocation list
//	         (no allocation list is kept for more than compactAbove blocks: there fa is fi)
//	fi N     FreeBlock of the first allocated index at or (cyclically) after N mod Count
//	drain N  N>=0: free N allocated blocks (front of the allocation list); N<0: all but -N-1
//	ff N     FreeBlock of the first free in-range index at or (cyclically) after N mod Count -> not-exist error
//	fo N     FreeBlock(Count+N), N>=0 -> invalid
//	fn N     FreeBlock(-1-N), N>=0 -> invalid
//	b N      Block(N mod Count): exact size, stable offset; write a new stamp
//	bo N     Block out of range (N>=0: Count+N, N<0: N) -> error
//	r N      reopen and continue on the new allocator.
//	         N=0   the same bytes: a copy (in memory), or close and map the file again with its actual size (-1)
//	         N=-1  the same, but the file is mapped with its size given explicitly
//	         N>0   the same bytes followed by zero bytes, size class N-1 of biggerSize: a larger buffer that starts with a
//	               copy (in memory), or NewMMFile with the larger size, which extends the file: the geometry keeps its
//	               segments and may get new, empty ones. A size that the constructor has to refuse (fit) is only probed.
//	         N<=-2 probe of a prefix of the bytes, size class -N-2 of smallerSize (mmap: the file is mapped with a
//	               smaller size than it has): less than a segment, or not a multiple under fit -> refused; else the
//	               leading whole segments with their state. Afterwards the mmap backend continues as N=0.
//	g N      Grow() of the Bytes() of the live allocator to size class N of biggerSize; the case goes on with the SAME
//	         allocator (nothing the harness holds survives the call: the base and all block slices are fetched again)
type Op struct {
	K string `json:"k"`
	N int    `json:"n,omitempty"`
}

// Case is a geometry plus an op list. Buffer size = Segs*segment + Over (rounded up to 4096 for mmap).
// Pre: before the allocator is opened, the headers of the first Pre segments (all if negative) are set to the
// bytes the allocator itself leaves in the header of a segment it has filled up (taken from a one-segment
// allocator of the same block size): the state "these segments are full" without millions of calls.
type Case struct {
	BS      int    `json:"bs"`
	Segs    int    `json:"segs"`
	Over    int    `json:"over"`
	Fit     bool   `json:"fit"`
	Backend string `json:"backend"` // "inmem" (default), "mmap" or "sparse"
	NoStamp bool   `json:"nostamp,omitempty"`
	Pre     int    `json:"pre,omitempty"`
	Ops     []Op   `json:"ops"`
}

// compactAbove: with more blocks than this the model keeps no allocation list and no per-block arrays other than
// two bit sets; block geometry and the FreeBlock side of the reopen probe work on samples (the ArrangeBlock side
// stays exact).
const compactAbove = 1 << 22

// Info is what the classifier needs.
type Info struct {
	Rejected      bool // the constructor (rightly) refused the geometry
	ReallocAcross bool // a freed index was handed out again while another segment holds allocated blocks
	ReopenAlloc   bool // a continuing reopen with >= 1 allocated block
	Exhausted     bool
	Refill        bool // successful Arrange after an ErrExhausted
	FreeFree      bool
	FreeOOR       bool
	FreeNeg       bool
	Mmap          bool
	MultiSeg      bool
	Oversize      bool
	Snapshots     int // non-destructive reopen comparisons

	Prefilled       bool // headers preset to "full"
	Huge            bool // more than 2^24 blocks
	LastFreeHuge    bool // ArrangeBlock succeeded with exactly one free block among more than 2^24
	Grown           bool // Grow of the buffer of the live allocator
	GrowSeg         bool // ... that made room for another segment
	ArrangeAfterGrw bool // ArrangeBlock succeeded on an allocator whose buffer was grown since it was opened
	ReopenLarger    bool // continuing reopen on the bytes followed by zero bytes, with >= 1 allocated block
	ReopenMoreSegs  bool // ... that added a segment
	ReopenExplicit  bool // mmap: mapped again with the explicit size
	ReopenPrefix    bool // probe of a prefix holding >= 1 whole segment
	ReopenRefused   bool // a reopen/probe size that the constructor had to refuse
}

// NonTrivial is the rule of C17.
func (i Info) NonTrivial() bool {
	return i.ReallocAcross || i.ReopenAlloc || i.Rejected || i.Exhausted || i.ArrangeAfterGrw || i.ReopenLarger || i.LastFreeHuge
}

// Classes for the histogram.
func (i Info) Classes() []string {
	var c []string
	add := func(b bool, s string) {
		if b {
			c = append(c, s)
		}
	}
	add(i.Rejected, "geometry_rejected")
	add(i.ReallocAcross, "realloc_across_segment")
	add(i.ReopenAlloc, "reopen_with_allocated")
	add(i.Exhausted, "exhausted")
	add(i.Refill, "arrange_after_exhausted")
	add(i.FreeFree, "free_of_free_index")
	add(i.FreeOOR, "free_out_of_range")
	add(i.FreeNeg, "free_negative")
	add(i.Mmap, "backend_mmap")
	add(i.MultiSeg, "segments_ge_2")
	add(i.Oversize, "oversized_buffer")
	add(i.Prefilled, "headers_prefilled_full")
	add(i.Huge, "blocks_gt_2^24")
	add(i.LastFreeHuge, "arrange_last_free_block_of_gt_2^24")
	add(i.Grown, "grow_live_buffer")
	add(i.GrowSeg, "grow_live_buffer_by_a_segment")
	add(i.ArrangeAfterGrw, "arrange_after_grow_same_allocator")
	add(i.ReopenLarger, "reopen_larger_with_allocated")
	add(i.ReopenLarger && i.Mmap, "reopen_larger_mmap_file_extended")
	add(i.ReopenMoreSegs, "reopen_larger_adds_segment")
	add(i.ReopenExplicit, "reopen_mmap_explicit_size")
	add(i.ReopenPrefix, "reopen_prefix_probe")
	add(i.ReopenRefused, "reopen_size_refused")
	return c
}

// Hash is a cheap FNV-1a hash of the case.
func (c Case) Hash() uint64 {
	h := uint64(14695981039346656037)
	mix := func(b uint64) {
		h ^= b
		h *= 1099511628211
	}
	mix(uint64(c.BS))
	mix(uint64(c.Segs))
	mix(uint64(c.Over))
	if c.Fit {
		mix(1)
	}
	if c.NoStamp {
		mix(2)
	}
	if c.Pre != 0 {
		mix(3)
		mix(uint64(int64(c.Pre)))
	}
	mix(uint64(len(c.Backend)))
	for _, o := range c.Ops {
		for i := 0; i < len(o.K); i++ {
			mix(uint64(o.K[i]))
		}
		mix(uint64(int64(o.N)))
	}
	return h
}

// ValidBS is the documented rule for block sizes: a power of two below the page size or a multiple of it.
func ValidBS(bs int) bool {
	if bs <= 0 {
		return false
	}
	ps := os.Getpagesize()
	if bs < ps {
		return bs&(bs-1) == 0
	}
	return bs%ps == 0
}

// SegSize is the byte size of one segment (header block + 8*bs user blocks).
func SegSize(bs int) int64 { return int64(bs*8+1) * int64(bs) }

// SegSizeFits tells whether the segment size of a valid block size is representable as an int64. When it is not
// (block sizes from 1 GiB up) no buffer can hold a segment: Buffer.Size() is an int64.
func SegSizeFits(bs int) bool {
	if bs <= 0 || uint64(bs) > math.MaxInt64/8-1 {
		return false
	}
	hi, lo := bits.Mul64(uint64(bs)*8+1, uint64(bs))
	return hi == 0 && lo <= math.MaxInt64
}

// Alphabet is the finite op alphabet of the exhaustive part.
func Alphabet() []Op {
	return []Op{{K: "a"}, {K: "fill", N: 8}, {K: "fa", N: 0}, {K: "fa", N: -1}, {K: "fa", N: 5}, {K: "ff", N: 0},
		{K: "fo", N: 0}, {K: "fn", N: 0}, {K: "b", N: 0}, {K: "bo", N: 0}, {K: "r"}}
}

// GrowAlphabet is the alphabet of the second exhaustive part: histories in which the buffer of the live allocator
// grows (by a byte, to the next segment boundary) and in which the bytes are reopened followed by zero bytes or cut.
func GrowAlphabet() []Op {
	return []Op{{K: "a"}, {K: "fill", N: 8}, {K: "fa", N: 0}, {K: "fa", N: -1}, {K: "ff", N: 0},
		{K: "g", N: 0}, {K: "g", N: 1}, {K: "r"}, {K: "r", N: 2}, {K: "r", N: -3}}
}

func isInvalid(err error) bool   { return err != nil && gerrors.Is(err, gerrors.ErrInvalid) }
func isNotExist(err error) bool  { return err != nil && gerrors.Is(err, gerrors.ErrNotExist) }
func isExhausted(err error) bool { return err != nil && gerrors.Is(err, gerrors.ErrExhausted) }

// Run executes the case against the real allocator and the set model.
func Run(c Case) (info Info, v *vstat.Violation) {
	e := &env{c: c, info: &info}
	defer e.cleanup()
	// a write through a slice of a mapping that is gone is a panic of this goroutine (reported), not the end of the process
	defer debug.SetPanicOnFault(debug.SetPanicOnFault(true))
	return info, vstat.Guard("blocks:panic", func() *vstat.Violation { return e.run() })
}

type env struct {
	c       Case
	info    *Info
	bs      int
	per     int // user blocks per segment
	segSize int64
	size    int64 // current size of the buffer
	segs    int   // geometry of the live allocator
	count   int
	segs0   int // segments at the start (growth is bounded relative to it)
	mmap    bool
	compact bool // more than compactAbove blocks
	sampled bool // sparse or compact: block geometry on a sample and on every touched block
	b       *cbytes.Blocks
	base    []byte
	mm      *files.MMFile
	sp      *sparseBuf // backend "sparse": only touched blocks exist
	dir     string
	fn      string

	// model; the slices cover the geometry of the BUFFER, which after a Grow may have more segments than the live allocator
	alloc     bitset
	nalloc    int
	alist     []int    // not compact
	apos      []int32  // not compact
	gen       []uint32 // stamp generation of an allocated index, 0 = not stamped (not compact)
	genM      map[int]uint32
	offs      []int64 // byte offset of block i in the buffer (not sampled)
	offM      map[int]int64
	byOffs    map[int64]int
	segAlloc  []int
	freedEver bitset
	recent    []int // recently touched indexes (sample for the reopen probe when compact)
	seq       uint32
	sawExh    bool
	grownLive bool // the buffer was grown since the live allocator was opened
}

func (e *env) cleanup() {
	if e.mm != nil {
		e.mm.Close()
		e.mm = nil
	}
	if e.dir != "" {
		os.RemoveAll(e.dir)
	}
}

// TmpRoot is the directory for scratch files.
func TmpRoot() string {
	if d := os.Getenv("VERIF_TMP"); d != "" {
		os.MkdirAll(d, 0o755)
		return d
	}
	return ""
}

// geoOf is the geometry a fresh allocator must have on a buffer of the given size (ok=false: must be refused).
func (e *env) geoOf(size int64) (segs int, ok bool) {
	segs = int(size / e.segSize)
	return segs, segs >= 1 && !(e.c.Fit && size%e.segSize != 0)
}

// bitset is a set of block indexes.
type bitset []uint64

func (b bitset) get(i int) bool { return b[i>>6]>>(uint(i)&63)&1 != 0 }

func (b bitset) set(i int, v bool) {
	if v {
		b[i>>6] |= 1 << (uint(i) & 63)
	} else {
		b[i>>6] &^= 1 << (uint(i) & 63)
	}
}

// grown makes room for n indexes.
func (b bitset) grown(n int) bitset { return grown(b, (n+63)>>6) }

// setFirst puts the indexes [0,n) into the set.
func (b bitset) setFirst(n int) {
	for w := 0; w < n>>6; w++ {
		b[w] = ^uint64(0)
	}
	for i := n &^ 63; i < n; i++ {
		b.set(i, true)
	}
}

// next is the first index in [from,to) whose membership is want, -1 if there is none.
func (b bitset) next(from, to int, want bool) int {
	skip := uint64(0)
	if !want {
		skip = ^uint64(0)
	}
	for i := from; i < to; {
		if i&63 == 0 && i+64 <= to && b[i>>6] == skip {
			i += 64
			continue
		}
		if b.get(i) == want {
			return i
		}
		i++
	}
	return -1
}

func grown[T any](s []T, n int) []T {
	if len(s) >= n {
		return s
	}
	return append(s, make([]T, n-len(s))...)
}

// ensure makes the model cover segs segments.
func (e *env) ensure(segs int) {
	n := segs * e.per
	e.alloc = e.alloc.grown(n)
	e.freedEver = e.freedEver.grown(n)
	e.segAlloc = grown(e.segAlloc, segs)
	if !e.compact {
		e.apos = grown(e.apos, n)
		e.gen = grown(e.gen, n)
	}
}

// setGeometry: the live allocator has segs segments from now on.
func (e *env) setGeometry(segs int) {
	e.segs = segs
	e.count = segs * e.per
	e.ensure(segs)
	e.info.MultiSeg = e.info.MultiSeg || segs >= 2
	e.info.Huge = e.info.Huge || e.count > 1<<24
}

var refHdr sync.Map // block size -> header bytes of a full segment

// fullHeader returns the bytes that the allocator leaves in the header of a segment after it handed out all bs*8
// blocks of it.
func fullHeader(bs int) ([]byte, *vstat.Violation) {
	if h, ok := refHdr.Load(bs); ok {
		return h.([]byte), nil
	}
	buf := newSparse(SegSize(bs), bs)
	b, err := cbytes.NewBlocks(bs, buf, true)
	if err != nil || b == nil {
		return nil, vstat.V("blocks:ctor-rejects-valid", "NewBlocks(bs=%d, one exact segment) failed: %v", bs, err)
	}
	for i := 0; i < bs*8; i++ {
		if _, err := b.ArrangeBlock(); err != nil {
			return nil, vstat.V("blocks:arrange-error", "one segment of bs=%d: ArrangeBlock call %d of %d failed with %v", bs, i, bs*8, err)
		}
	}
	h, err := buf.Buffer(0, bs)
	if err != nil || len(h) != bs {
		panic(fmt.Sprintf("environment: header of the reference segment: len=%d err=%v", len(h), err))
	}
	cp := append([]byte(nil), h...)
	refHdr.Store(bs, cp)
	return cp, nil
}

func (e *env) run() *vstat.Violation {
	c := e.c
	e.bs = c.BS
	if !ValidBS(c.BS) || !SegSizeFits(c.BS) {
		// a Case with an invalid block size is a constructor case
		_, v := RunCtor(CtorCase{BS: c.BS, Size: int64(max(c.Over, 0)), Fit: c.Fit})
		e.info.Rejected = true
		return v
	}
	e.per = c.BS * 8
	e.segSize = SegSize(c.BS)
	e.size = int64(max(c.Segs, 0))*e.segSize + int64(max(c.Over, 0))
	e.mmap = c.Backend == "mmap"
	if e.mmap {
		e.size = (e.size + 4095) / 4096 * 4096
		if e.size == 0 {
			e.size = 4096
		}
	}
	sparse := c.Backend == "sparse"
	segs := int(e.size / e.segSize)
	e.segs0 = segs
	e.compact = segs*e.per > compactAbove
	e.sampled = sparse || e.compact
	if e.sampled {
		e.c.NoStamp = true // blocks are only touched by explicit b ops
	}
	if !sparse && e.size > 600<<20 {
		panic(fmt.Sprintf("case asks for a %d byte buffer: generator error", e.size))
	}
	e.info.Mmap = e.mmap
	e.info.Oversize = segs >= 1 && e.size%e.segSize != 0

	var buf cbytes.Buffer
	if e.mmap {
		d, err := os.MkdirTemp(TmpRoot(), "c17mm")
		if err != nil {
			panic("cannot create a scratch directory: " + err.Error())
		}
		e.dir = d
		e.fn = filepath.Join(d, "blocks.dat")
		mm, err := files.NewMMFile(e.fn, e.size)
		if err != nil {
			panic("environment: cannot map the scratch file: " + err.Error())
		}
		e.mm = mm
		buf = mm
	} else if sparse {
		e.sp = newSparse(e.size, c.BS)
		buf = e.sp
	} else {
		buf = cbytes.NewInMemBytes(int(e.size))
	}
	geo := fmt.Sprintf("bs=%d size=%d (segment=%d, %d segment(s) + %d) fit=%v %s", c.BS, e.size, e.segSize, segs, e.size%e.segSize, c.Fit, backendName(c))
	_, wantOK := e.geoOf(e.size)
	pre := c.Pre
	if pre < 0 || pre > segs {
		pre = segs
	}
	if pre > 0 && wantOK {
		ref, v := fullHeader(c.BS)
		if v != nil {
			return v
		}
		for s := 0; s < pre; s++ {
			h, err := buf.Buffer(int64(s)*e.segSize, c.BS)
			if err != nil || len(h) != c.BS {
				panic(fmt.Sprintf("environment: Buffer(%d,%d) returned len=%d err=%v", int64(s)*e.segSize, c.BS, len(h), err))
			}
			copy(h, ref)
		}
		e.info.Prefilled = true
		geo += fmt.Sprintf(" headers of %d segment(s) preset to full", pre)
	}
	b, err := cbytes.NewBlocks(c.BS, buf, c.Fit)
	if !wantOK {
		e.info.Rejected = true
		if err == nil || b != nil {
			return vstat.V("blocks:ctor-bad-size-accepted", "NewBlocks(%s) returned (%v, %v): a buffer smaller than a segment, or not a multiple of it under fit, must be refused", geo, b, err)
		}
		if !isInvalid(err) {
			return vstat.V("blocks:ctor-wrong-error", "NewBlocks(%s): error %v is not of class ErrInvalid", geo, err)
		}
		return nil
	}
	if err != nil || b == nil {
		return vstat.V("blocks:ctor-rejects-valid", "NewBlocks(%s) failed: (%v, %v)", geo, b, err)
	}
	e.b = b
	e.setGeometry(segs)
	if pre > 0 {
		n := pre * e.per
		e.alloc.setFirst(n)
		e.nalloc = n
		for s := 0; s < pre; s++ {
			e.segAlloc[s] = e.per
		}
		if !e.compact {
			e.alist = make([]int, n)
			for i := range e.alist {
				e.alist[i] = i
				e.apos[i] = int32(i)
			}
		}
	}
	if v := e.attach("NewBlocks(" + geo + ")"); v != nil {
		return v
	}
	if v := e.counters("NewBlocks(" + geo + ")"); v != nil {
		return v
	}
	for i, op := range c.Ops {
		where := fmt.Sprintf("op #%d %s(%d) [%s]", i, op.K, op.N, geo)
		if v := e.step(op, where); v != nil {
			return v
		}
		if v := e.counters("after " + where); v != nil {
			return v
		}
		if e.size <= 64<<10 || i%16 == 15 {
			if v := e.stamps("after " + where); v != nil {
				return v
			}
			mode := 3
			if e.count > 64 && !sparse {
				mode = 1 + i%2
			}
			if v := e.snapshot("after "+where, mode); v != nil {
				return v
			}
		}
	}
	where := fmt.Sprintf("at the end of the case [%s]", geo)
	if v := e.stamps(where); v != nil {
		return v
	}
	if e.size <= 40<<20 || sparse {
		if v := e.snapshot(where, 3); v != nil {
			return v
		}
	} else if !e.mmap {
		if v := e.snapshot(where, 1+len(c.Ops)%2); v != nil {
			return v
		}
	}
	if e.mmap {
		// the state must also survive close + map again from disk
		if v := e.reopen(where, 0); v != nil {
			return v
		}
		if v := e.counters(where + " after the final reopen from disk"); v != nil {
			return v
		}
		if v := e.stamps(where + " after the final reopen from disk"); v != nil {
			return v
		}
		if e.size <= 40<<20 {
			if v := e.snapshot(where+" after the final reopen from disk", 3); v != nil {
				return v
			}
		}
	}
	return nil
}

func backendName(c Case) string {
	if c.Backend == "mmap" || c.Backend == "sparse" {
		return c.Backend
	}
	return "inmem"
}

func ptrDiff(p, base []byte) int64 {
	return int64(uintptr(unsafe.Pointer(unsafe.SliceData(p)))) - int64(uintptr(unsafe.Pointer(unsafe.SliceData(base))))
}

// attach reads the base of the buffer of the current allocator and checks the geometry of all blocks.
func (e *env) attach(where string) *vstat.Violation {
	b := e.b
	if b.Count() != e.count {
		return vstat.V("blocks:count", "%s: Count()=%d want segments*bs*8=%d", where, b.Count(), e.count)
	}
	if e.sp == nil {
		base, err := b.Bytes().Buffer(0, int(e.size))
		if err != nil || int64(len(base)) != e.size {
			panic(fmt.Sprintf("environment: Bytes().Buffer(0,%d) returned len=%d err=%v", e.size, len(base), err))
		}
		e.base = base
	}
	if e.sampled {
		return e.attachSampled(where)
	}
	offs, v := blockGeometry(b, e.base, e.bs, e.segs, e.count, where)
	if v != nil {
		return v
	}
	for i := 0; i < len(offs) && i < len(e.offs); i++ {
		if offs[i] != e.offs[i] {
			return vstat.V("blocks:offset-changed-on-reopen", "%s: block %d is at offset %d, earlier (before the reopen or the Grow) it was at %d", where, i, offs[i], e.offs[i])
		}
	}
	e.offs = offs
	return nil
}

// attachSampled examines the geometry of a sample of blocks only (on a sparse buffer Block() materialises the
// block); blocks touched later by a b op are examined then.
func (e *env) attachSampled(where string) *vstat.Violation {
	if e.offM == nil {
		e.offM = map[int]int64{}
		e.byOffs = map[int64]int{}
	}
	for _, i := range sampleIndexes(e.bs, e.segs, e.count) {
		blk, err := e.b.Block(i)
		if err != nil {
			return vstat.V("blocks:block-error", "%s: Block(%d) failed with %v although 0<=idx<Count=%d", where, i, err, e.count)
		}
		if len(blk) != e.bs {
			return vstat.V("blocks:block-size", "%s: Block(%d) has %d bytes, want the block size %d", where, i, len(blk), e.bs)
		}
		if v := e.blockAt(i, blk, where); v != nil {
			return v
		}
	}
	return nil
}

// blockAt checks the position of one block against the headers and all blocks seen so far (sampled mode).
func (e *env) blockAt(i int, blk []byte, where string) *vstat.Violation {
	var o int64
	if e.sp != nil {
		o = e.sp.offsetOf(blk) // offsets come from the sparse buffer's own bookkeeping
	} else {
		o = ptrDiff(blk, e.base)
	}
	bs := int64(e.bs)
	if o < 0 || o+bs > e.size {
		return vstat.V("blocks:block-outside-buffer", "%s: Block(%d) is not a range inside the buffer [0,%d) (offset %d)", where, i, e.size, o)
	}
	s := o / e.segSize
	if s < int64(e.segs) && o < s*e.segSize+bs {
		return vstat.V("blocks:block-overlaps-header", "%s: Block(%d) covers [%d,%d) which overlaps the header [%d,%d) of segment %d", where, i, o, o+bs, s*e.segSize, s*e.segSize+bs, s)
	}
	if s+1 < int64(e.segs) && o+bs > (s+1)*e.segSize {
		return vstat.V("blocks:block-overlaps-header", "%s: Block(%d) covers [%d,%d) which overlaps the header of segment %d at %d", where, i, o, o+bs, s+1, (s+1)*e.segSize)
	}
	if old, ok := e.offM[i]; ok && old != o {
		return vstat.V("blocks:block-moved", "%s: Block(%d) is now at buffer offset %d, earlier at %d", where, i, o, old)
	}
	if e.sp != nil {
		// ranges of the sparse buffer are block-aligned, so two blocks overlap iff they have the same offset
		if j, ok := e.byOffs[o]; ok && j != i {
			return vstat.V("blocks:blocks-overlap", "%s: Block(%d) and Block(%d) are both at [%d,%d)", where, i, j, o, o+bs)
		}
	} else {
		for d := -bs + 1; d < bs; d++ {
			if j, ok := e.byOffs[o+d]; ok && j != i {
				return vstat.V("blocks:blocks-overlap", "%s: Block(%d)=[%d,%d) and Block(%d)=[%d,%d) overlap", where, i, o, o+bs, j, o+d, o+d+bs)
			}
		}
	}
	e.offM[i] = o
	e.byOffs[o] = i
	return nil
}

// blockBytes is the current content of block idx (its offset must be known).
func (e *env) blockBytes(idx int) []byte {
	var o int64
	if e.sampled {
		o = e.offM[idx]
	} else {
		o = e.offs[idx]
	}
	if e.sp != nil {
		return e.sp.chunks[o]
	}
	return e.base[o : o+int64(e.bs)]
}

func (e *env) offsetOf(idx int) int64 {
	if e.sampled {
		return e.offM[idx]
	}
	return e.offs[idx]
}

// blockGeometry checks that every in-range block is exactly bs bytes inside the buffer, that the blocks are
// pairwise disjoint and that none touches a header (the first block of a segment).
func blockGeometry(b *cbytes.Blocks, base []byte, bs, segs, count int, where string) ([]int64, *vstat.Violation) {
	size := int64(len(base))
	segSize := SegSize(bs)
	offs := make([]int64, count)
	for i := 0; i < count; i++ {
		blk, err := b.Block(i)
		if err != nil {
			return nil, vstat.V("blocks:block-error", "%s: Block(%d) failed with %v although 0<=idx<Count=%d", where, i, err, count)
		}
		if len(blk) != bs {
			return nil, vstat.V("blocks:block-size", "%s: Block(%d) has %d bytes, want the block size %d", where, i, len(blk), bs)
		}
		o := ptrDiff(blk, base)
		if o < 0 || o+int64(bs) > size {
			return nil, vstat.V("blocks:block-outside-buffer", "%s: Block(%d) covers [%d,%d) which is not inside the buffer [0,%d)", where, i, o, o+int64(bs), size)
		}
		s := o / segSize
		if s < int64(segs) && o < s*segSize+int64(bs) {
			return nil, vstat.V("blocks:block-overlaps-header", "%s: Block(%d) covers [%d,%d) which overlaps the header [%d,%d) of segment %d", where, i, o, o+int64(bs), s*segSize, s*segSize+int64(bs), s)
		}
		if s+1 < int64(segs) && o+int64(bs) > (s+1)*segSize {
			return nil, vstat.V("blocks:block-overlaps-header", "%s: Block(%d) covers [%d,%d) which overlaps the header of segment %d at %d", where, i, o, o+int64(bs), s+1, (s+1)*segSize)
		}
		offs[i] = o
	}
	order := make([]int, count)
	for i := range order {
		order[i] = i
	}
	sort.Slice(order, func(x, y int) bool {
		if offs[order[x]] != offs[order[y]] {
			return offs[order[x]] < offs[order[y]]
		}
		return order[x] < order[y]
	})
	for k := 1; k < count; k++ {
		p, q := order[k-1], order[k]
		if offs[p]+int64(bs) > offs[q] {
			return nil, vstat.V("blocks:blocks-overlap", "%s: Block(%d)=[%d,%d) and Block(%d)=[%d,%d) overlap", where, p, offs[p], offs[p]+int64(bs), q, offs[q], offs[q]+int64(bs))
		}
	}
	return offs, nil
}

func (e *env) counters(where string) *vstat.Violation {
	if got := e.b.Count(); got != e.count {
		return vstat.V("blocks:count", "%s: Count()=%d want %d", where, got, e.count)
	}
	if got := e.b.Available(); got != e.count-e.nalloc {
		return vstat.V("blocks:available", "%s: Available()=%d want Count-allocated=%d-%d=%d", where, got, e.count, e.nalloc, e.count-e.nalloc)
	}
	return nil
}

func stampByte(idx int, gen uint32, j int) byte {
	x := uint32(idx)*0x9E3779B1 ^ gen*0x85EBCA6B
	x ^= x >> 15
	return byte(x>>(uint(j&3)*8)) + byte(j*131) + 1
}

func (e *env) writeStamp(blk []byte, idx int, gen uint32) {
	for j := range blk {
		blk[j] = stampByte(idx, gen, j)
	}
}

func (e *env) getGen(idx int) uint32 {
	if e.compact {
		return e.genM[idx]
	}
	return e.gen[idx]
}

func (e *env) setGen(idx int, g uint32) {
	if !e.compact {
		e.gen[idx] = g
	} else if g == 0 {
		delete(e.genM, idx)
	} else {
		if e.genM == nil {
			e.genM = map[int]uint32{}
		}
		e.genM[idx] = g
	}
}

// stamps verifies that every allocated, stamped block still holds what the case wrote into it.
func (e *env) stamps(where string) *vstat.Violation {
	list := e.alist
	if e.compact {
		list = make([]int, 0, len(e.genM))
		for idx := range e.genM {
			list = append(list, idx)
		}
		sort.Ints(list)
	}
	for _, idx := range list {
		g := e.getGen(idx)
		if g == 0 {
			continue
		}
		blk := e.blockBytes(idx)
		for j := range blk {
			if blk[j] != stampByte(idx, g, j) {
				return vstat.V("blocks:user-data-overwritten", "%s: byte %d of allocated block %d (buffer offset %d) is %#x, the case wrote %#x: something else wrote into a user block", where, j, idx, e.offsetOf(idx)+int64(j), blk[j], stampByte(idx, g, j))
			}
		}
	}
	return nil
}

func (e *env) touch(idx int) {
	if !e.compact {
		return
	}
	if len(e.recent) >= 4096 {
		e.recent = append(e.recent[:0], e.recent[2048:]...)
	}
	e.recent = append(e.recent, idx)
}

func (e *env) markAlloc(idx int) {
	e.alloc.set(idx, true)
	if !e.compact {
		e.apos[idx] = int32(len(e.alist))
		e.alist = append(e.alist, idx)
	}
	e.nalloc++
	e.segAlloc[idx/e.per]++
	e.setGen(idx, 0)
	e.touch(idx)
}

func (e *env) markFree(idx int) {
	if !e.compact {
		p := int(e.apos[idx])
		last := e.alist[len(e.alist)-1]
		e.alist[p] = last
		e.apos[last] = int32(p)
		e.alist = e.alist[:len(e.alist)-1]
	}
	e.alloc.set(idx, false)
	e.nalloc--
	e.segAlloc[idx/e.per]--
	e.setGen(idx, 0)
	e.freedEver.set(idx, true)
}

// arrange is one ArrangeBlock call checked against the model.
func (e *env) arrange(where0 string, call int) *vstat.Violation {
	idx, err := e.b.ArrangeBlock()
	where := callWhere{where0, call}
	if e.nalloc == e.count {
		e.info.Exhausted = true
		e.sawExh = true
		if err == nil {
			return vstat.V("blocks:arrange-on-full", "%s: ArrangeBlock returned index %d although all %d blocks are allocated", where, idx, e.count)
		}
		if !isExhausted(err) {
			return vstat.V("blocks:arrange-on-full-wrong-error", "%s: ArrangeBlock failed with %v, want ErrExhausted", where, err)
		}
		return nil
	}
	if err != nil {
		if isExhausted(err) {
			return vstat.V("blocks:exhausted-while-free", "%s: ArrangeBlock reports ErrExhausted although only %d of %d blocks are allocated (Available()=%d)", where, e.nalloc, e.count, e.b.Available())
		}
		return vstat.V("blocks:arrange-error", "%s: ArrangeBlock failed with %v although only %d of %d blocks are allocated", where, err, e.nalloc, e.count)
	}
	if idx < 0 || idx >= e.count {
		return vstat.V("blocks:arrange-out-of-range", "%s: ArrangeBlock returned %d, outside [0,%d)", where, idx, e.count)
	}
	if e.alloc.get(idx) {
		return vstat.V("blocks:double-allocation", "%s: ArrangeBlock returned %d which is still allocated", where, idx)
	}
	if e.freedEver.get(idx) {
		seg := idx / e.per
		if e.nalloc > e.segAlloc[seg] {
			e.info.ReallocAcross = true
		}
	}
	if e.sawExh {
		e.info.Refill = true
	}
	if e.grownLive {
		e.info.ArrangeAfterGrw = true
	}
	if e.count > 1<<24 && e.count-e.nalloc == 1 {
		e.info.LastFreeHuge = true
	}
	e.markAlloc(idx)
	if !e.c.NoStamp {
		return e.stamp(idx, where.String())
	}
	return nil
}

// callWhere names a call of a bulk op; the text is only built when a violation is reported.
type callWhere struct {
	where string
	call  int
}

func (w callWhere) String() string {
	if w.call < 0 {
		return w.where
	}
	return fmt.Sprintf("%s call %d", w.where, w.call)
}

// stamp fetches the block through the API, checks size and position, and writes a fresh pattern.
func (e *env) stamp(idx int, where string) *vstat.Violation {
	blk, err := e.b.Block(idx)
	if err != nil {
		return vstat.V("blocks:block-error", "%s: Block(%d) failed with %v although 0<=idx<Count=%d", where, idx, err, e.count)
	}
	if len(blk) != e.bs {
		return vstat.V("blocks:block-size", "%s: Block(%d) has %d bytes, want the block size %d", where, idx, len(blk), e.bs)
	}
	if e.sampled {
		if v := e.blockAt(idx, blk, where); v != nil {
			return v
		}
	} else if o := ptrDiff(blk, e.base); o != e.offs[idx] {
		return vstat.V("blocks:block-moved", "%s: Block(%d) is now at buffer offset %d, earlier at %d", where, idx, o, e.offs[idx])
	}
	e.seq++
	e.writeStamp(blk, idx, e.seq)
	if e.alloc.get(idx) {
		e.setGen(idx, e.seq)
		e.touch(idx)
	}
	return nil
}

func (e *env) free(idx int, where0 string, call int) *vstat.Violation {
	err := e.b.FreeBlock(idx)
	where := callWhere{where0, call}
	switch {
	case idx < 0 || idx >= e.count:
		if idx < 0 {
			e.info.FreeNeg = true
		} else {
			e.info.FreeOOR = true
		}
		if err == nil {
			return vstat.V("blocks:free-out-of-range-accepted", "%s: FreeBlock(%d) returned nil, the valid indexes are [0,%d)", where, idx, e.count)
		}
		if !isInvalid(err) {
			return vstat.V("blocks:free-out-of-range-wrong-error", "%s: FreeBlock(%d) failed with %v which is not of class ErrInvalid", where, idx, err)
		}
	case e.alloc.get(idx):
		if err != nil {
			return vstat.V("blocks:free-rejected", "%s: FreeBlock(%d) failed with %v although the block is allocated", where, idx, err)
		}
		e.markFree(idx)
	default:
		e.info.FreeFree = true
		if err == nil {
			return vstat.V("blocks:free-of-free-accepted", "%s: FreeBlock(%d) returned nil although the block is not allocated", where, idx)
		}
		if !isNotExist(err) {
			return vstat.V("blocks:free-of-free-wrong-error", "%s: FreeBlock(%d) of a free block failed with %v which is not of class ErrNotExist", where, idx, err)
		}
	}
	return nil
}

// firstFrom is the first index at or cyclically after n (mod Count) whose allocation state is want; -1 if none.
func (e *env) firstFrom(n int, want bool) int {
	if (want && e.nalloc == 0) || (!want && e.nalloc == e.count) {
		return -1
	}
	i := n % e.count
	if i < 0 {
		i += e.count
	}
	if j := e.alloc.next(i, e.count, want); j >= 0 {
		return j
	}
	return e.alloc.next(0, i, want)
}

func (e *env) step(op Op, where string) *vstat.Violation {
	switch op.K {
	case "a":
		return e.arrange(where, -1)
	case "fill":
		n := op.N
		if n < 0 {
			n = max(0, e.count-e.nalloc+n+1)
		}
		for k := 0; k < n; k++ {
			if v := e.arrange(where, k); v != nil {
				return v
			}
		}
	case "fa":
		if e.compact {
			if i := e.firstFrom(op.N, true); i >= 0 {
				return e.free(i, where, -1)
			}
			return nil
		}
		if len(e.alist) == 0 {
			return nil
		}
		p := op.N % len(e.alist)
		if p < 0 {
			p += len(e.alist)
		}
		return e.free(e.alist[p], where, -1)
	case "fi":
		if i := e.firstFrom(op.N, true); i >= 0 {
			return e.free(i, where, -1)
		}
	case "drain":
		if e.compact {
			// no allocation list: up to 4096 blocks, found from spread-out positions
			for k := 0; k < min(max(op.N, 0), 4096) && e.nalloc > 0; k++ {
				if v := e.free(e.firstFrom(k*7919, true), where, k); v != nil {
					return v
				}
			}
			return nil
		}
		n := op.N
		if n < 0 {
			n = max(0, len(e.alist)+n+1)
		}
		for k := 0; k < n && len(e.alist) > 0; k++ {
			// alternate between the oldest and the newest entry of the allocation list
			p := 0
			if k%2 == 1 {
				p = len(e.alist) - 1
			}
			if v := e.free(e.alist[p], where, k); v != nil {
				return v
			}
		}
	case "ff":
		if i := e.firstFrom(op.N, false); i >= 0 {
			return e.free(i, where, -1)
		}
	case "fo":
		return e.free(e.count+max(op.N, 0), where, -1)
	case "fn":
		return e.free(-1-max(op.N, 0), where, -1)
	case "b":
		i := op.N % e.count
		if i < 0 {
			i += e.count
		}
		return e.stamp(i, where)
	case "bo":
		i := op.N
		if i >= 0 {
			i += e.count
		}
		blk, err := e.b.Block(i)
		if err == nil {
			return vstat.V("blocks:block-out-of-range-accepted", "%s: Block(%d) returned %d bytes and no error, the valid indexes are [0,%d)", where, i, len(blk), e.count)
		}
	case "r":
		if e.nalloc > 0 && (op.N > -2 || e.mmap) {
			e.info.ReopenAlloc = true
		}
		return e.reopen(where, op.N)
	case "g":
		return e.grow(op.N, where)
	default:
		panic("bad op " + op.K)
	}
	return nil
}

func (e *env) unit() int64 {
	if e.mmap {
		return 4096 // files.BlockSize: a mapping size must be a multiple of it
	}
	return 1
}

func nonneg(n int) int {
	if n < 0 {
		n = -(n + 1)
	}
	return n
}

// biggerSize is a buffer size above the current one: class n%4 = 0: one unit (byte, or page for mmap) more; 1: the
// next segment boundary; 2: a block past it; 3: one or two whole segments more. Rounded up to the unit.
func (e *env) biggerSize(n int) int64 {
	n = nonneg(n)
	u := e.unit()
	next := (e.size/e.segSize + 1) * e.segSize
	var s int64
	switch n % 4 {
	case 0:
		s = e.size + u
	case 1:
		s = next
	case 2:
		s = next + int64(e.bs)
	default:
		s = e.size + int64(1+(n/4)%2)*e.segSize
	}
	return (s + u - 1) / u * u
}

// smallerSize is a size below the current one: class n%3 = 0: one unit less; 1: without the last whole segment;
// 2: a unit less than one segment. Rounded down to the unit; <= 0: there is none.
func (e *env) smallerSize(n int) int64 {
	n = nonneg(n)
	u := e.unit()
	var s int64
	switch n % 3 {
	case 0:
		s = e.size - u
	case 1:
		s = (e.size/e.segSize - 1) * e.segSize
	default:
		s = e.segSize - u
	}
	s = s / u * u
	if s >= e.size {
		return 0
	}
	return s
}

// tooBig bounds the growth of a case: three segments more than it started with, 64 MiB of real memory.
func (e *env) tooBig(s int64) bool {
	return s/e.segSize > int64(e.segs0+3) || (e.sp == nil && s > 64<<20)
}

// refused: NewBlocks on a buffer of this size must fail with ErrInvalid.
func (e *env) refused(buf cbytes.Buffer, size int64, where string) *vstat.Violation {
	e.info.ReopenRefused = true
	b, err := cbytes.NewBlocks(e.bs, buf, e.c.Fit)
	if err == nil || b != nil {
		return vstat.V("blocks:ctor-bad-size-accepted", "%s: NewBlocks(bs=%d, %d bytes, fit=%v) returned (%v, %v): a buffer smaller than a segment (%d), or not a multiple of it under fit, must be refused", where, e.bs, size, e.c.Fit, b, err, e.segSize)
	}
	if !isInvalid(err) {
		return vstat.V("blocks:ctor-wrong-error", "%s: NewBlocks(bs=%d, %d bytes, fit=%v): error %v is not of class ErrInvalid", where, e.bs, size, e.c.Fit, err)
	}
	return nil
}

// copyBuf is a fresh in-memory (or sparse) buffer of the given size that starts with the current bytes.
func (e *env) copyBuf(size int64) cbytes.Buffer {
	if e.sp != nil {
		return e.sp.cloneSized(size)
	}
	cp := cbytes.NewInMemBytes(int(size))
	dst, _ := cp.Buffer(0, int(size))
	copy(dst, e.base)
	return cp
}

// grow enlarges the buffer of the live allocator through Blocks.Bytes().Grow and goes on with the same allocator.
func (e *env) grow(n int, where string) *vstat.Violation {
	s := e.biggerSize(n)
	u := e.unit()
	if _, ok := e.geoOf(s); !ok {
		// fit: mostly keep the buffer a multiple of the segment (a file cannot shrink again: always)
		if e.mmap || nonneg(n)%8 < 6 {
			s = (e.size/e.segSize + 1) * e.segSize
		}
		if s%u != 0 {
			return nil
		}
	}
	if e.tooBig(s) {
		return nil
	}
	buf := e.b.Bytes()
	if err := buf.Grow(s); err != nil {
		panic(fmt.Sprintf("environment: Bytes().Grow(%d) of a %d byte buffer failed: %v", s, e.size, err))
	}
	if got := buf.Size(); got != s {
		panic(fmt.Sprintf("environment: Bytes().Size()=%d after Grow(%d)", got, s))
	}
	where += fmt.Sprintf(" (after Bytes().Grow from %d to %d bytes)", e.size, s)
	e.size = s
	e.info.Grown = true
	e.grownLive = true
	bsegs, ok := e.geoOf(s)
	e.ensure(bsegs)
	if bsegs > e.segs {
		e.info.GrowSeg = true
	}
	// the live allocator may keep the geometry it was opened with or adopt the one of the larger buffer
	if got := e.b.Count(); got != e.count {
		if !ok || got != bsegs*e.per {
			return vstat.V("blocks:count", "%s: Count()=%d, neither the %d of the geometry it was opened with nor that of a %d byte buffer", where, got, e.count, s)
		}
		e.setGeometry(bsegs)
	}
	return e.attach(where)
}

// reopen continues the case on a second allocator (see Op "r").
func (e *env) reopen(where string, how int) *vstat.Violation {
	closed := false
	if how <= -2 {
		var v *vstat.Violation
		if closed, v = e.prefixProbe(where, -how-2); v != nil {
			return v
		}
		if !closed {
			return nil // in memory a pure probe: the live allocator goes on
		}
		how = 0
	}
	newSize := e.size
	if how > 0 {
		s := e.biggerSize(how - 1)
		_, ok := e.geoOf(s)
		switch {
		case e.tooBig(s):
		case !ok && e.mmap: // extending the file cannot be undone: not to a size that is bound to be refused
		case !ok:
			if v := e.refused(e.copyBuf(s), s, where+" (bytes followed by zero bytes)"); v != nil {
				return v
			}
		default:
			newSize = s
		}
	}
	if _, ok := e.geoOf(newSize); !ok {
		// a Grow of the live buffer has broken the fit: a fresh allocator must be refused, the live one goes on
		return e.refused(&fakeBuf{size: newSize}, newSize, where)
	}
	if newSize > e.size && e.nalloc > 0 {
		e.info.ReopenLarger = true
		if newSize/e.segSize > e.size/e.segSize {
			e.info.ReopenMoreSegs = true
		}
	}
	var buf cbytes.Buffer
	if e.mmap {
		if !closed {
			if err := e.b.Close(); err != nil {
				return vstat.V("blocks:close-error", "%s: Close of the mapped file failed: %v", where, err)
			}
			e.mm = nil
		}
		msize := int64(-1)
		if newSize > e.size {
			msize = newSize
		} else if how == -1 {
			msize = e.size
			e.info.ReopenExplicit = true
		}
		mm, err := files.NewMMFile(e.fn, msize)
		if err != nil {
			panic(fmt.Sprintf("environment: cannot map the scratch file again (size %d): %v", msize, err))
		}
		e.mm = mm
		if mm.Size() != newSize {
			return vstat.V("blocks:file-size-changed", "%s: the file of %d bytes mapped again with size %d has %d bytes, want %d", where, e.size, msize, mm.Size(), newSize)
		}
		buf = mm
	} else if e.sp != nil {
		e.sp = e.sp.cloneSized(newSize)
		buf = e.sp
	} else {
		buf = e.copyBuf(newSize)
	}
	if newSize != e.size {
		where += fmt.Sprintf(" (the %d bytes followed by zero bytes to %d)", e.size, newSize)
	}
	e.size = newSize
	b, err := cbytes.NewBlocks(e.bs, buf, e.c.Fit)
	if err != nil || b == nil {
		return vstat.V("blocks:reopen-rejected", "%s: NewBlocks on the same bytes failed: %v", where, err)
	}
	e.b = b
	e.grownLive = false
	segs, _ := e.geoOf(e.size)
	e.setGeometry(segs)
	return e.attach(where + " (reopened)")
}

// prefixProbe opens an allocator on a prefix of the bytes. In memory (and sparse) it is the full reopen probe on a
// copy; for mmap the live allocator is closed (closed=true), the file is mapped with the smaller size and the
// allocator on it is only looked at (it writes through to the file).
func (e *env) prefixProbe(where string, class int) (closed bool, v *vstat.Violation) {
	s := e.smallerSize(class)
	if s <= 0 {
		return false, nil
	}
	psegs, ok := e.geoOf(s)
	pcount := psegs * e.per
	pn := 0
	for i := 0; i < psegs; i++ {
		pn += e.segAlloc[i]
	}
	where += fmt.Sprintf(" (the first %d of the %d bytes)", s, e.size)
	if ok {
		e.info.ReopenPrefix = true
	}
	if !e.mmap {
		if !ok {
			return false, e.refused(e.copyBuf(s), s, where)
		}
		var sample []int
		if e.compact || (e.sampled && e.alist != nil) {
			sample = e.allocSample(pcount)
		}
		return false, snapshotProbe(func() cbytes.Buffer { return e.copyBuf(s) }, e.bs, e.c.Fit, pcount, e.alloc.get, pn, where, 3, sample, e.compact)
	}
	if err := e.b.Close(); err != nil {
		return true, vstat.V("blocks:close-error", "%s: Close of the mapped file failed: %v", where, err)
	}
	e.mm = nil
	mm, err := files.NewMMFile(e.fn, s)
	if err != nil {
		panic(fmt.Sprintf("environment: cannot map the scratch file again (size %d): %v", s, err))
	}
	e.mm = mm
	if mm.Size() != s {
		return true, vstat.V("blocks:file-size-changed", "%s: the mapping has %d bytes", where, mm.Size())
	}
	if !ok {
		v = e.refused(mm, s, where)
	} else if b, err := cbytes.NewBlocks(e.bs, mm, e.c.Fit); err != nil || b == nil {
		v = vstat.V("blocks:reopen-rejected", "%s: NewBlocks failed: %v", where, err)
	} else if b.Count() != pcount {
		v = vstat.V("blocks:reopen-count", "%s: Count()=%d want %d whole segment(s) = %d", where, b.Count(), psegs, pcount)
	} else if b.Available() != pcount-pn {
		v = vstat.V("blocks:reopen-available", "%s: Available()=%d, but %d of the %d blocks of these segment(s) are allocated", where, b.Available(), pn, pcount)
	}
	mm.Close()
	e.mm = nil
	return true, v
}

// allocSample: allocated indexes below count for the FreeBlock side of the reopen probe of a compact case.
func (e *env) allocSample(count int) []int {
	out := []int{}
	if !e.compact {
		for _, i := range e.alist {
			if i < count {
				out = append(out, i)
			}
		}
		return out
	}
	seen := map[int]bool{}
	add := func(i int) {
		if i >= 0 && i < count && e.alloc.get(i) && !seen[i] {
			seen[i] = true
			out = append(out, i)
		}
	}
	for _, i := range e.recent {
		add(i)
	}
	for _, i := range sampleIndexes(e.bs, count/e.per, count) {
		add(i - 1)
		add(i)
		add(i + 1)
	}
	return out
}

// snapshot is the non-destructive reopen comparison: a fresh allocator on a copy of the bytes must report the
// same Count and Available, and the allocated set recovered from it by probing must equal the model.
// mode bit 1: FreeBlock(i) succeeds <=> i allocated; mode bit 2: ArrangeBlock until exhausted yields the complement.
// After a Grow the geometry of the copy is that of the larger buffer: the blocks of the added segments are free.
func (e *env) snapshot(where string, mode int) *vstat.Violation {
	e.info.Snapshots++
	bsegs, ok := e.geoOf(e.size)
	if !ok {
		return e.refused(&fakeBuf{size: e.size}, e.size, where+": an allocator on a copy of the bytes")
	}
	bcount := bsegs * e.per
	var sample []int
	if e.compact || (e.sampled && e.alist != nil) {
		sample = e.allocSample(bcount)
	}
	return snapshotProbe(func() cbytes.Buffer { return e.copyBuf(e.size) }, e.bs, e.c.Fit, bcount, e.alloc.get, e.nalloc, where, mode, sample, e.compact)
}

func snapshotCheck(base []byte, bs int, fit bool, count int, allocated []bool, nalloc int, where string, mode int) *vstat.Violation {
	alloc := func(i int) bool { return allocated[i] }
	return snapshotProbe(func() cbytes.Buffer {
		cp := cbytes.NewInMemBytes(len(base))
		dst, _ := cp.Buffer(0, len(base))
		copy(dst, base)
		return cp
	}, bs, fit, count, alloc, nalloc, where, mode, nil, false)
}

// snapshotProbe: mk returns a fresh copy of the bytes. With sample != nil (large sparse geometries, compact cases)
// the FreeBlock probe visits these allocated indexes and a sample of the free ones instead of all indexes; the
// ArrangeBlock probe determines the complement exactly in any case (compact: unless more than 2^18 blocks are free).
func snapshotProbe(mk func() cbytes.Buffer, bs int, fit bool, count int, alloc func(int) bool, nalloc int, where string, mode int, sample []int, compact bool) *vstat.Violation {
	open := func() (*cbytes.Blocks, *vstat.Violation) {
		r, err := cbytes.NewBlocks(bs, mk(), fit)
		if err != nil || r == nil {
			return nil, vstat.V("blocks:reopen-rejected", "%s: NewBlocks on a copy of the bytes failed: %v", where, err)
		}
		if r.Count() != count {
			return nil, vstat.V("blocks:reopen-count", "%s: an allocator opened on a copy of the bytes has Count()=%d, want %d", where, r.Count(), count)
		}
		if r.Available() != count-nalloc {
			return nil, vstat.V("blocks:reopen-available", "%s: an allocator opened on a copy of the bytes has Available()=%d, want Count-allocated=%d-%d=%d", where, r.Available(), count, nalloc, count-nalloc)
		}
		return r, nil
	}
	if mode&1 != 0 {
		r, v := open()
		if v != nil {
			return v
		}
		probe := func(i int) *vstat.Violation {
			err := r.FreeBlock(i)
			if (err == nil) != alloc(i) {
				return vstat.V("blocks:reopen-state", "%s: on a copy of the bytes FreeBlock(%d) returned %v, but allocated(%d)=%v in the model: the bytes do not carry the allocation state", where, i, err, i, alloc(i))
			}
			return nil
		}
		if sample == nil {
			for i := 0; i < count; i++ {
				if v := probe(i); v != nil {
					return v
				}
			}
			if r.Available() != count {
				return vstat.V("blocks:reopen-available", "%s: on a copy of the bytes, after freeing every allocated block Available()=%d want %d", where, r.Available(), count)
			}
		} else {
			// free indexes first (they must be refused while everything else is still allocated), then the allocated ones
			for _, i := range sampleIndexes(bs, count/(bs*8), count) {
				for d := -1; d <= 1; d++ {
					if j := i + d; j >= 0 && j < count && !alloc(j) {
						if v := probe(j); v != nil {
							return v
						}
					}
				}
			}
			for _, i := range sample {
				if v := probe(i); v != nil {
					return v
				}
			}
			if want := count - nalloc + len(sample); r.Available() != want {
				return vstat.V("blocks:reopen-available", "%s: on a copy of the bytes, after freeing %d allocated blocks Available()=%d want %d", where, len(sample), r.Available(), want)
			}
		}
	}
	if mode&2 != 0 && !(compact && count-nalloc > 1<<18) {
		r, v := open()
		if v != nil {
			return v
		}
		var seen []bool
		var seenM map[int]bool
		if compact {
			seenM = map[int]bool{}
		} else {
			seen = make([]bool, count)
		}
		n := 0
		for {
			idx, err := r.ArrangeBlock()
			if err != nil {
				if !isExhausted(err) {
					return vstat.V("blocks:reopen-arrange-error", "%s: on a copy of the bytes ArrangeBlock failed with %v", where, err)
				}
				break
			}
			if idx < 0 || idx >= count {
				return vstat.V("blocks:reopen-state", "%s: on a copy of the bytes ArrangeBlock returned %d, outside [0,%d)", where, idx, count)
			}
			if alloc(idx) {
				return vstat.V("blocks:reopen-state", "%s: on a copy of the bytes ArrangeBlock returned %d, which is allocated in the model: the bytes do not carry the allocation state", where, idx)
			}
			if (compact && seenM[idx]) || (!compact && seen[idx]) {
				return vstat.V("blocks:reopen-state", "%s: on a copy of the bytes ArrangeBlock returned %d twice", where, idx)
			}
			if compact {
				seenM[idx] = true
			} else {
				seen[idx] = true
			}
			n++
		}
		if n != count-nalloc {
			return vstat.V("blocks:reopen-state", "%s: on a copy of the bytes ArrangeBlock handed out %d blocks before ErrExhausted, the model has %d free", where, n, count-nalloc)
		}
	}
	return nil
}

// ---------------------------------------------------------------------------------------------
// constructor cases

// CtorCase is one NewBlocks call. Fake: the buffer only reports its size and hands out zero bytes
// (forced for sizes above 4 MiB).
type CtorCase struct {
	BS   int   `json:"bs"`
	Size int64 `json:"size"`
	Fit  bool  `json:"fit"`
	Fake bool  `json:"fake,omitempty"`
}

// CtorInfo classifies a constructor case.
type CtorInfo struct {
	InvalidBS, TooSmall, FitMismatch, Accepted bool
}

func (i CtorInfo) Classes() []string {
	switch {
	case i.InvalidBS:
		return []string{"ctor_invalid_block_size", "geometry_rejected"}
	case i.TooSmall:
		return []string{"ctor_buffer_below_one_segment", "geometry_rejected"}
	case i.FitMismatch:
		return []string{"ctor_fit_not_a_multiple", "geometry_rejected"}
	}
	return []string{"ctor_accepted"}
}

type fakeBuf struct{ size int64 }

func (f *fakeBuf) Close() error     { return nil }
func (f *fakeBuf) Size() int64      { return f.size }
func (f *fakeBuf) Grow(int64) error { return gerrors.ErrUnimplemented }
func (f *fakeBuf) String() string   { return fmt.Sprintf("fakeBuf{size=%d}", f.size) }
func (f *fakeBuf) Buffer(offs int64, size int) ([]byte, error) {
	if offs < 0 || offs >= f.size {
		return nil, fmt.Errorf("offs=%d out of bounds [0..%d): %w", offs, f.size, gerrors.ErrInvalid)
	}
	if offs+int64(size) > f.size {
		size = int(f.size - offs)
	}
	return make([]byte, size), nil
}

// RunCtor checks one constructor call.
func RunCtor(c CtorCase) (info CtorInfo, v *vstat.Violation) {
	return info, vstat.Guard("blocks:ctor-panic", func() *vstat.Violation { return runCtor(c, &info) })
}

func runCtor(c CtorCase, info *CtorInfo) *vstat.Violation {
	size := max(c.Size, 0)
	valid := ValidBS(c.BS)
	var segSize int64
	segs := int64(0)
	huge := valid && !SegSizeFits(c.BS)
	if valid && !huge {
		segSize = SegSize(c.BS)
		segs = size / segSize
		if segs > 4096 {
			panic("constructor case with more than 4096 segments: generator error")
		}
	}
	var buf cbytes.Buffer
	fake := c.Fake || size > 4<<20
	if fake {
		buf = &fakeBuf{size: size}
	} else {
		buf = cbytes.NewInMemBytes(int(size))
	}
	call := fmt.Sprintf("NewBlocks(bs=%d, buffer of %d bytes, fit=%v)", c.BS, size, c.Fit)
	b, err := cbytes.NewBlocks(c.BS, buf, c.Fit)
	reject := ""
	switch {
	case !valid:
		info.InvalidBS = true
		reject = fmt.Sprintf("block size %d is neither a power of two below the page size %d nor a multiple of it", c.BS, os.Getpagesize())
	case huge:
		info.TooSmall = true
		reject = fmt.Sprintf("one segment of %d*8+1 blocks of %d bytes is larger than any buffer (its size does not fit an int64)", c.BS, c.BS)
	case segs < 1:
		info.TooSmall = true
		reject = fmt.Sprintf("the buffer is smaller than one segment (%d bytes)", segSize)
	case c.Fit && size%segSize != 0:
		info.FitMismatch = true
		reject = fmt.Sprintf("fit is set and the size is not a multiple of the segment (%d bytes)", segSize)
	}
	if reject != "" {
		if b != nil || err == nil {
			desc := "nil"
			if b != nil {
				desc = fmt.Sprintf("an allocator with Count()=%d Segments()=%d", b.Count(), b.Segments())
			}
			return vstat.V("blocks:ctor-invalid-accepted", "%s returned (%s, %v) although %s: want (nil, ErrInvalid)", call, desc, err, reject)
		}
		if !isInvalid(err) {
			return vstat.V("blocks:ctor-wrong-error", "%s: %s, but the error %v is not of class ErrInvalid", call, reject, err)
		}
		return nil
	}
	info.Accepted = true
	if err != nil || b == nil {
		return vstat.V("blocks:ctor-rejects-valid", "%s failed with (%v, %v) although the geometry is valid (%d segment(s) of %d bytes)", call, b, err, segs, segSize)
	}
	want := int(segs) * c.BS * 8
	if b.Count() != want {
		return vstat.V("blocks:count", "%s: Count()=%d want segments*bs*8=%d", call, b.Count(), want)
	}
	if b.Available() != want {
		return vstat.V("blocks:available", "%s on zero bytes: Available()=%d want Count()=%d", call, b.Available(), want)
	}
	if !fake {
		idx, err := b.ArrangeBlock()
		if err != nil || idx < 0 || idx >= want {
			return vstat.V("blocks:arrange-error", "%s: the first ArrangeBlock returned (%d, %v)", call, idx, err)
		}
		if b.Available() != want-1 {
			return vstat.V("blocks:available", "%s: Available()=%d after one ArrangeBlock, want %d", call, b.Available(), want-1)
		}
	}
	return nil
}
