package p_blocks

import (
	"encoding/json"
	"fmt"
	"strings"
	"testing"

	"pgregory.net/rapid"
	"verifharness/internal/enum"
	"verifharness/internal/vstat"
)

const prop = "C17"

func TestMain(m *testing.M) { vstat.Main(m) }

func record(c Case, info Info) {
	vstat.For(prop).Case(info.NonTrivial(), c.Hash(), func() any { return c }, info.Classes()...)
	vstat.For(prop).AddExtra("reopen_snapshots_compared", int64(info.Snapshots))
}

func recordCtor(c CtorCase, info CtorInfo) {
	vstat.For(prop).Case(!info.Accepted, vstat.Hash(c)^0x5bd1e995, func() any { return c }, info.Classes()...)
}

func recordConc(c ConcCase, info ConcInfo) {
	vstat.For(prop).Case(true, vstat.Hash(c)^0x1b873593, func() any { return c }, info.Classes()...)
	vstat.For(prop).AddExtra("concurrent_arrange_calls", info.Arranged)
	if info.Late && info.LateRaced {
		vstat.For(prop).AddExtra("concurrent_arrange_free_calls_completed_after_the_first_available_call_began", info.AfterOps)
	}
}

// ---------------------------------------------------------------------------------------------

type exhGeo struct {
	BS, Segs, Over int
	Fit            bool
	Depth          int
}

func TestC17Exhaustive(t *testing.T) {
	st := vstat.For(prop)
	shard, shards := vstat.Shard()
	d := vstat.Pick(5, 6)
	geos := []exhGeo{
		{1, 1, 0, true, d}, {1, 2, 0, true, d}, {2, 1, 33, false, d}, {2, 2, 0, true, d},
		{1, 2, 8, false, d - 1}, {1, 3, 0, false, d - 1}, {2, 3, 1, false, d - 1}, {4, 2, 0, true, d - 1},
	}
	alpha := Alphabet()
	total := int64(0)
	parts := []map[string]any{}
	for _, g := range geos {
		ops := make([]Op, 0, g.Depth)
		n := enum.Lists(len(alpha), g.Depth, shard, shards, func(idx []int) {
			ops = ops[:0]
			for _, i := range idx {
				ops = append(ops, alpha[i])
			}
			c := Case{BS: g.BS, Segs: g.Segs, Over: g.Over, Fit: g.Fit, Backend: "inmem", Ops: ops}
			info, v := Run(c)
			if v != nil {
				c.Ops = append([]Op(nil), ops...)
				st.Report(t, "TestC17Exhaustive", c, v)
			}
			if info.NonTrivial() {
				c.Ops = append([]Op(nil), ops...)
			}
			record(c, info)
		})
		total += n
		parts = append(parts, map[string]any{"bs": g.BS, "segments": g.Segs, "oversize": g.Over, "fit": g.Fit, "depth": g.Depth, "lists": n})
	}
	st.SetExhaustive("blocks_oplists", map[string]any{"alphabet": alpha, "geometries": parts, "lists": total, "shards": shards})

	// second part: histories in which the buffer of the live allocator grows, and reopens on more / fewer bytes
	gd := vstat.Pick(4, 5)
	galpha := GrowAlphabet()
	gtotal := int64(0)
	gparts := []map[string]any{}
	for _, g := range []exhGeo{{1, 1, 0, false, gd}, {1, 2, 0, true, gd}, {2, 1, 3, false, gd}, {1, 1, 0, false, gd}} {
		pre := 0
		if len(gparts) == 3 {
			pre = -1 // the same, starting from headers preset to full
		}
		ops := make([]Op, 0, g.Depth)
		n := enum.Lists(len(galpha), g.Depth, shard, shards, func(idx []int) {
			ops = ops[:0]
			for _, i := range idx {
				ops = append(ops, galpha[i])
			}
			c := Case{BS: g.BS, Segs: g.Segs, Over: g.Over, Fit: g.Fit, Backend: "inmem", Pre: pre, Ops: ops}
			info, v := Run(c)
			if v != nil || info.NonTrivial() {
				c.Ops = append([]Op(nil), ops...)
			}
			if v != nil {
				st.Report(t, "TestC17Exhaustive", c, v)
			}
			record(c, info)
		})
		gtotal += n
		gparts = append(gparts, map[string]any{"bs": g.BS, "segments": g.Segs, "oversize": g.Over, "fit": g.Fit, "preset_full": pre != 0, "depth": g.Depth, "lists": n})
	}
	st.SetExhaustive("blocks_oplists_grow", map[string]any{"alphabet": galpha, "geometries": gparts, "lists": gtotal, "shards": shards})
}

// ---------------------------------------------------------------------------------------------

// opGen: reopen 0 = no reopen and no Grow (large block sizes), 1 = the usual share, 2 = the mix of the mmap unit (more
// Grow, more reopens, and most of those with another mapping size than the file has).
func opGen(reopen int) *rapid.Generator[Op] {
	allowReopen := reopen > 0
	return rapid.Custom(func(t *rapid.T) Op {
		k := rapid.IntRange(0, 99).Draw(t, "kind")
		switch {
		case k < 22:
			return Op{K: "a"}
		case k < 26:
			if reopen == 2 {
				return Op{K: "g", N: rapid.IntRange(0, 15).Draw(t, "n")}
			}
			return Op{K: "a"}
		case k < 28:
			if reopen == 2 {
				return reopenOp(t, true)
			}
			if allowReopen {
				return Op{K: "g", N: rapid.IntRange(0, 15).Draw(t, "n")}
			}
			return Op{K: "a"}
		case k < 36:
			return Op{K: "fill", N: rapid.OneOf(rapid.IntRange(0, 12), rapid.SampledFrom([]int{8, 16, 24, 64})).Draw(t, "n")}
		case k < 40:
			return Op{K: "fill", N: rapid.IntRange(-4, -1).Draw(t, "n")}
		case k < 60:
			return Op{K: "fa", N: rapid.OneOf(rapid.IntRange(-3, 3), rapid.IntRange(0, 1<<16)).Draw(t, "n")}
		case k < 63:
			return Op{K: "drain", N: rapid.IntRange(-3, 12).Draw(t, "n")}
		case k < 69:
			return Op{K: "ff", N: rapid.OneOf(rapid.IntRange(0, 40), rapid.IntRange(0, 1<<16)).Draw(t, "n")}
		case k < 72:
			return Op{K: "fo", N: rapid.OneOf(rapid.IntRange(0, 9), rapid.IntRange(0, 1<<40)).Draw(t, "n")}
		case k < 75:
			return Op{K: "fn", N: rapid.OneOf(rapid.IntRange(0, 9), rapid.IntRange(0, 1<<40)).Draw(t, "n")}
		case k < 88:
			return Op{K: "b", N: rapid.OneOf(rapid.IntRange(0, 40), rapid.IntRange(0, 1<<16)).Draw(t, "n")}
		case k < 91:
			return Op{K: "bo", N: rapid.OneOf(rapid.IntRange(-9, 9), rapid.IntRange(-1<<40, 1<<40)).Draw(t, "n")}
		default:
			if allowReopen {
				return reopenOp(t, reopen == 2)
			}
			return Op{K: "a"}
		}
	})
}

// reopenOp: mostly on the same bytes; also with the explicit size, on the bytes followed by zero bytes, on a prefix.
// sizes (the mmap unit): mostly with another mapping size than the file has.
func reopenOp(t *rapid.T, sizes bool) Op {
	same, explicit, larger := 12, 13, 17
	if sizes {
		same, explicit, larger = 5, 8, 16
	}
	switch j := rapid.IntRange(0, 19).Draw(t, "reopenKind"); {
	case j < same:
		return Op{K: "r"}
	case j < explicit:
		return Op{K: "r", N: -1}
	case j < larger:
		return Op{K: "r", N: 1 + rapid.IntRange(0, 7).Draw(t, "larger")}
	default:
		return Op{K: "r", N: -2 - rapid.IntRange(0, 5).Draw(t, "prefix")}
	}
}

func genOver(t *rapid.T, bs int, fit bool) int {
	seg := int(SegSize(bs))
	if fit && rapid.IntRange(0, 9).Draw(t, "fitExact") < 9 {
		return 0
	}
	switch rapid.IntRange(0, 5).Draw(t, "overClass") {
	case 0, 1:
		return 0
	case 2:
		return 1
	case 3:
		return seg - 1
	case 4:
		return bs
	default:
		return rapid.IntRange(0, seg-1).Draw(t, "over")
	}
}

// genOps draws an op list; rapid's own slice lengths are short, so half of the lists get a drawn minimum length.
func genOps(t *rapid.T, g *rapid.Generator[Op], maxLen int) []Op {
	minLen := 0
	if rapid.Bool().Draw(t, "long") {
		minLen = rapid.IntRange(0, maxLen).Draw(t, "minLen")
	}
	return rapid.SliceOfN(g, minLen, maxLen).Draw(t, "ops")
}

func withPrefill(t *rapid.T, ops []Op) []Op {
	switch rapid.IntRange(0, 5).Draw(t, "prefill") {
	case 0:
		return append([]Op{{K: "fill", N: -1}}, ops...)
	case 1:
		return append([]Op{{K: "fill", N: -1 - rapid.IntRange(1, 9).Draw(t, "leave")}}, ops...)
	}
	return ops
}

func genCase(t *rapid.T) Case {
	var bs int
	switch k := rapid.IntRange(0, 99).Draw(t, "bsClass"); {
	case k < 40:
		bs = rapid.SampledFrom([]int{1, 2, 4, 8}).Draw(t, "bs")
	case k < 80:
		bs = rapid.SampledFrom([]int{16, 32, 64}).Draw(t, "bs")
	case k < 96:
		bs = rapid.SampledFrom([]int{128, 256}).Draw(t, "bs")
	case k < 99:
		bs = 512
	default:
		bs = 1024
	}
	maxSegs := 3
	if bs == 512 {
		maxSegs = 2
	} else if bs == 1024 {
		maxSegs = 1
	}
	segs := rapid.IntRange(1, maxSegs).Draw(t, "segs")
	fit := rapid.Bool().Draw(t, "fit")
	over := genOver(t, bs, fit)
	maxLen := vstat.Pick(150, 300)
	if bs >= 512 {
		maxLen = 60
	}
	reopen := 1
	if bs >= 512 {
		reopen = 0
	}
	ops := genOps(t, opGen(reopen), maxLen)
	ops = withPrefill(t, ops)
	c := Case{BS: bs, Segs: segs, Over: over, Fit: fit, Backend: "inmem", Ops: ops}
	if rapid.IntRange(0, 15).Draw(t, "preset") == 0 {
		// start from headers preset to full: here every probe of the small geometries runs on that state
		c.Pre = rapid.SampledFrom([]int{-1, -1, 1, 2}).Draw(t, "pre")
	}
	return c
}

func TestC17Rapid(t *testing.T) {
	st := vstat.For(prop)
	rapid.Check(t, func(t *rapid.T) {
		c := genCase(t)
		info, v := Run(c)
		st.Report(t, "TestC17Rapid", c, v)
		record(c, info)
	})
}

// ---------------------------------------------------------------------------------------------

func genMmapCase(t *rapid.T) Case {
	var c Case
	c.Backend = "mmap"
	if rapid.IntRange(0, 19).Draw(t, "exactFit") == 0 {
		// the smallest exact-fit geometries whose size is a multiple of 4096
		g := rapid.SampledFrom([][2]int{{64, 64}, {128, 32}, {256, 16}}).Draw(t, "fitGeo")
		c.BS, c.Segs, c.Fit = g[0], g[1], rapid.Bool().Draw(t, "fit")
	} else {
		c.BS = rapid.SampledFrom([]int{1, 2, 4, 8, 16, 32, 64, 128}).Draw(t, "bs")
		seg := SegSize(c.BS)
		minPages := int((seg + 4095) / 4096)
		maxPages := minPages + 3
		if rapid.IntRange(0, 24).Draw(t, "tooSmall") == 0 && minPages > 1 {
			minPages, maxPages = 1, minPages-1
		}
		size := int64(rapid.IntRange(minPages, maxPages).Draw(t, "pages")) * 4096
		c.Segs = int(size / seg)
		c.Over = int(size % seg)
		c.Fit = rapid.IntRange(0, 19).Draw(t, "fit") == 0
	}
	c.Ops = withPrefill(t, genOps(t, opGen(2), vstat.Pick(60, 120)))
	if rapid.IntRange(0, 15).Draw(t, "preset") == 0 {
		c.Pre = -1
	}
	return c
}

func TestC17Mmap(t *testing.T) {
	st := vstat.For(prop)
	rapid.Check(t, func(t *rapid.T) {
		c := genMmapCase(t)
		info, v := Run(c)
		st.Report(t, "TestC17Mmap", c, v)
		record(c, info)
	})
}

// ---------------------------------------------------------------------------------------------

// sparseBS are page-multiple block sizes (segments of 134 MB .. 4.8 GB) run on the sparse buffer; 3, 5 and 6 pages
// are not powers of two, so blocks-per-segment (8*bs) is not a power of two either.
var sparseBS = []int{4096, 8192, 12288, 20480, 24576}

// interesting in-segment index values: byte and 2^15 / 2^16 boundaries
var sparseMarks = []int{0, 7, 8, 4095, 4096, 32767, 32768, 32769, 40000, 65535, 65536, 65537, 69999}

func genSparseCase(t *rapid.T) Case {
	c := Case{Backend: "sparse", NoStamp: true}
	c.BS = rapid.SampledFrom(sparseBS).Draw(t, "bs")
	c.Segs = rapid.IntRange(1, 2).Draw(t, "segs")
	c.Fit = rapid.Bool().Draw(t, "fit")
	if !c.Fit {
		c.Over = rapid.SampledFrom([]int{0, 0, 1, c.BS, 5 * c.BS}).Draw(t, "over")
	}
	per := c.BS * 8
	count := per * c.Segs
	idxGen := rapid.OneOf(
		rapid.Custom(func(t *rapid.T) int {
			return rapid.SampledFrom(sparseMarks).Draw(t, "mark") + rapid.IntRange(-2, 2).Draw(t, "d")
		}),
		rapid.Custom(func(t *rapid.T) int {
			return rapid.SampledFrom([]int{per, per + 32768, per + 65536, count}).Draw(t, "segMark") + rapid.IntRange(-3, 2).Draw(t, "d")
		}),
		rapid.IntRange(0, 70000),
		rapid.IntRange(0, count-1),
	)
	op := rapid.Custom(func(t *rapid.T) Op {
		switch k := rapid.IntRange(0, 99).Draw(t, "kind"); {
		case k < 22:
			return Op{K: "a"}
		case k < 25:
			return Op{K: "g", N: rapid.IntRange(0, 15).Draw(t, "n")}
		case k < 33:
			return Op{K: "fill", N: rapid.IntRange(0, 40).Draw(t, "n")}
		case k < 63:
			return Op{K: "fi", N: max(0, idxGen.Draw(t, "idx"))}
		case k < 73:
			return Op{K: "fa", N: rapid.OneOf(rapid.IntRange(-3, 3), rapid.IntRange(0, 1<<17)).Draw(t, "n")}
		case k < 78:
			return Op{K: "ff", N: max(0, idxGen.Draw(t, "idx"))}
		case k < 81:
			return Op{K: "fo", N: rapid.IntRange(0, 9).Draw(t, "n")}
		case k < 83:
			return Op{K: "fn", N: rapid.IntRange(0, 9).Draw(t, "n")}
		case k < 90:
			return Op{K: "b", N: max(0, idxGen.Draw(t, "idx"))}
		case k < 92:
			return Op{K: "bo", N: rapid.IntRange(-3, 3).Draw(t, "n")}
		case k < 95:
			return Op{K: "drain", N: rapid.IntRange(0, 20).Draw(t, "n")}
		default:
			return reopenOp(t, false)
		}
	})
	// a bulk arrange first, so that the high indexes are reached cheaply
	var first int
	switch k := rapid.IntRange(0, 19).Draw(t, "bulk"); {
	case k < 2:
		first = rapid.IntRange(0, 100).Draw(t, "bulkN")
	case k < 8:
		first = rapid.SampledFrom([]int{32768, 32769, 33000, 40001}).Draw(t, "bulkN")
	case k < 16:
		first = rapid.SampledFrom([]int{65536, 65537, 66000, 70000}).Draw(t, "bulkN")
	case k < 18:
		first = rapid.IntRange(0, 70000).Draw(t, "bulkN")
	case k < 19:
		first = per + rapid.IntRange(0, 70000).Draw(t, "bulkN") // into the second segment, if there is one
	default:
		first = -1 - rapid.IntRange(0, 3).Draw(t, "leave") // (nearly) everything
	}
	c.Ops = append([]Op{{K: "fill", N: first}}, genOps(t, op, 40)...)
	return c
}

// TestC17Sparse runs page-multiple block sizes, including those that are not a power of two, with tens of
// thousands of allocated blocks on a buffer that materialises only the touched blocks.
func TestC17Sparse(t *testing.T) {
	st := vstat.For(prop)
	if shard, _ := vstat.Shard(); shard == 0 {
		// grid: fill to 70000, free one block at each mark, allocate again, free its neighbours, allocate, reopen, allocate
		n := 0
		reported := map[string]bool{}
		for _, bs := range sparseBS {
			for _, m := range sparseMarks {
				c := Case{BS: bs, Segs: 1, Fit: true, Backend: "sparse", NoStamp: true, Ops: []Op{
					{K: "fill", N: 70000}, {K: "fi", N: m}, {K: "a"}, {K: "fi", N: m}, {K: "fi", N: m + 1}, {K: "fill", N: 3},
					{K: "b", N: m}, {K: "fi", N: m}, {K: "r"}, {K: "fill", N: 2}, {K: "ff", N: m}}}
				info, v := Run(c)
				if v != nil && !reported[v.Sig] {
					reported[v.Sig] = true
					name := "TestC17Sparse." + strings.TrimPrefix(v.Sig, "blocks:")
					t.Run(name, func(t *testing.T) { st.Report(t, name, c, v) })
				}
				record(c, info)
				n++
			}
		}
		st.SetExhaustive("sparse_grid", map[string]any{"block_sizes": sparseBS, "freed_indexes": sparseMarks, "allocated": 70000, "cases": n})
	}
	t.Run("rapid", func(t *testing.T) {
		rapid.Check(t, func(t *rapid.T) {
			c := genSparseCase(t)
			info, v := Run(c)
			st.Report(t, "TestC17Sparse", c, v)
			record(c, info)
		})
	})
}

// genHugeCase: geometries around 2^24 and 2^25 (thorough: 2^26) blocks - hundreds of page-multiple segments on the
// sparse buffer, or millions of 9- and 34-byte segments in real memory - that start (nearly) full: the headers are
// preset to what the allocator leaves in a full segment (Case.Pre), holes are made with FreeBlock, and the op list
// works at the edge of exhaustion, grows the buffer and reopens it.
func genHugeCase(t *rapid.T) Case {
	c := Case{NoStamp: true}
	k := rapid.SampledFrom(vstat.Pick([]int{24, 24, 24, 25}, []int{24, 24, 25, 25, 26})).Draw(t, "log2")
	if rapid.IntRange(0, 9).Draw(t, "dense") == 0 {
		c.Backend, k = "inmem", 24
		c.BS = rapid.SampledFrom([]int{1, 1, 2}).Draw(t, "bs")
	} else {
		c.Backend = "sparse"
		c.BS = rapid.SampledFrom(sparseBS).Draw(t, "bs")
	}
	per := c.BS * 8
	thr := 1 << k
	c.Segs = (thr+per-1)/per + rapid.SampledFrom([]int{-1, 0, 1, 1, 1, 2, 3}).Draw(t, "segsDelta")
	c.Fit = rapid.Bool().Draw(t, "fit")
	if !c.Fit {
		c.Over = rapid.SampledFrom([]int{0, 0, 1, c.BS, 5 * c.BS}).Draw(t, "over")
	}
	count := c.Segs * per
	switch rapid.IntRange(0, 9).Draw(t, "preClass") {
	case 0:
		c.Pre = c.Segs - 1 // the last segment is empty
	case 1:
		c.Pre = c.Segs - 2
	default:
		c.Pre = -1
	}
	idxGen := rapid.OneOf(
		rapid.Custom(func(t *rapid.T) int {
			m := rapid.SampledFrom([]int{0, 8, per, 1 << 24, 1 << 25, thr, count / 2, count - per, count - 1}).Draw(t, "mark")
			return max(0, m+rapid.IntRange(-3, 3).Draw(t, "d"))
		}),
		rapid.IntRange(0, count-1),
	)
	op := rapid.Custom(func(t *rapid.T) Op {
		switch k := rapid.IntRange(0, 99).Draw(t, "kind"); {
		case k < 35:
			return Op{K: "a"}
		case k < 40:
			return Op{K: "fill", N: rapid.IntRange(0, 6).Draw(t, "n")}
		case k < 45:
			return Op{K: "fill", N: rapid.IntRange(-3, -1).Draw(t, "n")}
		case k < 65:
			return Op{K: "fi", N: idxGen.Draw(t, "idx")}
		case k < 71:
			return Op{K: "ff", N: idxGen.Draw(t, "idx")}
		case k < 73:
			return Op{K: "fo", N: rapid.IntRange(0, 9).Draw(t, "n")}
		case k < 75:
			return Op{K: "fn", N: rapid.IntRange(0, 9).Draw(t, "n")}
		case k < 83:
			return Op{K: "b", N: idxGen.Draw(t, "idx")}
		case k < 85:
			return Op{K: "bo", N: rapid.IntRange(-3, 3).Draw(t, "n")}
		case k < 87:
			return Op{K: "drain", N: rapid.IntRange(0, 5).Draw(t, "n")}
		case k < 92:
			return Op{K: "g", N: rapid.IntRange(0, 15).Draw(t, "n")}
		default:
			return reopenOp(t, false)
		}
	})
	holes := rapid.SampledFrom([]int{0, 1, 1, 1, 1, 1, 2, 2, 3, 5}).Draw(t, "holes")
	for i := 0; i < holes; i++ {
		c.Ops = append(c.Ops, Op{K: "fi", N: idxGen.Draw(t, "hole")})
	}
	c.Ops = append(c.Ops, rapid.SliceOfN(op, 0, 30).Draw(t, "ops")...)
	return c
}

// TestC17Huge: more than 2^24 blocks (see genHugeCase). Shard 0 also runs a grid: for every sparse block size and
// both thresholds, the last free block of a full allocator is handed out, ErrExhausted follows, blocks freed at
// the ends and at the threshold come back, across a reopen, a reopen that adds a segment and a Grow.
func TestC17Huge(t *testing.T) {
	st := vstat.For(prop)
	if shard, _ := vstat.Shard(); shard == 0 {
		n := 0
		reported := map[string]bool{}
		do := func(c Case) {
			info, v := Run(c)
			if v != nil && !reported[v.Sig] {
				reported[v.Sig] = true
				name := "TestC17Huge." + strings.TrimPrefix(v.Sig, "blocks:")
				t.Run(name, func(t *testing.T) { st.Report(t, name, c, v) })
			}
			record(c, info)
			n++
		}
		logs := vstat.Pick([]int{24, 25}, []int{24, 25, 26})
		for _, bs := range sparseBS {
			for _, k := range logs {
				per, thr := bs*8, 1<<k
				segs := thr/per + 1
				count := segs * per
				do(Case{BS: bs, Segs: segs, Fit: true, Backend: "sparse", NoStamp: true, Pre: -1, Ops: []Op{
					{K: "a"}, {K: "fi", N: count - 1}, {K: "a"}, {K: "a"}, {K: "fi", N: 0}, {K: "fi", N: thr}, {K: "fill", N: 3},
					{K: "r"}, {K: "fi", N: per}, {K: "a"}, {K: "a"}, {K: "b", N: count - 1}, {K: "fi", N: thr - 1}, {K: "r", N: 2},
					{K: "a"}, {K: "fi", N: count}, {K: "g", N: 1}, {K: "a"}, {K: "fi", N: 5}, {K: "fill", N: -1}, {K: "a"}, {K: "r"}, {K: "a"}}})
			}
		}
		hf := 0
		if vstat.Thorough() || vstat.ReplayPath() != "" {
			// the same state reached by the allocator's own history: every block arranged one by one
			for _, g := range [][2]int{{4096, 513}, {1, 1<<21 + 1}} {
				backend := "sparse"
				if g[0] == 1 {
					backend = "inmem"
				}
				do(Case{BS: g[0], Segs: g[1], Fit: true, Backend: backend, NoStamp: true, Ops: []Op{
					{K: "fill", N: -1}, {K: "a"}, {K: "fi", N: 1 << 24}, {K: "a"}, {K: "a"}, {K: "r"}, {K: "fi", N: 3}, {K: "a"}}})
				hf++
			}
		}
		st.SetExhaustive("huge_grid", map[string]any{"block_sizes": sparseBS, "log2_thresholds": logs, "cases": n, "filled_call_by_call": hf})
	}
	t.Run("rapid", func(t *testing.T) {
		rapid.Check(t, func(t *rapid.T) {
			c := genHugeCase(t)
			info, v := Run(c)
			st.Report(t, "TestC17Huge", c, v)
			record(c, info)
		})
	})
}

// TestC17Big covers the page-sized block sizes on a single segment (thorough tier only: 33 and 134 MiB buffers).
func TestC17Big(t *testing.T) {
	if !vstat.Thorough() && vstat.ReplayPath() == "" {
		t.Skip("thorough tier only")
	}
	st := vstat.For(prop)
	big := rapid.Custom(func(t *rapid.T) Op {
		switch k := rapid.IntRange(0, 19).Draw(t, "kind"); {
		case k < 3:
			return Op{K: "fill", N: rapid.IntRange(-3, -1).Draw(t, "n")}
		case k < 5:
			return Op{K: "fill", N: rapid.SampledFrom([]int{8, 64, 4096, 20000}).Draw(t, "n")}
		case k < 7:
			return Op{K: "drain", N: rapid.SampledFrom([]int{-1, -2, 5, 4096}).Draw(t, "n")}
		case k < 10:
			return Op{K: "fa", N: rapid.IntRange(-3, 1<<16).Draw(t, "n")}
		case k < 13:
			return Op{K: "b", N: rapid.IntRange(0, 1<<16).Draw(t, "n")}
		case k < 14:
			return Op{K: "ff", N: rapid.IntRange(0, 1<<16).Draw(t, "n")}
		case k < 15:
			return Op{K: "fo", N: rapid.IntRange(0, 3).Draw(t, "n")}
		default:
			return Op{K: "a"}
		}
	})
	rapid.Check(t, func(t *rapid.T) {
		c := Case{NoStamp: true, Segs: 1, Backend: "inmem"}
		c.BS = rapid.SampledFrom([]int{2048, 4096}).Draw(t, "bs")
		c.Fit = rapid.Bool().Draw(t, "fit")
		if !c.Fit {
			c.Over = rapid.SampledFrom([]int{0, 1, 4096, 5000}).Draw(t, "over")
		}
		if c.BS == 4096 && c.Over%4096 == 0 && rapid.IntRange(0, 3).Draw(t, "mmap") == 0 {
			c.Backend = "mmap"
		}
		c.Ops = rapid.SliceOfN(big, 0, 30).Draw(t, "ops")
		if rapid.Bool().Draw(t, "reopen") {
			p := rapid.IntRange(0, len(c.Ops)).Draw(t, "reopenAt")
			c.Ops = append(c.Ops[:p:p], append([]Op{{K: "r"}}, c.Ops[p:]...)...)
		}
		info, v := Run(c)
		st.Report(t, "TestC17Big", c, v)
		record(c, info)
	})
}

// ---------------------------------------------------------------------------------------------

var invalidBS = []int{0, 3, 5, 6, 7, 9, 10, 12, 24, 100, 1000, 4095, 4097, 6000, 6144, 12289, -1, -2, -3, -8, -4096, -8192, -1 << 31, -1 << 62}

// page multiples around and above the point where the segment size (bs*8+1)*bs stops fitting an int64 (1 GiB)
var hugeBS = []int{1<<30 - 4096, 1 << 30, 1<<30 + 4096, 3 << 30, 1 << 31, 1 << 32, 1 << 40, 1 << 60, 1 << 62}
var validBS = []int{1, 2, 4, 8, 16, 32, 64, 128, 256, 512, 1024, 2048, 4096, 8192, 12288, 16384}

func TestC17Constructor(t *testing.T) {
	st := vstat.For(prop)
	if shard, _ := vstat.Shard(); shard == 0 {
		n := 0
		reported := map[string]bool{}
		do := func(c CtorCase) {
			info, v := RunCtor(c)
			if v != nil && !reported[v.Sig] {
				// one report per signature, in a subtest so that the grid goes on after a finding
				reported[v.Sig] = true
				name := "TestC17Constructor." + strings.TrimPrefix(v.Sig, "blocks:")
				t.Run(name, func(t *testing.T) { st.Report(t, name, c, v) })
			}
			recordCtor(c, info)
			n++
		}
		for _, fit := range []bool{false, true} {
			for _, bs := range invalidBS {
				for _, size := range []int64{0, 1, 8, 9, 10, 27, 34, 4096, 65536, 1 << 20} {
					do(CtorCase{BS: bs, Size: size, Fit: fit})
				}
			}
			for _, bs := range validBS {
				seg := SegSize(bs)
				for _, size := range []int64{0, 1, seg - 1, seg, seg + 1, 2*seg - 1, 2 * seg, 2*seg + int64(bs), 3 * seg} {
					do(CtorCase{BS: bs, Size: size, Fit: fit})
				}
			}
		}
		// page multiples whose segment size overflows an int64: no buffer can hold a segment (small buffers only)
		for _, fit := range []bool{false, true} {
			for _, bs := range hugeBS {
				for _, size := range []int64{0, 1, 4096, 1 << 20} {
					do(CtorCase{BS: bs, Size: size, Fit: fit})
				}
			}
		}
		st.SetExhaustive("constructor_grid", map[string]any{"invalid_block_sizes": invalidBS, "valid_block_sizes": validBS, "overflowing_block_sizes": hugeBS, "cases": n})
	}
	// in a subtest: rapid refuses a *testing.T that has already failed (a grid finding above)
	t.Run("rapid", func(t *testing.T) { rapid.Check(t, genCtorAndRun) })
}

func genCtorAndRun(t *rapid.T) {
	st := vstat.For(prop)
	{
		var c CtorCase
		switch rapid.IntRange(0, 6).Draw(t, "bsClass") {
		case 6:
			c.BS = 4096 * rapid.OneOf(rapid.IntRange(1<<18-2, 1<<18+2), rapid.IntRange(1<<18, 1<<22), rapid.IntRange(1<<18, 1<<50)).Draw(t, "hugePages")
		case 0:
			c.BS = rapid.SampledFrom(invalidBS).Draw(t, "bs")
		case 1:
			c.BS = rapid.IntRange(-10000, 10000).Draw(t, "bs")
		case 2:
			c.BS = 4096*rapid.IntRange(0, 8).Draw(t, "pages") + rapid.IntRange(-2, 2).Draw(t, "delta")
		case 3:
			c.BS = 4096 * rapid.IntRange(1, 8).Draw(t, "pages")
		default:
			c.BS = 1 << rapid.IntRange(0, 11).Draw(t, "log2bs")
		}
		c.Fit = rapid.Bool().Draw(t, "fit")
		if ValidBS(c.BS) && c.BS <= 1<<20 {
			seg := SegSize(c.BS)
			k := int64(rapid.IntRange(0, 4).Draw(t, "segs"))
			var d int64
			switch rapid.IntRange(0, 5).Draw(t, "deltaClass") {
			case 0, 1:
				d = 0
			case 2:
				d = -1
			case 3:
				d = 1
			case 4:
				d = int64(c.BS)
			default:
				d = rapid.Int64Range(0, seg-1).Draw(t, "over")
			}
			c.Size = max(0, k*seg+d)
		} else {
			c.Size = rapid.OneOf(rapid.SampledFrom([]int64{0, 1, 9, 4096, 65536}), rapid.Int64Range(0, 1<<20)).Draw(t, "size")
		}
		info, v := RunCtor(c)
		st.Report(t, "TestC17Constructor", c, v)
		recordCtor(c, info)
	}
}

// ---------------------------------------------------------------------------------------------

var concGen = rapid.Custom(func(t *rapid.T) ConcCase {
	var c ConcCase
	c.BS = rapid.SampledFrom([]int{1, 1, 2, 2, 4, 8, 16, 64}).Draw(t, "bs")
	c.Segs = rapid.IntRange(1, 3).Draw(t, "segs")
	if rapid.Bool().Draw(t, "oversize") {
		c.Over = rapid.IntRange(0, int(SegSize(c.BS))-1).Draw(t, "over")
	}
	c.G = rapid.IntRange(2, 8).Draw(t, "g")
	c.Hold = rapid.IntRange(1, 6).Draw(t, "hold")
	c.Keep = rapid.IntRange(0, c.Hold).Draw(t, "keep")
	c.Iters = rapid.IntRange(50, vstat.Pick(400, 1500)).Draw(t, "iters")
	c.Yield = rapid.Bool().Draw(t, "yield")
	// half of the cases: the allocator under test is a reopen of bytes with a history, and/or its first Available() call is
	// made by an observer while the workers are allocating and freeing (free running, or with the interleaving forced
	// through the storage: a header read made during that call is parked while the workers go on)
	switch mode := rapid.IntRange(0, 7).Draw(t, "mode"); {
	case mode < 4:
	default:
		if mode != 4 { // several segments, some of their blocks allocated before the reopen
			c.Segs = rapid.IntRange(2, 4).Draw(t, "segsReopened")
			cnt := c.Segs * c.BS * 8
			c.Pre = rapid.OneOf(rapid.Just(cnt), rapid.Just(cnt-cnt/c.Segs+1), rapid.IntRange(cnt/2, cnt), rapid.IntRange(1, cnt)).Draw(t, "pre")
			c.PreFree = rapid.SampledFrom([]int{0, 2, 3, 5}).Draw(t, "preFree")
		}
		if rapid.IntRange(0, 5).Draw(t, "late") > 0 {
			c.Late = rapid.OneOf(rapid.IntRange(1, 4), rapid.IntRange(1, 60)).Draw(t, "lateAfter")
			if c.Segs >= 2 && rapid.Bool().Draw(t, "park") {
				c.ParkSeg = rapid.IntRange(1, c.Segs-1).Draw(t, "parkSeg")
				c.ParkOps = rapid.IntRange(1, 16).Draw(t, "parkOps")
			}
		}
	}
	return c
})

// TestC17Concurrent is built with -race by the driver. Every case runs in a subtest so that a report of the
// race detector (which fails the subtest) is attributed to the case and turned into a violation.
func TestC17Concurrent(t *testing.T) {
	st := vstat.For(prop)
	base := vstat.EnvInt("VERIF_SHARDSEED", 1) % 1000000007
	n := vstat.Pick(250, 1500)
	for i := 0; i < n; i++ {
		c := concGen.Example(base*4096 + i)
		var info ConcInfo
		var v *vstat.Violation
		ok := t.Run(fmt.Sprintf("case%d", i), func(t *testing.T) { info, v = RunConcurrent(c) })
		if v == nil && !ok {
			v = vstat.V("blocks:data-race", "the race detector reported a data race inside the allocator while %d goroutines were allocating and freeing (see the log of the unit)", c.G)
		}
		st.Report(t, "TestC17Concurrent", c, v)
		recordConc(c, info)
	}
}

// ---------------------------------------------------------------------------------------------
// failing storage

func recordFault(c FaultCase, info FaultInfo) {
	vstat.For(prop).Case(info.Fired > 0, vstat.Hash(c)^0x7f4a7c15, func() any { return c }, info.Classes()...)
	vstat.For(prop).AddExtra("storage_calls_failed_by_injection", int64(info.Fired))
	vstat.For(prop).AddExtra("reopen_snapshots_compared", int64(info.Snapshots))
}

// faultSetups bring a small allocator into the states in which the sites differ: fresh, first segment full (the
// next ArrangeBlock reads a second header), full, full with a hole in the last segment.
func faultSetups(per int) [][]FaultOp {
	return [][]FaultOp{
		nil,
		{{K: "A", N: per - 1}},
		{{K: "A", N: per - 1}, {K: "f", N: 2}, {K: "a"}},
		{{K: "A", N: -1}},
		{{K: "A", N: -1}, {K: "f", N: per + 4}},
		{{K: "A", N: 4}, {K: "b", N: 1}, {K: "b", N: 3}, {K: "f", N: 0}},
	}
}

// faultProbes: every call kind; At selects the storage call of the op.
var faultProbes = []FaultOp{
	{K: "a"}, {K: "a", At: 2}, {K: "a", Len: 9}, {K: "A", N: 3, At: 2}, {K: "A", N: -1, At: 3, Len: 2},
	{K: "f", N: 1}, {K: "ff", N: 1}, {K: "fo"}, {K: "fn"}, {K: "D", At: 2}, {K: "b", N: 1}, {K: "b", N: 9}, {K: "bo"},
	{K: "r"}, {K: "r", At: 2}, {K: "c"}, {K: "g", N: 1}, {K: "g"},
}

func genFaultCase(t *rapid.T) FaultCase {
	var c FaultCase
	c.BS = rapid.SampledFrom([]int{1, 1, 2, 2, 4, 8, 16, 64}).Draw(t, "bs")
	c.Segs = rapid.IntRange(1, 3).Draw(t, "segs")
	c.Fit = rapid.Bool().Draw(t, "fit")
	if !c.Fit {
		c.Over = genOver(t, c.BS, false)
	}
	kinds := []string{"a", "a", "a", "A", "A", "f", "f", "ff", "fo", "fn", "D", "b", "b", "bo", "r", "r", "c", "g"}
	n := rapid.IntRange(1, 40).Draw(t, "nops")
	for i := 0; i < n; i++ {
		op := FaultOp{K: rapid.SampledFrom(kinds).Draw(t, "k")}
		switch op.K {
		case "A":
			op.N = rapid.OneOf(rapid.Just(-1), rapid.Just(c.BS*8-1), rapid.Just(c.BS*8-2), rapid.IntRange(0, 3*c.BS*8)).Draw(t, "n")
		case "D", "g":
			op.N = rapid.IntRange(0, 1).Draw(t, "n")
		case "bo":
			op.N = rapid.IntRange(-3, 3).Draw(t, "n")
		default:
			op.N = rapid.IntRange(0, 3*c.BS*8).Draw(t, "n")
		}
		if rapid.IntRange(0, 2).Draw(t, "faulty") == 0 {
			op.At = rapid.SampledFrom([]int{1, 1, 1, 2, 2, 3, 5}).Draw(t, "at")
			op.Len = rapid.SampledFrom([]int{1, 1, 1, 2, 3, 1000}).Draw(t, "len")
			op.Err = rapid.IntRange(0, NumFaultErrs-1).Draw(t, "err")
			op.Shape = rapid.IntRange(0, NumFaultShapes-1).Draw(t, "shape")
		}
		c.Ops = append(c.Ops, op)
	}
	return c
}

// TestC17Fault: the storage under the allocator fails. A grid (every error of the vocabulary x every shape x every
// call kind x a few allocator states, on two tiny geometries) and random op lists.
func TestC17Fault(t *testing.T) {
	st := vstat.For(prop)
	if shard, shards := vstat.Shard(); true {
		n, k := 0, 0
		reported := map[string]bool{}
		geos := vstat.Pick([]FaultCase{{BS: 1, Segs: 2, Fit: true}}, []FaultCase{{BS: 1, Segs: 2, Fit: true}, {BS: 2, Segs: 3, Over: 5}, {BS: 4, Segs: 2, Over: 1}})
		for _, geo := range geos {
			for _, setup := range faultSetups(geo.BS * 8) {
				for _, probe := range faultProbes {
					for ei := 0; ei < NumFaultErrs; ei++ {
						for sh := 0; sh < NumFaultShapes; sh++ {
							if k++; k%shards != shard {
								continue
							}
							c := geo
							p := probe
							p.At, p.Err, p.Shape = max(p.At, 1), ei, sh
							c.Ops = append(append(append([]FaultOp(nil), setup...), p), FaultOp{K: "a"}, FaultOp{K: "A", N: -1})
							info, v := RunFault(c)
							if v != nil && !reported[v.Sig] {
								reported[v.Sig] = true
								name := "TestC17Fault." + strings.TrimPrefix(v.Sig, "blocks:")
								t.Run(name, func(t *testing.T) { st.Report(t, name, c, v) })
							}
							recordFault(c, info)
							n++
						}
					}
				}
			}
		}
		st.SetExhaustive(fmt.Sprintf("failing_storage_grid_shard%d", shard), map[string]any{"errors": NumFaultErrs, "shapes": NumFaultShapes, "probes": len(faultProbes), "states": len(faultSetups(8)), "geometries": len(geos), "cases": n})
	}
	t.Run("rapid", func(t *testing.T) {
		rapid.Check(t, func(t *rapid.T) {
			c := genFaultCase(t)
			info, v := RunFault(c)
			st.Report(t, "TestC17Fault", c, v)
			recordFault(c, info)
		})
	})
}

// ---------------------------------------------------------------------------------------------

func TestReplay(t *testing.T) {
	p := vstat.ReplayPath()
	if p == "" {
		t.Skip("no replay requested")
	}
	env, err := vstat.LoadReplay(p, nil)
	if err != nil {
		t.Fatalf("cannot load %s: %v", p, err)
	}
	st := vstat.For(prop)
	switch {
	case strings.HasPrefix(env.Test, "TestC17Constructor"):
		var c CtorCase
		if err := json.Unmarshal(env.Case, &c); err != nil {
			t.Fatalf("cannot decode the case of %s: %v", p, err)
		}
		info, v := RunCtor(c)
		st.Report(t, "TestReplay", c, v)
		recordCtor(c, info)
	case strings.HasPrefix(env.Test, "TestC17Fault"):
		var c FaultCase
		if err := json.Unmarshal(env.Case, &c); err != nil {
			t.Fatalf("cannot decode the case of %s: %v", p, err)
		}
		info, v := RunFault(c)
		st.Report(t, "TestReplay", c, v)
		recordFault(c, info)
	case env.Test == "TestC17Concurrent":
		var c ConcCase
		if err := json.Unmarshal(env.Case, &c); err != nil {
			t.Fatalf("cannot decode the case of %s: %v", p, err)
		}
		// the schedule is not part of the case: repeat it
		for i := 0; i < 200; i++ {
			info, v := RunConcurrent(c)
			st.Report(t, "TestReplay", c, v)
			recordConc(c, info)
		}
	default:
		var c Case
		if err := json.Unmarshal(env.Case, &c); err != nil {
			t.Fatalf("cannot decode the case of %s: %v", p, err)
		}
		info, v := Run(c)
		st.Report(t, "TestReplay", c, v)
		record(c, info)
	}
}
