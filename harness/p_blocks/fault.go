// Failing storage. The Buffer under the allocator is the library's in-memory buffer behind a wrapper that can make
// the k-th (and following) Buffer / Grow / Close call of ONE allocator operation fail with an error drawn from the
// library's error vocabulary (every sentinel of /repo/errors, io / context / errno errors, gRPC status errors that
// errors.Is maps onto the sentinels, an opaque errors.New) in several shapes (bare, %w once and twice, errors.Join,
// two %w, a custom type with Unwrap, *fs.PathError). The sites of the allocator are: header fetch of ArrangeBlock
// (one per segment scanned), header fetch of FreeBlock, block fetch of Block, header fetches of NewBlocks (one per
// segment), Close; Grow is called on Bytes() by the user of the allocator.
//
// Judged is the RESULT of the faulted call against the same set model as everywhere else:
//   - ArrangeBlock must not claim ErrExhausted while the model has free blocks, unless the injected error itself is of
//     the ErrExhausted class (then the claim is the storage's);
//   - a claimed success must be a correct one (the ordinary checks apply to it);
//   - an error returned by a call during which the storage failed must be the storage's (errors.Is the injected one);
//     with nothing free ErrExhausted is right as well;
//   - after the call nothing has changed: Count, Available, the stamped user blocks, and the allocated set that a
//     second allocator recovers from a copy of the bytes equal the model (in which a failed call changes nothing).
package p_blocks

import (
	"context"
	stderrors "errors"
	"fmt"
	"io"
	"io/fs"
	"syscall"

	"google.golang.org/grpc/codes"
	"google.golang.org/grpc/status"

	cbytes "github.com/acquirecloud/golibs/container/bytes"
	gerrors "github.com/acquirecloud/golibs/errors"
	"verifharness/internal/vstat"
)

// FaultOp is one call.
//
//	a        ArrangeBlock
//	A N      N+1 ArrangeBlock calls (stops at the first ErrExhausted); N<0: until ErrExhausted
//	f N      FreeBlock of the (N mod allocated)-th allocated index in index order (a free one if nothing is allocated)
//	ff N     FreeBlock of the (N mod free)-th free index (an allocated one if nothing is free)
//	fo N     FreeBlock(Count+N), fn N: FreeBlock(-1-N)
//	D N      FreeBlock of every allocated index (N=1: in descending order)
//	b N      Block(N mod Count), stamped if allocated
//	bo N     Block(Count+N) (N<0: Block(N))
//	r        NewBlocks on the same Buffer; the case goes on with the new allocator if it is returned without error
//	c        Close; after a successful Close the bytes (saved before) are opened again
//	g N      Bytes().Grow: N=0 by one byte (by a segment under fit), N>0 by a segment; the case goes on with the same allocator
//
// At > 0: the At-th storage call that can fail (Buffer, Grow, Close) made during this op fails, and so do the Len-1
// following ones (Len <= 0 is 1) of the same op, with error Err in shape Shape.
type FaultOp struct {
	K     string `json:"k"`
	N     int    `json:"n,omitempty"`
	At    int    `json:"at,omitempty"`
	Len   int    `json:"len,omitempty"`
	Err   int    `json:"err,omitempty"`
	Shape int    `json:"shape,omitempty"`
}

// FaultCase is a geometry (in memory) plus an op list.
type FaultCase struct {
	BS   int       `json:"bs"`
	Segs int       `json:"segs"`
	Over int       `json:"over"`
	Fit  bool      `json:"fit"`
	Ops  []FaultOp `json:"ops"`
}

// FaultInfo is what the classifier needs.
type FaultInfo struct {
	Fired     int
	Sites     map[string]bool
	ErrKinds  map[string]bool
	Shapes    map[int]bool
	Snapshots int
}

func (i FaultInfo) Classes() []string {
	c := []string{"failing_storage_case"}
	for _, s := range sortedKeys(i.Sites) {
		c = append(c, "storage_fault_at_"+s)
	}
	for _, s := range sortedKeys(i.ErrKinds) {
		c = append(c, "storage_fault_error_"+s)
	}
	for s := 0; s < NumFaultShapes; s++ {
		if i.Shapes[s] {
			c = append(c, "storage_fault_shape_"+faultShapeNames[s])
		}
	}
	return c
}

func sortedKeys(m map[string]bool) []string {
	var ks []string
	for k := range m {
		ks = append(ks, k)
	}
	for i := 1; i < len(ks); i++ {
		for j := i; j > 0 && ks[j] < ks[j-1]; j-- {
			ks[j], ks[j-1] = ks[j-1], ks[j]
		}
	}
	return ks
}

type faultErr struct {
	name string
	mk   func() error
}

func sentinel(name string, e error) faultErr { return faultErr{name, func() error { return e }} }

// faultVocabulary: the whole error vocabulary of the library, then what storages return in practice.
var faultVocabulary = []faultErr{
	sentinel("ErrInvalid", gerrors.ErrInvalid),
	sentinel("ErrNotExist", gerrors.ErrNotExist),
	sentinel("ErrExist", gerrors.ErrExist),
	sentinel("ErrExhausted", gerrors.ErrExhausted),
	sentinel("ErrClosed", gerrors.ErrClosed),
	sentinel("ErrInternal", gerrors.ErrInternal),
	sentinel("ErrNotAuthorized", gerrors.ErrNotAuthorized),
	sentinel("ErrDataLoss", gerrors.ErrDataLoss),
	sentinel("ErrCommunication", gerrors.ErrCommunication),
	sentinel("ErrConflict", gerrors.ErrConflict),
	sentinel("ErrUnimplemented", gerrors.ErrUnimplemented),
	sentinel("ErrCanceled", gerrors.ErrCanceled),
	sentinel("io", io.EOF),
	sentinel("io", io.ErrUnexpectedEOF),
	sentinel("io", io.ErrShortWrite),
	sentinel("io", io.ErrClosedPipe),
	sentinel("context", context.DeadlineExceeded),
	sentinel("context", context.Canceled),
	sentinel("errno", syscall.EIO),
	sentinel("errno", syscall.ENOSPC),
	sentinel("errno", syscall.EINVAL),
	sentinel("errno_ErrNotExist", syscall.ENOENT), // errors.Is(ENOENT, ErrNotExist)
	sentinel("errno_ErrExist", syscall.EEXIST),
	{"grpc_ErrExhausted", func() error { return status.Error(codes.ResourceExhausted, "storage quota") }},
	{"grpc_ErrInvalid", func() error { return status.Error(codes.InvalidArgument, "bad range") }},
	{"grpc_ErrNotExist", func() error { return status.Error(codes.NotFound, "no such region") }},
	{"grpc_other", func() error { return status.Error(codes.Unavailable, "storage node is away") }},
	{"opaque", func() error { return stderrors.New("storage: the medium is not readable") }},
}

// NumFaultErrs and NumFaultShapes are the domains of FaultOp.Err / FaultOp.Shape.
var NumFaultErrs = len(faultVocabulary)

var faultShapeNames = []string{"bare", "wrapped", "wrapped_twice", "joined", "two_w_verbs", "custom_unwrap", "path_error"}

var NumFaultShapes = len(faultShapeNames)

type storageErr struct {
	op  string
	err error
}

func (s *storageErr) Error() string { return "storage " + s.op + ": " + s.err.Error() }
func (s *storageErr) Unwrap() error { return s.err }

func mkFault(errIdx, shape int) (error, string) {
	fe := faultVocabulary[nonneg(errIdx)%len(faultVocabulary)]
	e := fe.mk()
	switch nonneg(shape) % NumFaultShapes {
	case 1:
		e = fmt.Errorf("storage: region is not accessible now: %w", e)
	case 2:
		e = fmt.Errorf("buffer: %w", fmt.Errorf("storage: region is not accessible now: %w", e))
	case 3:
		e = stderrors.Join(stderrors.New("storage: first attempt failed"), e)
	case 4:
		e = fmt.Errorf("storage: %w (after %w)", e, stderrors.New("a retry"))
	case 5:
		e = &storageErr{op: "fetch", err: e}
	case 6:
		e = &fs.PathError{Op: "mmap", Path: "/dev/storage0", Err: e}
	}
	return e, fe.name
}

// faultBuf is the Buffer handed to the allocator.
type faultBuf struct {
	in    cbytes.Buffer
	armed bool
	at    int // calls left before the first failing one
	left  int // failing calls left
	inj   error
	calls int
	fired int
	sites []string // what failed: "buffer@<offs>", "grow", "close"
}

func (f *faultBuf) hit(site string) bool {
	if !f.armed {
		return false
	}
	f.calls++
	if f.at > 1 {
		f.at--
		return false
	}
	if f.left <= 0 {
		return false
	}
	f.left--
	f.fired++
	f.sites = append(f.sites, site)
	return true
}

func (f *faultBuf) Buffer(offs int64, size int) ([]byte, error) {
	if f.hit(fmt.Sprintf("buffer@%d", offs)) {
		return nil, f.inj
	}
	return f.in.Buffer(offs, size)
}

func (f *faultBuf) Grow(n int64) error {
	if f.hit("grow") {
		return f.inj
	}
	return f.in.Grow(n)
}

func (f *faultBuf) Close() error {
	if f.hit("close") {
		return f.inj
	}
	return f.in.Close()
}

func (f *faultBuf) Size() int64    { return f.in.Size() }
func (f *faultBuf) String() string { return fmt.Sprint(f.in) }

// RunFault executes the case.
func RunFault(c FaultCase) (info FaultInfo, v *vstat.Violation) {
	info.Sites, info.ErrKinds, info.Shapes = map[string]bool{}, map[string]bool{}, map[int]bool{}
	e := &fenv{c: c, info: &info}
	return info, vstat.Guard("blocks:panic", func() *vstat.Violation { return e.run() })
}

type fenv struct {
	c       FaultCase
	info    *FaultInfo
	bs, per int
	segSize int64
	size    int64
	segs0   int
	count   int // of the live allocator
	fb      *faultBuf
	b       *cbytes.Blocks
	base    []byte
	alloc   []bool // covers the geometry of the buffer
	nalloc  int
	gen     []uint32
	seq     uint32
	inj     error // of the current op
	injName string
}

func (e *fenv) bufCount() int { return int(e.size/e.segSize) * e.per }

func (e *fenv) offsetOf(idx int) int64 { return int64(idx+idx/e.per+1) * int64(e.bs) }

func (e *fenv) refresh() {
	e.size = e.fb.in.Size()
	e.base, _ = e.fb.in.Buffer(0, int(e.size))
	e.alloc = grown(e.alloc, e.bufCount())
	e.gen = grown(e.gen, e.bufCount())
}

func (e *fenv) run() *vstat.Violation {
	c := e.c
	e.bs, e.per, e.segSize = c.BS, c.BS*8, SegSize(c.BS)
	e.segs0 = c.Segs
	size := int64(c.Segs)*e.segSize + int64(c.Over)
	e.fb = &faultBuf{in: cbytes.NewInMemBytes(int(size))}
	geo := fmt.Sprintf("bs=%d segs=%d over=%d fit=%v failing storage", c.BS, c.Segs, c.Over, c.Fit)
	b, err := cbytes.NewBlocks(c.BS, e.fb, c.Fit)
	if err != nil || b == nil {
		return vstat.V("blocks:ctor-rejects-valid", "NewBlocks(%s) failed: (%v, %v)", geo, b, err)
	}
	e.b = b
	e.refresh()
	e.count = e.bufCount()
	if v := e.check("[" + geo + "] after NewBlocks", true); v != nil {
		return v
	}
	for i, op := range c.Ops {
		where := fmt.Sprintf("[%s] op %d (%s %d", geo, i, op.K, op.N)
		e.inj = nil
		if op.At > 0 {
			e.inj, e.injName = mkFault(op.Err, op.Shape)
			e.fb.armed, e.fb.at, e.fb.left, e.fb.inj = true, op.At, max(op.Len, 1), e.inj
			where += fmt.Sprintf(", storage call %d of the op and the %d after it fail with %T %q", op.At, max(op.Len, 1)-1, e.inj, e.inj)
		}
		where += ")"
		e.fb.calls, e.fb.fired, e.fb.sites = 0, 0, e.fb.sites[:0]
		v := e.step(op, where)
		e.fb.armed = false
		fired := e.fb.fired
		if fired > 0 {
			e.info.Fired += fired
			e.info.ErrKinds[e.injName] = true
			e.info.Shapes[nonneg(op.Shape)%NumFaultShapes] = true
			where += fmt.Sprintf(" [failed storage calls: %v]", e.fb.sites)
		}
		if v != nil {
			return v
		}
		if v := e.check(where, fired > 0 || e.bufCount() <= 256 || i == len(c.Ops)-1); v != nil {
			return v
		}
	}
	return nil
}

func (e *fenv) site(s string) { e.info.Sites[s] = true }

// faultedError judges an error returned by a call during which `fired` storage calls failed.
func (e *fenv) faultedError(call string, err error, where string) *vstat.Violation {
	if err == e.inj || stderrors.Is(err, e.inj) {
		return nil
	}
	return vstat.V("blocks:storage-error-replaced", "%s: the storage failed with %q during %s, which returned the unrelated error %T %q", where, e.inj, call, err, err)
}

// arrange makes one ArrangeBlock call; stop = it failed.
func (e *fenv) arrange(where string) (stop bool, v *vstat.Violation) {
	f0, c0 := e.fb.fired, e.fb.calls
	idx, err := e.b.ArrangeBlock()
	fired := e.fb.fired - f0
	free := e.count - e.nalloc
	if fired > 0 {
		// the call gives up at the first failing fetch: it is the last one it made
		e.site(fmt.Sprintf("arrange_header_fetch_%s", ordinal(e.fb.calls-c0-(fired-1))))
		if free > 0 {
			e.site("arrange_while_blocks_are_free")
		}
	}
	if err != nil {
		switch {
		case isExhausted(err) && free > 0 && !(fired > 0 && isExhausted(e.inj)):
			if fired > 0 {
				return true, vstat.V("blocks:exhausted-while-free", "%s: ArrangeBlock reports ErrExhausted (%q) although %d of %d blocks are free; the storage failed with %q, which is not of that class", where, err, free, e.count, e.inj)
			}
			return true, vstat.V("blocks:exhausted-while-free", "%s: ArrangeBlock reports ErrExhausted although %d of %d blocks are free", where, free, e.count)
		case fired > 0 && isExhausted(err) && (free == 0 || isExhausted(e.inj)):
			// right by the model, or the storage's own claim
		case fired > 0:
			return true, e.faultedError("ArrangeBlock", err, where)
		case free > 0:
			return true, vstat.V("blocks:arrange-error", "%s: ArrangeBlock failed with %v although only %d of %d blocks are allocated", where, err, e.nalloc, e.count)
		case !isExhausted(err):
			return true, vstat.V("blocks:arrange-on-full-wrong-error", "%s: ArrangeBlock failed with %v, want ErrExhausted", where, err)
		}
		return true, nil
	}
	if free == 0 {
		return true, vstat.V("blocks:arrange-on-full", "%s: ArrangeBlock returned %d although all %d blocks are allocated", where, idx, e.count)
	}
	if idx < 0 || idx >= e.count {
		return true, vstat.V("blocks:arrange-out-of-range", "%s: ArrangeBlock returned %d, outside [0,%d)", where, idx, e.count)
	}
	if e.alloc[idx] {
		return true, vstat.V("blocks:double-allocation", "%s: ArrangeBlock returned %d, which is allocated and has not been freed", where, idx)
	}
	e.alloc[idx], e.gen[idx] = true, 0
	e.nalloc++
	return false, nil
}

func ordinal(k int) string {
	switch {
	case k <= 1:
		return "first"
	case k == 2:
		return "second"
	}
	return "third_or_later"
}

func (e *fenv) free(idx int, where string) *vstat.Violation {
	f0 := e.fb.fired
	err := e.b.FreeBlock(idx)
	fired := e.fb.fired - f0
	inRange := idx >= 0 && idx < e.count
	if fired > 0 {
		e.site("free_header_fetch")
	}
	switch {
	case inRange && e.alloc[idx]:
		if err == nil {
			e.alloc[idx], e.gen[idx] = false, 0
			e.nalloc--
			return nil
		}
		if fired > 0 {
			return e.faultedError(fmt.Sprintf("FreeBlock(%d)", idx), err, where)
		}
		return vstat.V("blocks:free-rejected", "%s: FreeBlock(%d) failed with %v although the block is allocated", where, idx, err)
	case err == nil && inRange:
		return vstat.V("blocks:free-of-free-accepted", "%s: FreeBlock(%d) of a free block returned no error", where, idx)
	case err == nil:
		return vstat.V("blocks:free-out-of-range-accepted", "%s: FreeBlock(%d) returned no error, the valid indexes are [0,%d)", where, idx, e.count)
	case fired > 0:
		// the storage's error, or the verdict the call owes anyway
		if (inRange && isNotExist(err)) || (!inRange && isInvalid(err)) {
			return nil
		}
		return e.faultedError(fmt.Sprintf("FreeBlock(%d)", idx), err, where)
	case inRange && !isNotExist(err):
		return vstat.V("blocks:free-of-free-wrong-error", "%s: FreeBlock(%d) of a free block failed with %v which is not of class ErrNotExist", where, idx, err)
	case !inRange && !isInvalid(err):
		return vstat.V("blocks:free-out-of-range-wrong-error", "%s: FreeBlock(%d) failed with %v which is not of class ErrInvalid", where, idx, err)
	}
	return nil
}

func (e *fenv) block(idx int, where string) *vstat.Violation {
	f0 := e.fb.fired
	blk, err := e.b.Block(idx)
	fired := e.fb.fired - f0
	if fired > 0 {
		e.site("block_fetch")
	}
	if idx < 0 || idx >= e.count {
		if err == nil {
			return vstat.V("blocks:block-out-of-range-accepted", "%s: Block(%d) returned %d bytes and no error, the valid indexes are [0,%d)", where, idx, len(blk), e.count)
		}
		return nil
	}
	if err != nil {
		if fired > 0 {
			return e.faultedError(fmt.Sprintf("Block(%d)", idx), err, where)
		}
		return vstat.V("blocks:block-error", "%s: Block(%d) failed with %v although 0<=idx<Count=%d", where, idx, err, e.count)
	}
	if len(blk) != e.bs {
		return vstat.V("blocks:block-size", "%s: Block(%d) has %d bytes, want the block size %d", where, idx, len(blk), e.bs)
	}
	if o := ptrDiff(blk, e.base); o != e.offsetOf(idx) {
		return vstat.V("blocks:block-position", "%s: Block(%d) is at buffer offset %d, want %d (segment header first, then the blocks of the segment)", where, idx, o, e.offsetOf(idx))
	}
	if e.alloc[idx] {
		e.seq++
		e.gen[idx] = e.seq
		for j := range blk {
			blk[j] = stampByte(idx, e.seq, j)
		}
	}
	return nil
}

func (e *fenv) step(op FaultOp, where string) *vstat.Violation {
	switch op.K {
	case "a":
		_, v := e.arrange(where)
		return v
	case "A":
		n := op.N + 1
		if op.N < 0 {
			n = e.count + max(op.Len, 1) + op.At + 2
		}
		failures := 0
		for i := 0; i < n; i++ {
			f0 := e.fb.fired
			stop, v := e.arrange(fmt.Sprintf("%s call %d", where, i))
			if v != nil {
				return v
			}
			// a call that failed because of the storage does not end the run of calls
			if stop && e.fb.fired == f0 {
				break
			}
			if stop {
				if failures++; failures > 8 {
					break
				}
			}
		}
	case "f", "ff":
		want := op.K == "f"
		if (want && e.nalloc == 0) || (!want && e.nalloc == e.count) {
			want = !want
		}
		k := e.nalloc
		if !want {
			k = e.count - e.nalloc
		}
		k = nonneg(op.N) % k
		for i := 0; i < e.count; i++ {
			if e.alloc[i] == want {
				if k == 0 {
					return e.free(i, where)
				}
				k--
			}
		}
	case "fo":
		return e.free(e.count+nonneg(op.N), where)
	case "fn":
		return e.free(-1-nonneg(op.N), where)
	case "D":
		for k := 0; k < e.count; k++ {
			i := k
			if op.N == 1 {
				i = e.count - 1 - k
			}
			if e.alloc[i] {
				if v := e.free(i, fmt.Sprintf("%s block %d", where, i)); v != nil {
					return v
				}
			}
		}
	case "b":
		return e.block(nonneg(op.N)%e.count, where)
	case "bo":
		if op.N < 0 {
			return e.block(op.N, where)
		}
		return e.block(e.count+op.N, where)
	case "r":
		nb, err := cbytes.NewBlocks(e.bs, e.fb, e.c.Fit)
		if e.fb.fired > 0 {
			e.site(fmt.Sprintf("reopen_header_fetch_%s", ordinal(e.fb.calls-(e.fb.fired-1))))
		}
		if err != nil {
			if e.fb.fired > 0 {
				return e.faultedError("NewBlocks on the same storage", err, where)
			}
			return vstat.V("blocks:reopen-rejected", "%s: NewBlocks on the same bytes failed: %v", where, err)
		}
		if nb == nil {
			return vstat.V("blocks:reopen-rejected", "%s: NewBlocks on the same bytes returned (nil, nil)", where)
		}
		e.b, e.count = nb, e.bufCount()
	case "c":
		saved := append([]byte(nil), e.base...)
		err := e.b.Close()
		if e.fb.fired > 0 {
			e.site("close")
		}
		if err != nil {
			if e.fb.fired > 0 {
				// the storage is still open: the case goes on
				return e.faultedError("Close", err, where)
			}
			return vstat.V("blocks:close-error", "%s: Close failed: %v", where, err)
		}
		if e.fb.fired > 0 {
			// Close claims success although the storage refused; the storage is open, go on with it
			return nil
		}
		e.fb.armed = false // the op was the Close call
		in := cbytes.NewInMemBytes(len(saved))
		dst, _ := in.Buffer(0, len(saved))
		copy(dst, saved)
		e.fb.in = in
		e.refresh()
		nb, err := cbytes.NewBlocks(e.bs, e.fb, e.c.Fit)
		if err != nil || nb == nil {
			return vstat.V("blocks:reopen-rejected", "%s: NewBlocks on the bytes of the closed allocator failed: %v", where, err)
		}
		e.b, e.count = nb, e.bufCount()
	case "g":
		if int(e.size/e.segSize) >= e.segs0+2 {
			return nil
		}
		by := e.segSize
		if op.N == 0 && !e.c.Fit {
			by = 1
		}
		err := e.b.Bytes().Grow(e.size + by)
		if e.fb.fired > 0 {
			e.site("grow")
		}
		if err != nil && e.fb.fired == 0 {
			panic(fmt.Sprintf("environment: Bytes().Grow(%d) of a %d byte buffer failed: %v", e.size+by, e.size, err))
		}
		e.refresh()
	default:
		panic("bad fault op " + op.K)
	}
	return nil
}

// check: counters after every op; the bytes (stamps, and a second allocator on a copy) when deep.
func (e *fenv) check(where string, deep bool) *vstat.Violation {
	if got := e.b.Count(); got != e.count {
		return vstat.V("blocks:count", "%s: Count()=%d, want %d", where, got, e.count)
	}
	if got, want := e.b.Available(), e.count-e.nalloc; got != want {
		return vstat.V("blocks:available", "%s: Available()=%d, want Count-allocated=%d-%d=%d", where, got, e.count, e.nalloc, want)
	}
	if !deep {
		return nil
	}
	if e.fb.in.Size() != e.size {
		return vstat.V("blocks:storage-resized", "%s: the size of the storage is now %d, it was %d", where, e.fb.in.Size(), e.size)
	}
	for i, g := range e.gen {
		if g == 0 || !e.alloc[i] {
			continue
		}
		o := e.offsetOf(i)
		for j := 0; j < e.bs; j++ {
			if e.base[o+int64(j)] != stampByte(i, g, j) {
				return vstat.V("blocks:user-data-overwritten", "%s: byte %d of the allocated block %d is %#x, the user wrote %#x", where, j, i, e.base[o+int64(j)], stampByte(i, g, j))
			}
		}
	}
	e.info.Snapshots++
	return snapshotCheck(e.base, e.bs, e.c.Fit, e.bufCount(), e.alloc, e.nalloc, where, 3)
}
