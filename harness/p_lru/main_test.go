package p_lru

import (
	"testing"

	"verifharness/internal/vstat"
)

func TestMain(m *testing.M) { vstat.Main(m) }
