// Package p_lru decides C08 (the LRU cache behaves as a reference LRU for every sequential call
// sequence) and the LRU part of C11 (the cache retains nothing beyond its residents however long
// its history). This file is the sequential part: Case, Run (functional oracle, C08) and RunWalk
// (structural invariants through the overlay accessor VerifWalk, C11).
package p_lru

import (
	"fmt"
	"math"
	"runtime"
	"sort"
	"strconv"
	"strings"
	"time"

	"github.com/acquirecloud/golibs/container/lru"
	"verifharness/internal/vstat"
)

// Shapes of the cache under test.
const (
	ShapeCache     = "cache"     // lru.Cache[string,int]
	ShapeECache    = "ecache"    // lru.ECache[[]string,string,int], inner key = lower-cased join of the PK
	ShapeExpirable = "expirable" // lru.ExpirableCache[string,*item], expiry flag owned by the harness
	// ShapeIface is lru.Cache[string,any]: the value type is an INTERFACE type, and a successful creation may hand over the nil
	// interface value, a typed nil pointer or a non-nil pointer (Op.Nil). For the cache a value is a value: nil ones are inserted,
	// returned by hits, counted by Clear, evicted in their turn and passed to the delete callback like any other.
	ShapeIface = "iface"
)

// Shapes lists the shapes.
var Shapes = []string{ShapeCache, ShapeECache, ShapeExpirable, ShapeIface}

// Kinds of values a successful creation returns in the iface shape (Op.Nil).
const (
	KindValue    = 0 // a non-nil *box carrying the value id
	KindNilIface = 1 // the nil interface value: create returns (nil, nil)
	KindNilPtr   = 2 // a typed nil pointer, (*box)(nil), wrapped in the interface
	NKinds       = 3
)

// box is the concrete type behind the values of the iface shape.
// It is 64 bytes: never tiny-allocated, so that a weak pointer to one box says nothing about another (retain.go).
type box struct {
	id  int
	pad [7]uint64
}

// HugeCaps are the capacities that stand for "unbounded" (math.MaxInt is the usual spelling) or "larger than anything that will
// ever be inserted". No case can fill such a cache, so it behaves like an unbounded one: nothing is ever evicted. Nothing in the
// harness allocates, loops or does arithmetic that could overflow by capacity.
var HugeCaps = []int{math.MaxInt, math.MaxInt - 1, 1 << 40, 1 << 31, 1 << 16}

// hugeCap: from here on the epilogue cannot afford to fill the cache.
const hugeCap = 1 << 12

func kindName(k int) string {
	switch k {
	case KindNilIface:
		return "nil interface value"
	case KindNilPtr:
		return "typed nil pointer"
	}
	return "non-nil value"
}

func normKind(k int) int { return ((k % NKinds) + NKinds) % NKinds }

// NVariants is the number of distinct PKs that collide on one inner key (shape ecache).
const NVariants = 3

// Op is one call. K: g (GetOrCreate) r (Remove) c (Clear) x (mark a resident item expired: the
// one at position Key mod residents of the recency order, least recently used first - no cache call;
// shape expirable only, a no-op elsewhere or when the cache is empty).
type Op struct {
	K    string `json:"k"`
	Key  int    `json:"key,omitempty"`  // index into the key alphabet (taken modulo Keys)
	Var  int    `json:"var,omitempty"`  // ecache: which of the colliding PKs (modulo NVariants)
	Fail bool   `json:"fail,omitempty"` // g: the create function, if it gets called by this op, fails
	// Err (g with Fail): the shape of the error value the failing create function returns (modulo NErrKinds, see errkinds.go):
	// plain, wrapped, a library error class, a typed nil pointer, a zero-size value, one whose Error method panics, ...
	Err int `json:"err,omitempty"`
	// Buf (ecache, g/r): 0 = the PK is a fresh slice; b in 1..NBufs = the PK is the harness' reusable key
	// buffer b: its content is overwritten with this call's key text and the same backing array is passed
	// again, so PKs that the cache stored from earlier calls through this buffer change behind its back.
	Buf int `json:"buf,omitempty"`
	// Nested (g only): a short program (at most MaxNested calls of g/r/c) which the create function, if it
	// gets called by this op, executes on the same cache (single goroutine, the cache lock is not held
	// while the create function runs) before it returns its own outcome. The key of a nested g/r is the
	// first key index >= Key (cyclically) that is not being created on the current call stack - never
	// a key in flight, the single-flight table would make that call wait for itself; a nested call for
	// which no such key exists is skipped. A nested g may carry its own Nested up to MaxDepth levels.
	Nested []Op `json:"nested,omitempty"`
	// Born (g only, shape expirable; ignored elsewhere): before the call the harness arranges that the next
	// Born (1..MaxBorn) successful creations for this call's key return items whose expiry time has already
	// passed when the create function hands them over ("born expired"). The run belongs to the key, not to
	// the call: what one call does not consume is consumed by the later creations for the key, whichever
	// call makes them; a later g with Born > 0 on the key replaces the rest of the run by its own, Born == 0
	// leaves it alone.
	Born int `json:"born,omitempty"`
	// Nil (g only, shape iface; ignored elsewhere): what the create function, if it gets called by this op and succeeds, returns as
	// the value: KindValue, KindNilIface or KindNilPtr (taken modulo NKinds). Nested calls have their own.
	Nil int `json:"nil,omitempty"`
}

// MaxBorn is the longest run of consecutive born-expired creations for one key that one op can order.
const MaxBorn = 4

// NBufs is the number of reusable PK buffers of the ecache shape.
const NBufs = 2

// Limits of the re-entrant programs.
const (
	MaxNested = 2
	MaxDepth  = 2
)

// Case is a configuration plus a call sequence. The executed sequence is Ops repeated
// max(1,Repeat) times; in repetition r every key index is shifted by r*Stride (mod Keys), which
// gives long histories a compact, replayable form. Every case ends with the same epilogue: Cap
// insertions of fresh keys (each must evict the then least recently used entry, which exposes the
// whole recency order; a cache with a huge capacity, see HugeCaps, gets 4 insertions, none of which may evict),
// a final Clear and the created/deleted ledger balance.
type Case struct {
	Shape     string `json:"shape"`
	Cap       int    `json:"cap"`
	Keys      int    `json:"keys"`
	NoCB      bool   `json:"nocb,omitempty"`      // construct with a nil delete callback
	NilCreate bool   `json:"nilcreate,omitempty"` // construct with a nil create function (must be refused)
	// Measure (RunWalk only, ignored by Run): the case carries the RETENTION measurements of retain.go - weak pointers to every value
	// object (shapes iface and expirable) and to every fresh primary-key slice (shape ecache) handed to the cache, forced garbage
	// collections with the cache alive at every 1000th call, right after the first Remove of a resident and the first Clear of a
	// non-empty cache of every 1000 calls, after the epilogue's insertions and after the final Clear: only objects of residents may resolve.
	Measure bool `json:"measure,omitempty"`
	Ops       []Op   `json:"ops"`
	Repeat    int    `json:"repeat,omitempty"`
	Stride    int    `json:"stride,omitempty"`
}

// Len is the number of calls the case makes (without the epilogue).
func (c Case) Len() int { return len(c.Ops) * max(1, c.Repeat) }

// Info is what the classifiers need.
type Info struct {
	Constructor          bool // the case is a constructor-refusal case
	Hits, Misses         int
	Fails                int // failed creations
	FailKinds            [NErrKinds]int // ... by the shape of the error value
	Evictions            int
	RemoveHit, RemoveMis int
	ClearNonEmpty        int
	HitChangedEviction   bool // an eviction took an entry that is not the oldest-created resident
	FailBetweenHits      bool // hit ... failed creation ... hit
	ReuseAfterClear      bool // a successful insertion after a Clear that removed something
	EvictAfterClear      bool // ... and an eviction after that insertion
	CollideHit           bool // ecache: hit through a PK different from the stored one
	CollideDelete        bool // ecache: entry deleted through / evicted while created by a non-canonical PK
	BufCalls             int  // ecache: calls whose PK was a reused buffer
	MutatedLeft          bool // ecache: an entry left the cache whose stored PK had been overwritten with another key's text
	MutatedEvicted       bool // ... by eviction
	ExpiredReplaced      bool // expirable: stale item replaced
	ExpiredRecreateFail  bool // expirable: stale item touched, re-creation failed
	ExpiredEvicted       bool // expirable: a stale item left by eviction/Remove/Clear
	BornExpired          int  // expirable: successful creations that returned an already-expired item
	BornMaxRun           int  // ... longest run of consecutive such creations for one key (no fresh creation for that key in between)
	BornReplacedInCall   bool // a call that missed, got a born-expired item and replaced it at once
	BornReturnedStale    bool // ... and the replacement was born expired too: returned and resident although stale
	BornReplacedStale    bool // a resident stale item was replaced by a born-expired one
	BornRunOverCalls     bool // a run of >= 3 born-expired creations for one key, i.e. spread over at least two calls
	NilIfaceCreated      int  // iface: successful creations that returned the nil interface value
	NilPtrCreated        int  // iface: ... a typed nil pointer
	NilHit               bool // iface: a hit returned a resident nil value (no create call)
	NilLeft              bool // iface: a resident nil value left by eviction, Remove or Clear (delete callback with the nil value)
	NilEvicted           bool // ... by eviction
	NestedCalls          int  // calls made from inside the create function
	NestedDepth2         bool // a nested call made from inside a nested creation
	NestedChanged        bool // a nested call inserted or removed an entry
	ReentrantWindow      bool // an insertion evicted although the cache was not full when the miss was detected
	Undetermined         bool // abandoned: outcome not determined by the documentation
	Diverged             bool // RunWalk only: the functional oracle disagreed (C08's business), case abandoned
	Retain               RetainInfo // RunWalk with Case.Measure: the retention measurements
	Walks                int  // VerifWalk calls made
	Checkpoints          int  // 1000-op checkpoints passed
	MaxNodes             int  // largest node count seen at a checkpoint
	OpsDone              int
}

type del struct {
	pk   string
	val  int
	kind int // iface shape: kind of the value handed to the callback (the id of a nil value is resolved through the key)
}

// item is the value type of the expirable shape.
type item struct {
	id      int
	expired bool
	pad     [6]uint64 // 64 bytes: never tiny-allocated (retain.go)
}

var farFuture = time.Date(9000, 1, 1, 0, 0, 0, 0, time.UTC)

func (i *item) GetValue() any { return i.id }
func (i *item) GetExpiresAt() time.Time {
	if i.expired {
		return time.Time{} // year 1: before any "now"
	}
	return farFuture
}

// world is the harness-owned side of the callbacks.
type world struct {
	fail    bool           // outcome of the create call of the GetOrCreate that is about to be made
	errKind int            // shape of the error a failing create call of that GetOrCreate returns
	kind    int            // iface: kind of value a successful create call of that GetOrCreate returns
	lastNil map[string]int // iface: key -> id of the latest creation for the key that returned a nil value
	creates []string       // canonical form of the pk of every create call of the current (innermost) call
	dels    []del          // delete callbacks of the current (innermost) call
	hook    func()         // run once by the next create call before it returns (executes the nested program)
	nextVal int
	lastErr error
	nErr    int
	lastIt  *item
	born    map[string]int  // expirable: key -> number of coming successful creations that are born expired
	bornRun map[string]int  // expirable: key -> length of the current run of born-expired creations
	bornN   int             // born-expired creations so far
	bornMax int             // longest run so far
	bufs    [NBufs][]string // reusable PK buffers (ecache shape)
	track   *retTracker     // retention measurements (RunWalk with Case.Measure), else nil
	nPK     int             // fresh PK slices handed out
}

var bufNames = func() (n [NBufs + 1][3]string) {
	for b := 1; b <= NBufs; b++ {
		for l := 0; l < 3; l++ {
			n[b][l] = fmt.Sprintf("buffer%d[:%d]", b, l)
		}
	}
	return
}()

// pkFor builds the PK of a call: sel = variant + NVariants*buffer.
func (w *world) pkFor(key, sel int) []string {
	pk := pkOf(key, sel%NVariants)
	b := sel / NVariants
	if b == 0 {
		if w.track != nil { // a fresh slice per call: the cache may keep it only as the stored PK of a resident
			w.nPK++
			trackPK(w.track, w.nPK, &pk[0])
		}
		return pk
	}
	if w.bufs[b-1] == nil {
		w.bufs[b-1] = make([]string, 2)
	}
	buf := w.bufs[b-1]
	copy(buf, pk) // overwrites what earlier calls (and the entries they stored) see
	return buf[:len(pk)]
}

// pkName identifies a PK handed to a callback: a reusable buffer by identity (its content may have been
// overwritten since the cache stored it), any other slice by content.
func (w *world) pkName(pk []string) string {
	if len(pk) > 0 && len(pk) <= 2 {
		for b := range w.bufs {
			if w.bufs[b] != nil && &pk[0] == &w.bufs[b][0] {
				return bufNames[b+1][len(pk)]
			}
		}
	}
	return pkCanon(pk)
}

func (w *world) create(pk string) (int, error) {
	w.creates = append(w.creates, pk)
	fail, kind, errKind := w.fail, w.kind, w.errKind
	if h := w.hook; h != nil {
		w.hook = nil
		h()                                             // nested calls on the same cache; they have their own callback lists
		w.fail, w.kind, w.errKind = fail, kind, errKind // ... and their own outcomes; a second create call of the outer call sees the outer one
	}
	if fail {
		w.nErr++
		w.lastErr = makeErr(errKind, w.nErr)
		return -1, w.lastErr
	}
	w.nextVal++
	return w.nextVal, nil
}

type walkRes struct {
	Nodes, Deleted, RefSum, Resident, Inflight int
	Sane, OK                                   bool
}

type sut struct {
	get    func(key, vr int) (int, int, error) // value id returned (expirable: id of the returned item, 0 for nil) and its kind (iface shape, else 0)
	remove func(key, vr int) bool
	clear  func() int
	walk   func() walkRes
	keep   func() // runtime.KeepAlive of the cache object
}

func keyName(key int) string { return "k" + strconv.Itoa(key) }

// pkOf returns the vr-th primary key of a key: all of them map to the same inner key.
func pkOf(key, vr int) []string {
	n := strconv.Itoa(key)
	switch vr {
	case 1:
		return []string{"K" + n}
	case 2:
		return []string{"k", n}
	}
	return []string{"k" + n}
}

func innerKey(pk []string) string { return strings.ToLower(strings.Join(pk, "")) }

func pkCanon(pk []string) string { return strings.Join(pk, "|") }

func (c Case) pkRepr(key, sel int) string {
	if c.Shape == ShapeECache {
		if b := sel / NVariants; b > 0 {
			return bufNames[b][len(pkOf(key, sel%NVariants))]
		}
		return pkCanon(pkOf(key, sel))
	}
	return keyName(key)
}

func build(c Case, w *world) (*sut, error) {
	switch c.Shape {
	case ShapeCache:
		var cf lru.CreatePoolElemF[string, int]
		if !c.NilCreate {
			cf = func(k string) (int, error) { return w.create(k) }
		}
		var df lru.OnDeleteElemF[string, int]
		if !c.NoCB {
			df = func(k string, v int) { w.dels = append(w.dels, del{k, v, 0}) }
		}
		ch, err := lru.NewCache[string, int](c.Cap, cf, df)
		if err != nil {
			return nil, err
		}
		return &sut{
			get:    func(key, vr int) (int, int, error) { v, err := ch.GetOrCreate(keyName(key)); return v, 0, err },
			remove: func(key, vr int) bool { return ch.Remove(keyName(key)) },
			clear:  func() int { return ch.Clear() },
			walk:   walkOf(ch.ECache),
			keep:   func() { runtime.KeepAlive(ch) },
		}, nil
	case ShapeECache:
		var cf lru.CreatePoolElemF[[]string, int]
		if !c.NilCreate {
			cf = func(pk []string) (int, error) { return w.create(w.pkName(pk)) }
		}
		var df lru.OnDeleteElemF[[]string, int]
		if !c.NoCB {
			df = func(pk []string, v int) { w.dels = append(w.dels, del{w.pkName(pk), v, 0}) }
		}
		ch, err := lru.NewECache[[]string, string, int](c.Cap, innerKey, cf, df)
		if err != nil {
			return nil, err
		}
		return &sut{
			get:    func(key, sel int) (int, int, error) { v, err := ch.GetOrCreate(w.pkFor(key, sel)); return v, 0, err },
			remove: func(key, sel int) bool { return ch.Remove(w.pkFor(key, sel)) },
			clear:  func() int { return ch.Clear() },
			walk:   walkOf(ch),
			keep:   func() { runtime.KeepAlive(ch) },
		}, nil
	case ShapeExpirable:
		var cf lru.CreatePoolElemF[string, *item]
		if !c.NilCreate {
			cf = func(k string) (*item, error) {
				id, err := w.create(k)
				if err != nil {
					return nil, err
				}
				w.lastIt = &item{id: id}
				trackVal(w.track, id, w.lastIt)
				if w.born[k] > 0 { // this creation is part of a run of born-expired items ordered for the key
					w.born[k]--
					w.lastIt.expired = true
					w.bornN++
					if w.bornRun == nil {
						w.bornRun = map[string]int{}
					}
					w.bornRun[k]++
					w.bornMax = max(w.bornMax, w.bornRun[k])
				} else if w.bornRun[k] != 0 {
					w.bornRun[k] = 0
				}
				return w.lastIt, nil
			}
		}
		var df lru.OnDeleteElemF[string, *item]
		if !c.NoCB {
			df = func(k string, v *item) {
				id := 0
				if v != nil {
					id = v.id
				}
				w.dels = append(w.dels, del{k, id, 0})
			}
		}
		ch, err := lru.NewExpirableCache[string, *item](c.Cap, cf, df)
		if err != nil {
			return nil, err
		}
		return &sut{
			get: func(key, vr int) (int, int, error) {
				it, err := ch.GetOrCreate(keyName(key))
				if it == nil {
					return 0, 0, err
				}
				return it.id, 0, err
			},
			remove: func(key, vr int) bool { return ch.Remove(keyName(key)) },
			clear:  func() int { return ch.Clear() },
			walk:   walkOf(ch.Cache.ECache),
			keep:   func() { runtime.KeepAlive(ch) },
		}, nil
	case ShapeIface:
		// unbox names a value of the cache: a non-nil box by its id; a nil value carries no id, it is resolved through the key
		// (at most one value per key is resident, and it is the latest one created for the key)
		unbox := func(k string, v any) (int, int) {
			if v == nil {
				return w.lastNil[k], KindNilIface
			}
			b, ok := v.(*box)
			switch {
			case !ok:
				return -1, KindValue
			case b == nil:
				return w.lastNil[k], KindNilPtr
			}
			return b.id, KindValue
		}
		var cf lru.CreatePoolElemF[string, any]
		if !c.NilCreate {
			cf = func(k string) (any, error) {
				id, err := w.create(k)
				if err != nil {
					return nil, err
				}
				switch w.kind {
				case KindNilIface:
					w.noteNil(k, id)
					return nil, nil
				case KindNilPtr:
					w.noteNil(k, id)
					return (*box)(nil), nil
				}
				b := &box{id: id}
				trackVal(w.track, id, b)
				return b, nil
			}
		}
		var df lru.OnDeleteElemF[string, any]
		if !c.NoCB {
			df = func(k string, v any) {
				id, kind := unbox(k, v)
				w.dels = append(w.dels, del{k, id, kind})
			}
		}
		ch, err := lru.NewCache[string, any](c.Cap, cf, df)
		if err != nil {
			return nil, err
		}
		return &sut{
			get: func(key, vr int) (int, int, error) {
				v, err := ch.GetOrCreate(keyName(key))
				if err != nil {
					return 0, 0, err
				}
				id, kind := unbox(keyName(key), v)
				return id, kind, nil
			},
			remove: func(key, vr int) bool { return ch.Remove(keyName(key)) },
			clear:  func() int { return ch.Clear() },
			walk:   walkOf(ch.ECache),
			keep:   func() { runtime.KeepAlive(ch) },
		}, nil
	}
	panic("bad shape " + c.Shape)
}

func (w *world) noteNil(k string, id int) {
	if w.lastNil == nil {
		w.lastNil = map[string]int{}
	}
	w.lastNil[k] = id
}

// entry of the reference LRU; the slice is kept in recency order, least recently used first.
type entry struct {
	key  int
	pk   string // name of the PK stored at creation (content, or the identity of a reusable buffer)
	sel  int    // ecache: variant + NVariants*buffer of the creating call
	val  int
	kind int   // iface only: KindValue / KindNilIface / KindNilPtr
	it   *item // expirable only
}

// Run executes the case against the real cache and the reference LRU (C08, functional only).
func Run(c Case) (info Info, v *vstat.Violation) {
	return info, vstat.Guard("lru:panic", func() *vstat.Violation { return run(c, false, &info) })
}

// RunWalk executes the case and checks the structural invariants of the recency list after
// every call (C11). A disagreement of the functional oracle is not reported here (C08 does that):
// the case is marked Diverged and goes on without the reference model, checking the structure only.
func RunWalk(c Case) (info Info, v *vstat.Violation) {
	v = vstat.Guard("lru:panic", func() *vstat.Violation { return run(c, true, &info) })
	if v != nil && !strings.HasPrefix(v.Sig, "lru:walk-") && !strings.HasPrefix(v.Sig, "lru:retain-") {
		info.Diverged = true
		v = nil
	}
	return info, v
}

// WalkAvailable tells whether the overlay accessor is compiled into the library.
func WalkAvailable() bool {
	w := &world{}
	s, err := build(Case{Shape: ShapeCache, Cap: 1, Keys: 1}, w)
	return err == nil && s.walk().OK
}

func run(c Case, walk bool, info *Info) *vstat.Violation {
	w := &world{}
	if walk && c.Measure {
		w.track = &retTracker{}
	}
	defer func() { info.BornExpired, info.BornMaxRun, info.BornRunOverCalls = w.bornN, w.bornMax, w.bornMax >= 3 }()
	s, err := build(c, w)
	if c.Cap < 1 || c.NilCreate {
		info.Constructor = true
		if err == nil {
			return vstat.V("lru:constructor-accepted", "shape=%s: constructor accepted maxSize=%d nilCreate=%v (documented: error)", c.Shape, c.Cap, c.NilCreate)
		}
		return nil
	}
	if err != nil {
		return vstat.V("lru:constructor-rejected", "shape=%s: constructor refused maxSize=%d with a create function: %v", c.Shape, c.Cap, err)
	}
	nk := max(1, c.Keys)
	nops := c.Len()
	var m []entry       // reference LRU, least recently used first
	deleted := []int{0} // ledger: deleted[valueID] = number of delete callbacks seen
	hitSeen, failAfterHit := false, false
	var top []entry                      // the model before the current top-level call (for messages only)
	where := func() string { return "" } // lazy description of the current call
	cleared, insertedAfterClear := false, false
	epilogue := false

	find := func(key int) int {
		for i := range m {
			if m[i].key == key {
				return i
			}
		}
		return -1
	}
	dropAt := func(i int) { m = append(m[:i], m[i+1:]...) }
	// mutated: the PK stored with the entry is a reusable buffer that now spells another key
	mutated := func(e entry) bool {
		b := e.sel / NVariants
		if b == 0 || w.bufs[b-1] == nil {
			return false
		}
		return innerKey(w.bufs[b-1][:len(pkOf(e.key, e.sel%NVariants))]) != keyName(e.key)
	}
	fmtDels := func(d []del) string {
		var b strings.Builder
		b.WriteString("[")
		for i, x := range d {
			if i > 0 {
				b.WriteString(" ")
			}
			fmt.Fprintf(&b, "(%s,#%d", x.pk, x.val)
			if x.kind != KindValue {
				fmt.Fprintf(&b, "=%s", kindName(x.kind))
			}
			b.WriteString(")")
		}
		b.WriteString("]")
		return b.String()
	}
	fmtModel := func(prev []entry) string {
		var b strings.Builder
		b.WriteString("LRU→MRU[")
		for i, e := range prev {
			if i > 0 {
				b.WriteString(" ")
			}
			fmt.Fprintf(&b, "%s=#%d", e.pk, e.val)
			if e.kind != KindValue {
				fmt.Fprintf(&b, "(%s)", kindName(e.kind))
			}
			if e.it != nil && e.it.expired {
				b.WriteString("(expired)")
			}
		}
		b.WriteString("]")
		return b.String()
	}
	// wantDels compares the delete callbacks of the current op with the expected list.
	wantDels := func(sig string, want []del, ordered bool) *vstat.Violation {
		if c.NoCB {
			return nil
		}
		got := w.dels
		ok := len(got) == len(want)
		if ok && !ordered {
			g := append([]del(nil), got...)
			x := append([]del(nil), want...)
			less := func(s []del) func(i, j int) bool {
				return func(i, j int) bool {
					if s[i].val != s[j].val {
						return s[i].val < s[j].val
					}
					return s[i].pk < s[j].pk
				}
			}
			sort.Slice(g, less(g))
			sort.Slice(x, less(x))
			got, want = g, x
		}
		if ok {
			for i := range got {
				if got[i] != want[i] {
					ok = false
				}
			}
		}
		if !ok {
			return vstat.V(sig, "%s: delete callbacks made %s, expected %s", where(), fmtDels(w.dels), fmtDels(want))
		}
		return nil
	}
	wantCreates := func(n int, pk string) *vstat.Violation {
		if len(w.creates) != n {
			sig := "lru:miss-create-count"
			if n == 0 {
				sig = "lru:hit-called-create"
			}
			return vstat.V(sig, "%s: the create function was called %d time(s) %v, expected %d", where(), len(w.creates), w.creates, n)
		}
		for _, got := range w.creates {
			if got != pk {
				return vstat.V("lru:create-arg", "%s: the create function was called with %q, expected %q", where(), got, pk)
			}
		}
		return nil
	}
	// setBorn orders a run of born-expired creations for a key (Op.Born; shape expirable only).
	setBorn := func(key, born int) {
		if c.Shape != ShapeExpirable || born <= 0 {
			return
		}
		if w.born == nil {
			w.born = map[string]int{}
		}
		w.born[keyName(key)] = min(born, MaxBorn)
	}
	// ledger accounts the delete callbacks of the current op against the model after the op.
	ledger := func() *vstat.Violation {
		for _, d := range w.dels {
			if d.val < 1 || d.val > w.nextVal {
				return vstat.V("lru:ledger-unknown-value", "%s: delete callback for value #%d which was never created", where(), d.val)
			}
			for len(deleted) <= w.nextVal {
				deleted = append(deleted, 0)
			}
			deleted[d.val]++
			if deleted[d.val] > 1 {
				return vstat.V("lru:ledger-double-delete", "%s: value #%d passed to the delete callback a second time", where(), d.val)
			}
			for _, e := range m {
				if e.val == d.val {
					return vstat.V("lru:ledger-delete-resident", "%s: delete callback for value #%d which is resident", where(), d.val)
				}
			}
		}
		return nil
	}
	structural := func() *vstat.Violation {
		if !walk {
			return nil
		}
		var r walkRes
		if pv := vstat.Guard("lru:walk-panic", func() *vstat.Violation { r = s.walk(); return nil }); pv != nil {
			return pv
		}
		if !r.OK {
			return nil
		}
		info.Walks++
		switch {
		case !r.Sane:
			return vstat.V("lru:walk-insane", "after %s: the recency list is not well formed (nodes=%d deleted=%d refSum=%d resident=%d)", where(), r.Nodes, r.Deleted, r.RefSum, r.Resident)
		case r.RefSum != 0:
			return vstat.V("lru:walk-refsum", "after %s: reference counts sum to %d although no iterator is open (nodes=%d deleted=%d resident=%d)", where(), r.RefSum, r.Nodes, r.Deleted, r.Resident)
		case r.Deleted != 0:
			return vstat.V("lru:walk-deleted", "after %s: %d removed node(s) still linked into the recency list (nodes=%d resident=%d)", where(), r.Deleted, r.Nodes, r.Resident)
		case r.Nodes != r.Resident+1:
			return vstat.V("lru:walk-nodes", "after %s: %d list nodes for %d residents (want residents+1)", where(), r.Nodes, r.Resident)
		case r.Resident > c.Cap:
			return vstat.V("lru:walk-over-capacity", "after %s: %d residents in a cache of capacity %d", where(), r.Resident, c.Cap)
		case r.Inflight != 0:
			return vstat.V("lru:walk-inflight", "after %s: %d entries left in the in-flight table", where(), r.Inflight)
		}
		return nil
	}
	checkpoint := func(done int) *vstat.Violation {
		if !walk {
			return nil
		}
		r := s.walk()
		if !r.OK {
			return nil
		}
		info.Checkpoints++
		info.MaxNodes = max(info.MaxNodes, r.Nodes)
		if r.Nodes-1 > c.Cap { // not Cap+1: the capacity may be math.MaxInt
			return vstat.V("lru:walk-checkpoint-growth", "after %d calls the recency list has %d nodes, capacity is %d (must stay <= capacity+1 whatever the history length)", done, r.Nodes, c.Cap)
		}
		return nil
	}
	blind := false
	// measure: the retention oracle (retain.go). Everything the harness itself still knows of entries that have left is wiped first:
	// the tails of the model slices, the copy made for the messages, the latest item.
	measure := func(when string, done int) *vstat.Violation {
		if w.track == nil || blind {
			return nil
		}
		clear(m[len(m):cap(m)])
		clear(top[:cap(top)])
		top = top[:0]
		w.lastIt = nil
		res := map[int]bool{}
		pkBound := -1
		if c.Shape == ShapeECache {
			pkBound = 0
		}
		for _, e := range m {
			if (c.Shape == ShapeIface && e.kind == KindValue) || c.Shape == ShapeExpirable {
				res[e.val] = true
			}
			if c.Shape == ShapeECache && e.sel/NVariants == 0 {
				pkBound++
			}
		}
		ri := &info.Retain
		switch when {
		case "remove":
			ri.AfterRemove = true
		case "clear":
			ri.AfterClear = true
		case "epilogue":
			ri.AfterEpilogue = true
		case "final":
			ri.AfterFinal = true
		}
		if info.Evictions >= 100 {
			ri.AfterEvictions100 = true
		}
		nres := len(m)
		return w.track.measure(ri, len(res), func(id int) bool { return res[id] }, pkBound, s.keep, func() string {
			at := map[string]string{"remove": "right after a Remove of a resident entry", "clear": "right after a Clear of a non-empty cache", "checkpoint": "at a checkpoint",
				"epilogue": "after the epilogue's insertions of fresh keys", "final": "after the final Clear"}[when]
			cb := "with a delete callback"
			if c.NoCB {
				cb = "WITHOUT a delete callback"
			}
			return fmt.Sprintf("shape=%s cap=%d, cache built %s, %d calls made, %s: %d entries resident (reference model)", c.Shape, c.Cap, cb, done, at, nres)
		})
	}

	// insert does the model side of a successful creation and returns the expected delete callbacks.
	delOf := func(e entry) del { return del{e.pk, e.val, e.kind} }
	left := func(e entry, evicted bool) { // classification of an entry that leaves the cache
		if e.kind != KindValue {
			info.NilLeft = true
			if evicted {
				info.NilEvicted = true
			}
		}
	}
	insert := func(key int, pk string, sel int, val int, kind int, lenAtMiss int) []del {
		var want []del
		if len(m) >= c.Cap {
			if lenAtMiss >= 0 && lenAtMiss < c.Cap {
				info.ReentrantWindow = true // nested calls filled the cache between the miss and the insertion
			}
			minVal := m[0].val
			for _, e := range m {
				minVal = min(minVal, e.val)
			}
			victim := m[0]
			if victim.val != minVal {
				info.HitChangedEviction = true
			}
			if victim.it != nil && victim.it.expired {
				info.ExpiredEvicted = true
			}
			if c.Shape == ShapeECache && victim.sel%NVariants != 0 {
				info.CollideDelete = true
			}
			if mutated(victim) {
				info.MutatedLeft, info.MutatedEvicted = true, true
			}
			want = append(want, delOf(victim))
			left(victim, true)
			dropAt(0)
			if !epilogue {
				info.Evictions++
			}
			if insertedAfterClear {
				info.EvictAfterClear = true
			}
		}
		e := entry{key: key, pk: pk, sel: sel, val: val, kind: kind}
		switch kind {
		case KindNilIface:
			info.NilIfaceCreated++
		case KindNilPtr:
			info.NilPtrCreated++
		}
		if c.Shape == ShapeExpirable {
			e.it = w.lastIt
		}
		m = append(m, e)
		if cleared {
			info.ReuseAfterClear = true
			insertedAfterClear = true
		}
		return want
	}

	// re-entrancy: state shared between a call and the calls its create function makes
	var runNested func(prog []Op, stack []int)
	var pendingV *vstat.Violation // first violation found inside a nested call
	pendingStop := false          // a nested call ended in an undetermined state
	shift := 0                    // key shift of the current repetition

	// getOrCreate executes one GetOrCreate against both sides. prog is the program the create function
	// runs if this call reaches it; stack holds the keys whose creation is in progress around this call.
	getOrCreate := func(key, vr int, fail bool, errKind int, born int, nilKind int, prog []Op, stack []int) (v *vstat.Violation, stop bool) {
		pk := c.pkRepr(key, vr)
		setBorn(key, born)
		wantKind := KindValue
		if c.Shape == ShapeIface {
			wantKind = normKind(nilKind)
		}
		// valStr describes a value as the caller sees it
		valStr := func(id, kind int) string {
			if kind != KindValue {
				return fmt.Sprintf("#%d (%s)", id, kindName(kind))
			}
			return fmt.Sprintf("#%d", id)
		}
		// nb: how many of the coming creations for this key are born expired. Calls nested in the create
		// function never touch a key in flight, so the run cannot change while this call is running.
		nb := w.born[keyName(key)]
		const (
			hit = iota
			staleHit
			miss
		)
		kind := miss
		var old entry
		if idx := find(key); idx >= 0 {
			old, kind = m[idx], hit
			if old.it != nil && old.it.expired {
				kind = staleHit
			}
		}
		lenAtMiss := -1
		w.fail, w.kind, w.errKind = fail, wantKind, normErr(errKind)
		w.hook = func() { // inside the create function, the cache lock is not held
			if kind == hit {
				return // a create call on a hit is reported below
			}
			if kind == staleHit {
				// documented order (expirable.go): "remove from cache", then "call get or create again"
				if i := find(key); i >= 0 {
					dropAt(i)
				}
			}
			lenAtMiss = len(m)
			if len(prog) > 0 {
				runNested(prog, append(stack, key))
			}
		}
		got, gotKind, err := s.get(key, vr)
		w.hook = nil
		if pendingV != nil {
			return pendingV, true
		}
		if pendingStop {
			return nil, true
		}
		switch kind {
		case staleHit:
			// expirable: resident but stale. Documented: "re-adds it to the cache by calling the createNewF".
			stale := old
			if v := wantCreates(1, pk); v != nil {
				return v, true
			}
			if !fail {
				if err != nil {
					return vstat.V("lru:expired-error", "%s: re-creation of the stale item succeeded but GetOrCreate returned error %v", where(), err), true
				}
				if got != w.nextVal {
					return vstat.V("lru:expired-wrong-value", "%s: stale #%d must be replaced by the new #%d, got #%d", where(), stale.val, w.nextVal, got), true
				}
				want := append([]del{delOf(stale)}, insert(key, pk, vr, w.nextVal, KindValue, lenAtMiss)...)
				if v := wantDels("lru:expired-callbacks", want, false); v != nil {
					return v, true
				}
				info.ExpiredReplaced = true
				if nb > 0 { // the replacement is returned as it is: one replacement per call, stale or not
					info.BornReplacedStale = true
				}
				info.Misses++
				return nil, false
			}
			if err == nil {
				return vstat.V("lru:fail-no-error", "%s: the create function failed (%s) but GetOrCreate returned no error (value #%d)", where(), errText(w.lastErr), got), true
			}
			if !sameErr(err, w.lastErr) {
				return vstat.V("lru:fail-wrong-error", "%s: GetOrCreate returned %s which is not the create function's error %s", where(), errText(err), errText(w.lastErr)), true
			}
			info.Fails++
			info.FailKinds[normErr(errKind)]++
			// Whether the stale item is still resident after a failed re-creation is not determined by the
			// documentation: accept "removed (callback once)" and follow it; abandon the case on "kept".
			if !c.NoCB && len(w.dels) == 1 && w.dels[0] == delOf(stale) {
				info.ExpiredRecreateFail = true
				return nil, false
			}
			if !c.NoCB && len(w.dels) != 0 {
				return vstat.V("lru:expired-callbacks", "%s: failed re-creation of stale #%d made delete callbacks %s", where(), stale.val, fmtDels(w.dels)), true
			}
			info.Undetermined = true
			return nil, true
		case hit:
			if v := wantCreates(0, pk); v != nil {
				return v, true
			}
			if err != nil {
				return vstat.V("lru:hit-error", "%s: key is resident (#%d) but GetOrCreate returned error %v", where(), old.val, err), true
			}
			if got != old.val || gotKind != old.kind {
				return vstat.V("lru:hit-wrong-value", "%s: key is resident with %s but GetOrCreate returned %s", where(), valStr(old.val, old.kind), valStr(got, gotKind)), true
			}
			if old.kind != KindValue {
				info.NilHit = true
			}
			if v := wantDels("lru:hit-callbacks", nil, true); v != nil {
				return v, true
			}
			if old.sel%NVariants != vr%NVariants {
				info.CollideHit = true
			}
			dropAt(find(key))
			m = append(m, old)
			info.Hits++
			hitSeen = true
			if failAfterHit {
				info.FailBetweenHits = true
			}
			return nil, false
		default:
			// expirable: an item that is already expired when the create function returns it is a value that
			// "reached expires at": the wrapper replaces it once - Remove (delete callback), one more create call -
			// and returns the replacement as it is.
			ncreate := 1
			if nb > 0 && !fail {
				ncreate = 2
			}
			if v := wantCreates(ncreate, pk); v != nil {
				return v, true
			}
			if fail {
				if err == nil {
					return vstat.V("lru:fail-no-error", "%s: the create function failed (%s) but GetOrCreate returned no error (value #%d)", where(), errText(w.lastErr), got), true
				}
				if !sameErr(err, w.lastErr) {
					return vstat.V("lru:fail-wrong-error", "%s: GetOrCreate returned %s which is not the create function's error %s", where(), errText(err), errText(w.lastErr)), true
				}
				if v := wantDels("lru:fail-callbacks", nil, true); v != nil {
					return v, true
				}
				info.Fails++
				info.FailKinds[normErr(errKind)]++
				if hitSeen {
					failAfterHit = true
				}
				return nil, false
			}
			if err != nil {
				return vstat.V("lru:miss-error", "%s: creation succeeded (#%d) but GetOrCreate returned error %v", where(), w.nextVal, err), true
			}
			if ncreate == 2 {
				first := w.nextVal - 1 // the second create call runs no nested program: consecutive ids
				if got != w.nextVal {
					return vstat.V("lru:born-expired-wrong-value", "%s: created #%d (already expired), then its replacement #%d, but GetOrCreate returned #%d", where(), first, w.nextVal, got), true
				}
				want := insert(key, pk, vr, first, KindValue, lenAtMiss) // inserted (evicting if full) before its expiry is looked at
				want = append(want, del{pk, first, KindValue})
				dropAt(find(key))
				want = append(want, insert(key, pk, vr, w.nextVal, KindValue, -1)...) // there is room now: no second eviction
				if v := wantDels("lru:born-expired-callbacks", want, false); v != nil {
					return v, true
				}
				info.BornReplacedInCall = true
				if nb > 1 {
					info.BornReturnedStale = true
				}
				info.Misses++
				return nil, false
			}
			if got != w.nextVal || gotKind != wantKind {
				return vstat.V("lru:miss-wrong-value", "%s: created %s but GetOrCreate returned %s", where(), valStr(w.nextVal, wantKind), valStr(got, gotKind)), true
			}
			want := insert(key, pk, vr, w.nextVal, wantKind, lenAtMiss)
			if v := wantDels("lru:evict-callbacks", want, true); v != nil {
				return v, true
			}
			info.Misses++
			return nil, false
		}
	}
	doClear := func() *vstat.Violation {
		got := s.clear()
		if got != len(m) {
			return vstat.V("lru:clear-result", "%s: Clear returned %d, resident are %d", where(), got, len(m))
		}
		want := make([]del, 0, len(m))
		for _, e := range m {
			want = append(want, delOf(e))
			left(e, false)
			if e.it != nil && e.it.expired {
				info.ExpiredEvicted = true
			}
			if mutated(e) {
				info.MutatedLeft = true
			}
		}
		if v := wantDels("lru:clear-callbacks", want, false); v != nil {
			return v
		}
		if len(m) > 0 && !epilogue {
			info.ClearNonEmpty++
			cleared = true
		}
		m = m[:0]
		return nil
	}

	begin := func(desc func() string) {
		top = append(top[:0], m...)
		where = desc
		w.creates, w.dels, w.lastErr = w.creates[:0], w.dels[:0], nil
	}
	// functional side of one call of the list; stop = the model cannot follow any further
	doOp := func(op Op, key, vr int, stack []int) (v *vstat.Violation, stop bool) {
		if vr >= NVariants && (op.K == "g" || op.K == "r") {
			info.BufCalls++
		}
		switch op.K {
		case "g":
			if v, stop := getOrCreate(key, vr, op.Fail, op.Err, op.Born, op.Nil, op.Nested, stack); v != nil || stop {
				return v, true
			}
		case "r":
			idx := find(key)
			got := s.remove(key, vr)
			if got != (idx >= 0) {
				return vstat.V("lru:remove-result", "%s: Remove returned %v", where(), got), true
			}
			var want []del
			if idx >= 0 {
				want = []del{delOf(m[idx])}
				left(m[idx], false)
				if m[idx].it != nil && m[idx].it.expired {
					info.ExpiredEvicted = true
				}
				if m[idx].sel%NVariants != vr%NVariants {
					info.CollideDelete = true
				}
				if mutated(m[idx]) {
					info.MutatedLeft = true
				}
				dropAt(idx)
				info.RemoveHit++
			} else {
				info.RemoveMis++
			}
			if v := wantDels("lru:remove-callbacks", want, true); v != nil {
				return v, true
			}
			if v := wantCreates(0, ""); v != nil {
				return v, true
			}
		case "c":
			if v := doClear(); v != nil {
				return v, true
			}
			if v := wantCreates(0, ""); v != nil {
				return v, true
			}
		case "x":
			// positional: the Key-th resident in recency order (every x on a non-empty expirable cache is effective)
			if len(m) > 0 && c.Shape == ShapeExpirable {
				if e := m[((op.Key%len(m))+len(m))%len(m)]; e.it != nil {
					e.it.expired = true
				}
			}
		default:
			panic("bad op " + op.K)
		}
		if v := ledger(); v != nil {
			return v, true
		}
		return nil, false
	}
	// blind: once the model cannot follow (functional disagreement or undetermined outcome) a RunWalk case
	// goes on making the calls without comparing anything but the structure of the recency list.
	goBlind := func(v *vstat.Violation) *vstat.Violation {
		if !walk {
			return v
		}
		if v != nil {
			info.Diverged = true
		}
		blind = true
		pendingV, pendingStop = nil, false
		m = m[:0]
		return structural()
	}
	blindOp := func(op Op, key, vr int, stack []int) {
		switch op.K {
		case "g":
			setBorn(key, op.Born)
			w.fail, w.kind, w.errKind = op.Fail, normKind(op.Nil), normErr(op.Err)
			w.hook = func() {
				if len(op.Nested) > 0 {
					runNested(op.Nested, append(stack, key))
				}
			}
			s.get(key, vr)
			w.hook = nil
		case "r":
			s.remove(key, vr)
		case "c":
			s.clear()
		}
	}
	// runNested is called from inside the create function of the GetOrCreate whose key is on top of stack.
	runNested = func(prog []Op, stack []int) {
		for i, nop := range prog {
			if i >= MaxNested || pendingV != nil || pendingStop {
				return
			}
			if nop.K != "g" && nop.K != "r" && nop.K != "c" {
				continue
			}
			// the first key >= Key (cyclically) that is not in flight on this call stack
			key, ok := 0, nop.K == "c"
			base := ((nop.Key+shift)%nk + nk) % nk
			for t := 0; t < nk && !ok; t++ {
				key, ok = (base+t)%nk, true
				for _, k := range stack {
					if k == key {
						ok = false
					}
				}
			}
			if !ok {
				continue
			}
			vr := 0
			if c.Shape == ShapeECache {
				vr = ((nop.Var%NVariants)+NVariants)%NVariants + NVariants*(((nop.Buf%(NBufs+1))+NBufs+1)%(NBufs+1))
			}
			if len(stack) >= MaxDepth {
				nop.Nested = nil
			}
			info.NestedCalls++
			if len(stack) >= 2 {
				info.NestedDepth2 = true
			}
			if blind {
				blindOp(nop, key, vr, stack)
				continue
			}
			// the nested call has its own create/delete-callback lists and its own description
			sc, sd, sw := w.creates, w.dels, where
			w.creates, w.dels = nil, nil
			np := append([]entry(nil), m...)
			where = func() string {
				return fmt.Sprintf("nested call %s (before it: %s), made by the create function of {%s}", opString(c, nop, key, vr), fmtModel(np), sw())
			}
			v, stop := doOp(nop, key, vr, stack)
			if len(np) != len(m) {
				info.NestedChanged = true
			} else {
				for j := range np {
					if np[j].val != m[j].val {
						info.NestedChanged = true
					}
				}
			}
			w.creates, w.dels, where = sc, sd, sw
			if v != nil {
				pendingV = v
			} else if stop {
				pendingStop = true
			}
		}
	}

	begin(func() string { return "construction" })
	if v := structural(); v != nil {
		return v
	}
	g := 0
	pendRemove, pendClear := true, true // retention: measure right after the next Remove of a resident / Clear of a non-empty cache
	for r := 0; r < max(1, c.Repeat); r++ {
		for j := range c.Ops {
			op := c.Ops[j]
			rh, cn := info.RemoveHit, info.ClearNonEmpty
			shift = r * c.Stride
			key := ((op.Key+shift)%nk + nk) % nk
			vr := 0
			if c.Shape == ShapeECache {
				vr = ((op.Var%NVariants)+NVariants)%NVariants + NVariants*(((op.Buf%(NBufs+1))+NBufs+1)%(NBufs+1))
			}
			if blind {
				begin(func() string {
					return fmt.Sprintf("call #%d of %d %s [shape=%s cap=%d] (reference model abandoned earlier)", g, nops, opString(c, op, key, vr), c.Shape, c.Cap)
				})
				blindOp(op, key, vr, nil)
			} else {
				begin(func() string {
					return fmt.Sprintf("call #%d of %d %s [shape=%s cap=%d] before: %s", g, nops, opString(c, op, key, vr), c.Shape, c.Cap, fmtModel(top))
				})
				if v, stop := doOp(op, key, vr, nil); v != nil || stop {
					if !walk {
						info.OpsDone = g
						return v
					}
					if sv := goBlind(v); sv != nil {
						return sv
					}
				}
			}
			if v := structural(); v != nil {
				return v
			}
			g++
			switch {
			case g%1000 == 0:
				if v := checkpoint(g); v != nil {
					return v
				}
				if v := measure("checkpoint", g); v != nil {
					return v
				}
				pendRemove, pendClear = true, true
			case pendClear && op.K == "c" && info.ClearNonEmpty > cn:
				pendClear = false
				if v := measure("clear", g); v != nil {
					return v
				}
			case pendRemove && op.K == "r" && info.RemoveHit > rh:
				pendRemove = false
				if v := measure("remove", g); v != nil {
					return v
				}
			}
		}
	}
	info.OpsDone = g

	epilogue = true
	shift = 0
	// epilogue 1: Cap insertions of fresh keys; the i-th one must evict the i-th entry of the recency order. A cache with a huge
	// capacity cannot be filled: 4 insertions, which the reference says evict nothing.
	nEpi := c.Cap
	if c.Cap >= hugeCap {
		nEpi = 4
	}
	for i := 0; i < nEpi; i++ {
		key := 1000 + i
		if blind {
			begin(func() string {
				return fmt.Sprintf("epilogue (after %d calls): GetOrCreate(fresh key %s) [shape=%s cap=%d] (reference model abandoned earlier)", g, keyName(key), c.Shape, c.Cap)
			})
			blindOp(Op{K: "g"}, key, 0, nil)
		} else {
			begin(func() string {
				return fmt.Sprintf("epilogue (after %d calls): GetOrCreate(fresh key %s) [shape=%s cap=%d] before: %s", g, keyName(key), c.Shape, c.Cap, fmtModel(top))
			})
			v, _ := getOrCreate(key, 0, false, 0, 0, KindValue, nil, nil)
			if v == nil {
				v = ledger()
			}
			if v != nil {
				if !walk {
					return v
				}
				if sv := goBlind(v); sv != nil {
					return sv
				}
			}
		}
		if v := structural(); v != nil {
			return v
		}
	}
	if v := measure("epilogue", g); v != nil {
		return v
	}
	// epilogue 2: final Clear, then every created value has been deleted exactly once
	if blind {
		begin(func() string {
			return fmt.Sprintf("epilogue (after %d calls): final Clear [shape=%s cap=%d] (reference model abandoned earlier)", g, c.Shape, c.Cap)
		})
		blindOp(Op{K: "c"}, 0, 0, nil)
		return structural()
	}
	begin(func() string {
		return fmt.Sprintf("epilogue (after %d calls): final Clear [shape=%s cap=%d] before: %s", g, c.Shape, c.Cap, fmtModel(top))
	})
	v := doClear()
	if v == nil {
		v = ledger()
	}
	if v != nil {
		if !walk {
			return v
		}
		return goBlind(v)
	}
	if v := structural(); v != nil {
		return v
	}
	if v := measure("final", g); v != nil {
		return v
	}
	if !c.NoCB {
		for len(deleted) <= w.nextVal {
			deleted = append(deleted, 0)
		}
		for id := 1; id <= w.nextVal; id++ {
			if deleted[id] != 1 {
				v := vstat.V("lru:ledger-leak", "after the final Clear value #%d (created successfully) was passed to the delete callback %d times, want exactly once", id, deleted[id])
				if walk {
					info.Diverged = true
					return nil
				}
				return v
			}
		}
	}
	return nil
}

// pkShow describes the PK of a call; for a reusable buffer also the text written into it by the call.
func pkShow(c Case, key, sel int) string {
	if c.Shape == ShapeECache && sel >= NVariants {
		return c.pkRepr(key, sel) + "←" + pkCanon(pkOf(key, sel%NVariants))
	}
	return c.pkRepr(key, sel)
}

func opString(c Case, op Op, key, vr int) string {
	switch op.K {
	case "g":
		out := "create→ok"
		if op.Fail {
			out = "create→error(" + errKindNames[normErr(op.Err)] + ")"
		}
		if len(op.Nested) > 0 {
			out = "create→{" + nestedString(op.Nested) + "}→" + out[len("create→"):]
		}
		if c.Shape == ShapeIface && normKind(op.Nil) != KindValue && !op.Fail {
			out += " with a " + kindName(normKind(op.Nil))
		}
		if op.Born > 0 && c.Shape == ShapeExpirable {
			out += fmt.Sprintf(", the next %d creation(s) for the key are born expired", min(op.Born, MaxBorn))
		}
		return fmt.Sprintf("GetOrCreate(%s, %s)", pkShow(c, key, vr), out)
	case "r":
		return fmt.Sprintf("Remove(%s)", pkShow(c, key, vr))
	case "c":
		return "Clear()"
	case "x":
		return fmt.Sprintf("expire-resident-item(position %d mod residents)", op.Key)
	}
	return op.K
}

// nestedString renders a nested program; its keys are resolved when it runs (first key index >= the
// given one that is not in flight), so they are shown symbolically.
func nestedString(prog []Op) string {
	var b strings.Builder
	for i, op := range prog {
		if i > 0 {
			b.WriteString("; ")
		}
		switch op.K {
		case "g":
			fmt.Fprintf(&b, "GetOrCreate(key>=%d", op.Key)
			if op.Var != 0 {
				fmt.Fprintf(&b, " variant %d", op.Var)
			}
			if op.Buf != 0 {
				fmt.Fprintf(&b, " in buffer %d", op.Buf)
			}
			if len(op.Nested) > 0 {
				b.WriteString(", create→{" + nestedString(op.Nested) + "}")
			}
			if op.Born > 0 {
				fmt.Fprintf(&b, ", next %d born expired", op.Born)
			}
			if op.Nil != 0 {
				fmt.Fprintf(&b, ", value kind %d", normKind(op.Nil))
			}
			if op.Fail {
				b.WriteString(", create→error)")
			} else {
				b.WriteString(", create→ok)")
			}
		case "r":
			fmt.Fprintf(&b, "Remove(key>=%d)", op.Key)
		case "c":
			b.WriteString("Clear()")
		default:
			b.WriteString(op.K)
		}
	}
	return b.String()
}

// Hash is a cheap FNV-1a hash of the case.
func (c Case) Hash() uint64 {
	h := uint64(14695981039346656037)
	mix := func(b uint64) {
		h ^= b
		h *= 1099511628211
	}
	for i := 0; i < len(c.Shape); i++ {
		mix(uint64(c.Shape[i]))
	}
	mix(uint64(int64(c.Cap)))
	mix(uint64(int64(c.Keys)))
	b := uint64(0)
	if c.NoCB {
		b |= 1
	}
	if c.NilCreate {
		b |= 2
	}
	if c.Measure {
		b |= 4
	}
	mix(b)
	mix(uint64(int64(c.Repeat)))
	mix(uint64(int64(c.Stride)))
	var ops func(l []Op)
	ops = func(l []Op) {
		for _, o := range l {
			x := uint64(o.K[0]) | uint64(uint8(o.Buf))<<16 | uint64(uint8(o.Born))<<24 | uint64(uint8(o.Nil))<<32
			if o.Fail {
				x |= 256 | uint64(normErr(o.Err))<<40
			}
			mix(x)
			mix(uint64(int64(o.Key))<<8 | uint64(uint8(o.Var)))
			if len(o.Nested) > 0 {
				mix(0x7b) // {
				ops(o.Nested)
				mix(0x7d) // }
			}
		}
	}
	ops(c.Ops)
	return h
}

// NonTrivial is the rule of C08: a hit that changed which entry was evicted later, or a failed
// creation between two hits, or re-use after a Clear that removed something.
func (i Info) NonTrivial() bool {
	return i.HitChangedEviction || i.FailBetweenHits || i.ReuseAfterClear
}

// NonTrivialWalk is the rule of the LRU part of C11: at least one Clear (of a non-empty cache)
// followed by insertions and an eviction.
func (i Info) NonTrivialWalk() bool { return i.EvictAfterClear && !i.Diverged && i.Walks > 0 }

// Classes for the histogram.
func (i Info) Classes(c Case) []string {
	cl := []string{"shape_" + c.Shape}
	switch {
	case i.Constructor:
		return append(cl, "constructor_refusal")
	case c.Cap <= 8:
		cl = append(cl, "cap_"+strconv.Itoa(c.Cap))
	case c.Cap == math.MaxInt:
		cl = append(cl, "cap_huge", "cap_maxint")
	case c.Cap >= hugeCap:
		cl = append(cl, "cap_huge")
	default:
		cl = append(cl, "cap_gt8")
	}
	add := func(b bool, s string) {
		if b {
			cl = append(cl, s)
		}
	}
	add(c.NoCB, "nil_delete_callback")
	add(i.HitChangedEviction, "hit_changed_later_eviction")
	add(i.FailBetweenHits, "failed_creation_between_hits")
	add(i.ReuseAfterClear, "reuse_after_clear")
	add(i.EvictAfterClear, "clear_then_insert_then_evict")
	add(i.Evictions > 0, "has_eviction")
	add(i.Hits > 0, "has_hit")
	add(i.Fails > 0, "has_failed_creation")
	for k, n := range i.FailKinds {
		add(n > 0, "failed_creation_error_"+errKindNames[k])
	}
	add(i.RemoveHit > 0, "remove_resident")
	add(i.RemoveMis > 0, "remove_absent")
	add(i.ClearNonEmpty > 0, "clear_nonempty")
	add(i.CollideHit, "ecache_hit_via_other_pk")
	add(i.CollideDelete, "ecache_delete_of_entry_created_via_other_pk")
	add(i.BufCalls > 0, "ecache_pk_buffer_reused_by_caller")
	add(i.MutatedLeft, "ecache_entry_left_after_its_stored_pk_was_overwritten")
	add(i.MutatedEvicted, "ecache_entry_evicted_after_its_stored_pk_was_overwritten")
	add(i.ExpiredReplaced, "expirable_stale_replaced")
	add(i.ExpiredRecreateFail, "expirable_stale_recreation_failed")
	add(i.ExpiredEvicted, "expirable_stale_left_by_evict_remove_clear")
	add(i.BornExpired > 0, "expirable_item_born_expired")
	for r := 1; r <= min(i.BornMaxRun, MaxBorn); r++ {
		cl = append(cl, "expirable_born_expired_run_ge_"+strconv.Itoa(r))
	}
	add(i.BornReplacedInCall, "expirable_born_expired_replaced_in_the_creating_call")
	add(i.BornReturnedStale, "expirable_replacement_of_born_expired_is_born_expired_too")
	add(i.BornReplacedStale, "expirable_stale_resident_replaced_by_born_expired")
	add(i.BornRunOverCalls, "expirable_born_expired_run_spans_calls")
	add(i.NilIfaceCreated > 0, "iface_creation_returned_nil_interface")
	add(i.NilPtrCreated > 0, "iface_creation_returned_typed_nil_pointer")
	add(i.NilHit, "iface_hit_on_resident_nil_value")
	add(i.NilLeft, "iface_nil_value_left_by_evict_remove_clear")
	add(i.NilEvicted, "iface_nil_value_evicted")
	add(c.Cap >= hugeCap && i.ClearNonEmpty > 0, "cap_huge_clear_nonempty")
	add(i.NestedCalls > 0, "reentrant_create_made_nested_calls")
	add(i.NestedDepth2, "reentrant_depth_2")
	add(i.NestedChanged, "reentrant_nested_call_changed_residents_or_order")
	add(i.ReentrantWindow, "reentrant_cache_filled_between_miss_and_insertion")
	add(i.Undetermined, "abandoned_undetermined")
	add(i.Diverged, "abandoned_functional_divergence")
	cl = append(cl, i.Retain.Classes(c.NoCB)...)
	n := c.Len()
	switch {
	case n >= 100000:
		cl = append(cl, "len_ge_100000")
	case n >= 10000:
		cl = append(cl, "len_ge_10000")
	case n >= 1000:
		cl = append(cl, "len_ge_1000")
	}
	return cl
}

// Alphabet is the finite op alphabet of the exhaustive part for one shape.
func Alphabet(shape string, keys int) []Op {
	var a []Op
	vars := 1
	if shape == ShapeECache {
		vars = 2
	}
	for k := 0; k < keys; k++ {
		for v := 0; v < vars; v++ {
			a = append(a, Op{K: "g", Key: k, Var: v}, Op{K: "g", Key: k, Var: v, Fail: true}, Op{K: "r", Key: k, Var: v})
		}
		if shape == ShapeExpirable {
			a = append(a, Op{K: "x", Key: k})
		}
		if shape == ShapeIface {
			a = append(a, Op{K: "g", Key: k, Nil: KindNilIface}, Op{K: "g", Key: k, Nil: KindNilPtr})
		}
	}
	return append(a, Op{K: "c"})
}

// BornAlphabet is the extra part of the exhaustive alphabet of the expirable shape with items that are born
// expired: per key, GetOrCreate that orders a run of 1 (replaced by a fresh item in the same call) or of 3 (two in
// the first call, the third when the stale resident is touched again) such creations for the key.
func BornAlphabet(keys int) []Op {
	var a []Op
	for k := 0; k < keys; k++ {
		a = append(a, Op{K: "g", Key: k, Born: 1}, Op{K: "g", Key: k, Born: 3})
	}
	return a
}

// ReentrantAlphabet is the extra part of the exhaustive alphabet with re-entrant create functions: per
// key k, GetOrCreate(k) whose create function first runs one of a few programs on the following key(s).
func ReentrantAlphabet(keys int) []Op {
	var a []Op
	for k := 0; k < keys; k++ {
		n := k + 1 // resolved cyclically to a key that is not in flight
		progs := [][]Op{
			{{K: "g", Key: n}},
			{{K: "g", Key: n, Fail: true}},
			{{K: "r", Key: n}},
		}
		if keys > 2 {
			progs = append(progs,
				[]Op{{K: "g", Key: n, Nested: []Op{{K: "g", Key: n + 1}}}},
				[]Op{{K: "g", Key: n}, {K: "g", Key: n + 1}},
			)
		}
		for _, p := range progs {
			a = append(a, Op{K: "g", Key: k, Nested: p})
		}
		a = append(a, Op{K: "g", Key: k, Fail: true, Nested: []Op{{K: "g", Key: n}}})
	}
	return a
}

// BufferAlphabet is the exhaustive alphabet of the ecache shape with caller-reused PK buffers: per key
// GetOrCreate/Remove through a fresh slice, through buffer 1 and (GetOrCreate only) through buffer 2.
func BufferAlphabet(keys int) []Op {
	var a []Op
	for k := 0; k < keys; k++ {
		a = append(a, Op{K: "g", Key: k}, Op{K: "g", Key: k, Fail: true}, Op{K: "r", Key: k},
			Op{K: "g", Key: k, Buf: 1}, Op{K: "r", Key: k, Buf: 1}, Op{K: "g", Key: k, Buf: 2})
	}
	return append(a, Op{K: "c"})
}
