//go:build nohooks

package p_lru

import "github.com/acquirecloud/golibs/container/lru"

const hooksOn = false

func walkOf[PK any, K comparable, V any](e *lru.ECache[PK, K, V]) func() walkRes {
	return func() walkRes { return walkRes{} }
}

func withLockOf[PK any, K comparable, V any](e *lru.ECache[PK, K, V]) func(func()) { return nil }
