package p_lru

import (
	"context"
	"errors"
	"fmt"

	liberrors "github.com/acquirecloud/golibs/errors"
)

// The shapes of error value a failing create function returns (Op.Err, taken modulo NErrKinds). A creation has failed
// when the error result is != nil as Go defines it - whatever the dynamic type and value inside the interface are.
// The cache under test has no reason to look into the error: it never calls Error(), so ErrPanics is a legal input.
const (
	ErrPlain     = iota // fmt.Errorf value
	ErrWrapped          // an error wrapping another one (%w)
	ErrLibClass         // one of the error classes of golibs/errors (a package-level sentinel), bare or wrapped
	ErrTypedNil         // a nil pointer of a custom error type returned as error: the interface value is not nil
	ErrZeroSize         // a value of a zero-size struct type
	ErrPanics           // a value whose Error method panics when called
	ErrContext          // context.Canceled / context.DeadlineExceeded
	ErrSlice            // a value of a slice type: not comparable (== on two of them panics)
	ErrPointer          // a non-nil pointer of the custom error type
	ErrJoined           // errors.Join of two errors
	NErrKinds
)

var errKindNames = [NErrKinds]string{"plain", "wrapped", "library_class", "typed_nil_pointer", "zero_size_struct", "error_method_panics",
	"context", "noncomparable_slice", "pointer_to_custom_type", "joined"}

func normErr(k int) int { return ((k % NErrKinds) + NErrKinds) % NErrKinds }

type createErr struct{ n int }

func (e *createErr) Error() string {
	if e == nil {
		return "create failure (nil *createErr)"
	}
	return fmt.Sprintf("create failure #%d (*createErr)", e.n)
}

type emptyErr struct{}

func (emptyErr) Error() string { return "create failure (zero-size error value)" }

type panicErr struct{ n int }

func (e *panicErr) Error() string { panic(fmt.Sprintf("Error() of create failure #%d was called", e.n)) }

type sliceErr []string

func (e sliceErr) Error() string { return fmt.Sprint("create failure ", []string(e)) }

var libClasses = []error{liberrors.ErrNotExist, liberrors.ErrExist, liberrors.ErrInvalid, liberrors.ErrClosed, liberrors.ErrInternal, liberrors.ErrCanceled}

// makeErr builds the n-th failure of the given shape; every shape yields a non-nil error interface value.
func makeErr(kind, n int) error {
	switch normErr(kind) {
	case ErrWrapped:
		return fmt.Errorf("create failure #%d: %w", n, fmt.Errorf("cause of #%d", n))
	case ErrLibClass:
		if e := libClasses[n%len(libClasses)]; n%2 == 0 {
			return e
		} else {
			return fmt.Errorf("create failure #%d: %w", n, e)
		}
	case ErrTypedNil:
		var e *createErr
		return e
	case ErrZeroSize:
		return emptyErr{}
	case ErrPanics:
		return &panicErr{n}
	case ErrContext:
		if n%2 == 0 {
			return context.Canceled
		}
		return context.DeadlineExceeded
	case ErrSlice:
		return sliceErr{"create", fmt.Sprint("#", n)}
	case ErrPointer:
		return &createErr{n}
	case ErrJoined:
		return errors.Join(fmt.Errorf("create failure #%d", n), context.Canceled)
	}
	return fmt.Errorf("create failure #%d", n)
}

// sameErr: got is the create function's error want (or wraps it). Never calls Error(), never compares two values of
// a non-comparable type with ==.
func sameErr(got, want error) bool {
	if got == nil {
		return false
	}
	if w, ok := want.(sliceErr); ok {
		var g sliceErr
		return errors.As(got, &g) && len(g) == len(w) && len(g) > 0 && &g[0] == &w[0]
	}
	return errors.Is(got, want)
}

// errText describes an error value without relying on its Error method.
func errText(e error) string {
	switch x := e.(type) {
	case nil:
		return "nil"
	case *panicErr:
		return fmt.Sprintf("failure #%d (*panicErr, Error() panics)", x.n)
	}
	return fmt.Sprintf("%q (%T)", e, e)
}
