package p_lru

import (
	"math"
	"strings"
	"testing"

	"pgregory.net/rapid"
	"verifharness/internal/vstat"
)

// genXCap draws the capacity of a concurrent case: 1..4, or (one case in seven) one of the huge capacities that stand for
// "unbounded" - math.MaxInt, math.MaxInt-1, 2^40, 2^31, 2^16: such a cache never evicts.
func genXCap(t *rapid.T) int {
	if rapid.IntRange(0, 6).Draw(t, "hugeCapacity") == 0 {
		return rapid.SampledFrom(HugeCaps).Draw(t, "hugeCap")
	}
	return rapid.IntRange(1, 4).Draw(t, "cap")
}

// genXNil draws the kind of value a successful creation hands over in a case with an interface-typed value.
func genXNil(t *rapid.T, iface bool, label string) int {
	if !iface {
		return KindValue
	}
	switch n := rapid.IntRange(0, 9).Draw(t, label); {
	case n < 5:
		return KindValue
	case n < 9:
		return KindNilIface
	}
	return KindNilPtr
}

func genXDec(t *rapid.T, iface bool) XDec {
	return XDec{C: rapid.IntRange(0, 5).Draw(t, "c"), I: rapid.IntRange(0, 7).Draw(t, "i"), OK: rapid.IntRange(0, 3).Draw(t, "ok") != 0, Nil: genXNil(t, iface, "nil")}
}

func genXCase(t *rapid.T, mode string) XCase {
	free := mode == modeFree
	c := XCase{Cap: genXCap(t), NKeys: rapid.IntRange(1, 6).Draw(t, "nkeys")}
	nw := rapid.IntRange(2, 4).Draw(t, "workers")
	maxOps := 6
	if free {
		maxOps = 10
	}
	// one case in four: a long recency history on one worker (hits, removals of the most recent key, evictions) with the
	// other workers interfering a little
	long := rapid.IntRange(0, 3).Draw(t, "longWorker") == 0
	kinds := []string{"g", "g", "g", "g", "g", "r", "r", "c"}
	if mode == modeSqueezed {
		// small: the squeezes are about callers that meet on one key while the cache is full of the other one(s)
		c.NKeys = rapid.IntRange(1, 3).Draw(t, "nkeysSqueezed")
		if c.Cap <= 4 {
			c.Cap = rapid.SampledFrom([]int{1, 1, 1, 2, 2, 3}).Draw(t, "capSqueezed")
		}
		nw = rapid.IntRange(3, 5).Draw(t, "workersSqueezed")
		long = false
		kinds = []string{"g", "g", "g", "g", "g", "g", "g", "g", "r", "c"}
	}
	for i := 0; i < nw; i++ {
		n := rapid.IntRange(1, maxOps).Draw(t, "nops")
		if long && i == 0 {
			n = rapid.IntRange(10, 40).Draw(t, "longOps")
		} else if long {
			n = rapid.IntRange(0, 2).Draw(t, "fewOps")
		}
		var p []XOp
		for j := 0; j < n; j++ {
			k := rapid.SampledFrom(kinds).Draw(t, "kind")
			if long && i == 0 {
				k = rapid.SampledFrom([]string{"g", "g", "g", "g", "g", "g", "g", "r", "r", "r", "c"}).Draw(t, "kindLong")
			}
			p = append(p, XOp{K: k, Key: rapid.IntRange(0, c.NKeys-1).Draw(t, "key")})
		}
		c.Programs = append(c.Programs, p)
	}
	c.NoCB = rapid.IntRange(0, 3).Draw(t, "noCallback") == 0
	c.Iface = rapid.IntRange(0, 2).Draw(t, "interfaceTypedValue") == 0
	if !c.Iface && rapid.IntRange(0, 2).Draw(t, "aliasKeyMapping") == 0 {
		// an ECache whose key mapping sends two primary-key spellings to one inner key: every call draws its spelling
		c.Alias = true
		for i := range c.Programs {
			for j := range c.Programs[i] {
				if c.Programs[i][j].K != "c" {
					c.Programs[i][j].Up = rapid.Bool().Draw(t, "upperCaseSpelling")
				}
			}
		}
	}
	if rapid.Bool().Draw(t, "errorShaped") { // every other case: the failing creations return another shape of error value
		c.ErrKind = rapid.IntRange(0, NErrKinds-1).Draw(t, "errkind")
	}
	if free {
		c.FailPct = rapid.SampledFrom([]int{0, 20, 50}).Draw(t, "failpct")
		c.Yields = rapid.IntRange(0, 4).Draw(t, "yields")
		c.SlowDelete = rapid.Bool().Draw(t, "slowDelete")
		if c.Iface {
			c.NilPct = rapid.SampledFrom([]int{30, 60, 100}).Draw(t, "nilpct")
		}
		return c
	}
	nd := rapid.IntRange(0, 60).Draw(t, "ndecs")
	for i := 0; i < nd; i++ {
		d := genXDec(t, c.Iface)
		if mode == modeSqueezed && rapid.IntRange(0, 2).Draw(t, "squeeze") == 0 {
			d.OK = d.OK || rapid.IntRange(0, 2).Draw(t, "squeezeOK") > 0 // mostly a creation that succeeds
			for j, n := 0, rapid.IntRange(1, 3).Draw(t, "overtakers"); j < n; j++ {
				d.Over = append(d.Over, genXDec(t, c.Iface))
			}
		}
		c.Decs = append(c.Decs, d)
	}
	return c
}

func recordXCase(prop string, c XCase, info XInfo, mode string) {
	cl := []string{"mode:" + mode}
	add := func(b bool, s string) {
		if b {
			cl = append(cl, s)
		}
	}
	add(c.NoCB, "cache_without_delete_callback")
	add(info.Overlap, "two_workers_in_getorcreate_of_one_key")
	add(info.MidMutation, "removal_between_creation_start_and_insertion")
	add(c.Iface, "interface_typed_value")
	add(c.Alias, "alias_key_mapping")
	add(info.AliasHit, "alias_hit_or_wait_through_the_other_spelling")
	add(info.AliasLeft, "alias_value_left_after_a_hit_through_the_other_spelling")
	add(normErr(c.ErrKind) != ErrPlain, "failing_creations_return_error_"+errKindNames[normErr(c.ErrKind)])
	add(info.NilCreated > 0, "iface_creation_returned_nil_value")
	add(info.NilDeleted > 0, "iface_nil_value_passed_to_delete_callback")
	add(info.NilHits > 0, "iface_hit_or_wait_returned_nil_value")
	add(c.Cap >= hugeCap, "cap_huge")
	add(c.Cap == math.MaxInt, "cap_maxint")
	add(info.Squeezes > 0, "squeezed")
	add(info.SqueezedWaiters, "squeezed_creation_with_waiters")
	add(info.SqueezedCompletion, "squeezed_waiters_overtaken_by_another_insertion")
	add(info.SqueezedCall, "squeezed_waiters_overtaken_by_a_call")
	add(info.Diverged, "abandoned_functional_divergence")
	cl = append(cl, info.Retain.Classes(c.NoCB)...)
	st := vstat.For(prop)
	if info.Inconclusive {
		st.Inconclusivef("the linearizability checker gave up on a history of %d calls", info.Calls)
	}
	nontrivial := info.Overlap || info.MidMutation
	if prop == propWalk {
		nontrivial = info.SqueezedWaiters && !info.Diverged && info.Walks > 0
		st.AddExtra("lru_conc_verifwalk_calls", int64(info.Walks))
		st.AddExtra("lru_conc_squeezes", int64(info.Squeezes))
		st.AddExtra("lru_conc_calls_executed", int64(info.Calls))
		st.AddExtra("lru_retention_measurements", int64(info.Retain.Measures))
		st.AddExtra("lru_retention_measurements_undecided", int64(info.Retain.Undecided))
		st.AddExtra("lru_retention_gc_cycles", int64(info.Retain.Cycles))
	} else {
		st.AddExtra("cache_calls", int64(info.Calls))
		st.AddExtra("verifwalk_calls", int64(info.Walks))
		st.AddExtra("squeezes", int64(info.Squeezes))
	}
	st.Case(nontrivial, vstat.Hash(c)^vstat.HashBytes([]byte(mode)), func() any { return c }, cl...)
}

func recordC09(c XCase, info XInfo, mode string) { recordXCase("C09", c, info, mode) }

func TestC09Controlled(t *testing.T) {
	rapid.Check(t, func(rt *rapid.T) {
		c := genXCase(rt, modeControlled)
		info, v, hist := RunControlled(t, c)
		if v != nil {
			c.History = hist
		}
		vstat.For("C09").Report(rt, "TestC09Controlled", c, v)
		recordC09(c, info, "controlled")
	})
}

func TestC09Free(t *testing.T) {
	rapid.Check(t, func(rt *rapid.T) {
		c := genXCase(rt, modeFree)
		info, v, hist := RunFree(c)
		if v != nil {
			c.History = hist
		}
		vstat.For("C09").Report(rt, "TestC09Free", c, v)
		recordC09(c, info, "free")
	})
}

func needSqueeze(t *testing.T, prop string) {
	if !SqueezeAvailable() {
		vstat.For(prop).Inconclusivef("the accessor VerifWithLock is not compiled into container/lru (overlay absent or hooks disabled): the squeezed schedules cannot be run")
		t.Skip("VerifWithLock not available")
	}
}

// TestC09Squeezed: the controlled mode's cases on the real clock with squeezes (see RunSqueezed).
func TestC09Squeezed(t *testing.T) {
	needSqueeze(t, "C09")
	rapid.Check(t, func(rt *rapid.T) {
		c := genXCase(rt, modeSqueezed)
		info, v, hist := RunSqueezed(c, "C09", "TestC09Squeezed")
		if v != nil {
			c.History = hist
		}
		vstat.For("C09").Report(rt, "TestC09Squeezed", c, v)
		recordC09(c, info, "squeezed")
	})
}

// TestC11LruConc: the same runs judged on the structure of the recency list only (LRU part of C11 under concurrency):
// at every quiescent point resident <= capacity, nodes == resident+1, no reference counts, no removed node linked,
// in-flight table == creations in progress; after the final Clear nothing is left.
func TestC11LruConc(t *testing.T) {
	needWalk(t)
	needSqueeze(t, propWalk)
	rapid.Check(t, func(rt *rapid.T) {
		c := genXCase(rt, modeSqueezed)
		info, v, hist := RunSqueezed(c, propWalk, "TestC11LruConc")
		if v != nil && !strings.HasPrefix(v.Sig, "lru:walk-") && !strings.HasPrefix(v.Sig, "lru:retain-") {
			info.Diverged, v = true, nil
		}
		if v != nil {
			c.History = hist
		}
		vstat.For(propWalk).Report(rt, "TestC11LruConc", c, v)
		recordXCase(propWalk, c, info, "squeezed")
	})
}

// replaySchedules: the schedule of the free-running and the squeezed mode is not reproducible (the squeezes nearly are), the
// programs and decisions are: the case is run n times.
func replayRuns(t *testing.T, path string, n int, run func(c XCase) (XInfo, *vstat.Violation, []XRec), prop, mode string) {
	var c XCase
	if _, err := vstat.LoadReplay(path, &c); err != nil {
		t.Fatalf("cannot decode %s: %v", path, err)
	}
	c.History = nil
	for i := 0; i < n; i++ {
		info, v, hist := run(c)
		if v != nil {
			c.History = hist
		}
		vstat.For(prop).Report(t, "TestReplay", c, v)
		recordXCase(prop, c, info, mode)
	}
}

func init() {
	replayHandlers["TestC09Controlled"] = func(t *testing.T, path string) {
		replayRuns(t, path, 1, func(c XCase) (XInfo, *vstat.Violation, []XRec) { return RunControlled(t, c) }, "C09", "controlled")
	}
	replayHandlers["TestC09Free"] = func(t *testing.T, path string) {
		replayRuns(t, path, 300, RunFree, "C09", "free")
	}
	replayHandlers["TestC09Squeezed"] = func(t *testing.T, path string) {
		needSqueeze(t, "C09")
		replayRuns(t, path, 20, func(c XCase) (XInfo, *vstat.Violation, []XRec) { return RunSqueezed(c, "C09", "TestReplay") }, "C09", "squeezed")
	}
	replayHandlers["TestC11LruConc"] = func(t *testing.T, path string) {
		needWalk(t)
		needSqueeze(t, propWalk)
		replayRuns(t, path, 20, func(c XCase) (XInfo, *vstat.Violation, []XRec) {
			info, v, hist := RunSqueezed(c, propWalk, "TestReplay")
			if v != nil && !strings.HasPrefix(v.Sig, "lru:walk-") && !strings.HasPrefix(v.Sig, "lru:retain-") {
				info.Diverged, v = true, nil
			}
			return info, v, hist
		}, propWalk, "squeezed")
	}
}
