package p_lru

import (
	"testing"

	"pgregory.net/rapid"
	"verifharness/internal/vstat"
)

func genXCase(t *rapid.T, free bool) XCase {
	c := XCase{Cap: rapid.IntRange(1, 4).Draw(t, "cap"), NKeys: rapid.IntRange(1, 6).Draw(t, "nkeys")}
	nw := rapid.IntRange(2, 4).Draw(t, "workers")
	maxOps := 6
	if free {
		maxOps = 10
	}
	// one case in four: a long recency history on one worker (hits, removals of the most recent key, evictions) with the
	// other workers interfering a little
	long := rapid.IntRange(0, 3).Draw(t, "longWorker") == 0
	for i := 0; i < nw; i++ {
		n := rapid.IntRange(1, maxOps).Draw(t, "nops")
		if long && i == 0 {
			n = rapid.IntRange(10, 40).Draw(t, "longOps")
		} else if long {
			n = rapid.IntRange(0, 2).Draw(t, "fewOps")
		}
		var p []XOp
		for j := 0; j < n; j++ {
			k := rapid.SampledFrom([]string{"g", "g", "g", "g", "g", "r", "r", "c"}).Draw(t, "kind")
			if long && i == 0 {
				k = rapid.SampledFrom([]string{"g", "g", "g", "g", "g", "g", "g", "r", "r", "r", "c"}).Draw(t, "kindLong")
			}
			p = append(p, XOp{K: k, Key: rapid.IntRange(0, c.NKeys-1).Draw(t, "key")})
		}
		c.Programs = append(c.Programs, p)
	}
	c.NoCB = rapid.IntRange(0, 3).Draw(t, "noCallback") == 0
	if free {
		c.FailPct = rapid.SampledFrom([]int{0, 20, 50}).Draw(t, "failpct")
		c.Yields = rapid.IntRange(0, 4).Draw(t, "yields")
		c.SlowDelete = rapid.Bool().Draw(t, "slowDelete")
		return c
	}
	nd := rapid.IntRange(0, 60).Draw(t, "ndecs")
	for i := 0; i < nd; i++ {
		c.Decs = append(c.Decs, XDec{C: rapid.IntRange(0, 5).Draw(t, "c"), I: rapid.IntRange(0, 7).Draw(t, "i"), OK: rapid.IntRange(0, 3).Draw(t, "ok") != 0})
	}
	return c
}

func recordC09(c XCase, info XInfo, mode string) {
	cl := []string{"mode:" + mode}
	if c.NoCB {
		cl = append(cl, "cache_without_delete_callback")
	}
	if info.Overlap {
		cl = append(cl, "two_workers_in_getorcreate_of_one_key")
	}
	if info.MidMutation {
		cl = append(cl, "removal_between_creation_start_and_insertion")
	}
	st := vstat.For("C09")
	if info.Inconclusive {
		st.Inconclusivef("the linearizability checker gave up on a history of %d calls", info.Calls)
	}
	st.Case(info.Overlap || info.MidMutation, vstat.Hash(c)^vstat.HashBytes([]byte(mode)), func() any { return c }, cl...)
	st.AddExtra("cache_calls", int64(info.Calls))
}

func TestC09Controlled(t *testing.T) {
	rapid.Check(t, func(rt *rapid.T) {
		c := genXCase(rt, false)
		info, v, hist := RunControlled(t, c)
		if v != nil {
			c.History = hist
		}
		vstat.For("C09").Report(rt, "TestC09Controlled", c, v)
		recordC09(c, info, "controlled")
	})
}

func TestC09Free(t *testing.T) {
	rapid.Check(t, func(rt *rapid.T) {
		c := genXCase(rt, true)
		info, v, hist := RunFree(c)
		if v != nil {
			c.History = hist
		}
		vstat.For("C09").Report(rt, "TestC09Free", c, v)
		recordC09(c, info, "free")
	})
}

func init() {
	replayHandlers["TestC09Controlled"] = func(t *testing.T, path string) {
		var c XCase
		if _, err := vstat.LoadReplay(path, &c); err != nil {
			t.Fatalf("cannot decode %s: %v", path, err)
		}
		c.History = nil
		info, v, hist := RunControlled(t, c)
		if v != nil {
			c.History = hist
		}
		vstat.For("C09").Report(t, "TestReplay", c, v)
		recordC09(c, info, "controlled")
	}
	replayHandlers["TestC09Free"] = func(t *testing.T, path string) {
		var c XCase
		if _, err := vstat.LoadReplay(path, &c); err != nil {
			t.Fatalf("cannot decode %s: %v", path, err)
		}
		c.History = nil
		for i := 0; i < 300; i++ { // the schedule is not reproducible, the programs are
			info, v, hist := RunFree(c)
			if v != nil {
				c.History = hist
			}
			vstat.For("C09").Report(t, "TestReplay", c, v)
			recordC09(c, info, "free")
		}
	}
}
