package p_lru

import (
	"errors"
	"fmt"
	"os"
	"runtime"
	"sort"
	"strconv"
	"strings"
	"sync"
	"sync/atomic"
	"testing"
	"testing/synctest"
	"time"

	"github.com/acquirecloud/golibs/container/lru"
	"github.com/anishathalye/porcupine"
	"verifharness/internal/gated"
	"verifharness/internal/vstat"
)

// ---------------------------------------------------------------------------------------------
// C09: the cache under concurrency - single-flight, linearizable, nothing leaked

// XOp is one call of a worker program: g(et-or-create) r(emove) c(lear).
type XOp struct {
	K   string `json:"k"`
	Key int    `json:"key,omitempty"`
	// Up (cases with XCase.Alias; g and r): the call spells its primary key in upper case. Both spellings map to one inner key.
	Up bool `json:"up,omitempty"`
}

// XDec is a scheduler decision (controlled and squeezed mode): C selects start/complete, I the target, OK the creation outcome.
type XDec struct {
	C  int  `json:"c"`
	I  int  `json:"i"`
	OK bool `json:"ok"`
	// Nil (cases with an interface-typed value): kind of value a successful completion hands over (KindValue, KindNilIface, KindNilPtr).
	Nil int `json:"nil,omitempty"`
	// Over (squeezed mode only): the decision is a SQUEEZE if a creation is parked: that creation (chosen by I, preferably one other
	// callers are waiting for) completes, and the 1..3 decisions of Over - start the next call of an idle worker / complete another
	// parked creation - are fired right behind it, in this order, while the harness holds the cache's own mutex (overlay accessor
	// VerifWithLock). Released, the mutex is handed over in arrival order: the creator publishes its value, then the overtakers run
	// their critical sections, and only then the callers that waited for the creation get to look at the cache again.
	Over []XDec `json:"over,omitempty"`
}

// XCase is the generated object.
type XCase struct {
	Cap        int     `json:"cap"`
	NKeys      int     `json:"nkeys"`
	Programs   [][]XOp `json:"programs"`
	Decs       []XDec  `json:"decs,omitempty"`        // controlled mode
	FailPct    int     `json:"failpct,omitempty"`     // free-running mode: percentage of creations that fail
	// ErrKind: the shape of the error value every failing creation of the case returns (modulo NErrKinds, see errkinds.go; 0 = the
	// harness' plain sentinel): wrapped, a library error class, a typed nil pointer, a value whose Error method panics, ...
	ErrKind int `json:"errkind,omitempty"`
	Yields     int     `json:"yields,omitempty"`      // free-running mode: Gosched calls inside the create function
	NoCB       bool    `json:"no_cb,omitempty"`       // the cache is built without a delete callback: judged on returned values, creations and Clear counts only
	SlowDelete bool    `json:"slow_delete,omitempty"` // free-running mode: the delete callback takes tens of microseconds
	// Iface: the cache is lru.Cache[string,any] instead of lru.Cache[string,int] - the value type is an interface type and successful
	// creations hand over nil interface values, typed nil pointers and non-nil pointers (controlled/squeezed: XDec.Nil; free: NilPct)
	Iface   bool   `json:"iface,omitempty"`
	NilPct  int    `json:"nilpct,omitempty"`  // free-running mode, Iface: percentage of successful creations that return a nil value
	// Alias (not with Iface): the cache is lru.ECache[string, string, int] whose key mapping lower-cases the primary key, so that every
	// key but the empty one has two primary-key spellings ("a" and "A", XOp.Up) which meet on one inner key: single-flight, residency,
	// recency and Remove go by the inner key; the create function gets the spelling of the call that creates, and the delete callback
	// must get (that spelling, the value) - the pair the create function produced - whichever spelling later calls hit or remove it with.
	Alias bool `json:"alias,omitempty"`
	History []XRec `json:"history,omitempty"` // filled in on failure
}

type kv struct {
	K string `json:"k"`
	V int    `json:"v"`
}

// XRec is one recorded call.
type XRec struct {
	Worker  int    `json:"w"`
	Kind    string `json:"kind"`
	Key     string `json:"key,omitempty"`
	Call    int64  `json:"call"`
	Ret     int64  `json:"ret"`
	Val     int    `json:"val,omitempty"`     // returned value id (GetOrCreate ok); 0 for a nil value
	Nil     int    `json:"nil,omitempty"`     // Iface: kind of the returned value (KindNilIface / KindNilPtr; a nil value carries no id)
	Err     bool   `json:"err,omitempty"`     // GetOrCreate returned an error
	Created int    `json:"created,omitempty"` // value id created by this very call (0 = did not create successfully)
	Tried   int    `json:"tried,omitempty"`   // number of create-function calls made by this call
	Failed  int    `json:"failed,omitempty"`  // ... of which failed
	Result  int    `json:"result,omitempty"`  // Remove: 1 true / 0 false; Clear: count
	Deleted []kv   `json:"deleted,omitempty"` // delete callbacks made by this call, in order
}

var errCreate = errors.New("creation failed (harness)")

// xval is what the harness knows about a successfully created value.
type xval struct {
	key  string // inner key
	kind int
	pk   string // the primary-key spelling the create function was called with
}

// xgate is a creation parked inside the create function (controlled and squeezed mode). Outcome sent through ch: 0 = fail, 1+kind = ok.
type xgate struct {
	ch     chan int
	worker int
}

type xrun struct {
	c        XCase
	prop     string // property the run reports to (C09; C11 for the structural unit)
	errCreate error // what a failing creation returns
	get      func(k string) (id, kind int, err error)
	remove   func(k string) bool
	clear    func() int
	walk     func() walkRes // overlay accessor VerifWalk (walkRes.OK false if absent)
	withLock func(func())   // overlay accessor VerifWithLock (nil if absent)
	walks    int
	// retention oracle (retain.go; structural unit of C11, cases with an interface-typed value): weak pointers to every *box a
	// creation hands over; keep = runtime.KeepAlive of the cache object
	track  *retTracker
	retain RetainInfo
	keep   func()
	mu     sync.Mutex
	stamp    atomic.Int64
	nextVal  atomic.Int64
	hist     []XRec
	cur      map[uint64]*XRec // goroutine id -> the call it is in (attribution of callbacks)
	inFl     map[string]int   // creations in flight per key
	created  map[int]xval     // value id -> key and kind, successfully created
	deleted  map[int]int      // value id -> number of delete callbacks
	viol     *vstat.Violation
	// controlled mode
	gates                        map[string]*xgate // key -> the creation parked for it
	nilMade, nilDeleted, nilHits int
	overlap                      bool // two workers were inside GetOrCreate of one key at the same time
	inGet                        map[string]int
	midMut                       bool // Remove/Clear/eviction ran between a creation's start and its insertion
	epilogue                     bool // every worker call has returned; the epilogue of finish() is running
	aliasHit, aliasLeft          bool // Alias: a call was served a value created through the other spelling / such a value was passed to the delete callback later
	aliasHitVals                 map[int]bool
	// free mode
	free     bool
	testName string
	// free mode with slow delete callbacks: the per-key "one live value" monitor is meaningful only when a value counts as
	// deleted from the moment its callback STARTS being late - see create()
	freeSlowDelete bool
}

// xFreshKey: key indices from here on are the fresh keys of the epilogue.
const xFreshKey = 1000

// xKeyName: key 0 is the zero value of the key type (the empty string), the others are single letters.
func xKeyName(i int) string {
	if i == 0 {
		return ""
	}
	if i >= xFreshKey {
		return "fresh" + strconv.Itoa(i-xFreshKey)
	}
	return string(rune('a' + i - 1))
}

func (x *xrun) setViol(sig, format string, a ...any) {
	if x.viol == nil {
		x.viol = vstat.V(sig, format, a...)
	}
}

// inner is the key mapping of the cache under test as the harness knows it (identity unless XCase.Alias).
func (x *xrun) inner(pk string) string {
	if x.c.Alias {
		return strings.ToLower(pk)
	}
	return pk
}

// spell is the primary key of a call.
func (x *xrun) spell(op XOp) string {
	if x.c.Alias && op.Up {
		return strings.ToUpper(xKeyName(op.Key))
	}
	return xKeyName(op.Key)
}

func (x *xrun) create(pk string) (int, int, error) {
	k := x.inner(pk)
	id := gated.Goid()
	x.mu.Lock()
	x.inFl[k]++
	if x.inFl[k] > 1 {
		x.setViol("lru:two-creations-in-flight", "two creations for key %q are in progress at the same time", k)
	}
	rec := x.cur[id]
	if rec != nil {
		rec.Tried++
	}
	// a creation for k is only ever started when k is not resident, and a value leaves the cache only through its delete
	// callback: so no value created for k earlier may still be waiting for its callback now
	for v, kk := range x.created {
		if kk.key == k && x.deleted[v] == 0 && !x.c.NoCB {
			x.setViol("lru:creation-while-old-value-alive", "a creation for key %q was started while value #%d of the same key had not yet been passed to the delete callback", k, v)
		}
	}
	var gate *xgate
	if x.inFl[k] > 1 && !x.free && !x.epilogue {
		// second creation in flight for one key (verdict already on record): it fails at once instead of parking behind the same key
		x.inFl[k]--
		if rec != nil {
			rec.Failed++
		}
		x.mu.Unlock()
		return 0, 0, x.errCreate
	}
	if !x.free && !x.epilogue {
		gate = &xgate{ch: make(chan int, 1), worker: -2}
		if rec != nil {
			gate.worker = rec.Worker
		}
		x.gates[k] = gate
	}
	x.mu.Unlock()
	ok, kind := true, KindValue
	if x.epilogue {
		// the creations of the epilogue succeed at once with a non-nil value
	} else if x.free {
		for i := 0; i < x.c.Yields; i++ {
			runtime.Gosched()
		}
		n := x.nextVal.Load()
		ok = int(n*37+int64(len(k)))%100 >= x.c.FailPct
		if h := int(n*61+int64(len(k))*7) % 100; h < x.c.NilPct { // two nil values in three are nil interface values
			kind = KindNilIface
			if h%3 == 2 {
				kind = KindNilPtr
			}
		}
	} else {
		out := <-gate.ch
		ok, kind = out > 0, normKind(out-1)
	}
	if !x.c.Iface {
		kind = KindValue
	}
	x.mu.Lock()
	defer x.mu.Unlock()
	x.inFl[k]--
	if !ok {
		if rec != nil {
			rec.Failed++
		}
		return 0, 0, x.errCreate
	}
	v := int(x.nextVal.Add(1))
	x.created[v] = xval{k, kind, pk}
	if kind != KindValue {
		x.nilMade++
	}
	if rec != nil {
		rec.Created = v
	}
	return v, kind, nil
}

// onDelete is the delete callback. A nil value (kind != KindValue) carries no id: it stands for the one value of that kind that
// has been created for the key and not been deleted yet. There is at most one: a creation for a key starts only while the key is
// not resident, and a value leaves the cache through this callback and in no other way. (With none left, the latest deleted one
// is charged a second time.)
func (x *xrun) onDelete(pk string, v int, kind int) {
	k := x.inner(pk)
	id := gated.Goid()
	if x.freeSlowDelete { // a delete callback that takes its time (free-running mode only)
		for i := 0; i < 3+x.c.Yields*4; i++ {
			runtime.Gosched()
		}
		time.Sleep(time.Duration(20*(1+x.c.Yields)) * time.Microsecond)
	}
	x.mu.Lock()
	defer x.mu.Unlock()
	if kind != KindValue {
		v = 0
		bestAlive := false
		for cand, cv := range x.created { // the maximum by (not yet deleted, id): independent of the map order
			if cv.key != k || cv.kind != kind {
				continue
			}
			if alive := x.deleted[cand] == 0; v == 0 || (alive && !bestAlive) || (alive == bestAlive && cand > v) {
				v, bestAlive = cand, alive
			}
		}
		if v == 0 {
			x.setViol("lru:deleted-unknown", "the delete callback got (%q, %s) but the create function never produced such a value for that key", k, kindName(kind))
			return
		}
		x.nilDeleted++
	}
	x.deleted[v]++
	if x.deleted[v] > 1 {
		x.setViol("lru:deleted-twice", "value #%d of key %q was passed to the delete callback %d times", v, k, x.deleted[v])
	}
	if ck, ok := x.created[v]; !ok || ck.key != k {
		x.setViol("lru:deleted-unknown", "the delete callback got (%q,#%d) which the create function never produced for that key", k, v)
	} else if ck.pk != pk {
		x.setViol("lru:deleted-wrong-pk", "the delete callback got (%q,#%d), but value #%d was created by the create function for the primary key %q: the pair handed to the callback is not a pair that was created "+
			"(both spellings map to the inner key %q)", pk, v, v, ck.pk, k)
	}
	if x.aliasHitVals[v] {
		x.aliasLeft = true
	}
	if rec := x.cur[id]; rec != nil {
		rec.Deleted = append(rec.Deleted, kv{k, v})
	}
	for _, n := range x.inFl {
		if n > 0 {
			x.midMut = true
		}
	}
}

func (x *xrun) do(w int, op XOp) {
	id := gated.Goid()
	rec := &XRec{Worker: w, Kind: op.K}
	if op.K != "c" {
		rec.Key = xKeyName(op.Key)
	}
	x.mu.Lock()
	x.cur[id] = rec
	if op.K == "g" {
		x.inGet[rec.Key]++
		if x.inGet[rec.Key] > 1 {
			x.overlap = true
		}
	}
	x.mu.Unlock()
	defer func() {
		if p := recover(); p != nil {
			// a panic inside the cache usually leaves its mutex locked: nothing can be run to completion in this
			// process any more, so the verdict is put on record at once and the process ends
			v := vstat.V("lru:panic", "worker %d: %s(%s) panicked: %v", w, op.K, rec.Key, p)
			vstat.For(x.prop).Record(x.testName, x.c, v)
			fmt.Printf("VERIF-VIOLATION property=%s test=%s sig=%s :: %s\n", x.prop, x.testName, v.Sig, v.Msg)
			os.Exit(3)
		}
	}()
	rec.Call = x.stamp.Add(1)
	switch op.K {
	case "g":
		v, kind, err := x.get(x.spell(op))
		rec.Ret = x.stamp.Add(1)
		rec.Val, rec.Nil, rec.Err = v, kind, err != nil
		if x.c.Alias && err == nil {
			x.mu.Lock()
			if cv, ok := x.created[v]; ok && cv.pk != x.spell(op) { // served by a value created through the other spelling
				x.aliasHit = true
				x.aliasHitVals[v] = true
			}
			x.mu.Unlock()
		}
		if err != nil && !sameErr(err, x.errCreate) {
			x.mu.Lock()
			x.setViol("lru:foreign-error", "GetOrCreate(%q) returned %s, which the create function never produced", rec.Key, errText(err))
			x.mu.Unlock()
		}
	case "r":
		ok := x.remove(x.spell(op))
		rec.Ret = x.stamp.Add(1)
		if ok {
			rec.Result = 1
		}
	case "c":
		n := x.clear()
		rec.Ret = x.stamp.Add(1)
		rec.Result = n
	}
	x.mu.Lock()
	delete(x.cur, id)
	if op.K == "g" {
		x.inGet[rec.Key]--
		if rec.Nil != KindValue && rec.Created == 0 && !rec.Err {
			x.nilHits++
		}
	}
	x.hist = append(x.hist, *rec)
	x.mu.Unlock()
}

// Modes of a concurrent run.
const (
	modeControlled = "controlled" // synctest bubble, creations park on gates, the schedule is the decision list
	modeFree       = "free"       // real goroutines, no schedule control
	modeSqueezed   = "squeezed"   // real clock, creations park on gates, critical sections ordered through the cache's own mutex
)

func newXrun(c XCase, mode, prop, testName string) (*xrun, error) {
	x := &xrun{c: c, prop: prop, free: mode == modeFree, testName: testName, cur: map[uint64]*XRec{}, inFl: map[string]int{}, created: map[int]xval{}, deleted: map[int]int{},
		gates: map[string]*xgate{}, inGet: map[string]int{}, aliasHitVals: map[int]bool{}}
	x.freeSlowDelete = x.free && c.SlowDelete
	x.errCreate = errCreate
	if k := normErr(c.ErrKind); k != ErrPlain {
		x.errCreate = makeErr(k, 1)
	}
	if c.Iface {
		// the value type is an interface type; a non-nil value is a *box carrying its id, a nil value carries nothing
		unbox := func(v any) (int, int) {
			if v == nil {
				return 0, KindNilIface
			}
			b, ok := v.(*box)
			switch {
			case !ok:
				return -1, KindValue
			case b == nil:
				return 0, KindNilPtr
			}
			return b.id, KindValue
		}
		var df lru.OnDeleteElemF[string, any]
		if !c.NoCB {
			df = func(k string, v any) {
				id, kind := unbox(v)
				x.onDelete(k, id, kind)
			}
		}
		cache, err := lru.NewCache[string, any](c.Cap, func(k string) (any, error) {
			id, kind, err := x.create(k)
			switch {
			case err != nil:
				return nil, err
			case kind == KindNilIface:
				return nil, nil
			case kind == KindNilPtr:
				return (*box)(nil), nil
			}
			b := &box{id: id}
			if x.track != nil {
				x.mu.Lock()
				trackVal(x.track, id, b)
				x.mu.Unlock()
			}
			return b, nil
		}, df)
		if err != nil {
			return x, err
		}
		x.get = func(k string) (int, int, error) {
			v, err := cache.GetOrCreate(k)
			if err != nil {
				return 0, 0, err
			}
			id, kind := unbox(v)
			return id, kind, nil
		}
		x.remove, x.clear = cache.Remove, cache.Clear
		x.walk, x.withLock = walkOf(cache.ECache), withLockOf(cache.ECache)
		x.keep = func() { runtime.KeepAlive(cache) }
		if prop == "C11" && mode == modeSqueezed {
			x.track = &retTracker{}
		}
		return x, nil
	}
	var df lru.OnDeleteElemF[string, int]
	if !c.NoCB {
		df = func(k string, v int) { x.onDelete(k, v, KindValue) }
	}
	cf := func(k string) (int, error) {
		id, _, err := x.create(k)
		return id, err
	}
	if c.Alias {
		cache, err := lru.NewECache[string, string, int](c.Cap, strings.ToLower, cf, df)
		if err != nil {
			return x, err
		}
		x.get = func(pk string) (int, int, error) {
			v, err := cache.GetOrCreate(pk)
			return v, KindValue, err
		}
		x.remove, x.clear = cache.Remove, cache.Clear
		x.walk, x.withLock = walkOf(cache), withLockOf(cache)
		return x, nil
	}
	cache, err := lru.NewCache[string, int](c.Cap, cf, df)
	if err != nil {
		return x, err
	}
	x.get = func(k string) (int, int, error) {
		v, err := cache.GetOrCreate(k)
		return v, KindValue, err
	}
	x.remove, x.clear = cache.Remove, cache.Clear
	x.walk, x.withLock = walkOf(cache.ECache), withLockOf(cache.ECache)
	return x, nil
}

// XInfo classifies a case.
type XInfo struct {
	Overlap, MidMutation, Inconclusive bool
	Calls                              int
	NilCreated, NilDeleted, NilHits    int  // Iface: nil values created / passed to the delete callback / returned by hits
	Walks                              int  // VerifWalk calls made
	Squeezes                           int  // squeezed mode: squeezes carried out
	SqueezedWaiters                    bool // ... at least one of them on a creation other callers were waiting for
	SqueezedCompletion, SqueezedCall   bool // ... overtaken by the insertion of another creation / by a call started behind it
	NoHook                             bool // squeezed mode: the overlay accessor is absent, nothing was run
	Diverged                           bool // structural unit (C11): a functional oracle disagreed (C09's business), case abandoned
	AliasHit, AliasLeft                bool // Alias: see xrun
	Retain                             RetainInfo // structural unit (C11), interface-typed value: the retention measurements (retain.go)
}

func (x *xrun) fill(info *XInfo) {
	info.Overlap, info.MidMutation, info.Calls = x.overlap, x.midMut, len(x.hist)
	info.NilCreated, info.NilDeleted, info.NilHits, info.Walks = x.nilMade, x.nilDeleted, x.nilHits, x.walks
	info.Retain = x.retain
	info.AliasHit, info.AliasLeft = x.aliasHit, x.aliasLeft
}

// structural reads the recency list through the overlay accessor at a moment when no call is inside a critical section or
// between its create function and its insertion: parked = creations parked inside the create function.
func (x *xrun) structural(parked int, when string) *vstat.Violation {
	if x.walk == nil {
		return nil
	}
	var r walkRes
	if pv := vstat.Guard("lru:walk-panic", func() *vstat.Violation { r = x.walk(); return nil }); pv != nil {
		return pv
	}
	if !r.OK {
		return nil
	}
	x.walks++
	c := x.c
	switch {
	case !r.Sane:
		return vstat.V("lru:walk-insane", "%s: the recency list is not well formed (nodes=%d deleted=%d refSum=%d resident=%d)", when, r.Nodes, r.Deleted, r.RefSum, r.Resident)
	case r.Resident > c.Cap:
		return vstat.V("lru:walk-over-capacity", "%s: %d residents in a cache of capacity %d", when, r.Resident, c.Cap)
	case r.RefSum != 0:
		return vstat.V("lru:walk-refsum", "%s: reference counts sum to %d although no iterator is open (nodes=%d deleted=%d resident=%d)", when, r.RefSum, r.Nodes, r.Deleted, r.Resident)
	case r.Deleted != 0:
		return vstat.V("lru:walk-deleted", "%s: %d removed node(s) still linked into the recency list (nodes=%d resident=%d)", when, r.Deleted, r.Nodes, r.Resident)
	case r.Nodes != r.Resident+1:
		return vstat.V("lru:walk-nodes", "%s: %d list nodes for %d residents (want residents+1)", when, r.Nodes, r.Resident)
	case parked >= 0 && r.Inflight != parked:
		return vstat.V("lru:walk-inflight", "%s: %d entries in the in-flight table, %d creations are in progress", when, r.Inflight, parked)
	}
	return nil
}

// retention: the collector-based oracle of retain.go at a moment when every call has returned (the workers are idle, none of them is
// inside the cache). There is no reference model here: at most bound value objects - the residents' - may still resolve, whichever.
func (x *xrun) retention(when string, bound int) *vstat.Violation {
	if x.track == nil {
		return nil
	}
	switch when {
	case "epilogue":
		x.retain.AfterEpilogue = true
	case "final":
		x.retain.AfterFinal = true
	}
	x.mu.Lock()
	defer x.mu.Unlock()
	return x.track.measure(&x.retain, bound, nil, -1, x.keep, func() string {
		at := map[string]string{"epilogue": "and the epilogue's insertions of fresh keys", "final": "and the final Clear"}[when]
		cb := "with a delete callback"
		if x.c.NoCB {
			cb = "WITHOUT a delete callback"
		}
		return fmt.Sprintf("concurrent run, cache of capacity %d built %s, after every call has returned %s: at most %d entries resident", x.c.Cap, cb, at, bound)
	})
}

// verdict combines the functional verdict fv and the structural one wv. C09 owns the functional oracles and, of the structure,
// "the number of resident values never exceeds the capacity"; the structural unit of C11 owns the structure and leaves the rest to C09.
func (x *xrun) verdict(fv, wv *vstat.Violation, info *XInfo) (v *vstat.Violation, stop bool) {
	if x.prop == "C11" {
		if wv != nil {
			return wv, true
		}
		if fv != nil {
			info.Diverged = true
			return nil, true
		}
		return nil, false
	}
	if fv != nil {
		return fv, true
	}
	if wv != nil && wv.Sig == "lru:walk-over-capacity" {
		return wv, true
	}
	return nil, false
}

// finish: every call has returned. Structure, epilogue, final Clear, structure, ledger, linearizability.
// Epilogue: min(capacity, 4) GetOrCreate calls on fresh keys, one after the other, whose creations succeed at once. They are
// ordinary calls of the history; in a full cache each of them must evict the then least recently used entry, so the recency
// order the concurrent part has left behind is read back through the delete callbacks (a cache without callback shows
// less). An unbounded cache gets 2 such calls, which must not evict. A run that carries the retention oracle gets 120 more.
func (x *xrun) finish(info *XInfo) *vstat.Violation {
	wv := x.structural(0, "after every call has returned")
	x.epilogue = true
	nEpi := min(x.c.Cap, 4)
	if x.c.Cap >= hugeCap {
		nEpi = 2
	} else if x.track != nil {
		// retention oracle: a long eviction history on top of what the concurrent part has left behind - 120 more fresh keys, each
		// evicting the then least recently used entry
		nEpi += 120
		x.retain.AfterEvictions100 = true
	}
	for i := 0; i < nEpi; i++ {
		x.do(-1, XOp{K: "g", Key: xFreshKey + i})
	}
	if wv == nil {
		wv = x.structural(0, "after every call has returned and the epilogue's insertions of fresh keys")
	}
	if wv == nil && x.track != nil {
		bound := x.c.Cap
		if x.walk != nil {
			if r := x.walk(); r.OK {
				bound = min(bound, r.Resident)
			}
		}
		wv = x.retention("epilogue", bound)
	}
	x.do(-1, XOp{K: "c"})
	if wv == nil {
		wv = x.structural(0, "after every call has returned and the final Clear")
	}
	if wv == nil && x.walk != nil {
		if r := x.walk(); r.OK && r.Resident != 0 {
			wv = vstat.V("lru:walk-resident-after-clear", "after the final Clear the cache still holds %d entries", r.Resident)
		}
	}
	if wv == nil {
		wv = x.retention("final", 0)
	}
	x.mu.Lock()
	defer x.mu.Unlock()
	fv := x.viol
	if fv == nil {
		fv = x.ledgerLocked()
	}
	if v, stop := x.verdict(fv, wv, info); stop {
		return v
	}
	kinds := map[int]int{}
	for v, cv := range x.created {
		if cv.kind != KindValue {
			kinds[v] = cv.kind
		}
	}
	v, _ := x.verdict(checkLRUHistory(x.c.Cap, x.hist, x.c.NoCB, kinds), nil, info)
	return v
}

func (x *xrun) ledgerLocked() *vstat.Violation {
	if x.c.NoCB {
		return nil
	}
	ids := make([]int, 0, len(x.created))
	for v := range x.created {
		ids = append(ids, v)
	}
	sort.Ints(ids)
	for _, v := range ids {
		k := x.created[v].key
		switch x.deleted[v] {
		case 1:
		case 0:
			return vstat.V("lru:value-leaked", "value #%d (%s) created for key %q was never passed to the delete callback although the cache has been cleared", v, kindName(x.created[v].kind), k)
		default:
			return vstat.V("lru:deleted-twice", "value #%d of key %q was deleted %d times", v, k, x.deleted[v])
		}
	}
	return nil
}

// ---- sequential specification (porcupine model): state = recency list, oldest first

type lruState string // encoded "k:v,k:v" - comparable

func decodeState(s lruState) []kv {
	var out []kv
	if s == "" {
		return nil
	}
	for _, part := range strings.Split(string(s), ",") {
		i := strings.LastIndexByte(part, ':')
		if i < 0 {
			break
		}
		v, _ := strconv.Atoi(part[i+1:])
		out = append(out, kv{part[:i], v}) // the key may be the empty string
	}
	return out
}

func encodeState(l []kv) lruState {
	s := ""
	for i, e := range l {
		if i > 0 {
			s += ","
		}
		s += fmt.Sprintf("%s:%d", e.K, e.V)
	}
	return lruState(s)
}

func sameMultiset(a, b []kv) bool {
	if len(a) != len(b) {
		return false
	}
	aa, bb := append([]kv(nil), a...), append([]kv(nil), b...)
	less := func(s []kv) func(i, j int) bool {
		return func(i, j int) bool { return s[i].K < s[j].K || (s[i].K == s[j].K && s[i].V < s[j].V) }
	}
	sort.Slice(aa, less(aa))
	sort.Slice(bb, less(bb))
	for i := range aa {
		if aa[i] != bb[i] {
			return false
		}
	}
	return true
}

// returned tells whether what a GetOrCreate returned (r.Val, r.Nil) is value #want: a non-nil value shows its id, a nil value
// (kinds[want] != KindValue) shows only which kind of nil it is.
func returned(r XRec, want int, kinds map[int]int) bool {
	if k := kinds[want]; k != KindValue {
		return r.Nil == k && r.Val == 0
	}
	return r.Nil == KindValue && r.Val == want
}

// stepLRU: with noCB the cache has no delete callback, so the ops report no evictions; the model then supplies them.
func stepLRU(capacity int, st lruState, r XRec, noCB bool, kinds map[int]int) (bool, lruState) {
	l := decodeState(st)
	if noCB && len(r.Deleted) == 0 {
		// fill in what the model says this op evicts, so that the comparisons below hold trivially
		idx := -1
		for i, e := range l {
			if e.K == r.Key {
				idx = i
			}
		}
		switch {
		case r.Kind == "g" && idx < 0 && !r.Err && len(l) >= capacity && len(l) > 0:
			r.Deleted = []kv{l[0]}
		case r.Kind == "r" && idx >= 0:
			r.Deleted = []kv{l[idx]}
		case r.Kind == "c":
			r.Deleted = append([]kv(nil), l...)
		}
	}
	idx := -1
	for i, e := range l {
		if e.K == r.Key {
			idx = i
		}
	}
	switch r.Kind {
	case "g":
		if idx >= 0 { // hit: no successful creation by this call, returns the resident value, becomes most recently used
			if r.Created != 0 || r.Err || !returned(r, l[idx].V, kinds) || len(r.Deleted) != 0 {
				return false, st
			}
			e := l[idx]
			l = append(append(l[:idx:idx], l[idx+1:]...), e)
			return true, encodeState(l)
		}
		if r.Err { // failed creation changes nothing
			return r.Created == 0 && r.Tried >= 1 && len(r.Deleted) == 0, st
		}
		if r.Created == 0 || !returned(r, r.Created, kinds) {
			return false, st
		}
		l = append(l, kv{r.Key, r.Created})
		if len(l)-1 >= capacity { // one more than the capacity (which may be math.MaxInt)
			if len(r.Deleted) != 1 || r.Deleted[0] != l[0] {
				return false, st
			}
			l = l[1:]
		} else if len(r.Deleted) != 0 {
			return false, st
		}
		return true, encodeState(l)
	case "r":
		if idx < 0 {
			return r.Result == 0 && len(r.Deleted) == 0, st
		}
		if r.Result != 1 || len(r.Deleted) != 1 || r.Deleted[0] != l[idx] {
			return false, st
		}
		l = append(l[:idx:idx], l[idx+1:]...)
		return true, encodeState(l)
	case "c":
		if r.Result != len(l) || !sameMultiset(r.Deleted, l) {
			return false, st
		}
		return true, ""
	}
	return false, st
}

func checkLRUHistory(capacity int, hist []XRec, noCB bool, kinds map[int]int) *vstat.Violation {
	model := porcupine.Model{
		Init: func() interface{} { return lruState("") },
		Step: func(s, in, out interface{}) (bool, interface{}) {
			return stepLRU(capacity, s.(lruState), in.(XRec), noCB, kinds)
		},
		Equal: func(a, b interface{}) bool { return a.(lruState) == b.(lruState) },
	}
	ops := make([]porcupine.Operation, len(hist))
	for i, r := range hist {
		ops[i] = porcupine.Operation{ClientId: r.Worker + 1, Input: r, Call: r.Call, Output: r, Return: r.Ret}
	}
	switch porcupine.CheckOperationsTimeout(model, ops, 20*time.Second) {
	case porcupine.Illegal:
		sorted := append([]XRec(nil), hist...)
		sort.Slice(sorted, func(i, j int) bool { return sorted[i].Call < sorted[j].Call })
		s := ""
		for _, r := range sorted {
			val := fmt.Sprintf("#%d", r.Val)
			if r.Nil != KindValue {
				val = kindName(r.Nil)
			}
			created := fmt.Sprintf("#%d", r.Created)
			if k := kinds[r.Created]; k != KindValue {
				created += " (a " + kindName(k) + ")"
			}
			s += fmt.Sprintf("\n  [%d,%d] w%d %s(%s) -> val=%s err=%v result=%d created=%s tried=%d deleted=%v", r.Call, r.Ret, r.Worker, r.Kind, r.Key, val, r.Err, r.Result, created, r.Tried, r.Deleted)
		}
		return vstat.V("lru:not-linearizable", "capacity %d: no sequential LRU history has the same returned values, creations and evictions:%s", capacity, s)
	case porcupine.Unknown:
		return vstat.V("lru:checker-timeout", "inconclusive")
	}
	return nil
}

// ---------------------------------------------------------------------------------------------
// controlled mode: creations park on a gate, the schedule is a generated value (bubble)

// RunControlled executes the case in a synctest bubble.
func RunControlled(t *testing.T, c XCase) (info XInfo, v *vstat.Violation, hist []XRec) {
	synctest.Test(t, func(*testing.T) {
		v = vstat.Guard("lru:panic", func() *vstat.Violation {
			x, err := newXrun(c, modeControlled, "C09", "TestC09Controlled")
			if err != nil {
				panic(err)
			}
			return runScheduled(x, false, &info, &hist)
		})
	})
	return
}

// ---------------------------------------------------------------------------------------------
// squeezed mode: the same gates and decision lists on the real clock, outside a bubble, plus SQUEEZES (XDec.Over): the
// harness takes the cache's own mutex through the overlay accessor VerifWithLock, lets a parked creation complete and fires
// the overtakers behind it, 1.5 ms apart; they queue up on the mutex, which (sync.Mutex, waiters older than 1 ms: starvation
// mode) is handed over in arrival order once the harness lets go, later arrivals - the callers woken by the creator - at the
// tail. So the window "the creator has published its value and released the mutex, the callers that waited for it have not
// yet looked at the cache again" is held open for whole calls of other goroutines, instead of for nanoseconds.
// Outside a bubble quiescence is observed, not decreed: a busy worker is parked at its gate (the harness sees the gate), or
// its call has returned, or it is a GetOrCreate for a key whose creation is parked by another worker (then it is given 300
// microseconds to reach its waiting place). The order is a strong tendency, not a guarantee; the oracles do not depend on
// it: they are the ones of the other modes, evaluated at moments when nothing but parked creations is in progress.

// RunSqueezed executes the case in squeezed mode and reports to prop (C09, or C11 for the structural unit).
func RunSqueezed(c XCase, prop, testName string) (info XInfo, v *vstat.Violation, hist []XRec) {
	v = vstat.Guard("lru:panic", func() *vstat.Violation {
		x, err := newXrun(c, modeSqueezed, prop, testName)
		if err != nil {
			panic(err)
		}
		if x.withLock == nil {
			info.NoHook = true
			return nil
		}
		return runScheduled(x, true, &info, &hist)
	})
	return
}

// SqueezeAvailable tells whether the overlay accessor VerifWithLock is compiled into the library.
func SqueezeAvailable() bool {
	x, err := newXrun(XCase{Cap: 1}, modeSqueezed, "C09", "")
	return err == nil && x.withLock != nil
}

// maxSqueezes bounds the squeezes of one case (each costs 5-8 ms of real time).
const maxSqueezes = 6

// runScheduled is the scheduler of the controlled mode (inside a bubble: quiescence = synctest.Wait) and of the squeezed mode.
func runScheduled(x *xrun, squeezed bool, info *XInfo, histOut *[]XRec) (result *vstat.Violation) {
	c := x.c
	type wstate struct {
		cmd  chan XOp
		next int
		cur  XOp // the call the worker was last given (scheduler's copy)
		busy atomic.Bool
	}
	ws := make([]*wstate, len(c.Programs))
	for i := range ws {
		w := &wstate{cmd: make(chan XOp, 1)}
		ws[i] = w
		go func(i int) {
			for op := range w.cmd {
				x.do(i, op)
				w.busy.Store(false)
			}
		}(i)
	}
	// settle (squeezed mode): wait until every busy worker is parked at its gate, has returned, or is presumably waiting for a
	// creation parked by another worker. false = a call neither returns nor parks.
	closing := false // the verdict is in, the workers are only being released: do not wait long for one that is stuck
	settle := func() bool {
		deadline := time.Now().Add(15 * time.Second)
		if closing {
			deadline = time.Now().Add(time.Second)
		}
		grace := false
		for spin := 0; ; spin++ {
			running, waiting := 0, 0
			x.mu.Lock()
			for i, w := range ws {
				if !w.busy.Load() {
					continue
				}
				parked := false
				for _, g := range x.gates {
					if g.worker == i {
						parked = true
					}
				}
				if parked {
					continue
				}
				if w.cur.K == "g" {
					if g := x.gates[xKeyName(w.cur.Key)]; g != nil && g.worker != i {
						waiting++
						continue
					}
				}
				running++
			}
			x.mu.Unlock()
			if running == 0 {
				if waiting > 0 && !grace {
					grace = true
					time.Sleep(300 * time.Microsecond)
					continue
				}
				return true
			}
			if time.Now().After(deadline) {
				return false
			}
			if spin < 100 {
				runtime.Gosched()
			} else {
				time.Sleep(50 * time.Microsecond)
			}
		}
	}
	stuck := false
	wait := func() {
		if !squeezed {
			synctest.Wait()
		} else if !stuck && !settle() {
			stuck = true
		}
	}
	defer func() {
		// free everybody whatever happened
		closing = true
		for round := 0; round < 50 && !stuck; round++ {
			wait()
			x.mu.Lock()
			n := 0
			for k, g := range x.gates {
				g.ch <- 0
				delete(x.gates, k)
				n++
			}
			x.mu.Unlock()
			busy := 0
			for _, w := range ws {
				if w.busy.Load() {
					busy++
				}
			}
			if n == 0 && busy == 0 {
				break
			}
		}
		for _, w := range ws {
			close(w.cmd)
		}
		if !squeezed {
			synctest.Wait()
		}
		x.fill(info)
		*histOut = x.hist
	}()
	idle := func() (starts []int) {
		for i, w := range ws {
			if !w.busy.Load() && w.next < len(c.Programs[i]) {
				starts = append(starts, i)
			}
		}
		return
	}
	parkedKeys := func() (parked []string) {
		x.mu.Lock()
		for k := range x.gates {
			parked = append(parked, k)
		}
		x.mu.Unlock()
		sort.Strings(parked)
		return
	}
	pick := func(i, n int) int { return ((i % n) + n) % n }
	start := func(i int) {
		w := ws[i]
		w.cur = c.Programs[i][w.next]
		w.busy.Store(true)
		w.cmd <- w.cur
		w.next++
	}
	release := func(k string, d XDec, drain bool) {
		x.mu.Lock()
		g := x.gates[k]
		delete(x.gates, k)
		x.mu.Unlock()
		if d.OK || drain {
			g.ch <- 1 + normKind(d.Nil)
		} else {
			g.ch <- 0
		}
	}
	step := func(d XDec, drain bool) bool {
		starts, parked := idle(), parkedKeys()
		if len(starts) == 0 && len(parked) == 0 {
			return false
		}
		pickStart := len(parked) == 0 || (len(starts) > 0 && d.C%3 != 0)
		if drain {
			pickStart = len(parked) == 0
		}
		if pickStart {
			start(starts[pick(d.I, len(starts))])
		} else {
			release(parked[pick(d.I, len(parked))], d, drain)
		}
		wait()
		return true
	}
	// squeeze: see XDec.Over. false = not possible now (nothing parked, or nothing that could overtake).
	squeeze := func(d XDec, drain bool) bool {
		if !squeezed || info.Squeezes >= maxSqueezes || len(d.Over) == 0 {
			return false
		}
		starts, parked := idle(), parkedKeys()
		if len(parked) == 0 {
			return false
		}
		var awaited []string // parked creations other callers are waiting for
		x.mu.Lock()
		for _, k := range parked {
			if x.inGet[k] > 1 {
				awaited = append(awaited, k)
			}
		}
		x.mu.Unlock()
		pool := parked
		if len(awaited) > 0 && d.C%4 != 3 {
			pool = awaited
		}
		target := pool[pick(d.I, len(pool))]
		var others []string
		for _, k := range parked {
			if k != target {
				others = append(others, k)
			}
		}
		var fire []func()
		completion, call := false, false
		for _, o := range d.Over {
			if len(fire) == 3 || (len(starts) == 0 && len(others) == 0) {
				break
			}
			if len(others) == 0 || (len(starts) > 0 && o.C%3 == 0) { // another parked creation, if there is one, is the overtaker two times in three: its insertion evicts
				j := pick(o.I, len(starts))
				i := starts[j]
				starts = append(starts[:j:j], starts[j+1:]...)
				fire = append(fire, func() { start(i) })
				call = true
			} else {
				j := pick(o.I, len(others))
				k := others[j]
				others = append(others[:j:j], others[j+1:]...)
				fire = append(fire, func() { release(k, o, drain) })
				completion = true
			}
		}
		if len(fire) == 0 {
			return false
		}
		hadWaiters := false
		for _, k := range awaited {
			if k == target {
				hadWaiters = true
			}
		}
		x.withLock(func() {
			release(target, d, drain)
			time.Sleep(1500 * time.Microsecond) // the creator reaches the mutex
			for _, f := range fire {
				f()
				time.Sleep(1500 * time.Microsecond) // ... and the overtaker behind it
			}
		})
		info.Squeezes++
		info.SqueezedWaiters = info.SqueezedWaiters || hadWaiters
		info.SqueezedCompletion = info.SqueezedCompletion || (hadWaiters && completion)
		info.SqueezedCall = info.SqueezedCall || (hadWaiters && call)
		wait()
		return true
	}
	// check: the monitors at a quiescent point
	check := func(when string) (*vstat.Violation, bool) {
		if stuck {
			return vstat.V("lru:call-never-returns", "%s: a call neither returned nor reached its create function within 15 s", when), true
		}
		x.mu.Lock()
		fv := x.viol
		live := 0
		for v := range x.created {
			if x.deleted[v] == 0 {
				live++
			}
		}
		parked := len(x.gates)
		x.mu.Unlock()
		if fv == nil && live > c.Cap && !c.NoCB {
			fv = vstat.V("lru:over-capacity", "%d created values have not been deleted at a quiescent point, capacity is %d", live, c.Cap)
		}
		return x.verdict(fv, x.structural(parked, when), info)
	}
	for n, d := range c.Decs {
		if !squeeze(d, false) && !step(d, false) {
			break
		}
		if v, stop := check(fmt.Sprintf("at the quiescent point after scheduler decision #%d", n)); stop {
			return v
		}
	}
	drainSqueeze := XDec{OK: true, Over: []XDec{{C: 1}, {C: 1}}}
	for i := 0; i < 500 && (squeeze(drainSqueeze, true) || step(XDec{}, true)); i++ {
		if v, stop := check("at a quiescent point of the drain"); stop {
			return v
		}
	}
	for i, w := range ws {
		if w.busy.Load() {
			v, _ := x.verdict(vstat.V("lru:call-never-returns", "worker %d is still inside %v although no creation is in progress and nobody else can move", i, c.Programs[i][w.next-1]), nil, info)
			return v
		}
	}
	v := x.finish(info)
	if v != nil && v.Sig == "lru:checker-timeout" {
		info.Inconclusive = true
		return nil
	}
	return v
}

// ---------------------------------------------------------------------------------------------
// free-running mode (real goroutines, run with -race in the thorough tier)

// RunFree executes the programs concurrently without any schedule control.
func RunFree(c XCase) (info XInfo, v *vstat.Violation, hist []XRec) {
	v = vstat.Guard("lru:panic", func() *vstat.Violation {
		x, err := newXrun(c, modeFree, "C09", "TestC09Free")
		if err != nil {
			panic(err)
		}
		var wg sync.WaitGroup
		start := make(chan struct{})
		for i, p := range c.Programs {
			wg.Add(1)
			go func(i int, p []XOp) {
				defer wg.Done()
				<-start
				for _, op := range p {
					x.do(i, op)
				}
			}(i, p)
		}
		close(start)
		done := make(chan struct{})
		go func() { wg.Wait(); close(done) }()
		select {
		case <-done:
		case <-time.After(15 * time.Second):
			x.mu.Lock()
			defer x.mu.Unlock()
			if x.viol != nil {
				return x.viol
			}
			return vstat.V("lru:call-never-returns", "the free-running workers did not finish within 15 s")
		}
		v := x.finish(&info)
		x.fill(&info)
		hist = x.hist
		if v != nil && v.Sig == "lru:checker-timeout" {
			info.Inconclusive = true
			return nil
		}
		return v
	})
	return
}
