package p_lru

import (
	"errors"
	"fmt"
	"os"
	"runtime"
	"sort"
	"strconv"
	"strings"
	"sync"
	"sync/atomic"
	"testing"
	"testing/synctest"
	"time"

	"github.com/acquirecloud/golibs/container/lru"
	"github.com/anishathalye/porcupine"
	"verifharness/internal/gated"
	"verifharness/internal/vstat"
)

// ---------------------------------------------------------------------------------------------
// C09: the cache under concurrency - single-flight, linearizable, nothing leaked

// XOp is one call of a worker program: g(et-or-create) r(emove) c(lear).
type XOp struct {
	K   string `json:"k"`
	Key int    `json:"key,omitempty"`
}

// XDec is a scheduler decision (controlled mode): C selects start/complete, I the target, OK the creation outcome.
type XDec struct {
	C  int  `json:"c"`
	I  int  `json:"i"`
	OK bool `json:"ok"`
}

// XCase is the generated object.
type XCase struct {
	Cap        int     `json:"cap"`
	NKeys      int     `json:"nkeys"`
	Programs   [][]XOp `json:"programs"`
	Decs       []XDec  `json:"decs,omitempty"`        // controlled mode
	FailPct    int     `json:"failpct,omitempty"`     // free-running mode: percentage of creations that fail
	Yields     int     `json:"yields,omitempty"`      // free-running mode: Gosched calls inside the create function
	NoCB       bool    `json:"no_cb,omitempty"`       // the cache is built without a delete callback: judged on returned values, creations and Clear counts only
	SlowDelete bool    `json:"slow_delete,omitempty"` // free-running mode: the delete callback takes tens of microseconds
	History    []XRec  `json:"history,omitempty"`     // filled in on failure
}

type kv struct {
	K string `json:"k"`
	V int    `json:"v"`
}

// XRec is one recorded call.
type XRec struct {
	Worker  int    `json:"w"`
	Kind    string `json:"kind"`
	Key     string `json:"key,omitempty"`
	Call    int64  `json:"call"`
	Ret     int64  `json:"ret"`
	Val     int    `json:"val,omitempty"`     // returned value id (GetOrCreate ok)
	Err     bool   `json:"err,omitempty"`     // GetOrCreate returned an error
	Created int    `json:"created,omitempty"` // value id created by this very call (0 = did not create successfully)
	Tried   int    `json:"tried,omitempty"`   // number of create-function calls made by this call
	Failed  int    `json:"failed,omitempty"`  // ... of which failed
	Result  int    `json:"result,omitempty"`  // Remove: 1 true / 0 false; Clear: count
	Deleted []kv   `json:"deleted,omitempty"` // delete callbacks made by this call, in order
}

var errCreate = errors.New("creation failed (harness)")

type xrun struct {
	c       XCase
	cache   *lru.Cache[string, int]
	mu      sync.Mutex
	stamp   atomic.Int64
	nextVal atomic.Int64
	hist    []XRec
	cur     map[uint64]*XRec // goroutine id -> the call it is in (attribution of callbacks)
	inFl    map[string]int   // creations in flight per key
	created map[int]string   // value id -> key, successfully created
	deleted map[int]int      // value id -> number of delete callbacks
	viol    *vstat.Violation
	// controlled mode
	gates   map[string]chan bool // key -> channel of the creation parked for it
	overlap bool                 // two workers were inside GetOrCreate of one key at the same time
	inGet   map[string]int
	midMut  bool // Remove/Clear/eviction ran between a creation's start and its insertion
	// free mode
	free     bool
	testName string
	// free mode with slow delete callbacks: the per-key "one live value" monitor is meaningful only when a value counts as
	// deleted from the moment its callback STARTS being late - see create()
	freeSlowDelete bool
}

// xKeyName: key 0 is the zero value of the key type (the empty string), the others are single letters.
func xKeyName(i int) string {
	if i == 0 {
		return ""
	}
	return string(rune('a' + i - 1))
}

func (x *xrun) setViol(sig, format string, a ...any) {
	if x.viol == nil {
		x.viol = vstat.V(sig, format, a...)
	}
}

func (x *xrun) create(k string) (int, error) {
	id := gated.Goid()
	x.mu.Lock()
	x.inFl[k]++
	if x.inFl[k] > 1 {
		x.setViol("lru:two-creations-in-flight", "two creations for key %q are in progress at the same time", k)
	}
	rec := x.cur[id]
	if rec != nil {
		rec.Tried++
	}
	// a creation for k is only ever started when k is not resident, and a value leaves the cache only through its delete
	// callback: so no value created for k earlier may still be waiting for its callback now
	for v, kk := range x.created {
		if kk == k && x.deleted[v] == 0 && !x.c.NoCB {
			x.setViol("lru:creation-while-old-value-alive", "a creation for key %q was started while value #%d of the same key had not yet been passed to the delete callback", k, v)
		}
	}
	var gate chan bool
	if !x.free {
		gate = make(chan bool, 1)
		x.gates[k] = gate
	}
	x.mu.Unlock()
	ok := true
	if x.free {
		for i := 0; i < x.c.Yields; i++ {
			runtime.Gosched()
		}
		ok = int(x.nextVal.Load()*37+int64(len(k)))%100 >= x.c.FailPct
	} else {
		ok = <-gate
	}
	x.mu.Lock()
	defer x.mu.Unlock()
	x.inFl[k]--
	if !ok {
		if rec != nil {
			rec.Failed++
		}
		return 0, errCreate
	}
	v := int(x.nextVal.Add(1))
	x.created[v] = k
	if rec != nil {
		rec.Created = v
	}
	return v, nil
}

func (x *xrun) onDelete(k string, v int) {
	id := gated.Goid()
	if x.freeSlowDelete { // a delete callback that takes its time (free-running mode only)
		for i := 0; i < 3+x.c.Yields*4; i++ {
			runtime.Gosched()
		}
		time.Sleep(time.Duration(20*(1+x.c.Yields)) * time.Microsecond)
	}
	x.mu.Lock()
	defer x.mu.Unlock()
	x.deleted[v]++
	if x.deleted[v] > 1 {
		x.setViol("lru:deleted-twice", "value #%d of key %q was passed to the delete callback %d times", v, k, x.deleted[v])
	}
	if ck, ok := x.created[v]; !ok || ck != k {
		x.setViol("lru:deleted-unknown", "the delete callback got (%q,#%d) which the create function never produced for that key", k, v)
	}
	if rec := x.cur[id]; rec != nil {
		rec.Deleted = append(rec.Deleted, kv{k, v})
	}
	for _, n := range x.inFl {
		if n > 0 {
			x.midMut = true
		}
	}
}

func (x *xrun) do(w int, op XOp) {
	id := gated.Goid()
	rec := &XRec{Worker: w, Kind: op.K}
	if op.K != "c" {
		rec.Key = xKeyName(op.Key)
	}
	x.mu.Lock()
	x.cur[id] = rec
	if op.K == "g" {
		x.inGet[rec.Key]++
		if x.inGet[rec.Key] > 1 {
			x.overlap = true
		}
	}
	x.mu.Unlock()
	defer func() {
		if p := recover(); p != nil {
			// a panic inside the cache usually leaves its mutex locked: nothing can be run to completion in this
			// process any more, so the verdict is put on record at once and the process ends
			v := vstat.V("lru:panic", "worker %d: %s(%s) panicked: %v", w, op.K, rec.Key, p)
			vstat.For("C09").Record(x.testName, x.c, v)
			fmt.Printf("VERIF-VIOLATION property=C09 test=%s sig=%s :: %s\n", x.testName, v.Sig, v.Msg)
			os.Exit(3)
		}
	}()
	rec.Call = x.stamp.Add(1)
	switch op.K {
	case "g":
		v, err := x.cache.GetOrCreate(rec.Key)
		rec.Ret = x.stamp.Add(1)
		rec.Val, rec.Err = v, err != nil
		if err != nil && !errors.Is(err, errCreate) {
			x.mu.Lock()
			x.setViol("lru:foreign-error", "GetOrCreate(%q) returned %v, which the create function never produced", rec.Key, err)
			x.mu.Unlock()
		}
	case "r":
		ok := x.cache.Remove(rec.Key)
		rec.Ret = x.stamp.Add(1)
		if ok {
			rec.Result = 1
		}
	case "c":
		n := x.cache.Clear()
		rec.Ret = x.stamp.Add(1)
		rec.Result = n
	}
	x.mu.Lock()
	delete(x.cur, id)
	if op.K == "g" {
		x.inGet[rec.Key]--
	}
	x.hist = append(x.hist, *rec)
	x.mu.Unlock()
}

func newXrun(c XCase, free bool) (*xrun, error) {
	x := &xrun{c: c, free: free, testName: map[bool]string{false: "TestC09Controlled", true: "TestC09Free"}[free], cur: map[uint64]*XRec{}, inFl: map[string]int{}, created: map[int]string{}, deleted: map[int]int{},
		gates: map[string]chan bool{}, inGet: map[string]int{}}
	x.freeSlowDelete = free && c.SlowDelete
	var df lru.OnDeleteElemF[string, int]
	if !c.NoCB {
		df = x.onDelete
	}
	cache, err := lru.NewCache[string, int](c.Cap, x.create, df)
	x.cache = cache
	return x, err
}

// XInfo classifies a case.
type XInfo struct {
	Overlap, MidMutation, Inconclusive bool
	Calls                              int
}

// finish: final Clear, ledger, linearizability.
func (x *xrun) finish() *vstat.Violation {
	x.do(-1, XOp{K: "c"})
	x.mu.Lock()
	defer x.mu.Unlock()
	if x.viol != nil {
		return x.viol
	}
	for v, k := range x.created {
		if x.c.NoCB {
			break
		}
		switch x.deleted[v] {
		case 1:
		case 0:
			return vstat.V("lru:value-leaked", "value #%d created for key %q was never passed to the delete callback although the cache has been cleared", v, k)
		default:
			return vstat.V("lru:deleted-twice", "value #%d of key %q was deleted %d times", v, k, x.deleted[v])
		}
	}
	return checkLRUHistory(x.c.Cap, x.hist, x.c.NoCB)
}

// ---- sequential specification (porcupine model): state = recency list, oldest first

type lruState string // encoded "k:v,k:v" - comparable

func decodeState(s lruState) []kv {
	var out []kv
	if s == "" {
		return nil
	}
	for _, part := range strings.Split(string(s), ",") {
		i := strings.LastIndexByte(part, ':')
		if i < 0 {
			break
		}
		v, _ := strconv.Atoi(part[i+1:])
		out = append(out, kv{part[:i], v}) // the key may be the empty string
	}
	return out
}

func encodeState(l []kv) lruState {
	s := ""
	for i, e := range l {
		if i > 0 {
			s += ","
		}
		s += fmt.Sprintf("%s:%d", e.K, e.V)
	}
	return lruState(s)
}

func sameMultiset(a, b []kv) bool {
	if len(a) != len(b) {
		return false
	}
	aa, bb := append([]kv(nil), a...), append([]kv(nil), b...)
	less := func(s []kv) func(i, j int) bool {
		return func(i, j int) bool { return s[i].K < s[j].K || (s[i].K == s[j].K && s[i].V < s[j].V) }
	}
	sort.Slice(aa, less(aa))
	sort.Slice(bb, less(bb))
	for i := range aa {
		if aa[i] != bb[i] {
			return false
		}
	}
	return true
}

// stepLRU: with noCB the cache has no delete callback, so the ops report no evictions; the model then supplies them.
func stepLRU(capacity int, st lruState, r XRec, noCB bool) (bool, lruState) {
	l := decodeState(st)
	if noCB && len(r.Deleted) == 0 {
		// fill in what the model says this op evicts, so that the comparisons below hold trivially
		idx := -1
		for i, e := range l {
			if e.K == r.Key {
				idx = i
			}
		}
		switch {
		case r.Kind == "g" && idx < 0 && !r.Err && len(l)+1 > capacity && len(l) > 0:
			r.Deleted = []kv{l[0]}
		case r.Kind == "r" && idx >= 0:
			r.Deleted = []kv{l[idx]}
		case r.Kind == "c":
			r.Deleted = append([]kv(nil), l...)
		}
	}
	idx := -1
	for i, e := range l {
		if e.K == r.Key {
			idx = i
		}
	}
	switch r.Kind {
	case "g":
		if idx >= 0 { // hit: no successful creation by this call, returns the resident value, becomes most recently used
			if r.Created != 0 || r.Err || r.Val != l[idx].V || len(r.Deleted) != 0 {
				return false, st
			}
			e := l[idx]
			l = append(append(l[:idx:idx], l[idx+1:]...), e)
			return true, encodeState(l)
		}
		if r.Err { // failed creation changes nothing
			return r.Created == 0 && r.Tried >= 1 && len(r.Deleted) == 0, st
		}
		if r.Created == 0 || r.Val != r.Created {
			return false, st
		}
		l = append(l, kv{r.Key, r.Created})
		if len(l) > capacity {
			if len(r.Deleted) != 1 || r.Deleted[0] != l[0] {
				return false, st
			}
			l = l[1:]
		} else if len(r.Deleted) != 0 {
			return false, st
		}
		return true, encodeState(l)
	case "r":
		if idx < 0 {
			return r.Result == 0 && len(r.Deleted) == 0, st
		}
		if r.Result != 1 || len(r.Deleted) != 1 || r.Deleted[0] != l[idx] {
			return false, st
		}
		l = append(l[:idx:idx], l[idx+1:]...)
		return true, encodeState(l)
	case "c":
		if r.Result != len(l) || !sameMultiset(r.Deleted, l) {
			return false, st
		}
		return true, ""
	}
	return false, st
}

func checkLRUHistory(capacity int, hist []XRec, noCB bool) *vstat.Violation {
	model := porcupine.Model{
		Init: func() interface{} { return lruState("") },
		Step: func(s, in, out interface{}) (bool, interface{}) {
			return stepLRU(capacity, s.(lruState), in.(XRec), noCB)
		},
		Equal: func(a, b interface{}) bool { return a.(lruState) == b.(lruState) },
	}
	ops := make([]porcupine.Operation, len(hist))
	for i, r := range hist {
		ops[i] = porcupine.Operation{ClientId: r.Worker + 1, Input: r, Call: r.Call, Output: r, Return: r.Ret}
	}
	switch porcupine.CheckOperationsTimeout(model, ops, 20*time.Second) {
	case porcupine.Illegal:
		sorted := append([]XRec(nil), hist...)
		sort.Slice(sorted, func(i, j int) bool { return sorted[i].Call < sorted[j].Call })
		s := ""
		for _, r := range sorted {
			s += fmt.Sprintf("\n  [%d,%d] w%d %s(%s) -> val=#%d err=%v result=%d created=#%d tried=%d deleted=%v", r.Call, r.Ret, r.Worker, r.Kind, r.Key, r.Val, r.Err, r.Result, r.Created, r.Tried, r.Deleted)
		}
		return vstat.V("lru:not-linearizable", "capacity %d: no sequential LRU history has the same returned values, creations and evictions:%s", capacity, s)
	case porcupine.Unknown:
		return vstat.V("lru:checker-timeout", "inconclusive")
	}
	return nil
}

// ---------------------------------------------------------------------------------------------
// controlled mode: creations park on a gate, the schedule is a generated value (bubble)

// RunControlled executes the case in a synctest bubble.
func RunControlled(t *testing.T, c XCase) (info XInfo, v *vstat.Violation, hist []XRec) {
	synctest.Test(t, func(*testing.T) {
		v = vstat.Guard("lru:panic", func() *vstat.Violation { return runControlled(c, &info, &hist) })
	})
	return
}

func runControlled(c XCase, info *XInfo, histOut *[]XRec) *vstat.Violation {
	x, err := newXrun(c, false)
	if err != nil {
		panic(err)
	}
	type wstate struct {
		cmd  chan XOp
		next int
		busy atomic.Bool
	}
	ws := make([]*wstate, len(c.Programs))
	for i := range ws {
		w := &wstate{cmd: make(chan XOp, 1)}
		ws[i] = w
		go func(i int) {
			for op := range w.cmd {
				x.do(i, op)
				w.busy.Store(false)
			}
		}(i)
	}
	defer func() {
		// free everybody whatever happened
		for round := 0; round < 50; round++ {
			synctest.Wait()
			x.mu.Lock()
			n := 0
			for k, g := range x.gates {
				g <- false
				delete(x.gates, k)
				n++
			}
			x.mu.Unlock()
			busy := 0
			for _, w := range ws {
				if w.busy.Load() {
					busy++
				}
			}
			if n == 0 && busy == 0 {
				break
			}
		}
		for _, w := range ws {
			close(w.cmd)
		}
		synctest.Wait()
	}()
	step := func(d XDec, drain bool) bool {
		var starts []int
		for i, w := range ws {
			if !w.busy.Load() && w.next < len(c.Programs[i]) {
				starts = append(starts, i)
			}
		}
		x.mu.Lock()
		var parked []string
		for k := range x.gates {
			parked = append(parked, k)
		}
		x.mu.Unlock()
		sort.Strings(parked)
		if len(starts) == 0 && len(parked) == 0 {
			return false
		}
		pickStart := len(parked) == 0 || (len(starts) > 0 && d.C%3 != 0)
		if drain {
			pickStart = len(parked) == 0
		}
		if pickStart {
			i := starts[((d.I%len(starts))+len(starts))%len(starts)]
			w := ws[i]
			w.busy.Store(true)
			w.cmd <- c.Programs[i][w.next]
			w.next++
		} else {
			k := parked[((d.I%len(parked))+len(parked))%len(parked)]
			x.mu.Lock()
			g := x.gates[k]
			delete(x.gates, k)
			x.mu.Unlock()
			g <- d.OK || drain
		}
		synctest.Wait()
		return true
	}
	check := func() *vstat.Violation {
		x.mu.Lock()
		defer x.mu.Unlock()
		if x.viol != nil {
			return x.viol
		}
		live := 0
		for v := range x.created {
			if x.deleted[v] == 0 {
				live++
			}
		}
		parked := len(x.gates)
		_ = parked
		if live > c.Cap && !c.NoCB {
			return vstat.V("lru:over-capacity", "%d created values have not been deleted at a quiescent point, capacity is %d", live, c.Cap)
		}
		return nil
	}
	for _, d := range c.Decs {
		if !step(d, false) {
			break
		}
		if v := check(); v != nil {
			*histOut = x.hist
			return v
		}
	}
	for i := 0; i < 500 && step(XDec{}, true); i++ {
		if v := check(); v != nil {
			*histOut = x.hist
			return v
		}
	}
	for i, w := range ws {
		if w.busy.Load() {
			*histOut = x.hist
			return vstat.V("lru:call-never-returns", "worker %d is still inside %v although no creation is in progress and nobody else can move", i, c.Programs[i][w.next-1])
		}
	}
	v := x.finish()
	info.Overlap, info.MidMutation, info.Calls = x.overlap, x.midMut, len(x.hist)
	*histOut = x.hist
	if v != nil && v.Sig == "lru:checker-timeout" {
		info.Inconclusive = true
		return nil
	}
	return v
}

// ---------------------------------------------------------------------------------------------
// free-running mode (real goroutines, run with -race in the thorough tier)

// RunFree executes the programs concurrently without any schedule control.
func RunFree(c XCase) (info XInfo, v *vstat.Violation, hist []XRec) {
	v = vstat.Guard("lru:panic", func() *vstat.Violation {
		x, err := newXrun(c, true)
		if err != nil {
			panic(err)
		}
		var wg sync.WaitGroup
		start := make(chan struct{})
		for i, p := range c.Programs {
			wg.Add(1)
			go func(i int, p []XOp) {
				defer wg.Done()
				<-start
				for _, op := range p {
					x.do(i, op)
				}
			}(i, p)
		}
		close(start)
		done := make(chan struct{})
		go func() { wg.Wait(); close(done) }()
		select {
		case <-done:
		case <-time.After(15 * time.Second):
			x.mu.Lock()
			defer x.mu.Unlock()
			if x.viol != nil {
				return x.viol
			}
			return vstat.V("lru:call-never-returns", "the free-running workers did not finish within 15 s")
		}
		v := x.finish()
		info.Overlap, info.MidMutation, info.Calls = x.overlap, x.midMut, len(x.hist)
		hist = x.hist
		if v != nil && v.Sig == "lru:checker-timeout" {
			info.Inconclusive = true
			return nil
		}
		return v
	})
	return
}
