//go:build !nohooks

package p_lru

import "github.com/acquirecloud/golibs/container/lru"

// hooksOn: the accessors are looked up through interface assertions, so this file also compiles
// when the overlay is absent (C08 needs no hook); walkRes.OK tells whether it was really there.
const hooksOn = true

type walker interface {
	VerifWalk() (nodes, deleted, refSum, resident, inflight int, sane bool)
}

func walkOf[PK any, K comparable, V any](e *lru.ECache[PK, K, V]) func() walkRes {
	wk, ok := any(e).(walker)
	if !ok {
		return func() walkRes { return walkRes{} }
	}
	return func() walkRes {
		n, d, r, res, inf, sane := wk.VerifWalk()
		return walkRes{Nodes: n, Deleted: d, RefSum: r, Resident: res, Inflight: inf, Sane: sane, OK: true}
	}
}

type locker interface {
	VerifWithLock(f func())
}

// withLockOf returns a function that runs its argument while holding the cache's own mutex (nil if the overlay accessor is absent).
func withLockOf[PK any, K comparable, V any](e *lru.ECache[PK, K, V]) func(func()) {
	lk, ok := any(e).(locker)
	if !ok {
		return nil
	}
	return lk.VerifWithLock
}
