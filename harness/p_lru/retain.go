package p_lru

// Retention oracle of the LRU part of C11 that never looks inside the cache: the values (and, in the ecache shape, the primary
// keys) handed to the cache are distinct heap objects; the harness keeps no reference to them, only a weak pointer. At a
// measurement point the garbage collector is run while the cache object is alive: every object that still resolves and does not
// belong to a RESIDENT entry is reachable through the cache (whatever field, queue, scratch slice or free list it hangs on - a
// structural accessor only sees the fields it was written for, the collector sees every path).
//
// Care taken with a collector-based verdict:
//   - the tracked objects are 64 bytes or hold pointers: never tiny-allocated, so no two of them share a block;
//   - at least retainMinCycles collections, at most retainMaxCycles; the verdict is taken at the first collection after which
//     nothing beyond the residents resolves;
//   - two controls per measurement, allocated like the tracked objects: one the harness keeps a reference to must still resolve,
//     one it drops must be gone. If either fails the measurement is UNDECIDED: no verdict (class retain_undecided);
//   - the values of the residents (the cache must keep those) are expected to resolve; if one does not, harness and cache disagree
//     about the live set (a functional matter, C08/C09): no verdict either.

import (
	"math/bits"
	"runtime"
	"weak"

	"verifharness/internal/vstat"
)

const (
	retainMinCycles = 2
	retainMaxCycles = 10
)

// retObj is the shape of a control object (the tracked ones are box, item and []string backing arrays).
type retObj struct {
	id  int
	pad [7]uint64
}

type retWatch struct {
	id    int
	alive func() bool
}

// retTracker holds the weak side of everything the harness has handed to the cache.
type retTracker struct {
	vals, pks []retWatch
	made      int // objects ever tracked
}

func trackPtr[T any](l *[]retWatch, id int, p *T) {
	wp := weak.Make(p)
	*l = append(*l, retWatch{id, func() bool { return wp.Value() != nil }})
}

// trackVal / trackPK register an object; nothing but the weak pointer stays behind.
func trackVal[T any](t *retTracker, id int, p *T) {
	if t != nil && p != nil {
		t.made++
		trackPtr(&t.vals, id, p)
	}
}

func trackPK[T any](t *retTracker, id int, p *T) {
	if t != nil && p != nil {
		t.made++
		trackPtr(&t.pks, id, p)
	}
}

// RetainInfo is the classifier's view of the measurements of one case.
type RetainInfo struct {
	Measures, Undecided, Cycles int
	Tracked                     int
	AfterEvictions100           bool // a measurement with >= 100 evictions behind it
	AfterRemove, AfterClear     bool // a measurement right after a Remove of a resident / a Clear of a non-empty cache
	AfterEpilogue, AfterFinal   bool
	MaxDead                     int // most objects of entries that had left the cache seen collected at one measurement
}

// Classes for the histogram (prefix retain_).
func (i RetainInfo) Classes(noCB bool) []string {
	if i.Measures == 0 {
		return nil
	}
	cl := []string{"retain_measured"}
	add := func(b bool, s string) {
		if b {
			cl = append(cl, s)
		}
	}
	add(noCB, "retain_measured_without_delete_callback")
	add(!noCB, "retain_measured_with_delete_callback")
	add(i.Tracked == 0, "retain_measured_nothing_tracked")
	add(i.AfterEvictions100, "retain_measured_after_100_evictions")
	add(i.AfterEvictions100 && noCB, "retain_measured_after_100_evictions_without_delete_callback")
	add(i.AfterRemove, "retain_measured_right_after_remove")
	add(i.AfterClear, "retain_measured_right_after_clear")
	add(i.AfterEpilogue, "retain_measured_after_epilogue_evictions")
	add(i.AfterFinal, "retain_measured_after_final_clear")
	add(i.MaxDead >= 100, "retain_collected_ge_100_left_objects_at_one_point")
	add(i.Undecided > 0, "retain_undecided")
	return cl
}

//go:noinline
func retDroppedControl() func() bool {
	o := &retObj{id: -1}
	wp := weak.Make(o)
	return func() bool { return wp.Value() != nil }
}

// sweep counts the objects that still resolve and forgets the others. resident(id) tells whether a value belongs to a resident;
// without such a predicate (nil) the first valBound values that resolve count as the residents'.
func (t *retTracker) sweep(resident func(id int) bool, valBound int) (extraVals, firstExtra, resVals, pks, dead int) {
	keep := t.vals[:0]
	firstExtra = -1
	for _, w := range t.vals {
		if !w.alive() {
			dead++
			continue
		}
		keep = append(keep, w)
		if (resident != nil && resident(w.id)) || (resident == nil && resVals < valBound) {
			resVals++
		} else {
			if extraVals == 0 {
				firstExtra = w.id
			}
			extraVals++
		}
	}
	clear(t.vals[len(keep):])
	t.vals = keep
	keepP := t.pks[:0]
	for _, w := range t.pks {
		if !w.alive() {
			dead++
			continue
		}
		keepP = append(keepP, w)
		pks++
	}
	clear(t.pks[len(keepP):])
	t.pks = keepP
	return
}

// measure runs the collector and judges. wantVals = number of residents whose value is a tracked object; resident(id) = the value
// #id belongs to a resident. Where the harness has no reference model (concurrent runs) resident is nil and wantVals is an upper
// bound of the values the residents can hold: any wantVals of the values may resolve. pkBound = number of primary-key objects residents may hold (-1: not judged); keepAlive keeps the cache
// object reachable until the verdict is in. describe is called for the message only.
func (t *retTracker) measure(ri *RetainInfo, wantVals int, resident func(id int) bool, pkBound int, keepAlive func(), describe func() string) *vstat.Violation {
	if t == nil {
		return nil
	}
	ri.Measures++
	ri.Tracked = t.made
	kept := &retObj{id: -2}
	keptAlive := func() func() bool { wp := weak.Make(kept); return func() bool { return wp.Value() != nil } }()
	droppedAlive := retDroppedControl()
	var extraVals, firstExtra, resVals, pks, dead int
	cycles := 0
	for cycles < retainMaxCycles {
		runtime.GC()
		cycles++
		ev, fe, rv, p, d := t.sweep(resident, wantVals)
		extraVals, firstExtra, resVals, pks = ev, fe, rv, p
		dead += d
		if cycles >= retainMinCycles && extraVals == 0 && (pkBound < 0 || pks <= pkBound) && !droppedAlive() {
			break
		}
	}
	keepAlive()
	ri.Cycles += cycles
	ri.MaxDead = max(ri.MaxDead, dead)
	ctlKept, ctlDropped := keptAlive(), droppedAlive()
	runtime.KeepAlive(kept)
	if !ctlKept || ctlDropped || (resident != nil && resVals != wantVals) {
		// the collector (or the weak pointers) did not behave as the oracle needs, or the cache has lost a value the reference model
		// says is resident (C08/C09's business): no verdict
		ri.Undecided++
		return nil
	}
	mag := func(n int) int { return 1 << (bits.Len(uint(n)) - 1) } // order of magnitude: the message reproduces literally
	if extraVals > 0 {
		return vstat.V("lru:retain-value", "%s: after %d garbage collections at least %d value object(s) of entries that have LEFT the cache (evicted, removed, cleared or replaced; e.g. value #%d) are still reachable "+
			"while the cache is alive and the harness holds weak pointers only; the %d value(s) of the residents are accounted for, a control object the harness dropped at the same moment was collected: the cache retains removed entries",
			describe(), cycles, mag(extraVals), firstExtra, resVals)
	}
	if pkBound >= 0 && pks > pkBound {
		return vstat.V("lru:retain-pk", "%s: after %d garbage collections at least %d primary-key object(s) beyond the %d the residents were created with are still reachable "+
			"while the cache is alive and the harness holds weak pointers only (keys of calls that have returned, of entries evicted, removed or cleared); a control object the harness dropped at the same moment was collected: the cache retains primary keys of removed entries",
			describe(), cycles, mag(pks-pkBound), pkBound)
	}
	return nil
}
