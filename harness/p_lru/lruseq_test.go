package p_lru

import (
	"math"
	"strings"
	"testing"

	"pgregory.net/rapid"
	"verifharness/internal/enum"
	"verifharness/internal/vstat"
)

const (
	propSeq  = "C08"
	propWalk = "C11"
)

func recordSeq(c Case, info Info) {
	vstat.For(propSeq).Case(info.NonTrivial(), c.Hash(), func() any { return c }, info.Classes(c)...)
}

func recordWalk(c Case, info Info) {
	st := vstat.For(propWalk)
	st.Case(info.NonTrivialWalk(), c.Hash(), func() any { return c }, info.Classes(c)...)
	st.AddExtra("lru_verifwalk_calls", int64(info.Walks))
	st.AddExtra("lru_checkpoints_1000_ops", int64(info.Checkpoints))
	st.AddExtra("lru_calls_executed", int64(info.OpsDone))
	st.AddExtra("lru_retention_measurements", int64(info.Retain.Measures))
	st.AddExtra("lru_retention_measurements_undecided", int64(info.Retain.Undecided))
	st.AddExtra("lru_retention_gc_cycles", int64(info.Retain.Cycles))
}

// exhaustiveConfig is one (shape, capacity, keys, depth) cell of the bounded-exhaustive part.
type exhaustiveConfig struct {
	Shape             string
	Cap, Keys         int
	DepthQ, DepthT    int
	Alphabet, Lists   int64
	Depth             int
	NonTrivialInLists int64
	Reentrant         bool
	Buffers           bool
	Born              bool
}

func exhaustiveConfigs() []exhaustiveConfig {
	return []exhaustiveConfig{
		// the cell of the property text: 2 keys, capacity 1-2, shape cache (alphabet 7)
		{Shape: ShapeCache, Cap: 1, Keys: 2, DepthQ: 5, DepthT: 7},
		{Shape: ShapeCache, Cap: 2, Keys: 2, DepthQ: 5, DepthT: 7},
		// evictions inside the list at capacity 2 need a third key (alphabet 10)
		{Shape: ShapeCache, Cap: 2, Keys: 3, DepthQ: 4, DepthT: 6},
		{Shape: ShapeCache, Cap: 3, Keys: 4, DepthQ: 4, DepthT: 5},
		// colliding PKs (alphabet 13)
		{Shape: ShapeECache, Cap: 1, Keys: 2, DepthQ: 4, DepthT: 5},
		{Shape: ShapeECache, Cap: 2, Keys: 2, DepthQ: 4, DepthT: 5},
		// stale items (alphabet 9)
		{Shape: ShapeExpirable, Cap: 1, Keys: 2, DepthQ: 4, DepthT: 6},
		{Shape: ShapeExpirable, Cap: 2, Keys: 2, DepthQ: 4, DepthT: 6},
		// items that are already expired when the create function returns them, in runs of 1 and 3 per key (alphabet 13)
		{Shape: ShapeExpirable, Cap: 1, Keys: 2, DepthQ: 4, DepthT: 5, Born: true},
		{Shape: ShapeExpirable, Cap: 2, Keys: 2, DepthQ: 4, DepthT: 5, Born: true},
		// re-entrant create functions: the alphabet additionally has, per key, GetOrCreate whose create function
		// first calls GetOrCreate(ok|error) / Remove / GetOrCreate{GetOrCreate} on the other key(s)
		// the caller re-uses its PK buffers: PKs stored in the cache are overwritten behind its back (alphabet 13 / 19)
		{Shape: ShapeECache, Cap: 1, Keys: 2, DepthQ: 4, DepthT: 5, Buffers: true},
		{Shape: ShapeECache, Cap: 2, Keys: 3, DepthQ: 3, DepthT: 4, Buffers: true},
		{Shape: ShapeCache, Cap: 1, Keys: 2, DepthQ: 3, DepthT: 5, Reentrant: true},
		{Shape: ShapeCache, Cap: 2, Keys: 3, DepthQ: 3, DepthT: 4, Reentrant: true},
		{Shape: ShapeExpirable, Cap: 2, Keys: 3, DepthQ: 3, DepthT: 4, Reentrant: true},
		// interface-typed values: per key also creations that return the nil interface value / a typed nil pointer (alphabet 11)
		{Shape: ShapeIface, Cap: 1, Keys: 2, DepthQ: 4, DepthT: 5},
		{Shape: ShapeIface, Cap: 2, Keys: 2, DepthQ: 4, DepthT: 5},
		// "unbounded" caches: nothing is ever evicted, Clear/Remove/hits as usual (alphabets 7, 7, 11)
		{Shape: ShapeCache, Cap: math.MaxInt, Keys: 2, DepthQ: 4, DepthT: 6},
		{Shape: ShapeCache, Cap: math.MaxInt - 1, Keys: 2, DepthQ: 3, DepthT: 5},
		{Shape: ShapeIface, Cap: math.MaxInt, Keys: 2, DepthQ: 3, DepthT: 4},
	}
}

func TestC08Exhaustive(t *testing.T) {
	st := vstat.For(propSeq)
	shard, shards := vstat.Shard()
	// constructor refusals: maxSize < 1 or a nil create function
	if shard == 0 {
		for _, sh := range Shapes {
			for _, c := range []Case{{Shape: sh, Cap: 0, Keys: 1}, {Shape: sh, Cap: -1, Keys: 1}, {Shape: sh, Cap: -1 << 31, Keys: 1},
				{Shape: sh, Cap: 1, Keys: 1, NilCreate: true}, {Shape: sh, Cap: 0, Keys: 1, NilCreate: true}, {Shape: sh, Cap: 1, Keys: 1, NoCB: true},
				{Shape: sh, Cap: math.MinInt, Keys: 1}, {Shape: sh, Cap: math.MaxInt, Keys: 1, NilCreate: true}} {
				info, v := Run(c)
				st.Report(t, "TestC08Exhaustive", c, v)
				recordSeq(c, info)
			}
		}
	}
	cfgs := exhaustiveConfigs()
	for ci := range cfgs {
		cfg := &cfgs[ci]
		alpha := Alphabet(cfg.Shape, cfg.Keys)
		if cfg.Buffers {
			alpha = BufferAlphabet(cfg.Keys)
		}
		if cfg.Reentrant {
			alpha = append(alpha, ReentrantAlphabet(cfg.Keys)...)
		}
		if cfg.Born {
			alpha = append(alpha, BornAlphabet(cfg.Keys)...)
		}
		cfg.Alphabet = int64(len(alpha))
		cfg.Depth = vstat.Pick(cfg.DepthQ, cfg.DepthT)
		ops := make([]Op, 0, cfg.Depth)
		cfg.Lists = enum.Lists(len(alpha), cfg.Depth, shard, shards, func(idx []int) {
			ops = ops[:0]
			for _, i := range idx {
				ops = append(ops, alpha[i])
			}
			c := Case{Shape: cfg.Shape, Cap: cfg.Cap, Keys: cfg.Keys, Ops: ops}
			info, v := Run(c)
			if v != nil || info.NonTrivial() {
				c.Ops = append([]Op(nil), ops...)
			}
			if v != nil {
				st.Report(t, "TestC08Exhaustive", c, v)
			}
			if info.NonTrivial() {
				cfg.NonTrivialInLists++
			}
			recordSeq(c, info)
		})
	}
	st.SetExhaustive("lru_oplists", map[string]any{"cells": cfgs, "shards": shards, "shard": shard})
}

// genNested draws the program a create function runs on the cache (1-2 calls, GetOrCreate-heavy; the
// executor resolves the keys so that no key in flight is touched).
func genNested(t *rapid.T, shape string, nk, depth int) []Op {
	n := rapid.IntRange(1, MaxNested).Draw(t, "nestedN")
	prog := make([]Op, 0, n)
	for i := 0; i < n; i++ {
		op := Op{Key: rapid.IntRange(0, nk-1).Draw(t, "nestedKey")}
		if shape == ShapeECache {
			op.Var = rapid.IntRange(0, NVariants-1).Draw(t, "nestedVar")
			if rapid.IntRange(0, 3).Draw(t, "nestedViaBuffer") == 0 {
				op.Buf = rapid.IntRange(1, NBufs).Draw(t, "nestedBuf")
			}
		}
		switch kind := rapid.IntRange(0, 9).Draw(t, "nestedKind"); {
		case kind < 7:
			op.K = "g"
			op.Fail = rapid.IntRange(0, 5).Draw(t, "nestedFail") == 0
			op.Err = genErr(t, op.Fail, "nestedErr")
			op.Born = genBorn(t, shape, "nestedBorn")
			op.Nil = genNil(t, shape, "nestedNil")
			if depth < MaxDepth && nk > 2 && rapid.IntRange(0, 3).Draw(t, "deeper") == 0 {
				op.Nested = genNested(t, shape, nk, depth+1)
			}
		case kind < 9:
			op.K = "r"
		default:
			op.K = "c"
		}
		prog = append(prog, op)
	}
	return prog
}

// genBorn draws Op.Born for a GetOrCreate of the expirable shape: one call in four orders a run of 1..MaxBorn
// creations for its key that return an already-expired item (a source that lags behind); the run is consumed by
// this call (at most two creations) and by the following calls that touch the key.
func genBorn(t *rapid.T, shape, label string) int {
	if shape != ShapeExpirable {
		return 0
	}
	if b := rapid.IntRange(-3*MaxBorn+1, MaxBorn).Draw(t, label); b > 0 {
		return b
	}
	return 0
}

// genErr draws Op.Err for a GetOrCreate whose create function fails: the shape of the error value it returns, all
// shapes of errkinds.go alike (0 = a plain error, what shrinking leaves).
func genErr(t *rapid.T, fail bool, label string) int {
	if !fail {
		return 0
	}
	return rapid.IntRange(0, NErrKinds-1).Draw(t, label)
}

// genNil draws Op.Nil for a GetOrCreate of the iface shape: two creations in five hand over a nil value (the nil interface
// value three times as often as a typed nil pointer).
func genNil(t *rapid.T, shape, label string) int {
	if shape != ShapeIface {
		return 0
	}
	switch n := rapid.IntRange(0, 9).Draw(t, label); {
	case n < 6:
		return KindValue
	case n < 9:
		return KindNilIface
	}
	return KindNilPtr
}

// genOps draws an op list for a configuration.
func genOps(t *rapid.T, shape string, nk, maxLen int, heavy bool) []Op {
	reuse := shape == ShapeECache && rapid.Bool().Draw(t, "reusePKBuffers") // half of the ecache cases
	opGen := rapid.Custom(func(t *rapid.T) Op {
		kind := rapid.IntRange(0, 99).Draw(t, "kind")
		key := rapid.IntRange(0, nk-1).Draw(t, "key")
		vr, buf := 0, 0
		if shape == ShapeECache {
			vr = rapid.IntRange(0, NVariants-1).Draw(t, "var")
			if reuse && rapid.IntRange(0, 2).Draw(t, "viaBuffer") > 0 { // the caller recycles its key buffers
				buf = rapid.IntRange(1, NBufs).Draw(t, "buf")
			}
		}
		gEnd, rEnd, cEnd := 64, 80, 86 // g 64% r 16% c 6% x 14%
		if heavy {
			gEnd, rEnd, cEnd = 50, 74, 88 // g 50% r 24% c 14% x 12%
		}
		if shape != ShapeExpirable { // no x: its share goes to g
			gEnd, rEnd, cEnd = gEnd+100-cEnd, rEnd+100-cEnd, 100
		}
		switch {
		case kind < gEnd:
			op := Op{K: "g", Key: key, Var: vr, Buf: buf, Fail: rapid.IntRange(0, 5).Draw(t, "fail") == 0, Born: genBorn(t, shape, "born"), Nil: genNil(t, shape, "nil")}
			op.Err = genErr(t, op.Fail, "err")
			if nk > 1 && rapid.IntRange(0, 5).Draw(t, "reentrant") == 0 { // the create function uses the cache itself
				op.Nested = genNested(t, shape, nk, 1)
			}
			return op
		case kind < rEnd:
			return Op{K: "r", Key: key, Var: vr, Buf: buf}
		case kind < cEnd:
			return Op{K: "c"}
		default:
			return Op{K: "x", Key: key}
		}
	})
	minLen := rapid.IntRange(0, maxLen/2).Draw(t, "minLen") // rapid's own length distribution is dominated by very short lists
	return rapid.SliceOfN(opGen, minLen, maxLen).Draw(t, "ops")
}

// genCase draws a C08 case: every random choice is a rapid draw.
func genCase(t *rapid.T) Case {
	c := Case{Shape: rapid.SampledFrom(Shapes).Draw(t, "shape")}
	maxLen := vstat.Pick(80, 160)
	endClear := false
	switch cl := rapid.IntRange(0, 21).Draw(t, "capClass"); {
	case cl < 13: // capacities 1..4 with 2..6 keys
		c.Cap = rapid.IntRange(1, 4).Draw(t, "cap")
		c.Keys = rapid.IntRange(2, 6).Draw(t, "keys")
	case cl < 16: // 5..8
		c.Cap = rapid.IntRange(5, 8).Draw(t, "cap")
		c.Keys = rapid.IntRange(c.Cap-1, c.Cap+4).Draw(t, "keys")
		maxLen *= 2
	case cl < 18: // 64, long lists
		c.Cap = 64
		c.Keys = rapid.IntRange(60, 72).Draw(t, "keys")
		maxLen *= 4
	case cl == 18: // constructor refusal
		c.Cap = rapid.IntRange(-3, 1).Draw(t, "cap")
		c.NilCreate = c.Cap == 1 || rapid.Bool().Draw(t, "nilCreate")
		c.Keys = 2
	case cl >= 20: // "unbounded" and other huge capacities: never full, nothing may ever be evicted
		c.Cap = rapid.SampledFrom(HugeCaps).Draw(t, "hugeCap")
		c.Keys = rapid.IntRange(2, 6).Draw(t, "keys")
		c.NoCB = rapid.IntRange(0, 3).Draw(t, "noCallback") == 0
		endClear = rapid.IntRange(0, 2).Draw(t, "endWithClear") == 0 // the list ends with a Clear of whatever is resident then
	default: // nil delete callback: only return values and create calls are observable
		c.Cap = rapid.IntRange(1, 4).Draw(t, "cap")
		c.Keys = rapid.IntRange(2, 6).Draw(t, "keys")
		c.NoCB = true
	}
	c.Ops = genOps(t, c.Shape, c.Keys, maxLen, false)
	if c.Cap > 4 && rapid.Bool().Draw(t, "prefill") { // large caches reach "full" only after a burst of insertions
		n := rapid.IntRange(0, c.Keys).Draw(t, "prefillN")
		pre := make([]Op, n)
		for i := range pre {
			pre[i] = Op{K: "g", Key: i}
		}
		c.Ops = append(pre, c.Ops...)
	}
	if endClear {
		c.Ops = append(c.Ops, Op{K: "c"})
	}
	return c
}

// genLong draws a long history in compact form: a pattern heavy on Clear/Remove/re-insert,
// repeated with a rotating key shift until the drawn total length (10^3 .. 10^5 calls) is reached.
func genLong(t *rapid.T) Case {
	c := Case{Shape: rapid.SampledFrom(Shapes).Draw(t, "shape")}
	c.Cap = rapid.IntRange(1, 8).Draw(t, "cap")
	if rapid.IntRange(0, 9).Draw(t, "keyClass") < 7 { // more keys than capacity: evictions
		c.Keys = rapid.IntRange(c.Cap+1, c.Cap+4).Draw(t, "keys")
	} else {
		c.Keys = rapid.IntRange(1, c.Cap).Draw(t, "keys")
	}
	c.Ops = genOps(t, c.Shape, c.Keys, 60, true)
	if len(c.Ops) == 0 {
		c.Ops = []Op{{K: "g"}}
	}
	if rapid.IntRange(0, 3).Draw(t, "forceClear") > 0 { // heavy on Clear
		c.Ops = append(c.Ops, Op{K: "c"})
	}
	c.Stride = rapid.IntRange(0, c.Keys-1).Draw(t, "stride")
	c.NoCB = rapid.IntRange(0, 2).Draw(t, "noCallback") == 0 // one long history in three runs on a cache built without a delete callback
	c.Measure = true                                        // retention measurements (retain.go) at every checkpoint and at the end
	var total int
	switch rapid.IntRange(0, 9).Draw(t, "lenClass") {
	case 0, 1, 2, 3:
		total = rapid.IntRange(1000, 3000).Draw(t, "total")
	case 4, 5, 6, 7:
		total = rapid.IntRange(3000, vstat.Pick(20000, 30000)).Draw(t, "total")
	default:
		total = vstat.Pick(20000, 100000)
	}
	c.Repeat = (total + len(c.Ops) - 1) / len(c.Ops)
	return c
}

func TestC08Rapid(t *testing.T) {
	st := vstat.For(propSeq)
	rapid.Check(t, func(t *rapid.T) {
		c := genCase(t)
		info, v := Run(c)
		if st.Report(t, "TestC08Rapid", c, v) {
			return
		}
		recordSeq(c, info)
	})
}

func needWalk(t *testing.T) {
	if !WalkAvailable() {
		vstat.For(propWalk).Inconclusivef("the accessor VerifWalk is not compiled into container/lru (overlay absent or hooks disabled): the LRU part of C11 cannot be decided")
		t.Skip("VerifWalk not available")
	}
}

func TestC11LruRapid(t *testing.T) {
	needWalk(t)
	st := vstat.For(propWalk)
	rapid.Check(t, func(t *rapid.T) {
		c := genCase(t)
		c.Measure = rapid.IntRange(0, 63).Draw(t, "measureRetention") == 37 // a few cases in a hundred carry the collector-based retention measurements
		info, v := RunWalk(c)
		if st.Report(t, "TestC11LruRapid", c, v) {
			return
		}
		recordWalk(c, info)
	})
}

func TestC11LruLong(t *testing.T) {
	needWalk(t)
	st := vstat.For(propWalk)
	rapid.Check(t, func(t *rapid.T) {
		c := genLong(t)
		info, v := RunWalk(c)
		if st.Report(t, "TestC11LruLong", c, v) {
			return
		}
		recordWalk(c, info)
	})
}

// replayHandlers maps a prefix of the envelope's test name to the code that re-runs such a case;
// other files of this package add theirs in an init function.
var replayHandlers = map[string]func(t *testing.T, path string){
	"TestC08": func(t *testing.T, path string) {
		var c Case
		if _, err := vstat.LoadReplay(path, &c); err != nil {
			t.Fatalf("cannot decode the case of %s: %v", path, err)
		}
		info, v := Run(c)
		vstat.For(propSeq).Report(t, "TestReplay", c, v)
		recordSeq(c, info)
	},
	"TestC11Lru": func(t *testing.T, path string) {
		var c Case
		if _, err := vstat.LoadReplay(path, &c); err != nil {
			t.Fatalf("cannot decode the case of %s: %v", path, err)
		}
		needWalk(t)
		info, v := RunWalk(c)
		vstat.For(propWalk).Report(t, "TestReplay", c, v)
		recordWalk(c, info)
	},
}

func TestReplay(t *testing.T) {
	p := vstat.ReplayPath()
	if p == "" {
		t.Skip("no replay requested")
	}
	env, err := vstat.LoadReplay(p, nil)
	if err != nil {
		t.Fatalf("cannot load %s: %v", p, err)
	}
	best := ""
	for prefix := range replayHandlers { // longest matching prefix: independent of map order
		if strings.HasPrefix(env.Test, prefix) && len(prefix) > len(best) {
			best = prefix
		}
	}
	if best == "" {
		t.Fatalf("replay file %s was written by test %q, which this package does not know", p, env.Test)
	}
	replayHandlers[best](t, p)
}
