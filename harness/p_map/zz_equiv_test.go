package p_map

import (
	"reflect"
	"testing"

	"pgregory.net/rapid"
)

func TestZZEquiv(t *testing.T) {
	n := 0
	rapid.Check(t, func(t *rapid.T) {
		c := genCase(t)
		forceMany = false
		i1, v1 := Run(c, false)
		if i1.StepCap {
			return
		}
		forceMany = true
		i2, v2 := Run(c, false)
		forceMany = false
		i2.PinnedRun = i1.PinnedRun
		if i1.SharedNode > 0 && i1.RemovePinned > 0 && i1.MaxOpen > 3 {
			n++
		}
		if !reflect.DeepEqual(i1, i2) || (v1 == nil) != (v2 == nil) {
			t.Fatalf("differ: %+v\n%+v\n%v %v", i1, i2, v1, v2)
		}
	})
	t.Logf("interesting %d", n)
}
