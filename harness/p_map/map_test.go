package p_map

import (
	"encoding/json"
	"fmt"
	"os"
	"path/filepath"
	"runtime"
	"runtime/debug"
	"strings"
	"sync/atomic"
	"testing"
	"time"

	"pgregory.net/rapid"
	"verifharness/internal/vstat"
)

const (
	propC10 = "C10"
	propC11 = "C11"
)

func TestMain(m *testing.M) {
	StartWatchdog(hangLimit, onHang)
	vstat.Main(m)
}

// what the watchdog needs to know about the running test (written by the test goroutine before its
// first case, read by the watchdog only once a case has been stuck for seconds)
var curProp, curTest atomic.Value

func running(prop, test string) { curProp.Store(prop); curTest.Store(test) }

// hangLimit: process CPU time one case may burn. A case costs milliseconds (at most MaxSteps single ops).
const hangLimit = 5 * time.Second

// exitTB lets vstat.Report do its work (replay file, violation record, stats flush) from the
// watchdog goroutine and then ends the process: the test goroutine is stuck inside the library.
type exitTB struct{}

func (exitTB) Logf(format string, args ...any) { fmt.Printf(format+"\n", args...) }
func (exitTB) Fatalf(format string, args ...any) {
	fmt.Printf(format+"\n", args...)
	fmt.Println("FAIL (watchdog: a call of the map did not return)")
	os.Exit(1)
}

func onHang(c Case, structural bool, where string, burnt time.Duration) {
	prop, _ := curProp.Load().(string)
	test, _ := curTest.Load().(string)
	v := vstat.V("map:hang", "a call of the map made during %s did not return: the case has burnt %.1fs of CPU time (a case costs milliseconds) - endless loop over a corrupted list", where, burnt.Seconds())
	if prop == propC10 {
		vstat.For(prop).Report(exitTB{}, test+"Hang", c, v) // does not return unless it is a known finding
	}
	// C11 judges the list invariants only; a hang is a functional failure (C10 runs the same cases)
	fmt.Printf("watchdog: %s %s: %s\n", prop, test, v.Msg)
	vstat.Flush()
	os.Exit(3)
}

// Every iterable.Map owns a sync.Pool, and the runtime keeps every pool that was used (and through
// it the whole map) reachable for two garbage collections. With millions of short-lived maps the
// live heap seen by the pacer is therefore "whatever the previous cycle allocated" and the heap of
// a long shard creeps upwards (hundreds of MB; explosively with a raised GOGC). Two forced
// collections every 65536 cases drop all dead pools and reset the pacer. Counted, not timed.
var casesRun int

func tidy() {
	casesRun++
	if casesRun&0xFFFF == 0 {
		runtime.GC()
		runtime.GC()
	}
}

func record(prop string, c Case, info Info) {
	tidy()
	nt := info.NonTrivialC10()
	if prop == propC11 {
		nt = info.NonTrivialC11()
	}
	sample := func() any { // the exhaustive enumerator reuses the op slice
		cc := c
		cc.Ops = append([]Op(nil), c.Ops...)
		return cc
	}
	vstat.For(prop).Case(nt, c.Hash(), sample, info.Classes()...)
	if prop == propC11 {
		vstat.For(prop).AddExtra("map_structural_walks", int64(info.Walks))
	}
}

// hookOrSkip: the structural tests decide nothing without the accessor.
func hookOrSkip(t *testing.T) {
	info, _ := Run(Case{Keys: 2, MaxIt: 1}, true)
	if info.NoHook || info.Walks == 0 {
		vstat.For(propC11).Inconclusivef("%s: (*iterable.Map).VerifWalk is not compiled in (overlay missing or hook no longer builds): structural invariants of the map not evaluated", t.Name())
		t.Skip("VerifWalk hook not compiled in")
	}
}

// config of the bounded-exhaustive part: key alphabet, open-iterator bound, depth (quick, thorough)
type exhCfg struct {
	Keys, MaxIt int
	Depth       int
}

func exhConfigs(structural bool) []exhCfg {
	d3 := vstat.Pick(6, 8)
	if structural { // the walk after every step costs about a third more; C11 shares its budget with the LRU part
		d3 = vstat.Pick(6, 7)
	}
	return []exhCfg{
		{Keys: 2, MaxIt: 2, Depth: vstat.Pick(7, 9)},
		{Keys: 3, MaxIt: 3, Depth: d3},
	}
}

// judge: the C11 tests decide the list invariants only. A functional divergence (or a panic) met on
// the way is C10's business - the C10 tests run the same cases - so that it does not mask C11: the
// case is cut short there (the walks before that point were evaluated) and counted in a class.
func judge(prop string, v *vstat.Violation) *vstat.Violation {
	if prop == propC11 && v != nil && !Structural(v) {
		vstat.For(prop).Class("map_case_cut_short_by_functional_divergence_left_to_C10", 1)
		return nil
	}
	return v
}

func exhaustive(t *testing.T, prop, test string, structural bool) {
	running(prop, test)
	st := vstat.For(prop)
	shard, shards := vstat.Shard()
	var parts []map[string]any
	for _, cfg := range exhConfigs(structural) {
		alpha := Alphabet(cfg.Keys, cfg.MaxIt)
		n := CanonicalLists(alpha, cfg.MaxIt, cfg.Depth, shard, shards, func(ops []Op) {
			c := Case{Keys: cfg.Keys, MaxIt: cfg.MaxIt, Ops: ops}
			info, v := Run(c, structural)
			if v = judge(prop, v); v != nil {
				c.Ops = append([]Op(nil), ops...)
				st.Report(t, test, c, v)
			}
			record(prop, c, info)
		})
		represented := 0.0 // all lists over the alphabet up to the depth, each equivalent to a canonical one
		for d, p := 0, 1.0; d <= cfg.Depth; d, p = d+1, p*float64(len(alpha)) {
			represented += p
		}
		parts = append(parts, map[string]any{"keys": cfg.Keys, "max_open_iterators": cfg.MaxIt, "alphabet": len(alpha), "depth": cfg.Depth,
			"canonical_lists_run_by_this_shard": n, "lists_over_alphabet_represented_all_shards": represented})
	}
	st.SetExhaustive("map_oplists", map[string]any{"parts": parts, "shards": shards, "structural": structural})
}

func TestC10Exhaustive(t *testing.T) { exhaustive(t, propC10, "TestC10Exhaustive", false) }

func TestC11MapExhaustive(t *testing.T) {
	hookOrSkip(t)
	exhaustive(t, propC11, "TestC11MapExhaustive", true)
}

// genCase: every random choice is a rapid draw. The sizes are drawn from fixed ladders (a few keys
// ... hundreds of keys, one ... two dozen open iterators) and the ops include the bulk ops, so that
// big fills, drains to a small remainder and many parked iterators are reached by short lists.
func genCase(t *rapid.T) Case {
	keys := rapid.SampledFrom([]int{2, 3, 4, 8, 32, 100, 300}).Draw(t, "keys")
	// about one case in 40 (thorough: 80) works on a key space of a few thousand: whole-range fills and drains, several
	// rounds of them (the drawn value that selects it is the largest one, so shrinking leaves it first)
	top := vstat.Pick(39, 79) // the thorough tier runs 80 times as many cases
	huge := rapid.IntRange(0, top).Draw(t, "sizeclass") == top
	if huge {
		keys = rapid.SampledFrom([]int{1500, 3000, 5000}).Draw(t, "hugekeys")
	}
	maxIt := rapid.SampledFrom([]int{1, 2, 3, 6, 12, 24}).Draw(t, "maxit")
	key := rapid.OneOf(rapid.IntRange(0, keys-1), rapid.IntRange(0, min(keys-1, 3)))
	cnt := func(hi int) *rapid.Generator[int] { // a count in 0..hi: anything, small, or (nearly) everything
		return rapid.OneOf(rapid.IntRange(0, hi), rapid.IntRange(0, min(hi, 3)), rapid.IntRange(hi-hi/4, hi))
	}
	slot := rapid.IntRange(0, maxIt-1)
	opGen := rapid.Custom(func(t *rapid.T) Op {
		k := rapid.IntRange(0, 40).Draw(t, "kind")
		if huge && k <= 25 && rapid.IntRange(0, 3).Draw(t, "bulkier") != 0 {
			k = 26 + k%13 // a list of single calls hardly moves a map of thousands: mostly bulk ops there
		}
		switch {
		case k <= 5:
			return Op{K: OpAdd, Key: key.Draw(t, "key"), V: rapid.IntRange(0, 9).Draw(t, "v")}
		case k <= 10:
			return Op{K: OpRem, Key: key.Draw(t, "key")}
		case k <= 11:
			return Op{K: OpGet, Key: key.Draw(t, "key")}
		case k <= 12:
			return Op{K: OpLen}
		case k <= 14:
			return Op{K: OpFirst}
		case k <= 17:
			return Op{K: OpIter}
		case k <= 19:
			return Op{K: OpHas, I: slot.Draw(t, "i")}
		case k <= 23:
			return Op{K: OpNext, I: slot.Draw(t, "i")}
		case k <= 25:
			return Op{K: OpClose, I: slot.Draw(t, "i")}
		case k <= 27:
			return Op{K: OpAddRange, Key: key.Draw(t, "key"), N: cnt(keys).Draw(t, "n"), Rev: rapid.Bool().Draw(t, "rev"), V: rapid.IntRange(0, 9).Draw(t, "v")}
		case k <= 29:
			return Op{K: OpRemRange, Key: key.Draw(t, "key"), N: cnt(keys).Draw(t, "n"), Rev: rapid.Bool().Draw(t, "rev")}
		case k <= 31:
			return Op{K: OpIters, N: cnt(maxIt).Draw(t, "n")}
		case k <= 32:
			return Op{K: OpAdvAll, N: cnt(keys).Draw(t, "n")}
		case k <= 34:
			return Op{K: OpNextN, I: slot.Draw(t, "i"), N: cnt(keys).Draw(t, "n")}
		case k <= 35:
			return Op{K: OpCloseAll, Rev: rapid.Bool().Draw(t, "rev")}
		case k <= 37:
			return Op{K: OpChurn, Key: key.Draw(t, "key"), N: cnt(keys).Draw(t, "n"), I: rapid.IntRange(0, 3).Draw(t, "rounds"), Rev: rapid.Bool().Draw(t, "rev"), V: rapid.IntRange(0, 9).Draw(t, "v")}
		case k <= 38:
			return Op{K: OpScan}
		default:
			return Op{K: OpRemAt, I: slot.Draw(t, "i")}
		}
	})
	// one case in 6: growth-then-shrink phases (see genPhases)
	if !huge && rapid.IntRange(0, 5).Draw(t, "family") == 5 {
		return Case{Keys: keys, MaxIt: maxIt, Ops: genPhases(t, keys, maxIt, opGen)}
	}
	// rapid's SliceOf produces about 5 elements on average whatever the upper bound is; nesting the
	// list (chunks of chunks, flattened and cut at maxLen) yields long histories as well and - unlike a
	// drawn minimum length - still shrinks to a handful of ops, because no level enforces a minimum.
	maxLen := vstat.Pick(100, 400)
	if huge {
		maxLen = 16 // every op stands for thousands of calls
	}
	chunk := rapid.SliceOfN(opGen, 0, 12)
	var ops []Op
	switch rapid.IntRange(0, 3).Draw(t, "shape") {
	case 0:
		ops = rapid.SliceOfN(opGen, 0, maxLen).Draw(t, "ops")
	case 1, 2:
		for _, ch := range rapid.SliceOfN(chunk, 0, maxLen/4).Draw(t, "chunks") {
			ops = append(ops, ch...)
		}
	default:
		for _, sec := range rapid.SliceOfN(rapid.SliceOfN(chunk, 0, 10), 0, maxLen/8).Draw(t, "sections") {
			for _, ch := range sec {
				ops = append(ops, ch...)
			}
		}
	}
	if len(ops) > maxLen {
		ops = ops[:maxLen]
	}
	return Case{Keys: keys, MaxIt: maxIt, Ops: ops}
}

// genPhases: 1..4 phases of "grow, park, remove under the parked iterators, shrink, close, use". A phase adds a
// drawn range (a few ... all keys of the alphabet: maps of tens and hundreds of entries), opens 1..3 iterators (more
// if the case allows) and advances each a drawn distance, removes the entries some of them stand on (remat), shrinks
// the map by 1..3 range removals of drawn extent (to a few entries, to half, to nothing - whatever the ranges
// give) while those iterators stay where they are, closes the iterators (or keeps them for the next phase) and uses the
// map again; drawn ops of the general generator are mixed in between the stages. Everything is a draw; every
// list is executable.
func genPhases(t *rapid.T, keys, maxIt int, opGen *rapid.Generator[Op]) []Op {
	key := rapid.OneOf(rapid.IntRange(0, keys-1), rapid.IntRange(0, min(keys-1, 3)))
	// extents: anything, a few, (nearly) all
	ext := rapid.OneOf(rapid.IntRange(0, keys), rapid.IntRange(0, min(keys, 4)), rapid.IntRange(keys-keys/4, keys), rapid.IntRange(keys/3, keys))
	few := rapid.SliceOfN(opGen, 0, 3)
	var ops []Op
	for ph, n := 0, rapid.IntRange(1, 4).Draw(t, "phases"); ph < n; ph++ {
		ops = append(ops, Op{K: OpAddRange, Key: key.Draw(t, "growfrom"), N: ext.Draw(t, "grow"), Rev: rapid.Bool().Draw(t, "growrev"), V: rapid.IntRange(0, 9).Draw(t, "v")})
		ops = append(ops, few.Draw(t, "mix0")...)
		nit := rapid.OneOf(rapid.IntRange(1, min(3, maxIt)), rapid.IntRange(1, maxIt)).Draw(t, "parkers")
		ops = append(ops, Op{K: OpIters, N: nit})
		for i := 0; i < nit; i++ {
			if d := rapid.OneOf(rapid.IntRange(0, keys), rapid.IntRange(0, 3)).Draw(t, "advance"); d > 0 {
				ops = append(ops, Op{K: OpNextN, I: i, N: d})
			}
		}
		for i := 0; i < nit; i++ {
			if rapid.IntRange(0, 3).Draw(t, "under") != 0 {
				ops = append(ops, Op{K: OpRemAt, I: i})
			}
		}
		ops = append(ops, few.Draw(t, "mix1")...)
		for j, m := 0, rapid.IntRange(1, 3).Draw(t, "shrinks"); j < m; j++ {
			ops = append(ops, Op{K: OpRemRange, Key: key.Draw(t, "shrinkfrom"), N: ext.Draw(t, "shrink"), Rev: rapid.Bool().Draw(t, "shrinkrev")})
		}
		ops = append(ops, few.Draw(t, "mix2")...)
		if rapid.IntRange(0, 3).Draw(t, "keepopen") != 0 {
			ops = append(ops, Op{K: OpCloseAll, Rev: rapid.Bool().Draw(t, "closerev")})
		}
		ops = append(ops, few.Draw(t, "mix3")...)
	}
	return ops
}

func TestC10Rapid(t *testing.T) {
	running(propC10, "TestC10Rapid")
	st := vstat.For(propC10)
	rapid.Check(t, func(t *rapid.T) {
		c := genCase(t)
		info, v := Run(c, false)
		st.Report(t, "TestC10Rapid", c, v)
		record(propC10, c, info)
	})
}

// ---------------------------------------------------------------------------------------------
// the many-iterators family: numbers of simultaneously open iterators around the word sizes of a counter, and long
// runs of removed entries each pinned by its own iterator. Same Case type, same Run, same model; the cases allow more
// than ManyIts open iterators, for which Run keeps its books per position instead of scanning the iterator list.

// genMutations: 1..8 mutations (and a few iterator calls) on a map with many parked iterators; the first one is the
// removal of an entry under an iterator, the defining mutation of the family.
func genMutations(t *rapid.T, keys, maxIt, opened int) []Op {
	key := rapid.IntRange(0, keys-1)
	slot := rapid.OneOf(rapid.IntRange(0, maxIt-1), rapid.IntRange(0, 2*keys+1),
		rapid.Map(rapid.IntRange(0, 3), func(d int) int { return max(0, opened-1-d) }))
	mut := rapid.Custom(func(t *rapid.T) Op {
		switch k := rapid.IntRange(0, 15).Draw(t, "kind"); {
		case k <= 3:
			return Op{K: OpRemAt, I: slot.Draw(t, "i")}
		case k <= 5:
			return Op{K: OpRem, Key: key.Draw(t, "key")}
		case k <= 7:
			return Op{K: OpAdd, Key: key.Draw(t, "key"), V: rapid.IntRange(0, 9).Draw(t, "v")}
		case k == 8:
			return Op{K: OpIter}
		case k == 9:
			return Op{K: OpClose, I: slot.Draw(t, "i")}
		case k == 10:
			return Op{K: OpNext, I: slot.Draw(t, "i")}
		case k == 11:
			return Op{K: OpHas, I: slot.Draw(t, "i")}
		case k == 12:
			return Op{K: OpRemRange, Key: key.Draw(t, "key"), N: rapid.IntRange(0, keys).Draw(t, "n"), Rev: rapid.Bool().Draw(t, "rev")}
		case k == 13:
			return Op{K: OpAddRange, Key: key.Draw(t, "key"), N: rapid.IntRange(0, keys).Draw(t, "n"), Rev: rapid.Bool().Draw(t, "rev"), V: rapid.IntRange(0, 9).Draw(t, "v")}
		case k == 14:
			return Op{K: OpFirst}
		default:
			return Op{K: OpScan}
		}
	})
	ops := []Op{{K: OpRemAt, I: slot.Draw(t, "under")}}
	return append(ops, rapid.SliceOfN(mut, 0, 7).Draw(t, "mutations")...)
}

// genReadOut: every open iterator is driven to the end (each Next judged by the model); optionally an entry is added
// afterwards and they are driven again (they must see it); optionally they are closed by the list, else by Run's epilogue.
func genReadOut(t *rapid.T, keys int) []Op {
	ops := []Op{{K: OpAdvAll, N: keys + 1}}
	if rapid.Bool().Draw(t, "addafter") {
		ops = append(ops, Op{K: OpAdd, Key: rapid.IntRange(0, keys-1).Draw(t, "key"), V: 1}, Op{K: OpAdvAll, N: 2})
	}
	if rapid.Bool().Draw(t, "closeall") {
		ops = append(ops, Op{K: OpCloseAll, Rev: rapid.Bool().Draw(t, "rev")})
	}
	return ops
}

// genWordCounts: B-1, B, B+1 open iterators (B = 2^8, 2^9 and - one case in bigEvery - 2^16, 2^17) on a map of 2..8 keys,
// spread over the positions by one stagger op, then the mutations and the read-out.
func genWordCounts(t *rapid.T, bigEvery int) Case {
	keys := rapid.SampledFrom([]int{2, 3, 4, 8}).Draw(t, "keys")
	base := rapid.SampledFrom([]int{256, 256, 512}).Draw(t, "base")
	if rapid.IntRange(1, bigEvery).Draw(t, "sizeclass") == bigEvery {
		base = rapid.SampledFrom([]int{65536, 65536, 131072}).Draw(t, "bigbase")
	}
	n := base + rapid.SampledFrom([]int{0, -1, 0, 1}).Draw(t, "delta")
	maxIt := n + rapid.IntRange(0, 2).Draw(t, "slack")
	opened := rapid.OneOf(rapid.Just(n), rapid.Just(n), rapid.IntRange(n-2, maxIt)).Draw(t, "opened")
	ops := []Op{{K: OpAddRange, Key: rapid.IntRange(0, keys-1).Draw(t, "from"), N: rapid.OneOf(rapid.IntRange(keys-1, keys), rapid.IntRange(0, keys)).Draw(t, "fill"), V: 3}}
	ops = append(ops, Op{K: OpIters, N: opened})
	if rapid.IntRange(0, 3).Draw(t, "staggered") != 0 {
		ops = append(ops, Op{K: OpStagger, I: rapid.IntRange(0, keys).Draw(t, "offset"), N: rapid.IntRange(0, keys).Draw(t, "spread")})
	}
	ops = append(ops, genMutations(t, keys, maxIt, opened)...)
	ops = append(ops, genReadOut(t, keys)...)
	return Case{Keys: keys, MaxIt: maxIt, Ops: ops}
}

// genPinnedRun: a run of lo..hi consecutive removed entries each pinned by its own iterator (one pinrun op; the key is
// re-added every round, a key alphabet of 2..8 is enough), on a map that is empty or holds a few entries before and
// after the run, then mutations and a read-out: the first iterators have to step over the whole run in one call.
func genPinnedRun(t *rapid.T, lo, hi int) Case {
	keys := rapid.SampledFrom([]int{2, 3, 8}).Draw(t, "keys")
	n := rapid.IntRange(lo, hi).Draw(t, "run")
	maxIt := n + rapid.IntRange(0, 2).Draw(t, "slack")
	k := rapid.IntRange(0, keys-1).Draw(t, "key")
	var ops []Op
	if rapid.IntRange(0, 2).Draw(t, "before") == 0 { // a few live entries in front of the run (never the run's key)
		ops = append(ops, Op{K: OpAddRange, Key: k + 1, N: rapid.IntRange(1, keys-1).Draw(t, "nbefore"), V: 3})
	}
	ops = append(ops, Op{K: OpPinRun, Key: k, N: n, V: 5})
	switch rapid.IntRange(0, 3).Draw(t, "then") {
	case 0:
		ops = append(ops, Op{K: OpFirst})
	case 1:
		ops = append(ops, Op{K: OpAdd, Key: k, V: 7}, Op{K: OpScan})
	case 2:
		ops = append(ops, genMutations(t, keys, maxIt, n)...)
	}
	if rapid.IntRange(0, 3).Draw(t, "readout") != 0 {
		ops = append(ops, genReadOut(t, keys)...)
	}
	return Case{Keys: keys, MaxIt: maxIt, Ops: ops}
}

func TestC10ManyIterators(t *testing.T) {
	running(propC10, "TestC10ManyIterators")
	st := vstat.For(propC10)
	rapid.Check(t, func(t *rapid.T) {
		var c Case
		if rapid.IntRange(0, 3).Draw(t, "family") == 0 {
			c = genPinnedRun(t, 65, vstat.Pick(1500, 4000))
		} else {
			c = genWordCounts(t, 2)
		}
		info, v := Run(c, false)
		st.Report(t, "TestC10ManyIterators", c, v)
		record(propC10, c, info)
	})
}

// lowStack is the goroutine stack limit of TestC10LowStack (runtime/debug.SetMaxStack; the default is 1 GB). The
// harness itself needs a few KB.
const lowStack = 256 << 10

// TestC10LowStack: "never panics for every history" includes a history with a long run of pinned removed entries, and
// a call whose stack use grows with the length of that run dies with a fatal, unrecoverable stack overflow once the
// run is long enough for the stack limit of the process. With the default limit that needs 10^7 entries; an application
// may lower the limit, and so does this test - in a process of its own (the limit is process wide) - so that runs of
// 10^4 entries decide. The unchanged map steps over such a run in a loop: its stack use does not depend on the run.
// A stack overflow kills the process (the driver reports process-crash); the case in flight is kept as a replay file.
func TestC10LowStack(t *testing.T) {
	running(propC10, "TestC10LowStack")
	st := vstat.For(propC10)
	defer debug.SetMaxStack(debug.SetMaxStack(lowStack))
	rapid.Check(t, func(t *rapid.T) {
		c := genPinnedRun(t, vstat.Pick(8000, 10000), vstat.Pick(12000, 20000))
		drop := inFlightFile("TestC10LowStack", c)
		info, v := Run(c, false)
		drop()
		st.Report(t, "TestC10LowStack", c, v)
		record(propC10, c, info)
	})
}

// inFlightFile writes the case as a replay file before it runs and returns the function that removes the file again:
// it is left behind only by a case that killed the process.
func inFlightFile(test string, c Case) (drop func()) {
	if vstat.ReplayPath() != "" {
		return func() {}
	}
	dir := os.Getenv("VERIF_REPLAY_DIR")
	if dir == "" {
		dir = "/verif/replays"
	}
	dir = filepath.Join(dir, propC10)
	os.MkdirAll(dir, 0o755)
	raw, _ := json.Marshal(c)
	b, _ := json.MarshalIndent(vstat.Envelope{Property: propC10, Test: test, Seed: os.Getenv("VERIF_SHARDSEED"), Sig: "process-crash",
		Msg: "this case was in flight when the test process died", Case: raw}, "", " ")
	path := filepath.Join(dir, fmt.Sprintf("%s-inflight-seed%s.json", test, os.Getenv("VERIF_SHARDSEED")))
	if os.WriteFile(path, b, 0o644) != nil {
		return func() {}
	}
	return func() { os.Remove(path) }
}

func TestC11MapRapid(t *testing.T) {
	hookOrSkip(t)
	running(propC11, "TestC11MapRapid")
	st := vstat.For(propC11)
	rapid.Check(t, func(t *rapid.T) {
		c := genCase(t)
		info, v := Run(c, true)
		st.Report(t, "TestC11MapRapid", c, judge(propC11, v))
		record(propC11, c, info)
	})
}

// TestReplay re-runs one saved case; the envelope's test name tells which oracle judged it.
func TestReplay(t *testing.T) {
	p := vstat.ReplayPath()
	if p == "" {
		t.Skip("no replay requested")
	}
	env, err := vstat.LoadReplay(p, nil)
	if err != nil {
		t.Fatalf("cannot load %s: %v", p, err)
	}
	if strings.HasPrefix(env.Test, "TestC11Reach") { // another case type: reach.go
		replayReach(t, p)
		return
	}
	var c Case
	if env, err = vstat.LoadReplay(p, &c); err != nil {
		t.Fatalf("cannot decode the case of %s: %v", p, err)
	}
	structural := strings.HasPrefix(env.Test, "TestC11") || (!strings.HasPrefix(env.Test, "TestC10") && env.Property == propC11)
	prop := propC10
	if structural {
		prop = propC11
	}
	running(prop, "TestReplay")
	if strings.HasPrefix(env.Test, "TestC10LowStack") {
		defer debug.SetMaxStack(debug.SetMaxStack(lowStack))
	}
	info, v := Run(c, structural)
	if structural && info.NoHook {
		t.Fatalf("%s is a C11 case but (*iterable.Map).VerifWalk is not compiled in: cannot replay it", p)
	}
	w := judge(prop, v)
	if w == nil && v != nil {
		t.Logf("functional divergence %s (not a C11 violation, see C10): %s", v.Sig, v.Msg)
	}
	vstat.For(prop).Report(t, "TestReplay", c, w)
	record(prop, c, info)
}
