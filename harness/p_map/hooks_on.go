//go:build !nohooks

package p_map

const hooksOn = true

// walker is implemented by *iterable.Map when /verif/hooks/iterable_verifhooks.go is compiled into
// the library package through the overlay (property C11). The accessor is reached through an
// interface assertion, so this package also builds without the overlay (property C10 needs no
// hook): ok is false then.
type walker interface {
	VerifWalk() (nodes, deleted, refSum int, sane bool)
}

func verifWalk(m *mapT) (nodes, deleted, refSum int, sane, ok bool) {
	w, ok := any(m).(walker)
	if !ok {
		return 0, 0, 0, false, false
	}
	nodes, deleted, refSum, sane = w.VerifWalk()
	return nodes, deleted, refSum, sane, true
}
