//go:build nohooks

package p_map

const hooksOn = false

func verifWalk(m *mapT) (nodes, deleted, refSum int, sane, ok bool) { return 0, 0, 0, false, false }
