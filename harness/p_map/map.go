// Package p_map decides C10 (ordered iterable map: iteration stays correct under any mutation
// history) and the map part of C11 (the map retains nothing beyond its live entries plus the
// entries pinned by open iterators).
//
// The oracle of C10 is a sequence-number model written from the C10 statement and the comments of
// container/iterable/iterator.go; it never looks inside the map. The oracle of C11 reads the
// internal list through the overlay accessor (*Map).VerifWalk (see hooks_on.go).
//
// reach.go holds the second oracle of C11, which needs no accessor: what the map - and the LRU
// caches built on it - keep reachable is asked of the garbage collector (weak pointers to the keys
// and values of removed entries).
package p_map

import (
	"fmt"
	"regexp"
	"strings"
	"sync/atomic"
	"syscall"
	"time"

	"github.com/acquirecloud/golibs/container/iterable"
	"verifharness/internal/vstat"
)

// Op kinds.
const (
	OpAdd   = "add"   // Add(key, value)
	OpRem   = "rem"   // Remove(key)
	OpGet   = "get"   // Get(key)
	OpLen   = "len"   // Len()
	OpFirst = "first" // First()
	OpIter  = "iter"  // open a new iterator (no-op when MaxIt iterators are open)
	OpHas   = "has"   // HasNext of open iterator #I
	OpNext  = "next"  // Next of open iterator #I
	OpClose = "close" // Close open iterator #I (it leaves the open list: never used again)

	// Bulk ops (rapid part only). Run expands each of them into the single ops above, executed one by
	// one against the same model and the same per-step checks; they exist so that big fills, drains
	// to a small remainder and many parked iterators are reached by short op lists.
	OpAddRange = "addr"     // Add of the N keys Key, Key+1, ... (in reverse order if Rev)
	OpRemRange = "remr"     // Remove of the N keys Key, Key+1, ... (in reverse order if Rev)
	OpIters    = "iters"    // open N iterators (each one subject to MaxIt)
	OpAdvAll   = "adv"      // N times Next on every open iterator, one iterator after the other
	OpNextN    = "nextn"    // N times Next on open iterator #I
	OpCloseAll = "closeall" // Close every open iterator (first one first; last one first if Rev)
	OpChurn    = "churn"    // (I mod 4)+1 rounds of [add range; remove range] over the N keys from Key, then add range once more
	OpScan     = "scan"     // a fresh iterator is driven to the end (HasNext+Next) and compared with the live order, then closed

	// OpRemAt (rapid part only): Remove of the entry open iterator #I would return next - on the real map that is the
	// entry the iterator is parked on (pinned), unless that one was removed already (then the next live one goes).
	// A no-op with no open iterator or with the iterator at the end. It makes "remove under a parked iterator" as
	// likely on a map of hundreds of entries as it is on a map of three.
	OpRemAt = "remat"

	// Ops of the many-iterators family (rapid part only; bulk ops, expanded like the ones above).
	// OpStagger: open iterator #j is advanced by (I+j) mod (N+1) Next calls, so that any number of iterators is spread
	// over the positions 0..N of a small map by one op.
	// OpPinRun: N rounds of [Add(Key); NewIterator; Next on it until it stands in front of the new entry; HasNext;
	// Remove(Key)]: every round leaves one more removed entry that is pinned by its own iterator directly behind the one of
	// the previous round - a run of N consecutive removed-but-pinned entries which every later iterator has to step over.
	OpStagger = "stagger"
	OpPinRun  = "pinrun"
)

// ManyIts: a case that allows more open iterators than this keeps a per-position count of the iterators (runner.cnt)
// instead of scanning the list of open iterators at every call; the verdicts and the classification are the same.
const ManyIts = 64

// MaxKeys bounds the key alphabet.
const MaxKeys = 8192

// Op is one call. Key is an index into the key alphabet (taken modulo Case.Keys), I an index into
// the list of currently open iterators (taken modulo its length; with no open iterator the op is
// a no-op), V a small value: the value stored by Add is 100*(sequence number of the entry)+V, so
// that two entries never carry the same value and a stale value is recognisable.
// N is the repeat count of a bulk op (cut to 0..Keys, for "iters" to 0..MaxIt, for "adv"/"nextn" to
// 0..Keys+1), Rev its direction.
type Op struct {
	K   string `json:"k"`
	Key int    `json:"key,omitempty"`
	V   int    `json:"v,omitempty"`
	I   int    `json:"i,omitempty"`
	N   int    `json:"n,omitempty"`
	Rev bool   `json:"rev,omitempty"`
}

// Case is a key-alphabet size, a bound on simultaneously open iterators and a call sequence.
type Case struct {
	Keys  int  `json:"keys"`
	MaxIt int  `json:"maxit"`
	Ops   []Op `json:"ops"`
}

// Info is what the non-trivial classifiers and the histogram need.
type Info struct {
	CloseOnRemoved   int // Close of an iterator parked on a removed entry
	AdvanceOffRemove int // HasNext/Next of an iterator parked on a removed entry
	RemovePinnedHead int // Remove of the oldest live entry while an iterator is parked on it
	RemovePinned     int // Remove of any entry an iterator is parked on
	ReaddBehind      int // successful Add of a previously removed key while an open iterator has not passed the key's old position
	ReaddParkedOnOld int // ... and that iterator is parked exactly on the removed old entry of the same key
	SharedNode       int // an iterator was advanced/closed while another one was parked on the same entry
	AddSeenAtEnd     int // Next returned an entry that was added after the iterator had reached the end
	HasNextStale     int // documented disparity: HasNext said true, then the map changed, Next said false (or the converse)
	DupAdd           int // Add of a present key
	UseAfterAllClose int // a map call after at least one iterator was closed and none is open
	MaxOpen          int
	PeakLive         int  // largest number of live entries
	DrainParked      int  // a Remove left <= a quarter of the peak (>= 16) live while an iterator was parked on a removed entry
	DrainParkedMax   int  // largest number of iterators parked on removed entries at such a Remove
	DrainParkedPeak  int  // largest peak (live entries) at such a Remove
	QuietAfterDrain  int  // the last open iterator was closed after such a Remove, and the map was used (or the case ended) afterwards
	RemAt            int  // effective "remat" ops
	RemovePinnedOpen int  // largest number of open iterators at a Remove of an entry an iterator is parked on
	RemovePinned256  int  // ... such Removes with the number of open iterators a multiple of 256 (> 0)
	RemovePinned64K  int  // ... a multiple of 65536 (> 0)
	PinnedRun        int  // longest run of consecutive removed entries each pinned by an iterator, measured at the end of a pinrun op
	Staggered        int  // effective "stagger" ops
	PostMortem       bool // structural mode: a functional divergence ended the case; the structure was still evaluated there and with every iterator closed
	BulkOps          int  // bulk ops expanded
	StepCap          bool // MaxSteps was reached: the rest of the list was not executed
	Steps            int  // ops that were not no-ops
	Walks            int  // structural walks performed
	NoHook           bool
}

// NonTrivialC10 is the rule of C10.
func (i Info) NonTrivialC10() bool {
	return i.CloseOnRemoved > 0 || i.AdvanceOffRemove > 0 || i.RemovePinnedHead > 0 || i.ReaddBehind > 0
}

// NonTrivialC11 is the rule of the map part of C11: an iterator left a removed entry (by Close or by moving on).
func (i Info) NonTrivialC11() bool { return i.CloseOnRemoved > 0 || i.AdvanceOffRemove > 0 }

// Classes for the histogram.
func (i Info) Classes() []string {
	var c []string
	add := func(n int, name string) {
		if n > 0 {
			c = append(c, name)
		}
	}
	add(i.CloseOnRemoved, "close_parked_on_removed")
	add(i.AdvanceOffRemove, "advance_off_removed")
	add(i.RemovePinnedHead, "remove_pinned_head")
	add(i.RemovePinned, "remove_pinned_any")
	add(i.ReaddBehind, "readd_behind_iterator")
	add(i.ReaddParkedOnOld, "readd_iterator_parked_on_old_entry")
	add(i.SharedNode, "two_iterators_same_entry")
	add(i.AddSeenAtEnd, "add_seen_after_reaching_end")
	add(i.HasNextStale, "hasnext_stale_after_mutation")
	add(i.DupAdd, "add_present_key")
	add(i.UseAfterAllClose, "use_after_all_closed")
	if i.MaxOpen >= 2 {
		c = append(c, "open_iterators_ge_2")
	}
	if i.MaxOpen >= 4 {
		c = append(c, "open_iterators_ge_4")
	}
	if i.MaxOpen >= 9 {
		c = append(c, "open_iterators_ge_9")
	}
	if i.PeakLive >= 16 {
		c = append(c, "live_entries_ge_16")
	}
	if i.PeakLive >= 64 {
		c = append(c, "live_entries_ge_64")
	}
	if i.PeakLive >= 1025 {
		c = append(c, "live_entries_ge_1025")
	}
	add(i.DrainParked, "drained_to_quarter_of_peak_with_parked_iterator")
	if i.DrainParked > 0 {
		switch {
		case i.DrainParkedMax >= 4:
			c = append(c, "drained_with_ge_4_iterators_parked_on_removed")
		case i.DrainParkedMax >= 2:
			c = append(c, "drained_with_2_or_3_iterators_parked_on_removed")
		default:
			c = append(c, "drained_with_1_iterator_parked_on_removed")
		}
		if i.DrainParkedPeak >= 100 {
			c = append(c, "drained_with_parked_iterator_from_peak_ge_100")
		}
	}
	add(i.QuietAfterDrain, "all_iterators_closed_after_drain_with_parked_iterator")
	add(i.RemAt, "remove_at_iterator_position")
	for _, n := range []int{255, 256, 257, 65535, 65536, 65537, 131072} {
		if i.MaxOpen >= n {
			c = append(c, fmt.Sprintf("open_iterators_ge_%d", n))
		}
		if i.RemovePinnedOpen >= n {
			c = append(c, fmt.Sprintf("remove_pinned_with_open_iterators_ge_%d", n))
		}
	}
	add(i.RemovePinned256, "remove_pinned_with_open_iterators_multiple_of_256")
	add(i.RemovePinned64K, "remove_pinned_with_open_iterators_multiple_of_65536")
	add(i.Staggered, "iterators_staggered_over_positions")
	for _, n := range []int{64, 1024, 10000, 30000} {
		if i.PinnedRun >= n {
			c = append(c, fmt.Sprintf("run_of_pinned_removed_entries_ge_%d", n))
		}
	}
	if i.PostMortem {
		c = append(c, "map_structure_evaluated_after_functional_divergence")
	}
	add(i.BulkOps, "bulk_ops_used")
	if i.StepCap {
		c = append(c, "step_cap_reached")
	}
	if i.Steps >= 50 {
		c = append(c, "effective_ops_ge_50")
	}
	if i.Steps >= 1000 {
		c = append(c, "effective_ops_ge_1000")
	}
	return c
}

// ---------------------------------------------------------------------------------------------
// the model

type ent struct {
	key  string
	val  int
	ki   int32 // index of key in the alphabet
	live bool
}

// model is the sequence-number model: ents[s] is the entry that got sequence number s.
type model struct {
	ents    []ent
	live    kmap    // key -> sequence number of its live entry
	lastRem kmap    // key -> sequence number of its most recently removed entry
	nxt     []int32 // union-find over dead entries: nxt[s]==s for a live entry, otherwise a later number (or len(ents))
}

// kmap is a key index -> sequence number table (-1 = absent); no Go map: the exhaustive part runs
// hundreds of millions of cases.
type kmap struct {
	seq []int
	n   int
}

func (m *kmap) init(buf []int) {
	for i := range buf {
		buf[i] = -1
	}
	m.seq, m.n = buf, 0
}
func (m *kmap) get(i int) (int, bool) { s := m.seq[i]; return s, s >= 0 }
func (m *kmap) set(i int, s int) {
	if m.seq[i] < 0 {
		m.n++
	}
	m.seq[i] = s
}
func (m *kmap) del(i int) {
	if m.seq[i] >= 0 {
		m.n--
	}
	m.seq[i] = -1
}

// keyNames: a..z, then k26, k27, ...
var keyNames = func() []string {
	a := make([]string, MaxKeys)
	for i := range a {
		if i < 26 {
			a[i] = string(rune('a' + i))
		} else {
			a[i] = fmt.Sprintf("k%d", i)
		}
	}
	return a
}()

// nextLive returns the smallest sequence number >= pos of a live entry, or -1.
func (m *model) nextLive(pos int) int {
	n := len(m.ents)
	if pos >= n {
		return -1
	}
	s := pos
	for s < n && int(m.nxt[s]) != s {
		s = int(m.nxt[s])
	}
	for p := pos; p < n && int(m.nxt[p]) != p; { // path compression: entries never come back to life
		q := int(m.nxt[p])
		m.nxt[p] = int32(s)
		p = q
	}
	if s >= n {
		return -1
	}
	return s
}

type mapT = iterable.Map[string, int]
type entryT = iterable.MapEntry[string, int]

// iter is one open iterator: the real one plus its model position.
type iter struct {
	it  iterable.Iterator[entryT]
	id  int
	pos int // the iterator will return the live entry with the smallest number >= pos
	// classification only
	reachedEnd bool // the iterator saw "no next element" at some point
	endSeq     int  // number of entries assigned when that happened
	// HasNext/Next agreement
	hnSet bool // the result of the last HasNext is remembered (no Next since)
	hnRes bool
	hnMut int // mutation counter of the map at the time of that HasNext
}

type runner struct {
	c          Case
	structural bool
	info       *Info
	m          *mapT
	md         model
	its        []*iter
	nextID     int
	mut        int // number of effective mutations of the live set
	closedAny  bool
	drained    bool // a drain with a parked iterator has happened and an iterator has been open ever since
	step       int // index of the current op of the case
	top        Op  // the current op of the case (possibly a bulk op)
	sub        int // index of the single op inside a bulk op, -1 otherwise
	cur        Op  // the single op being executed
	touched    int // key index used by the current single op, -1 if none
	walkedAt   int // value of info.Steps at the last structural walk
	phase      string
	pm         string                      // set by postMortem: replaces where()
	stray      iterable.Iterator[entryT] // scan: its iterator, while a functional verdict of the scan leaves it open
	kbuf       [16]int
	id         uint64 // number of this run (watchdog)
	many       bool    // c.MaxIt > ManyIts: cnt and lo are maintained
	cnt        []int32 // cnt[p] = number of open iterators whose model position is p
	lo         int     // no open iterator is, or will ever be, at a position below lo
}

func (r *runner) cntAdd(p int, d int32) {
	for len(r.cnt) <= p {
		r.cnt = append(r.cnt, 0)
	}
	r.cnt[p] += d
}

func (r *runner) cntAt(p int) int32 {
	if p < len(r.cnt) {
		return r.cnt[p]
	}
	return 0
}

// setPos moves an open iterator of the model.
func (r *runner) setPos(it *iter, p int) {
	if r.many && p != it.pos {
		r.cntAdd(it.pos, -1)
		r.cntAdd(p, 1)
	}
	it.pos = p
}

// MaxSteps bounds the single ops executed by one case (bulk ops multiply); the ops beyond it are
// not executed, so every list stays executable and cheap.
const MaxSteps = 30000

// maxSteps: key spaces beyond 1024 get room for a few fill/drain rounds over the whole space.
func (r *runner) maxSteps() int {
	n := MaxSteps
	if r.c.Keys > 1024 {
		n += 4 * r.c.Keys
	}
	if r.many { // opening, spreading, reading out and closing that many iterators on a small map
		n += 40 * r.c.MaxIt
	}
	return n
}

// ---------------------------------------------------------------------------------------------
// watchdog: a corrupted list can make a call of the map spin forever (and allocate while doing so).
// No oracle can notice that from inside, so a background goroutine watches the case in flight and
// calls onHang when one and the same case has burnt more than the given amount of PROCESS CPU TIME
// (not wall time: a starved or stopped process burns none, so machine load cannot trigger it).
// A case costs milliseconds; the limit is seconds.

var (
	inFlight atomic.Pointer[runner]
	runCount uint64 // only touched by the goroutine that calls Run
)

func cpuTime() time.Duration {
	var ru syscall.Rusage
	if syscall.Getrusage(syscall.RUSAGE_SELF, &ru) != nil {
		return 0
	}
	return time.Duration(ru.Utime.Nano() + ru.Stime.Nano())
}

// StartWatchdog starts the watcher; onHang gets the case in flight and must not return.
func StartWatchdog(limit time.Duration, onHang func(c Case, structural bool, where string, burnt time.Duration)) {
	go func() {
		var last *runner
		var lastID uint64
		var since time.Duration
		for {
			time.Sleep(250 * time.Millisecond)
			r := inFlight.Load()
			now := cpuTime()
			if r == nil || r != last || r.id != lastID {
				last, since = r, now
				if r != nil {
					lastID = r.id
				}
				continue
			}
			// a case that allows N > ManyIts open iterators costs up to O(N^2) list steps by design (N iterators, each stepping
			// over a run of up to N pinned removed entries): tens of thousands of them take seconds, not milliseconds
			lim := limit
			if r.many {
				lim *= time.Duration(1 + min(r.c.MaxIt/2048, 15))
			}
			if burnt := now - since; burnt > lim {
				c := r.c
				c.Ops = append([]Op(nil), c.Ops...)
				onHang(c, r.structural, fmt.Sprintf("op #%d of %d (%s)", r.step, len(c.Ops), r.phase), burnt)
			}
		}
	}()
}

func (r *runner) where() string {
	if r.pm != "" {
		return r.pm
	}
	if r.phase != "" {
		return fmt.Sprintf("%s (after all %d ops, keys=%d)", r.phase, len(r.c.Ops), r.c.Keys)
	}
	pre := fmt.Sprintf("op #%d ", r.step)
	if r.sub >= 0 {
		t := r.top
		switch t.K {
		case OpAddRange, OpRemRange:
			pre += fmt.Sprintf("%s(from %s, n=%d, rev=%v) single op %d: ", t.K, r.key(t.Key), t.N, t.Rev, r.sub)
		case OpChurn:
			pre += fmt.Sprintf("%s(from %s, n=%d, rev=%v, rounds=%d) single op %d: ", t.K, r.key(t.Key), t.N, t.Rev, mod(t.I, 4)+1, r.sub)
		case OpNextN, OpStagger:
			pre += fmt.Sprintf("%s(i=%d, n=%d) single op %d: ", t.K, t.I, t.N, r.sub)
		case OpPinRun:
			pre += fmt.Sprintf("%s(key %s, n=%d) single op %d: ", t.K, r.key(t.Key), t.N, r.sub)
		default:
			pre += fmt.Sprintf("%s(n=%d, rev=%v) single op %d: ", t.K, t.N, t.Rev, r.sub)
		}
	}
	o := r.cur
	switch o.K {
	case OpAdd:
		return pre + fmt.Sprintf("Add(%s,..%d)", r.key(o.Key), o.V)
	case OpRem, OpGet:
		return pre + fmt.Sprintf("%s(%s)", o.K, r.key(o.Key))
	case OpHas, OpNext, OpClose:
		if n := len(r.its); n > 0 {
			return pre + fmt.Sprintf("%s(iterator %d of %d open)", o.K, mod(o.I, n), n)
		}
	case OpRemAt:
		if n := len(r.its); n > 0 {
			return pre + fmt.Sprintf("remat(iterator %d of %d open) = Remove(%s)", mod(o.I, n), n, r.key(o.Key))
		}
	}
	return pre + o.K
}

func mod(x, n int) int { return ((x % n) + n) % n }

func (r *runner) key(i int) string { return keyNames[mod(i, r.c.Keys)] }

// small: the map is small enough for the full per-step checks (Get of every key, structural walk).
func (r *runner) small() bool { return r.c.Keys <= 8 && len(r.its) <= 8 }

// Run executes the case against the real map and the sequence-number model; with structural set
// it additionally evaluates the list invariants of C11 after every step.
func Run(c Case, structural bool) (info Info, v *vstat.Violation) {
	if c.Keys < 1 {
		c.Keys = 1
	}
	if c.Keys > MaxKeys {
		c.Keys = MaxKeys
	}
	if c.MaxIt < 0 {
		c.MaxIt = 0
	}
	r := &runner{c: c, structural: structural, info: &info, many: c.MaxIt > ManyIts}
	runCount++
	r.id = runCount
	inFlight.Store(r)
	v = vstat.Guard("map:panic", r.run)
	if v != nil && v.Sig == "map:panic" {
		v.Msg = "during " + r.where() + ": " + cleanStack(v.Msg)
	}
	if structural && v != nil && !Structural(v) && !info.NoHook {
		// The functional oracle has spoken first (it is consulted before the walk at every step, and at
		// every step while the walk of a big map is thinned out); that verdict belongs to C10. What C11
		// asks - what does the map retain - is still decided here: at the point of the divergence and
		// with every iterator closed. A panic of the post-mortem itself is no verdict.
		func_ := v
		if w := vstat.Guard("map:panic", func() *vstat.Violation { return r.postMortem(func_) }); Structural(w) {
			v = w
		}
	}
	inFlight.Store(nil)
	return info, v
}

// postMortem: the structural invariants at a functional divergence v, then after every Close of the
// iterators that are still open, then at quiescence (no iterator open: the list must hold exactly
// the entries the history left live, and the index no more than the list).
func (r *runner) postMortem(v *vstat.Violation) *vstat.Violation {
	r.info.PostMortem = true
	at := r.where()
	stage := func(s string) { r.pm = fmt.Sprintf("%s, reached after the functional divergence %s at %s", s, v.Sig, at) }
	if r.stray != nil { // the iterator of a scan that diverged
		r.stray.Close()
		r.stray = nil
	}
	stage("the point of the divergence")
	if w := r.walk(); w != nil {
		return w
	}
	for len(r.its) > 0 {
		r.its[0].it.Close()
		r.its = r.its[1:]
		stage(fmt.Sprintf("Close of an open iterator (%d left open)", len(r.its)))
		if w := r.walk(); w != nil {
			return w
		}
	}
	return nil
}

var (
	reHex  = regexp.MustCompile(`0x[0-9a-fA-F]+\??`)
	reGoro = regexp.MustCompile(`goroutine \d+ `)
)

// cleanStack makes the text of a recovered panic reproducible: the argument words, pc offsets and
// the goroutine number differ from run to run, and rapid only shrinks a failure whose message is
// identical when the case is re-run. The frames from Run downwards (harness, rapid, testing) are
// dropped: rapid calls the property from different places while searching, reproducing and shrinking.
func cleanStack(s string) string {
	if i := strings.Index(s, "verifharness/p_map.Run"); i >= 0 {
		if j := strings.LastIndexByte(s[:i], '\n'); j >= 0 {
			i = j
		}
		s = s[:i]
	}
	s = reHex.ReplaceAllString(s, "_")
	return reGoro.ReplaceAllString(s, "goroutine N ")
}

func (r *runner) run() *vstat.Violation {
	r.m = iterable.NewMap[string, int]()
	if n := r.c.Keys; n <= 8 {
		r.md.live.init(r.kbuf[:n])
		r.md.lastRem.init(r.kbuf[8 : 8+n])
	} else {
		buf := make([]int, 2*n)
		r.md.live.init(buf[:n])
		r.md.lastRem.init(buf[n:])
	}
	r.sub, r.touched, r.walkedAt = -1, -1, -1
	if v := r.fullCheck(); v != nil {
		return v
	}
	for i, op := range r.c.Ops {
		r.step, r.top, r.sub = i, op, -1
		if v := r.execTop(op); v != nil {
			return v
		}
	}
	return r.finish()
}

func clip(n, lo, hi int) int { return max(lo, min(n, hi)) }

// execTop executes one op of the case: a single op directly, a bulk op as the sequence of single
// ops it stands for. After a bulk op (and after any op on a map that is not small) the checks that
// are thinned out per step on big maps are made up for.
func (r *runner) execTop(op Op) *vstat.Violation {
	keys := r.c.Keys
	bulk := true
	var v *vstat.Violation
	sub := func(o Op) bool {
		r.sub++
		v = r.single(o)
		return v == nil
	}
	switch op.K {
	case OpAddRange, OpRemRange:
		kind := OpAdd
		if op.K == OpRemRange {
			kind = OpRem
		}
		n := clip(op.N, 0, keys)
		for j := 0; j < n; j++ {
			k := op.Key + j
			if op.Rev {
				k = op.Key + n - 1 - j
			}
			if !sub(Op{K: kind, Key: k, V: op.V}) {
				return v
			}
		}
	case OpChurn:
		n := clip(op.N, 0, keys)
		pass := func(kind string) bool {
			for j := 0; j < n; j++ {
				k := op.Key + j
				if op.Rev {
					k = op.Key + n - 1 - j
				}
				if !sub(Op{K: kind, Key: k, V: op.V}) {
					return false
				}
			}
			return true
		}
		for round := mod(op.I, 4) + 1; round > 0; round-- {
			if !pass(OpAdd) || !pass(OpRem) {
				return v
			}
		}
		if !pass(OpAdd) {
			return v
		}
	case OpIters:
		for j, n := 0, clip(op.N, 0, r.c.MaxIt); j < n; j++ {
			if !sub(Op{K: OpIter}) {
				return v
			}
		}
	case OpAdvAll:
		n := clip(op.N, 0, keys+1)
		for i, open := 0, len(r.its); i < open; i++ {
			for j := 0; j < n; j++ {
				if !sub(Op{K: OpNext, I: i}) {
					return v
				}
			}
		}
	case OpNextN:
		if len(r.its) > 0 {
			i := mod(op.I, len(r.its))
			for j, n := 0, clip(op.N, 0, keys+1); j < n; j++ {
				if !sub(Op{K: OpNext, I: i}) {
					return v
				}
			}
		}
	case OpStagger:
		n := clip(op.N, 0, keys+1)
		for j, open := 0, len(r.its); j < open; j++ {
			for d := mod(op.I+j, n+1); d > 0; d-- {
				if !sub(Op{K: OpNext, I: j}) {
					return v
				}
			}
		}
		if len(r.its) > 0 {
			r.info.Staggered++
		}
	case OpPinRun:
		for j, n := 0, clip(op.N, 0, r.c.MaxIt); j < n; j++ {
			if !sub(Op{K: OpAdd, Key: op.Key, V: op.V}) || !sub(Op{K: OpIter}) {
				return v
			}
			last := len(r.its) - 1
			if last < 0 {
				break
			}
			if s, ok := r.md.live.get(mod(op.Key, keys)); ok { // walk the new iterator up to the entry of Key
				for r.its[last].pos < s && r.md.nextLive(r.its[last].pos) < s && !r.info.StepCap {
					if !sub(Op{K: OpNext, I: last}) {
						return v
					}
				}
			}
			if !sub(Op{K: OpHas, I: last}) || !sub(Op{K: OpRem, Key: op.Key}) {
				return v
			}
		}
		r.info.PinnedRun = max(r.info.PinnedRun, r.pinnedRun())
	case OpCloseAll:
		for n := len(r.its); n > 0 && len(r.its) > 0; n-- {
			i := 0
			if op.Rev {
				i = len(r.its) - 1
			}
			if !sub(Op{K: OpClose, I: i}) {
				return v
			}
		}
	default:
		bulk = false
		r.sub = -1
		if v = r.single(op); v != nil {
			return v
		}
	}
	if bulk {
		r.info.BulkOps++
		r.cur = Op{K: "end of " + op.K}
	}
	// the full sweep is O(Keys): after every op of the list up to 1024 keys, after bulk ops only beyond
	if bulk || (!r.small() && keys <= 1024) {
		return r.fullCheck()
	}
	return nil
}

// single executes one single op and the per-step checks.
func (r *runner) single(op Op) *vstat.Violation {
	if r.info.Steps >= r.maxSteps() {
		r.info.StepCap = true
		return nil
	}
	r.cur, r.touched = op, -1
	done, v := r.exec(op)
	if v != nil || !done {
		return v
	}
	r.info.Steps++
	return r.afterStep()
}

// parked tells whether the iterator sits on an entry that was removed while it was there.
func (r *runner) parked(it *iter) bool {
	return it.pos < len(r.md.ents) && !r.md.ents[it.pos].live
}

func (r *runner) shared(it *iter) bool {
	if r.many {
		return r.cntAt(it.pos) > 1
	}
	for _, o := range r.its {
		if o != it && o.pos == it.pos {
			return true
		}
	}
	return false
}

func (r *runner) noteUse() {
	if r.closedAny && len(r.its) == 0 {
		r.info.UseAfterAllClose++
	}
}

// exec performs one op; done=false means the op was a no-op in the current state.
func (r *runner) exec(op Op) (done bool, v *vstat.Violation) {
	md := &r.md
	switch op.K {
	case OpAdd:
		r.noteUse()
		ki := mod(op.Key, r.c.Keys)
		k := keyNames[ki]
		r.touched = ki
		seq := len(md.ents)
		val := 100*seq + mod(op.V, 100)
		err := r.m.Add(k, val)
		if _, present := md.live.get(ki); present {
			r.info.DupAdd++
			if err == nil {
				return true, vstat.V("map:add-present-accepted", "%s: Add returned nil although the key is present", r.where())
			}
			return true, nil // "changes nothing" is checked by afterStep and by every later iteration
		}
		if err != nil {
			return true, vstat.V("map:add-rejected", "%s: Add failed with %v although the key is absent", r.where(), err)
		}
		if old, ok := md.lastRem.get(ki); ok {
			for _, it := range r.its {
				if it.pos <= old {
					r.info.ReaddBehind++
					if it.pos == old {
						r.info.ReaddParkedOnOld++
					}
					break
				}
			}
		}
		md.ents = append(md.ents, ent{key: k, val: val, ki: int32(ki), live: true})
		md.nxt = append(md.nxt, int32(seq))
		md.live.set(ki, seq)
		if md.live.n > r.info.PeakLive {
			r.info.PeakLive = md.live.n
		}
		r.mut++
	case OpRem:
		r.noteUse()
		ki := mod(op.Key, r.c.Keys)
		k := keyNames[ki]
		r.touched = ki
		seq, present := md.live.get(ki)
		if present {
			pinned := false
			if r.many {
				pinned = r.cntAt(seq) > 0
			} else {
				for _, it := range r.its {
					if it.pos == seq {
						pinned = true
					}
				}
			}
			if pinned {
				r.info.RemovePinned++
				open := len(r.its)
				r.info.RemovePinnedOpen = max(r.info.RemovePinnedOpen, open)
				if open%256 == 0 {
					r.info.RemovePinned256++
				}
				if open%65536 == 0 {
					r.info.RemovePinned64K++
				}
				if md.nextLive(0) == seq {
					r.info.RemovePinnedHead++
				}
			}
		}
		r.m.Remove(k)
		if present {
			md.ents[seq].live = false
			md.nxt[seq] = int32(seq + 1)
			md.live.del(ki)
			md.lastRem.set(ki, seq)
			r.mut++
			if p := r.info.PeakLive; p >= 16 && md.live.n <= p/4 {
				np := 0
				for _, it := range r.its {
					if r.parked(it) {
						np++
					}
				}
				if np > 0 {
					r.info.DrainParked++
					r.info.DrainParkedMax = max(r.info.DrainParkedMax, np)
					r.info.DrainParkedPeak = max(r.info.DrainParkedPeak, p)
					r.drained = true
				}
			}
		}
	case OpRemAt:
		if len(r.its) == 0 {
			return false, nil
		}
		n := md.nextLive(r.its[mod(op.I, len(r.its))].pos)
		if n < 0 {
			return false, nil
		}
		r.info.RemAt++
		r.cur.Key = int(md.ents[n].ki) // for where()
		return r.exec(Op{K: OpRem, Key: int(md.ents[n].ki)})
	case OpGet:
		r.noteUse()
		r.touched = mod(op.Key, r.c.Keys)
		return true, r.checkGet(r.touched)
	case OpLen:
		r.noteUse()
		return true, r.checkLen()
	case OpFirst:
		r.noteUse()
		return true, r.checkFirst()
	case OpScan:
		r.noteUse()
		return true, r.scan("map:scan")
	case OpIter:
		if len(r.its) >= r.c.MaxIt {
			return false, nil
		}
		r.noteUse()
		it := &iter{it: r.m.Iterator(), id: r.nextID}
		r.nextID++
		if it.it == nil {
			return true, vstat.V("map:iterator-nil", "%s: Iterator() returned nil", r.where())
		}
		if n := md.nextLive(0); n >= 0 {
			it.pos = n
		} else {
			it.pos = len(md.ents)
		}
		// A removed entry on which another iterator is parked may still precede the oldest live
		// entry; starting there is the same position for the oracle (no live entry in between)
		// and keeps the "parked" classification exact.
		if r.many {
			// every position below the oldest live entry holds a removed entry, so an iterator found there is parked;
			// iterators only move forwards and a new one starts here: lo never has to go back
			for r.lo < it.pos && r.cntAt(r.lo) == 0 {
				r.lo++
			}
			it.pos = min(it.pos, r.lo)
			r.cntAdd(it.pos, 1)
		} else {
			for _, o := range r.its {
				if r.parked(o) && o.pos < it.pos {
					it.pos = o.pos
				}
			}
		}
		r.its = append(r.its, it)
		if len(r.its) > r.info.MaxOpen {
			r.info.MaxOpen = len(r.its)
		}
	case OpHas:
		if len(r.its) == 0 {
			return false, nil
		}
		it := r.its[mod(op.I, len(r.its))]
		return true, r.hasNext(it)
	case OpNext:
		if len(r.its) == 0 {
			return false, nil
		}
		it := r.its[mod(op.I, len(r.its))]
		return true, r.next(it)
	case OpClose:
		if len(r.its) == 0 {
			return false, nil
		}
		i := mod(op.I, len(r.its))
		return true, r.closeIt(i)
	default:
		return false, nil // unknown kind (hand-edited replay file): no-op, every list is executable
	}
	return true, nil
}

// pinnedRun: the longest run of consecutive removed entries each of which has an iterator parked on it (many mode).
func (r *runner) pinnedRun() int {
	best, cur := 0, 0
	for p := r.lo; p < len(r.md.ents); p++ {
		if !r.md.ents[p].live && r.cntAt(p) > 0 {
			cur++
			best = max(best, cur)
		} else {
			cur = 0
		}
	}
	return best
}

func (r *runner) leaving(it *iter) {
	if r.shared(it) {
		r.info.SharedNode++
	}
}

func (r *runner) hasNext(it *iter) *vstat.Violation {
	md := &r.md
	if r.parked(it) {
		r.info.AdvanceOffRemove++
		r.leaving(it)
	}
	n := md.nextLive(it.pos)
	want := n >= 0
	got := it.it.HasNext()
	if got != want {
		return vstat.V("map:hasnext", "%s: HasNext()=%v of iterator #%d at position %d, want %v; live entries: %s",
			r.where(), got, it.id, it.pos, want, r.liveString())
	}
	if want {
		r.setPos(it, n)
	} else {
		r.setPos(it, len(md.ents))
		it.reachedEnd, it.endSeq = true, len(md.ents)
	}
	it.hnSet, it.hnRes, it.hnMut = true, got, r.mut
	return nil
}

func (r *runner) next(it *iter) *vstat.Violation {
	md := &r.md
	if r.parked(it) {
		r.info.AdvanceOffRemove++
	}
	r.leaving(it)
	n := md.nextLive(it.pos)
	e, ok := it.it.Next()
	// HasNext immediately followed by Next with no change of the map in between must agree
	// (independent of the model)
	if it.hnSet {
		if it.hnMut == r.mut {
			if ok != it.hnRes {
				return vstat.V("map:hasnext-next-disagree", "%s: HasNext() of iterator #%d said %v, the map was not changed since, but Next() returned flag %v",
					r.where(), it.id, it.hnRes, ok)
			}
		} else if ok != it.hnRes {
			r.info.HasNextStale++ // the documented disparity
		}
		it.hnSet = false
	}
	if n < 0 {
		if ok {
			return vstat.V("map:next-past-end", "%s: Next() of iterator #%d at position %d returned (%s=%d, true) although no live entry is at or after its position; live entries: %s",
				r.where(), it.id, it.pos, e.Key, e.Value, r.liveString())
		}
		// key/value are documented to be default values "maybe": not compared
		r.setPos(it, len(md.ents))
		it.reachedEnd, it.endSeq = true, len(md.ents)
		return nil
	}
	want := md.ents[n]
	if !ok {
		return vstat.V("map:next-missed-entry", "%s: Next() of iterator #%d at position %d returned false, want entry #%d (%s=%d); live entries: %s",
			r.where(), it.id, it.pos, n, want.key, want.val, r.liveString())
	}
	if e.Key != want.key || e.Value != want.val {
		return vstat.V("map:next-wrong-entry", "%s: Next() of iterator #%d at position %d returned (%s=%d), want entry #%d (%s=%d); live entries: %s",
			r.where(), it.id, it.pos, e.Key, e.Value, n, want.key, want.val, r.liveString())
	}
	if it.reachedEnd && n >= it.endSeq {
		r.info.AddSeenAtEnd++
		it.reachedEnd = false
	}
	// the iterator is now in front of the next entry that is live at this moment (or at the end)
	if nn := md.nextLive(n + 1); nn >= 0 {
		r.setPos(it, nn)
	} else {
		r.setPos(it, len(md.ents))
	}
	return nil
}

func (r *runner) closeIt(i int) *vstat.Violation {
	it := r.its[i]
	if r.parked(it) {
		r.info.CloseOnRemoved++
	}
	r.leaving(it)
	it.it.Close() // the error result is not specified: not judged
	if r.many {
		r.cntAdd(it.pos, -1)
	}
	if r.many && i == 0 {
		r.its = r.its[1:] // no copying: closing tens of thousands of iterators, first one first
	} else {
		r.its = append(r.its[:i], r.its[i+1:]...)
	}
	r.closedAny = true
	if len(r.its) == 0 && r.drained {
		r.drained = false
		r.info.QuietAfterDrain++
	}
	return nil
}

func (r *runner) checkGet(ki int) *vstat.Violation {
	k := keyNames[ki]
	got, ok := r.m.Get(k)
	seq, present := r.md.live.get(ki)
	if ok != present {
		return vstat.V("map:get-presence", "%s: Get(%s) returned flag %v, want %v; live entries: %s", r.where(), k, ok, present, r.liveString())
	}
	if present && got != r.md.ents[seq].val {
		return vstat.V("map:get-value", "%s: Get(%s) returned %d, want %d", r.where(), k, got, r.md.ents[seq].val)
	}
	return nil
}

func (r *runner) checkLen() *vstat.Violation {
	if got := r.m.Len(); got != r.md.live.n {
		return vstat.V("map:len", "%s: Len()=%d, want %d; live entries: %s", r.where(), got, r.md.live.n, r.liveString())
	}
	return nil
}

func (r *runner) checkFirst() *vstat.Violation {
	k, ok := r.m.First()
	n := r.md.nextLive(0)
	if ok != (n >= 0) {
		return vstat.V("map:first-flag", "%s: First() returned (%q,%v), want flag %v; live entries: %s", r.where(), k, ok, n >= 0, r.liveString())
	}
	if ok && k != r.md.ents[n].key {
		return vstat.V("map:first-key", "%s: First() returned %q, want the oldest live key %q; live entries: %s", r.where(), k, r.md.ents[n].key, r.liveString())
	}
	return nil
}

// afterStep: Len and Get reflect exactly the live set (read-only calls), and - in structural mode -
// the list invariants of C11. On a small map (<= 8 keys, <= 8 open iterators) Get of every key and
// the O(n) walk follow every step; on a bigger one Get is called for the key of the op and two
// rotating keys, the walk follows every 16th step, and the full sweep follows every op of the case
// (execTop) - a bulk op stands for up to Keys steps - and the end of the case.
func (r *runner) afterStep() *vstat.Violation {
	if v := r.checkLen(); v != nil {
		v.Msg = "after " + v.Msg
		return v
	}
	if r.small() {
		return r.sweep()
	}
	if r.touched >= 0 {
		if v := r.checkGet(r.touched); v != nil {
			v.Msg = "after " + v.Msg
			return v
		}
	}
	for j := 0; j < 2; j++ {
		if v := r.checkGet((2*r.info.Steps + j) % r.c.Keys); v != nil {
			v.Msg = "after " + v.Msg
			return v
		}
	}
	if r.structural && r.info.Steps-r.walkedAt >= max(16, r.md.live.n/4) {
		return r.walk()
	}
	return nil
}

// sweep: Get of every key of the alphabet, and the walk.
func (r *runner) sweep() *vstat.Violation {
	for i := 0; i < r.c.Keys; i++ {
		if v := r.checkGet(i); v != nil {
			v.Msg = "after " + v.Msg
			return v
		}
	}
	if r.structural && r.walkedAt != r.info.Steps {
		return r.walk()
	}
	return nil
}

func (r *runner) fullCheck() *vstat.Violation {
	if v := r.checkLen(); v != nil {
		v.Msg = "after " + v.Msg
		return v
	}
	return r.sweep()
}

// Structural tells whether a violation is one of the list invariants of C11 (signature prefix
// "map:struct-"); every other signature is a functional divergence, which belongs to C10.
func Structural(v *vstat.Violation) bool { return v != nil && strings.HasPrefix(v.Sig, "map:struct-") }

// walk evaluates the structural invariants (C11, map part).
func (r *runner) walk() *vstat.Violation {
	nodes, deleted, refSum, sane, ok := verifWalk(r.m)
	if !ok {
		r.info.NoHook = true
		return nil
	}
	r.info.Walks++
	r.walkedAt = r.info.Steps
	open := len(r.its)
	ln := r.m.Len()
	desc := func() string {
		return fmt.Sprintf("after %s: list nodes=%d (incl. sentinel) deleted=%d refSum=%d, Len()=%d, open iterators=%d", r.where(), nodes, deleted, refSum, ln, open)
	}
	switch {
	case !sane:
		return vstat.V("map:struct-corrupt", "%s: the list is not well linked (prev/next, sentinel, negative count or vals index)", desc())
	case open == 0 && (nodes != ln+1 || deleted != 0):
		return vstat.V("map:struct-retained-after-close", "%s: with no iterator open the list must hold exactly Len()+1 nodes", desc())
	case nodes != ln+1+deleted:
		return vstat.V("map:struct-node-count", "%s: want nodes == Len()+1+deleted", desc())
	case deleted > open:
		return vstat.V("map:struct-deleted-unpinned", "%s: more removed entries retained than iterators are open", desc())
	case refSum != open:
		return vstat.V("map:struct-refcount-sum", "%s: the reference counts must add up to the number of open iterators", desc())
	case nodes-1-deleted != r.md.live.n:
		// Len() is the map's own account; the history's account (the model) must give the same number of nodes
		return vstat.V("map:struct-node-count-vs-history", "%s: the history leaves %d entries live, the list holds %d entries that are not marked removed", desc(), r.md.live.n, nodes-1-deleted)
	}
	return nil
}

// finish closes what is still open and uses the map once more.
func (r *runner) finish() *vstat.Violation {
	r.phase = "final close of the open iterators"
	for len(r.its) > 0 {
		if v := r.closeIt(0); v != nil {
			return v
		}
		if r.structural {
			if v := r.walk(); v != nil {
				return v
			}
		}
	}
	r.phase = "final check"
	if v := r.checkFirst(); v != nil {
		return v
	}
	r.walkedAt = -1
	if v := r.fullCheck(); v != nil {
		return v
	}
	if v := r.scan("map:final-iteration"); v != nil {
		return v
	}
	if v := r.checkFirst(); v != nil {
		return v
	}
	return r.checkLen()
}

// scan: a fresh iterator returns exactly the live entries in insertion order.
func (r *runner) scan(sig string) *vstat.Violation {
	it := r.m.Iterator()
	if it == nil {
		return vstat.V("map:iterator-nil", "%s: Iterator() returned nil", r.where())
	}
	r.stray = it // taken back below; a functional verdict leaves it open (postMortem closes it)
	cnt := 0
	for s := r.md.nextLive(0); s >= 0; s = r.md.nextLive(s + 1) {
		want := r.md.ents[s]
		if !it.HasNext() {
			return vstat.V(sig, "%s: fresh iterator: HasNext()=false after %d entries, want %d: %s", r.where(), cnt, r.md.live.n, r.liveString())
		}
		e, ok := it.Next()
		if !ok || e.Key != want.key || e.Value != want.val {
			return vstat.V(sig, "%s: fresh iterator: element %d is (%s=%d,%v), want (%s=%d,true); live entries: %s", r.where(), cnt, e.Key, e.Value, ok, want.key, want.val, r.liveString())
		}
		cnt++
	}
	if it.HasNext() {
		return vstat.V(sig, "%s: fresh iterator: HasNext()=true after all %d live entries", r.where(), cnt)
	}
	if e, ok := it.Next(); ok {
		return vstat.V(sig, "%s: fresh iterator: Next() returned (%s=%d,true) after all %d live entries", r.where(), e.Key, e.Value, cnt)
	}
	r.stray = nil
	if r.structural {
		r.its = append(r.its, &iter{it: it, pos: len(r.md.ents)}) // counted as open by walk
		v := r.walk()
		r.its = r.its[:len(r.its)-1]
		if v != nil {
			return v
		}
	}
	it.Close()
	if r.structural {
		return r.walk()
	}
	return nil
}

func (r *runner) liveString() string {
	s, n := "[", 0
	for i := r.md.nextLive(0); i >= 0; i = r.md.nextLive(i + 1) {
		if len(s) > 1 {
			s += " "
		}
		s += fmt.Sprintf("#%d:%s=%d", i, r.md.ents[i].key, r.md.ents[i].val)
		if n++; n == 40 && r.md.live.n > 40 {
			return s + fmt.Sprintf(" ... %d live in all]", r.md.live.n)
		}
	}
	return s + "]"
}

// Hash is a cheap FNV-1a hash of the case.
func (c Case) Hash() uint64 {
	h := uint64(14695981039346656037)
	mix := func(b uint64) {
		h ^= b
		h *= 1099511628211
	}
	mix(uint64(c.Keys))
	mix(uint64(c.MaxIt))
	for _, o := range c.Ops {
		for i := 0; i < len(o.K); i++ {
			mix(uint64(o.K[i]))
		}
		mix(uint64(int64(o.Key)) + 1000)
		mix(uint64(int64(o.V)) + 2000)
		mix(uint64(int64(o.I)) + 3000)
		if o.N != 0 || o.Rev {
			mix(uint64(int64(o.N)) + 4000)
			if o.Rev {
				mix(5000)
			}
		}
	}
	return h
}

// CanonicalLists calls f with every canonical list over the alphabet of length 0..depth, shortest
// first, that belongs to this shard, and returns how many it produced. A list is canonical when no
// op is a no-op (iterator op without an open iterator, NewIterator beyond the bound) and no
// iterator index needs the modulo. Every other list over the alphabet is the same history as a
// canonical one that is not longer: drop its no-ops and reduce its indices. Enumerating the
// canonical lists therefore covers every list up to the depth; only duplicates are left out, and
// their subtrees are never generated (which is why enum.Lists is not used here: at depth 9 it
// would produce 5*10^9 lists to find the 10^8 canonical ones).
// Sharding: a list belongs to shard (sum of its first three letter indices) mod shards, so the
// work is spread evenly whatever the alphabet size is. The slice handed to f is reused.
func CanonicalLists(alpha []Op, maxIt, depth, shard, shards int, f func(ops []Op)) int64 {
	if shards <= 0 {
		shards = 1
	}
	var n int64
	ops := make([]Op, 0, depth)
	var rec func(target, open, sum int)
	rec = func(target, open, sum int) {
		if len(ops) == target {
			if sum%shards == shard {
				f(ops)
				n++
			}
			return
		}
		for e, o := range alpha {
			nopen := open
			switch o.K {
			case OpIter:
				if open >= maxIt {
					continue
				}
				nopen++
			case OpHas, OpNext:
				if o.I >= open {
					continue
				}
			case OpClose:
				if o.I >= open {
					continue
				}
				nopen--
			}
			nsum := sum
			if len(ops) < 3 {
				nsum += e
				// below the third letter the shard of every extension is already decided
				if len(ops) == 2 && target >= 3 && nsum%shards != shard {
					continue
				}
			}
			ops = append(ops, o)
			rec(target, nopen, nsum)
			ops = ops[:len(ops)-1]
		}
	}
	for d := 0; d <= depth; d++ {
		rec(d, 0, 0)
	}
	return n
}

// Alphabet is the finite op alphabet of the exhaustive part. Get and Len are left out: Run calls
// Len and Get of every key after every step anyway (they are read-only), so they add no history.
// The value argument of Add is fixed: the stored value is made unique by the sequence number.
func Alphabet(keys, maxIt int) []Op {
	var a []Op
	for k := 0; k < keys; k++ {
		a = append(a, Op{K: OpAdd, Key: k, V: 7})
	}
	for k := 0; k < keys; k++ {
		a = append(a, Op{K: OpRem, Key: k})
	}
	a = append(a, Op{K: OpFirst}, Op{K: OpIter})
	for _, kind := range []string{OpHas, OpNext, OpClose} {
		for i := 0; i < maxIt; i++ {
			a = append(a, Op{K: kind, I: i})
		}
	}
	return a
}
