// Package p_map decides C10 (ordered iterable map: iteration stays correct under any mutation
// history) and the map part of C11 (the map retains nothing beyond its live entries plus the
// entries pinned by open iterators).
//
// The oracle of C10 is a sequence-number model written from the C10 statement and the comments of
// container/iterable/iterator.go; it never looks inside the map. The oracle of C11 reads the
// internal list through the overlay accessor (*Map).VerifWalk (see hooks_on.go).
package p_map

import (
	"fmt"
	"regexp"
	"strings"

	"github.com/acquirecloud/golibs/container/iterable"
	"verifharness/internal/vstat"
)

// Op kinds.
const (
	OpAdd   = "add"   // Add(key, value)
	OpRem   = "rem"   // Remove(key)
	OpGet   = "get"   // Get(key)
	OpLen   = "len"   // Len()
	OpFirst = "first" // First()
	OpIter  = "iter"  // open a new iterator (no-op when MaxIt iterators are open)
	OpHas   = "has"   // HasNext of open iterator #I
	OpNext  = "next"  // Next of open iterator #I
	OpClose = "close" // Close open iterator #I (it leaves the open list: never used again)
)

// Op is one call. Key is an index into the key alphabet (taken modulo Case.Keys), I an index into
// the list of currently open iterators (taken modulo its length; with no open iterator the op is
// a no-op), V a small value: the value stored by Add is 100*(sequence number of the entry)+V, so
// that two entries never carry the same value and a stale value is recognisable.
type Op struct {
	K   string `json:"k"`
	Key int    `json:"key,omitempty"`
	V   int    `json:"v,omitempty"`
	I   int    `json:"i,omitempty"`
}

// Case is a key-alphabet size, a bound on simultaneously open iterators and a call sequence.
type Case struct {
	Keys  int  `json:"keys"`
	MaxIt int  `json:"maxit"`
	Ops   []Op `json:"ops"`
}

// Info is what the non-trivial classifiers and the histogram need.
type Info struct {
	CloseOnRemoved   int // Close of an iterator parked on a removed entry
	AdvanceOffRemove int // HasNext/Next of an iterator parked on a removed entry
	RemovePinnedHead int // Remove of the oldest live entry while an iterator is parked on it
	RemovePinned     int // Remove of any entry an iterator is parked on
	ReaddBehind      int // successful Add of a previously removed key while an open iterator has not passed the key's old position
	ReaddParkedOnOld int // ... and that iterator is parked exactly on the removed old entry of the same key
	SharedNode       int // an iterator was advanced/closed while another one was parked on the same entry
	AddSeenAtEnd     int // Next returned an entry that was added after the iterator had reached the end
	HasNextStale     int // documented disparity: HasNext said true, then the map changed, Next said false (or the converse)
	DupAdd           int // Add of a present key
	UseAfterAllClose int // a map call after at least one iterator was closed and none is open
	MaxOpen          int
	Steps            int // ops that were not no-ops
	Walks            int // structural walks performed
	NoHook           bool
}

// NonTrivialC10 is the rule of C10.
func (i Info) NonTrivialC10() bool {
	return i.CloseOnRemoved > 0 || i.AdvanceOffRemove > 0 || i.RemovePinnedHead > 0 || i.ReaddBehind > 0
}

// NonTrivialC11 is the rule of the map part of C11: an iterator left a removed entry (by Close or by moving on).
func (i Info) NonTrivialC11() bool { return i.CloseOnRemoved > 0 || i.AdvanceOffRemove > 0 }

// Classes for the histogram.
func (i Info) Classes() []string {
	var c []string
	add := func(n int, name string) {
		if n > 0 {
			c = append(c, name)
		}
	}
	add(i.CloseOnRemoved, "close_parked_on_removed")
	add(i.AdvanceOffRemove, "advance_off_removed")
	add(i.RemovePinnedHead, "remove_pinned_head")
	add(i.RemovePinned, "remove_pinned_any")
	add(i.ReaddBehind, "readd_behind_iterator")
	add(i.ReaddParkedOnOld, "readd_iterator_parked_on_old_entry")
	add(i.SharedNode, "two_iterators_same_entry")
	add(i.AddSeenAtEnd, "add_seen_after_reaching_end")
	add(i.HasNextStale, "hasnext_stale_after_mutation")
	add(i.DupAdd, "add_present_key")
	add(i.UseAfterAllClose, "use_after_all_closed")
	if i.MaxOpen >= 2 {
		c = append(c, "open_iterators_ge_2")
	}
	if i.MaxOpen >= 4 {
		c = append(c, "open_iterators_ge_4")
	}
	if i.Steps >= 50 {
		c = append(c, "effective_ops_ge_50")
	}
	return c
}

// ---------------------------------------------------------------------------------------------
// the model

type ent struct {
	key  string
	val  int
	live bool
}

// model is the sequence-number model: ents[s] is the entry that got sequence number s.
type model struct {
	ents    []ent
	live    kmap // key -> sequence number of its live entry
	lastRem kmap // key -> sequence number of its most recently removed entry
	low     int  // every entry below low is dead
}

// kmap is a tiny key -> sequence number table (keys are the single letters a..z; no Go map, no
// allocation: the exhaustive part runs hundreds of millions of cases).
type kmap struct {
	seq [26]int
	has [26]bool
	n   int
}

func (m *kmap) get(k string) (int, bool) { i := k[0] - 'a'; return m.seq[i], m.has[i] }
func (m *kmap) set(k string, s int) {
	i := k[0] - 'a'
	if !m.has[i] {
		m.n++
	}
	m.seq[i], m.has[i] = s, true
}
func (m *kmap) del(k string) {
	i := k[0] - 'a'
	if m.has[i] {
		m.n--
	}
	m.has[i] = false
}

var keyNames = func() (a [26]string) {
	for i := range a {
		a[i] = string(rune('a' + i))
	}
	return
}()

// nextLive returns the smallest sequence number >= pos of a live entry, or -1.
func (m *model) nextLive(pos int) int {
	for m.low < len(m.ents) && !m.ents[m.low].live {
		m.low++
	}
	if pos < m.low {
		pos = m.low
	}
	for s := pos; s < len(m.ents); s++ {
		if m.ents[s].live {
			return s
		}
	}
	return -1
}

type mapT = iterable.Map[string, int]
type entryT = iterable.MapEntry[string, int]

// iter is one open iterator: the real one plus its model position.
type iter struct {
	it  iterable.Iterator[entryT]
	id  int
	pos int // the iterator will return the live entry with the smallest number >= pos
	// classification only
	reachedEnd bool // the iterator saw "no next element" at some point
	endSeq     int  // number of entries assigned when that happened
	// HasNext/Next agreement
	hnSet bool // the result of the last HasNext is remembered (no Next since)
	hnRes bool
	hnMut int // mutation counter of the map at the time of that HasNext
}

type runner struct {
	c          Case
	structural bool
	info       *Info
	m          *mapT
	md         model
	its        []*iter
	nextID     int
	mut        int // number of effective mutations of the live set
	closedAny  bool
	step       int
	cur        Op
	phase      string
}

func (r *runner) where() string {
	if r.phase != "" {
		return fmt.Sprintf("%s (after all %d ops, keys=%d)", r.phase, len(r.c.Ops), r.c.Keys)
	}
	o := r.cur
	switch o.K {
	case OpAdd:
		return fmt.Sprintf("op #%d Add(%s,..%d)", r.step, r.key(o.Key), o.V)
	case OpRem, OpGet:
		return fmt.Sprintf("op #%d %s(%s)", r.step, o.K, r.key(o.Key))
	case OpHas, OpNext, OpClose:
		if n := len(r.its); n > 0 {
			return fmt.Sprintf("op #%d %s(iterator %d of %d open)", r.step, o.K, mod(o.I, n), n)
		}
	}
	return fmt.Sprintf("op #%d %s", r.step, o.K)
}

func mod(x, n int) int { return ((x % n) + n) % n }

func (r *runner) key(i int) string { return keyNames[mod(i, r.c.Keys)] }

// Run executes the case against the real map and the sequence-number model; with structural set
// it additionally evaluates the list invariants of C11 after every step.
func Run(c Case, structural bool) (info Info, v *vstat.Violation) {
	if c.Keys < 1 {
		c.Keys = 1
	}
	if c.Keys > 26 {
		c.Keys = 26
	}
	if c.MaxIt < 0 {
		c.MaxIt = 0
	}
	r := &runner{c: c, structural: structural, info: &info}
	v = vstat.Guard("map:panic", r.run)
	if v != nil && v.Sig == "map:panic" {
		v.Msg = "during " + r.where() + ": " + cleanStack(v.Msg)
	}
	return info, v
}

var (
	reHex  = regexp.MustCompile(`0x[0-9a-fA-F]+\??`)
	reGoro = regexp.MustCompile(`goroutine \d+ `)
)

// cleanStack makes the text of a recovered panic reproducible: the argument words, pc offsets and
// the goroutine number differ from run to run, and rapid only shrinks a failure whose message is
// identical when the case is re-run. The frames from Run downwards (harness, rapid, testing) are
// dropped: rapid calls the property from different places while searching, reproducing and shrinking.
func cleanStack(s string) string {
	if i := strings.Index(s, "verifharness/p_map.Run"); i >= 0 {
		if j := strings.LastIndexByte(s[:i], '\n'); j >= 0 {
			i = j
		}
		s = s[:i]
	}
	s = reHex.ReplaceAllString(s, "_")
	return reGoro.ReplaceAllString(s, "goroutine N ")
}

func (r *runner) run() *vstat.Violation {
	r.m = iterable.NewMap[string, int]()
	if v := r.afterStep(); v != nil {
		return v
	}
	for i, op := range r.c.Ops {
		r.step, r.cur = i, op
		done, v := r.exec(op)
		if v != nil {
			return v
		}
		if !done {
			continue
		}
		r.info.Steps++
		if v := r.afterStep(); v != nil {
			return v
		}
	}
	return r.finish()
}

// parked tells whether the iterator sits on an entry that was removed while it was there.
func (r *runner) parked(it *iter) bool {
	return it.pos < len(r.md.ents) && !r.md.ents[it.pos].live
}

func (r *runner) shared(it *iter) bool {
	for _, o := range r.its {
		if o != it && o.pos == it.pos {
			return true
		}
	}
	return false
}

func (r *runner) noteUse() {
	if r.closedAny && len(r.its) == 0 {
		r.info.UseAfterAllClose++
	}
}

// exec performs one op; done=false means the op was a no-op in the current state.
func (r *runner) exec(op Op) (done bool, v *vstat.Violation) {
	md := &r.md
	switch op.K {
	case OpAdd:
		r.noteUse()
		k := r.key(op.Key)
		seq := len(md.ents)
		val := 100*seq + mod(op.V, 100)
		err := r.m.Add(k, val)
		if _, present := md.live.get(k); present {
			r.info.DupAdd++
			if err == nil {
				return true, vstat.V("map:add-present-accepted", "%s: Add returned nil although the key is present", r.where())
			}
			return true, nil // "changes nothing" is checked by afterStep and by every later iteration
		}
		if err != nil {
			return true, vstat.V("map:add-rejected", "%s: Add failed with %v although the key is absent", r.where(), err)
		}
		if old, ok := md.lastRem.get(k); ok {
			for _, it := range r.its {
				if it.pos <= old {
					r.info.ReaddBehind++
					if it.pos == old {
						r.info.ReaddParkedOnOld++
					}
					break
				}
			}
		}
		md.ents = append(md.ents, ent{key: k, val: val, live: true})
		md.live.set(k, seq)
		r.mut++
	case OpRem:
		r.noteUse()
		k := r.key(op.Key)
		seq, present := md.live.get(k)
		if present {
			pinned := false
			for _, it := range r.its {
				if it.pos == seq {
					pinned = true
				}
			}
			if pinned {
				r.info.RemovePinned++
				if md.nextLive(0) == seq {
					r.info.RemovePinnedHead++
				}
			}
		}
		r.m.Remove(k)
		if present {
			md.ents[seq].live = false
			md.live.del(k)
			md.lastRem.set(k, seq)
			r.mut++
		}
	case OpGet:
		r.noteUse()
		return true, r.checkGet(r.key(op.Key))
	case OpLen:
		r.noteUse()
		return true, r.checkLen()
	case OpFirst:
		r.noteUse()
		return true, r.checkFirst()
	case OpIter:
		if len(r.its) >= r.c.MaxIt {
			return false, nil
		}
		r.noteUse()
		it := &iter{it: r.m.Iterator(), id: r.nextID}
		r.nextID++
		if it.it == nil {
			return true, vstat.V("map:iterator-nil", "%s: Iterator() returned nil", r.where())
		}
		if n := md.nextLive(0); n >= 0 {
			it.pos = n
		} else {
			it.pos = len(md.ents)
		}
		// A removed entry on which another iterator is parked may still precede the oldest live
		// entry; starting there is the same position for the oracle (no live entry in between)
		// and keeps the "parked" classification exact.
		for _, o := range r.its {
			if r.parked(o) && o.pos < it.pos {
				it.pos = o.pos
			}
		}
		r.its = append(r.its, it)
		if len(r.its) > r.info.MaxOpen {
			r.info.MaxOpen = len(r.its)
		}
	case OpHas:
		if len(r.its) == 0 {
			return false, nil
		}
		it := r.its[mod(op.I, len(r.its))]
		return true, r.hasNext(it)
	case OpNext:
		if len(r.its) == 0 {
			return false, nil
		}
		it := r.its[mod(op.I, len(r.its))]
		return true, r.next(it)
	case OpClose:
		if len(r.its) == 0 {
			return false, nil
		}
		i := mod(op.I, len(r.its))
		return true, r.closeIt(i)
	default:
		return false, nil // unknown kind (hand-edited replay file): no-op, every list is executable
	}
	return true, nil
}

func (r *runner) leaving(it *iter) {
	if r.shared(it) {
		r.info.SharedNode++
	}
}

func (r *runner) hasNext(it *iter) *vstat.Violation {
	md := &r.md
	if r.parked(it) {
		r.info.AdvanceOffRemove++
		r.leaving(it)
	}
	n := md.nextLive(it.pos)
	want := n >= 0
	got := it.it.HasNext()
	if got != want {
		return vstat.V("map:hasnext", "%s: HasNext()=%v of iterator #%d at position %d, want %v; live entries: %s",
			r.where(), got, it.id, it.pos, want, r.liveString())
	}
	if want {
		it.pos = n
	} else {
		it.pos = len(md.ents)
		it.reachedEnd, it.endSeq = true, len(md.ents)
	}
	it.hnSet, it.hnRes, it.hnMut = true, got, r.mut
	return nil
}

func (r *runner) next(it *iter) *vstat.Violation {
	md := &r.md
	if r.parked(it) {
		r.info.AdvanceOffRemove++
	}
	r.leaving(it)
	n := md.nextLive(it.pos)
	e, ok := it.it.Next()
	// HasNext immediately followed by Next with no change of the map in between must agree
	// (independent of the model)
	if it.hnSet {
		if it.hnMut == r.mut {
			if ok != it.hnRes {
				return vstat.V("map:hasnext-next-disagree", "%s: HasNext() of iterator #%d said %v, the map was not changed since, but Next() returned flag %v",
					r.where(), it.id, it.hnRes, ok)
			}
		} else if ok != it.hnRes {
			r.info.HasNextStale++ // the documented disparity
		}
		it.hnSet = false
	}
	if n < 0 {
		if ok {
			return vstat.V("map:next-past-end", "%s: Next() of iterator #%d at position %d returned (%s=%d, true) although no live entry is at or after its position; live entries: %s",
				r.where(), it.id, it.pos, e.Key, e.Value, r.liveString())
		}
		// key/value are documented to be default values "maybe": not compared
		it.pos = len(md.ents)
		it.reachedEnd, it.endSeq = true, len(md.ents)
		return nil
	}
	want := md.ents[n]
	if !ok {
		return vstat.V("map:next-missed-entry", "%s: Next() of iterator #%d at position %d returned false, want entry #%d (%s=%d); live entries: %s",
			r.where(), it.id, it.pos, n, want.key, want.val, r.liveString())
	}
	if e.Key != want.key || e.Value != want.val {
		return vstat.V("map:next-wrong-entry", "%s: Next() of iterator #%d at position %d returned (%s=%d), want entry #%d (%s=%d); live entries: %s",
			r.where(), it.id, it.pos, e.Key, e.Value, n, want.key, want.val, r.liveString())
	}
	if it.reachedEnd && n >= it.endSeq {
		r.info.AddSeenAtEnd++
		it.reachedEnd = false
	}
	// the iterator is now in front of the next entry that is live at this moment (or at the end)
	if nn := md.nextLive(n + 1); nn >= 0 {
		it.pos = nn
	} else {
		it.pos = len(md.ents)
	}
	return nil
}

func (r *runner) closeIt(i int) *vstat.Violation {
	it := r.its[i]
	if r.parked(it) {
		r.info.CloseOnRemoved++
	}
	r.leaving(it)
	it.it.Close() // the error result is not specified: not judged
	r.its = append(r.its[:i], r.its[i+1:]...)
	r.closedAny = true
	return nil
}

func (r *runner) checkGet(k string) *vstat.Violation {
	got, ok := r.m.Get(k)
	seq, present := r.md.live.get(k)
	if ok != present {
		return vstat.V("map:get-presence", "%s: Get(%s) returned flag %v, want %v; live entries: %s", r.where(), k, ok, present, r.liveString())
	}
	if present && got != r.md.ents[seq].val {
		return vstat.V("map:get-value", "%s: Get(%s) returned %d, want %d", r.where(), k, got, r.md.ents[seq].val)
	}
	return nil
}

func (r *runner) checkLen() *vstat.Violation {
	if got := r.m.Len(); got != r.md.live.n {
		return vstat.V("map:len", "%s: Len()=%d, want %d; live entries: %s", r.where(), got, r.md.live.n, r.liveString())
	}
	return nil
}

func (r *runner) checkFirst() *vstat.Violation {
	k, ok := r.m.First()
	n := r.md.nextLive(0)
	if ok != (n >= 0) {
		return vstat.V("map:first-flag", "%s: First() returned (%q,%v), want flag %v; live entries: %s", r.where(), k, ok, n >= 0, r.liveString())
	}
	if ok && k != r.md.ents[n].key {
		return vstat.V("map:first-key", "%s: First() returned %q, want the oldest live key %q; live entries: %s", r.where(), k, r.md.ents[n].key, r.liveString())
	}
	return nil
}

// afterStep: Len and Get of every key of the alphabet reflect exactly the live set (read-only
// calls), and - in structural mode - the list invariants of C11.
func (r *runner) afterStep() *vstat.Violation {
	if v := r.checkLen(); v != nil {
		v.Msg = "after " + v.Msg
		return v
	}
	for i := 0; i < r.c.Keys; i++ {
		if v := r.checkGet(r.key(i)); v != nil {
			v.Msg = "after " + v.Msg
			return v
		}
	}
	if r.structural {
		return r.walk()
	}
	return nil
}

// Structural tells whether a violation is one of the list invariants of C11 (signature prefix
// "map:struct-"); every other signature is a functional divergence, which belongs to C10.
func Structural(v *vstat.Violation) bool { return v != nil && strings.HasPrefix(v.Sig, "map:struct-") }

// walk evaluates the structural invariants (C11, map part).
func (r *runner) walk() *vstat.Violation {
	nodes, deleted, refSum, sane, ok := verifWalk(r.m)
	if !ok {
		r.info.NoHook = true
		return nil
	}
	r.info.Walks++
	open := len(r.its)
	ln := r.m.Len()
	desc := func() string {
		return fmt.Sprintf("after %s: list nodes=%d (incl. sentinel) deleted=%d refSum=%d, Len()=%d, open iterators=%d", r.where(), nodes, deleted, refSum, ln, open)
	}
	switch {
	case !sane:
		return vstat.V("map:struct-corrupt", "%s: the list is not well linked (prev/next, sentinel, negative count or vals index)", desc())
	case open == 0 && (nodes != ln+1 || deleted != 0):
		return vstat.V("map:struct-retained-after-close", "%s: with no iterator open the list must hold exactly Len()+1 nodes", desc())
	case nodes != ln+1+deleted:
		return vstat.V("map:struct-node-count", "%s: want nodes == Len()+1+deleted", desc())
	case deleted > open:
		return vstat.V("map:struct-deleted-unpinned", "%s: more removed entries retained than iterators are open", desc())
	case refSum != open:
		return vstat.V("map:struct-refcount-sum", "%s: the reference counts must add up to the number of open iterators", desc())
	}
	return nil
}

// finish closes what is still open and uses the map once more.
func (r *runner) finish() *vstat.Violation {
	r.phase = "final close of the open iterators"
	for len(r.its) > 0 {
		if v := r.closeIt(0); v != nil {
			return v
		}
		if r.structural {
			if v := r.walk(); v != nil {
				return v
			}
		}
	}
	r.phase = "final check"
	if v := r.checkFirst(); v != nil {
		return v
	}
	if v := r.afterStep(); v != nil {
		return v
	}
	// a fresh iterator returns exactly the live entries in insertion order
	it := r.m.Iterator()
	if it == nil {
		return vstat.V("map:iterator-nil", "%s: Iterator() returned nil", r.where())
	}
	cnt := 0
	for s := r.md.nextLive(0); s >= 0; s = r.md.nextLive(s + 1) {
		want := r.md.ents[s]
		if !it.HasNext() {
			return vstat.V("map:final-iteration", "%s: fresh iterator: HasNext()=false after %d entries, want %d: %s", r.where(), cnt, r.md.live.n, r.liveString())
		}
		e, ok := it.Next()
		if !ok || e.Key != want.key || e.Value != want.val {
			return vstat.V("map:final-iteration", "%s: fresh iterator: element %d is (%s=%d,%v), want (%s=%d,true); live entries: %s", r.where(), cnt, e.Key, e.Value, ok, want.key, want.val, r.liveString())
		}
		cnt++
	}
	if it.HasNext() {
		return vstat.V("map:final-iteration", "%s: fresh iterator: HasNext()=true after all %d live entries", r.where(), cnt)
	}
	if e, ok := it.Next(); ok {
		return vstat.V("map:final-iteration", "%s: fresh iterator: Next() returned (%s=%d,true) after all %d live entries", r.where(), e.Key, e.Value, cnt)
	}
	if r.structural {
		r.its = append(r.its, &iter{it: it, pos: len(r.md.ents)}) // counted as open by walk
		if v := r.walk(); v != nil {
			return v
		}
		r.its = r.its[:0]
	}
	it.Close()
	if r.structural {
		if v := r.walk(); v != nil {
			return v
		}
	}
	if v := r.checkFirst(); v != nil {
		return v
	}
	return r.checkLen()
}

func (r *runner) liveString() string {
	s := "["
	for i := r.md.nextLive(0); i >= 0; i = r.md.nextLive(i + 1) {
		if len(s) > 1 {
			s += " "
		}
		s += fmt.Sprintf("#%d:%s=%d", i, r.md.ents[i].key, r.md.ents[i].val)
	}
	return s + "]"
}

// Hash is a cheap FNV-1a hash of the case.
func (c Case) Hash() uint64 {
	h := uint64(14695981039346656037)
	mix := func(b uint64) {
		h ^= b
		h *= 1099511628211
	}
	mix(uint64(c.Keys))
	mix(uint64(c.MaxIt))
	for _, o := range c.Ops {
		for i := 0; i < len(o.K); i++ {
			mix(uint64(o.K[i]))
		}
		mix(uint64(int64(o.Key)) + 1000)
		mix(uint64(int64(o.V)) + 2000)
		mix(uint64(int64(o.I)) + 3000)
	}
	return h
}

// CanonicalLists calls f with every canonical list over the alphabet of length 0..depth, shortest
// first, that belongs to this shard, and returns how many it produced. A list is canonical when no
// op is a no-op (iterator op without an open iterator, NewIterator beyond the bound) and no
// iterator index needs the modulo. Every other list over the alphabet is the same history as a
// canonical one that is not longer: drop its no-ops and reduce its indices. Enumerating the
// canonical lists therefore covers every list up to the depth; only duplicates are left out, and
// their subtrees are never generated (which is why enum.Lists is not used here: at depth 9 it
// would produce 5*10^9 lists to find the 10^8 canonical ones).
// Sharding: a list belongs to shard (sum of its first three letter indices) mod shards, so the
// work is spread evenly whatever the alphabet size is. The slice handed to f is reused.
func CanonicalLists(alpha []Op, maxIt, depth, shard, shards int, f func(ops []Op)) int64 {
	if shards <= 0 {
		shards = 1
	}
	var n int64
	ops := make([]Op, 0, depth)
	var rec func(target, open, sum int)
	rec = func(target, open, sum int) {
		if len(ops) == target {
			if sum%shards == shard {
				f(ops)
				n++
			}
			return
		}
		for e, o := range alpha {
			nopen := open
			switch o.K {
			case OpIter:
				if open >= maxIt {
					continue
				}
				nopen++
			case OpHas, OpNext:
				if o.I >= open {
					continue
				}
			case OpClose:
				if o.I >= open {
					continue
				}
				nopen--
			}
			nsum := sum
			if len(ops) < 3 {
				nsum += e
				// below the third letter the shard of every extension is already decided
				if len(ops) == 2 && target >= 3 && nsum%shards != shard {
					continue
				}
			}
			ops = append(ops, o)
			rec(target, nopen, nsum)
			ops = ops[:len(ops)-1]
		}
	}
	for d := 0; d <= depth; d++ {
		rec(d, 0, 0)
	}
	return n
}

// Alphabet is the finite op alphabet of the exhaustive part. Get and Len are left out: Run calls
// Len and Get of every key after every step anyway (they are read-only), so they add no history.
// The value argument of Add is fixed: the stored value is made unique by the sequence number.
func Alphabet(keys, maxIt int) []Op {
	var a []Op
	for k := 0; k < keys; k++ {
		a = append(a, Op{K: OpAdd, Key: k, V: 7})
	}
	for k := 0; k < keys; k++ {
		a = append(a, Op{K: OpRem, Key: k})
	}
	a = append(a, Op{K: OpFirst}, Op{K: OpIter})
	for _, kind := range []string{OpHas, OpNext, OpClose} {
		for i := 0; i < maxIt; i++ {
			a = append(a, Op{K: kind, I: i})
		}
	}
	return a
}
