package p_map

// Reachability oracle of C11 ("what a map keeps reachable is bounded by its live entries plus the
// entries pinned by currently open iterators"; "an LRU cache holds at most its capacity plus a
// constant").
//
// The structural oracle of map.go counts the nodes that are linked between head and sentinel. That
// says nothing about memory the container keeps reachable OUTSIDE that list (a free list, a slab,
// a side table, a stale field of a recycled node). This oracle asks the garbage collector instead
// and never looks inside the container: keys, values and primary keys are pointers to heap objects
// owned by the harness; the harness keeps a strong reference only while the entry is live and a
// weak pointer (package weak) once the entry has left the container. At a measurement point the
// collector is run and every weak pointer that still resolves is an object somebody keeps
// reachable - and the only candidate is the container, which is still alive and in use.

import (
	"errors"
	"fmt"
	"math/bits"
	"runtime"
	"strings"
	"time"
	"weak"

	"github.com/acquirecloud/golibs/container/iterable"
	"github.com/acquirecloud/golibs/container/lru"
	"verifharness/internal/vstat"
)

// Container kinds of the reachability cases.
const (
	KindMapPtr       = "map-ptr"       // iterable.Map[*Obj, *Obj]
	KindMapStruct    = "map-struct"    // iterable.Map[SKey, SVal]: comparable struct key / struct value, each holding a pointer
	KindLruCache     = "lru-cache"     // lru.Cache[*Obj, *Obj]
	KindLruECache    = "lru-ecache"    // lru.ECache[*Obj, SKey, *Obj]: pointer PK, inner key = struct holding the slot's tag object
	KindLruExpirable = "lru-expirable" // lru.ExpirableCache[*Obj, *Obj], expiry flag owned by the harness
)

// MapKinds / LruKinds are the kinds of the two units.
var (
	MapKinds = []string{KindMapPtr, KindMapStruct}
	LruKinds = []string{KindLruCache, KindLruECache, KindLruExpirable}
)

// Roles of a watched object.
const (
	RoleKey = iota // map key, cache key, or the object inside the comparable inner key of the ecache kind
	RoleVal        // value
	RolePK         // ecache kind: the primary key object (stored by the cache next to the value)
	nRoles
)

var roleNames = [nRoles]string{"key", "value", "primary-key"}

// Obj is the heap object keys and values point to. 56 bytes with a pointer: never served by the
// tiny allocator (objects sharing a tiny block keep each other alive, which would blur the oracle).
type Obj struct {
	Slot    int
	Role    uint8
	expired bool
	watched bool // the harness holds a weak pointer to it in its list of removed objects (at most one per object)
	Tag     *Obj // RolePK only: the object the inner key is made of
	_       [4]uint64
}

var farFuture = time.Date(9000, 1, 1, 0, 0, 0, 0, time.UTC)

// GetValue / GetExpiresAt make *Obj a lru.CacheItem (kind lru-expirable).
func (o *Obj) GetValue() any { return o.Slot }
func (o *Obj) GetExpiresAt() time.Time {
	if o.expired {
		return time.Time{} // year 1: before any "now"
	}
	return farFuture
}

// SKey is a comparable struct key, SVal a struct value.
type SKey struct {
	ID int
	P  *Obj
}
type SVal struct {
	P *Obj
	N int
}

// Reach op kinds. Every op is executable in every state: slots are taken modulo Slots, counts are
// clipped, an op that does not apply to the kind or the state is a no-op.
const (
	RAdd      = "add"      // insert a fresh entry (new key and value objects) for every absent slot of From, From+1, ... (N slots)
	RThin     = "thin"     // remove the present slots of the range except every Stride-th one (position j survives iff j%Stride == Off%Stride; Stride 0: none survives); Rev: last slot first
	RTouch    = "touch"    // every Stride-th (0: every) present slot of the range: cache = GetOrCreate that hits (the entry is unlinked and linked again); map = Remove followed by Add of a fresh entry
	RClear    = "clear"    // cache: Clear(); map: the same loop written against the map (iterator, Remove of every entry it returns, Close)
	RExpire   = "expire"   // lru-expirable: mark the value of every Stride-th present slot of the range expired (the next touch replaces the entry); no-op elsewhere
	RIters    = "iters"    // maps: open N iterators (at most MaxReachIters open), iterator i is advanced i*Stride steps; no-op on caches
	RAdv      = "adv"      // maps: N times Next on every open iterator
	RCloseAll = "closeall" // maps: Close every open iterator
	RMeasure  = "gc"       // measurement point
	RTake     = "take"     // remove the first N (at most MaxTake) present slots found from From on (cyclically); no-op on an empty container
	RPut      = "put"      // insert a fresh entry into the first N (at most MaxTake) absent slots found from From on; a full cache evicts for each
	// RFlight (caches): for each of the first N (at most MaxFlights) absent slots found from From on: GetOrCreate(fresh key) runs on a second
	// goroutine and is parked inside the create function; while that creation is in flight the first goroutine calls Remove(the same key)
	// (Rev: Clear()); then the creation is released and FAILS unless Stride > 0 and its position j has j%Stride == Off%Stride (then it succeeds and
	// the entry is live). One creation at a time; the second goroutine has ended before the op returns. No-op on maps.
	RFlight = "flight"
)

// MaxTake / MaxFlights bound the counts of the ops of the same name.
const (
	MaxTake    = 64
	MaxFlights = 64
)

var errFlight = errors.New("the create function fails (drawn by the case)")

// MaxReachIters bounds the open iterators of a reachability case (as many as the C10 generator opens: more entries can
// be pinned at the same time than ReachSlack allows to stay behind once the iterators are closed).
const MaxReachIters = 24

// ReachSlack is the number of KEY objects of removed entries which a container may keep
// reachable beyond the entries pinned by open iterators. It does not depend on the size of the
// case. The unchanged library keeps at most one (the key left in a recycled list node that serves
// as trailing sentinel until the next Add overwrites it) - measured maximum over about 30000 cases of
// all kinds and seeds: 1 key, 0 values, 0 primary keys. 8 is that plus a safety margin.
const ReachSlack = 8

// ReachSlackVal is the same allowance for the VALUE objects and for the primary keys (which the cache
// stores inside the value of its recency list). A removed entry's value is "the removed entry" of the
// statement in the plainest sense, and the unchanged library lets go of every one of them at the
// moment of the removal (the list node is wiped before it is unlinked, marked or recycled): measured
// maximum 0 in every measurement of every calibration run (see the assumptions in checks.d/C11.py),
// also with iterators open. The bound is therefore 0 beyond the open iterators; the deadline in
// collections (ReachMaxCycles) is what absorbs the runtime effects, not a count.
const ReachSlackVal = 0

// reachSlack is the allowance per role.
var reachSlack = [nRoles]int{RoleKey: ReachSlack, RoleVal: ReachSlackVal, RolePK: ReachSlackVal}

// ReachMaxCycles is the deadline of a measurement in garbage collections: sync.Pool needs two
// cycles to let go of its content, a cycle that was already running when the measurement started
// does not count, and a weak pointer that is resolved while a background cycle marks keeps its
// object for that cycle.
const ReachMaxCycles = 10

// ReachMinCycles is the least number of collections per measurement; 1 decides, a larger value (set by
// the calibration run, VERIF_REACH_MINCYCLES) shows where the retained count settles.
var ReachMinCycles = 1

// ReachOp is one op of a reachability case.
type ReachOp struct {
	K      string `json:"k"`
	From   int    `json:"from,omitempty"`
	N      int    `json:"n,omitempty"`
	Stride int    `json:"stride,omitempty"`
	Off    int    `json:"off,omitempty"`
	Rev    bool   `json:"rev,omitempty"`
}

// ReachCase: a container kind, the number of slots (= the peak number of entries a map can reach),
// the capacity (caches only) and the op list. Every case ends with: close the open iterators,
// measure, re-use the container (a few insertions), measure again.
type ReachCase struct {
	Kind  string    `json:"kind"`
	Slots int       `json:"slots"`
	Cap   int       `json:"cap,omitempty"`
	Ops   []ReachOp `json:"ops"`
}

// MaxReachSlots bounds the slots of a case.
const MaxReachSlots = 1 << 20

// ReachInfo is what the classifiers and the evidence need.
type ReachInfo struct {
	Kind          string
	Peak          int         // largest number of live entries
	Removed       int         // entries that left the container
	Measures      int         // measurement points evaluated
	MeasuresOpen  int         // ... with at least one iterator open
	MaxIters      int         // most iterators open at the same time
	Cycles        int         // garbage collections run by them
	Watched       [nRoles]int // objects of removed entries put under watch
	MaxRetained   [nRoles]int // most objects of removed entries still reachable at the end of a measurement made with every iterator closed
	MaxPinned     [nRoles]int // ... at the end of a measurement made with iterators open
	ClosedHist    [3]int      // passed measurements with every iterator closed that ended with 0 / 1 / 2..ReachSlack objects (largest role) of removed entries reachable
	OpenHist      [3]int      // passed measurements with n iterators open that ended with <= n / n+1 / n+2..n+ReachSlack such objects
	CycleHist     [4]int      // measurements that ran 1 / 2 / 3 / more collections
	FarBelowPeak  bool        // a measurement with every iterator closed, peak >= 256 and live <= peak/8
	Spread        bool        // a thin with 2 <= Stride <= 128 removed >= 128 entries and left survivors between them
	SpreadWide    bool        // ... with Stride > 128
	ClearBig      bool        // a clear removed >= 256 entries
	ReuseAfterBig bool        // an insertion after such a clear
	Evictions     int         // entries that left a cache by eviction
	Touches       int
	ExpiredSwaps  int  // lru-expirable: stale entries replaced
	ThinUnderIter bool // entries were removed while iterators were open
	RemoveAddIdle bool // a measurement was taken after "removal(s) or an eviction, exactly one more insertion, nothing else" with no collection in between
	RemoveIdle    bool // ... after removal(s) and no insertion at all
	Flights       int  // creations overtaken by Remove/Clear while in flight (caches)
	FlightsFailed int  // ... that failed afterwards
	FlightsClear  int  // ... overtaken by Clear
	FlightBurst   bool // one op made more failed overtaken creations than the key allowance (a leak of one key per event cannot hide)
	StepCap       bool
	HugeCap       bool // cache with a capacity >= 2^16 (math.MaxInt = "unbounded")
	Diverged      bool // the container disagrees with the harness about what is present (functional divergence: C10/C08): no verdict
}

// NonTrivial: a measurement was taken, with every iterator closed, when the container had shrunk to
// at most an eighth of a peak of at least 256 entries.
func (i ReachInfo) NonTrivial() bool { return i.FarBelowPeak }

// Classes for the histogram.
func (i ReachInfo) Classes() []string {
	c := []string{"reach_kind_" + i.Kind}
	add := func(b bool, name string) {
		if b {
			c = append(c, name)
		}
	}
	add(i.Peak >= 256, "reach_peak_ge_256")
	add(i.Peak >= 4000, "reach_peak_ge_4000")
	add(i.Peak >= 20000, "reach_peak_ge_20000")
	add(i.FarBelowPeak, "reach_measured_at_le_eighth_of_peak")
	add(i.Spread, "reach_survivors_spread_evenly_stride_le_128")
	add(i.SpreadWide, "reach_survivors_spread_evenly_stride_gt_128")
	add(i.ClearBig, "reach_clear_of_ge_256_entries")
	add(i.ReuseAfterBig, "reach_reuse_after_big_clear")
	add(i.Evictions > 0, "reach_cache_evictions")
	add(i.Touches > 0, "reach_touches")
	add(i.ExpiredSwaps > 0, "reach_expired_entries_replaced")
	add(i.MeasuresOpen > 0, "reach_measured_with_open_iterators")
	add(i.ThinUnderIter, "reach_removals_under_open_iterators")
	add(i.ThinUnderIter && i.MaxIters >= 9, "reach_removals_under_ge_9_open_iterators")
	add(i.RemoveAddIdle, "reach_measured_idle_after_removal_and_exactly_one_insertion")
	add(i.RemoveIdle, "reach_measured_idle_after_removal_without_insertion")
	add(i.Flights > 0, "reach_creation_overtaken_in_flight_by_remove_or_clear")
	add(i.Flights-i.FlightsFailed > 0, "reach_overtaken_creation_succeeded")
	add(i.FlightsFailed > 0, "reach_overtaken_creation_failed")
	add(i.FlightsClear > 0, "reach_creation_overtaken_by_clear")
	add(i.FlightBurst, "reach_more_failed_overtaken_creations_than_the_key_allowance")
	add(i.Watched[RoleKey] >= 1000, "reach_watched_keys_ge_1000")
	add(i.StepCap, "reach_step_cap_reached")
	add(i.HugeCap, "reach_cache_capacity_ge_65536_up_to_maxint")
	add(i.Diverged, "reach_cut_short_by_functional_divergence")
	return c
}

// slot is the harness' view of one key position: strong references exist only while the entry is live.
type slot struct {
	live     bool
	k, v, pk *Obj
}

func (s *slot) holds(o *Obj) bool { return s.live && (s.k == o || s.v == o || s.pk == o) }

// watch is a removed object: weak pointer only.
type watch struct {
	wp   weak.Pointer[Obj]
	role uint8
}

// box is the container under test behind the operations the cases need.
type box interface {
	insert(s int)          // slots[s] holds fresh objects and is marked live: put the entry in
	remove(s int)          // take the entry of slot s out (the runner drops the references afterwards)
	touch(s int)           // cache: GetOrCreate that hits
	clear()                // see RClear
	present(key *Obj) bool // does the container say the entry of this (removed) key is present? (only on suspicion; may change a cache)
	openIter() bool
	advance(i, n int)
	closeAll()
	open() int
	isMap() bool
	keepAlive()
}

type reachRunner struct {
	c       ReachCase
	info    *ReachInfo
	b       box
	slots   []slot
	removed []watch
	live    int
	steps   int
	budget  int
	step    int
	bigClr  bool
	spread  int // 0 none, 1 narrow, 2 wide: a spreading thin happened since the last measurement
	// ev: the last events since the last collection, for the classes: A = an insertion begins, D = an entry left (runs collapsed),
	// E = an entry left by eviction, i.e. inside the insertion that is the preceding A
	ev       []byte
	inInsert bool
	gate     *flightGate // set while a creation is to be parked inside the create function
}

// flightGate parks the create call for one slot (RFlight).
type flightGate struct {
	slot    int
	entered chan struct{}
	release chan bool // true: the creation succeeds
}

// RunReach executes a reachability case.
func RunReach(c ReachCase) (info ReachInfo, v *vstat.Violation) {
	c.Slots = clip(c.Slots, 1, MaxReachSlots)
	if c.Cap < 1 {
		c.Cap = c.Slots
	}
	info.Kind = c.Kind
	info.HugeCap = !isMapKind(c.Kind) && c.Cap >= 1<<16
	r := &reachRunner{c: c, info: &info, slots: make([]slot, c.Slots), budget: 30*c.Slots + 10000}
	sig := "map:reach-panic"
	if !isMapKind(c.Kind) {
		sig = "lru:reach-panic"
	}
	v = vstat.Guard(sig, r.run)
	if v != nil && v.Sig == sig {
		v.Msg = fmt.Sprintf("during op #%d of a %s case: %s", r.step, c.Kind, cleanStack(v.Msg))
	}
	return info, v
}

func isMapKind(k string) bool { return k == KindMapPtr || k == KindMapStruct }

func (r *reachRunner) newObj(s int, role uint8) *Obj { return &Obj{Slot: s, Role: role} }

// dropped: the entry of slot s has left the container; strong references become weak ones.
func (r *reachRunner) dropped(s int) {
	sl := &r.slots[s]
	if !sl.live {
		return
	}
	for role, o := range [nRoles]*Obj{sl.k, sl.v, sl.pk} {
		if o != nil && !o.watched { // the key of a re-created entry (expirable cache) may still be on the list from its first removal
			o.watched = true
			r.removed = append(r.removed, watch{wp: weak.Make(o), role: uint8(role)})
			r.info.Watched[role]++
		}
	}
	*sl = slot{}
	r.live--
	r.info.Removed++
	if r.inInsert {
		r.event('E')
	} else {
		r.event('D')
	}
}

func (r *reachRunner) event(e byte) {
	if n := len(r.ev); n > 0 && r.ev[n-1] == e && e != 'A' {
		return
	}
	if len(r.ev) >= 8 {
		r.ev = append(r.ev[:0], r.ev[4:]...)
	}
	r.ev = append(r.ev, e)
}

// created: the container called the create function for pk (caches). Normally the slot was prepared
// by insert; the expirable cache re-creates an entry it has just removed itself (stale item), then
// the slot comes back to life with the same key object.
func (r *reachRunner) created(pk *Obj) (*Obj, error) {
	s := pk.Slot
	if g := r.gate; g != nil && g.slot == s { // RFlight: this call runs on the second goroutine
		g.entered <- struct{}{}
		if !<-g.release {
			return nil, errFlight
		}
	}
	sl := &r.slots[s]
	if !sl.live {
		sl.live = true
		r.live++
		if pk.Role == RolePK {
			sl.pk, sl.k = pk, pk.Tag
		} else {
			sl.k = pk
		}
		r.info.ExpiredSwaps++
		r.event('A')
	}
	v := r.newObj(s, RoleVal)
	sl.v = v
	return v, nil
}

// deleted: delete callback of a cache.
func (r *reachRunner) deleted(pk *Obj) {
	if pk == nil {
		return
	}
	if sl := &r.slots[pk.Slot]; sl.live && (sl.pk == pk || sl.k == pk) {
		r.dropped(pk.Slot)
	}
}

func (r *reachRunner) spend(n int) bool {
	if r.steps+n > r.budget {
		r.info.StepCap = true
		return false
	}
	r.steps += n
	return true
}

func (r *reachRunner) notePeak() {
	if r.live > r.info.Peak {
		r.info.Peak = r.live
	}
}

// prepare fills slot s with fresh objects and marks it live.
func (r *reachRunner) prepare(s int) {
	sl := &r.slots[s]
	sl.live = true
	r.live++
	sl.k = r.newObj(s, RoleKey)
	switch r.c.Kind {
	case KindMapPtr, KindMapStruct:
		sl.v = r.newObj(s, RoleVal)
	case KindLruECache:
		sl.pk = r.newObj(s, RolePK)
		sl.pk.Tag = sl.k
	}
}

func (r *reachRunner) insert(s int) {
	if r.slots[s].live {
		return
	}
	r.prepare(s)
	before := r.info.Removed
	r.event('A')
	r.inInsert = true
	r.b.insert(s)
	r.inInsert = false
	if !r.b.isMap() {
		r.info.Evictions += r.info.Removed - before
	}
	if r.bigClr {
		r.info.ReuseAfterBig = true
	}
	r.notePeak()
}

func (r *reachRunner) remove(s int) {
	if !r.slots[s].live {
		return
	}
	r.b.remove(s)
	r.dropped(s) // a cache has done that already through its delete callback
}

func (r *reachRunner) run() *vstat.Violation {
	switch r.c.Kind {
	case KindMapPtr:
		r.b = newMapBox(r, func(o *Obj) *Obj { return o }, func(o *Obj) *Obj { return o }, func(k *Obj) *Obj { return k })
	case KindMapStruct:
		r.b = newMapBox(r, func(o *Obj) SKey { return SKey{ID: o.Slot, P: o} }, func(o *Obj) SVal { return SVal{P: o, N: o.Slot} }, func(k SKey) *Obj { return k.P })
	case KindLruCache:
		c, err := lru.NewCache[*Obj, *Obj](r.c.Cap, r.created, func(k, _ *Obj) { r.deleted(k) })
		if err != nil {
			return nil // constructor contract: C08
		}
		r.b = &lruBox{r: r, api: c}
	case KindLruECache:
		c, err := lru.NewECache[*Obj, SKey, *Obj](r.c.Cap, func(pk *Obj) SKey { return SKey{ID: pk.Slot, P: pk.Tag} },
			r.created, func(pk, _ *Obj) { r.deleted(pk) })
		if err != nil {
			return nil
		}
		r.b = &lruBox{r: r, api: c}
	case KindLruExpirable:
		c, err := lru.NewExpirableCache[*Obj, *Obj](r.c.Cap, r.created, func(k, _ *Obj) { r.deleted(k) })
		if err != nil {
			return nil
		}
		r.b = &lruBox{r: r, api: c}
	default:
		return nil // unknown kind (hand-edited replay file)
	}
	for i, op := range r.c.Ops {
		r.step = i
		if op.K == RMeasure {
			if v := r.measure(fmt.Sprintf("at op #%d", i)); v != nil || r.info.Diverged {
				return v
			}
			continue
		}
		r.exec(op)
	}
	r.step = len(r.c.Ops)
	r.b.closeAll()
	if v := r.measure("at the end of the case, every iterator closed"); v != nil || r.info.Diverged {
		return v
	}
	r.reuse()
	v := r.measure("at the end of the case, after the container was used again (3 insertions)")
	r.b.keepAlive()
	return v
}

// reuse: a few insertions into free slots.
func (r *reachRunner) reuse() {
	n := 0
	for s := 0; s < len(r.slots) && s < 64 && n < 3; s++ {
		if !r.slots[s].live {
			r.insert(s)
			n++
		}
	}
}

// exec runs one op; it returns before anything is measured, so no key or value of a removed entry
// is left in a variable of a live stack frame.
func (r *reachRunner) exec(op ReachOp) {
	n := clip(op.N, 0, len(r.slots))
	at := func(j int) int { return mod(op.From+j, len(r.slots)) }
	each := func(f func(j, s int)) {
		for j := 0; j < n; j++ {
			jj := j
			if op.Rev {
				jj = n - 1 - j
			}
			f(jj, at(jj))
		}
	}
	stride := max(op.Stride, 0)
	switch op.K {
	case RAdd:
		if !r.spend(n) {
			return
		}
		each(func(_, s int) { r.insert(s) })
	case RThin:
		if !r.spend(n) {
			return
		}
		before, survivors := r.info.Removed, 0
		each(func(j, s int) {
			if stride > 0 && j%stride == mod(op.Off, stride) {
				if r.slots[s].live {
					survivors++
				}
				return
			}
			r.remove(s)
		})
		if gone := r.info.Removed - before; gone > 0 {
			if r.b.open() > 0 {
				r.info.ThinUnderIter = true
			}
			if gone >= 128 && stride >= 2 && survivors >= 2 {
				if stride <= 128 {
					r.spread = max(r.spread, 1)
				} else {
					r.spread = max(r.spread, 2)
				}
			}
		}
	case RTouch:
		if !r.spend(n) {
			return
		}
		each(func(j, s int) {
			if !r.slots[s].live || (stride > 0 && j%stride != mod(op.Off, stride)) {
				return
			}
			r.info.Touches++
			if r.b.isMap() {
				r.remove(s)
				r.insert(s)
			} else {
				r.b.touch(s)
			}
		})
	case RClear:
		if !r.spend(r.live + 1) {
			return
		}
		before := r.info.Removed
		r.b.clear()
		if r.info.Removed-before >= 256 {
			r.info.ClearBig, r.bigClr = true, true
		}
	case RExpire:
		if r.c.Kind != KindLruExpirable || !r.spend(n) {
			return
		}
		each(func(j, s int) {
			if sl := &r.slots[s]; sl.live && sl.v != nil && (stride == 0 || j%stride == mod(op.Off, stride)) {
				sl.v.expired = true
			}
		})
	case RIters:
		for i, k := 0, clip(op.N, 0, MaxReachIters); i < k; i++ {
			if !r.b.openIter() {
				break
			}
			adv := clip(i*stride, 0, len(r.slots)+1)
			if !r.spend(adv + 1) {
				return
			}
			r.b.advance(r.b.open()-1, adv)
			r.info.MaxIters = max(r.info.MaxIters, r.b.open())
		}
	case RAdv:
		k := clip(op.N, 0, len(r.slots)+1)
		for i := 0; i < r.b.open(); i++ {
			if !r.spend(k) {
				return
			}
			r.b.advance(i, k)
		}
	case RCloseAll:
		r.b.closeAll()
	case RTake, RPut:
		k := clip(op.N, 0, MaxTake)
		if !r.spend(len(r.slots)/64 + k) {
			return
		}
		for t := 0; t < len(r.slots) && k > 0; t++ {
			if s := at(t); r.slots[s].live == (op.K == RTake) {
				if op.K == RTake {
					r.remove(s)
				} else {
					r.insert(s)
				}
				k--
			}
		}
	case RFlight:
		k := clip(op.N, 0, MaxFlights)
		if r.b.isMap() || !r.spend(len(r.slots)/64+8*k) {
			return
		}
		failed := 0
		for t, j := 0, 0; t < len(r.slots) && j < k; t++ {
			s := at(t)
			if r.slots[s].live {
				continue
			}
			ok := stride > 0 && j%stride == mod(op.Off, stride)
			if op.Rev && !r.spend(r.live) {
				return
			}
			if r.flight(s, op.Rev, ok) && !ok {
				failed++
			}
			j++
		}
		if failed > ReachSlack {
			r.info.FlightBurst = true
		}
	}
}

// flight: one creation for the (absent) slot s that is overtaken, while the create function is running
// on a second goroutine, by Remove of the same key or by Clear on this one. It reports whether the create
// function was entered. Afterwards the second goroutine is gone; a failed creation has stored nothing,
// so its key objects are objects of a removed entry from then on.
func (r *reachRunner) flight(s int, byClear, succeed bool) bool {
	r.prepare(s)
	g := &flightGate{slot: s, entered: make(chan struct{}), release: make(chan bool)}
	r.gate = g
	done := make(chan struct{})
	go func() {
		defer close(done)
		r.b.insert(s)
	}()
	entered := false
	select {
	case <-g.entered: // the creation is in flight and parked: nothing of the harness state is touched by it
		entered = true
		if byClear {
			r.b.clear()
			r.info.FlightsClear++
		} else {
			r.b.remove(s)
		}
		r.info.Flights++
		if !succeed {
			r.info.FlightsFailed++
		}
		g.release <- succeed
		<-done
	case <-done: // the cache did not ask for a creation
	}
	r.gate = nil
	if r.slots[s].live && r.slots[s].v == nil { // nothing was created: the key was handed to the cache, the cache has no reason to keep it
		r.dropped(s)
	} else {
		r.event('A')
		r.notePeak()
	}
	return entered
}

// sweep resolves the weak pointers: collected objects leave the list, the others are counted per
// role. An object that is part of a live entry again (the expirable cache re-inserts the key it has
// just removed) is not a removed object.
func (r *reachRunner) sweep() (alive [nRoles]int) {
	keep := r.removed[:0]
	for _, w := range r.removed {
		o := w.wp.Value()
		if o == nil {
			continue
		}
		if r.slots[o.Slot].holds(o) {
			o.watched = false
			continue
		}
		alive[w.role]++
		keep = append(keep, w)
	}
	for i := len(keep); i < len(r.removed); i++ {
		r.removed[i] = watch{}
	}
	r.removed = keep
	return alive
}

// measure: run the collector until at most bound objects of removed entries per role are still
// reachable, or the deadline (in cycles) has passed.
func (r *reachRunner) measure(where string) *vstat.Violation {
	open := r.b.open()
	var bound [nRoles]int
	for role := range bound {
		bound[role] = reachSlack[role] + open
	}
	within := func(alive [nRoles]int) bool {
		for role, n := range alive {
			if n > bound[role] {
				return false
			}
		}
		return true
	}
	if open == 0 {
		ev := string(r.ev)
		switch {
		case strings.HasSuffix(ev, "DA") || strings.HasSuffix(ev, "EA") || strings.HasSuffix(ev, "DAE") || strings.HasSuffix(ev, "EAE"):
			r.info.RemoveAddIdle = true
		case strings.HasSuffix(ev, "D") || strings.HasSuffix(ev, "E"):
			r.info.RemoveIdle = true
		}
	}
	r.ev = r.ev[:0]
	r.info.Measures++
	if open > 0 {
		r.info.MeasuresOpen++
	} else {
		if r.info.Peak >= 256 && r.live <= r.info.Peak/8 {
			r.info.FarBelowPeak = true
		}
		switch r.spread {
		case 1:
			r.info.Spread = true
		case 2:
			r.info.SpreadWide = true
		}
		r.spread = 0
	}
	// The verdict: within the bound after some collection before the deadline. For the evidence the
	// count is allowed to settle: while more than one object beyond the open iterators is reachable,
	// up to two further collections are run (they cannot turn a pass into a failure).
	var alive [nRoles]int
	ok, cycles, settle := false, 0, 0
	for cycles < ReachMaxCycles {
		runtime.GC()
		cycles++
		alive = r.sweep()
		worst := max(alive[RoleKey], alive[RoleVal], alive[RolePK])
		if within(alive) && cycles >= ReachMinCycles {
			ok = true
			if worst <= open+1 || settle == 2 {
				break
			}
			settle++
		} else if ok {
			break // cannot happen (an unreachable object does not come back); the pass stands
		}
	}
	r.info.Cycles += cycles
	r.info.CycleHist[min(cycles, 4)-1]++
	for role, n := range alive {
		if open == 0 {
			r.info.MaxRetained[role] = max(r.info.MaxRetained[role], n)
		} else {
			r.info.MaxPinned[role] = max(r.info.MaxPinned[role], n)
		}
	}
	if ok {
		excess := max(alive[RoleKey], alive[RoleVal], alive[RolePK]) - open
		h := &r.info.ClosedHist
		if open > 0 {
			h = &r.info.OpenHist
		}
		switch {
		case excess <= 0:
			h[0]++
		case excess == 1:
			h[1]++
		default:
			h[2]++
		}
	}
	if ok {
		return nil
	}
	// Before blaming the container: does it agree that these entries are gone? If it says one of the
	// keys is present, container and harness disagree about the live set - a functional failure,
	// which C10 / C08 judge with the same mutants of the history; no verdict here.
	if r.anyPresent() {
		r.info.Diverged = true
		return nil
	}
	worst := 0 // the role that is furthest beyond its bound
	for role := range alive {
		if alive[role]-bound[role] > alive[worst]-bound[worst] {
			worst = role
		}
	}
	what, sig := "map", "map:reach-retained"
	if !r.b.isMap() {
		what, sig = "cache", "lru:reach-retained"
	}
	// the exact count may vary from run to run (what sync.Pool hands back depends on when the
	// collector ran during the history): the message carries its order of magnitude only, so that
	// the failure reproduces literally
	return vstat.V(sig, "%s (%s, %d slots): %s: %d entries live, %d open iterators, %d entries removed so far; after %d garbage collections at least %d %s objects of REMOVED entries are still reachable "+
		"(bound for %s objects: %d = %d + open iterators, independent of the history) while the %s is alive and nothing else refers to them: the %s retains removed entries",
		what, r.c.Kind, r.c.Slots, where, r.live, open, r.info.Removed, ReachMaxCycles, 1<<(bits.Len(uint(alive[worst]))-1), roleNames[worst], roleNames[worst], bound[worst], reachSlack[worst], what, what)
}

// anyPresent asks the container about the keys of up to 64 retained removed entries.
func (r *reachRunner) anyPresent() bool {
	asked := 0
	for _, w := range r.removed {
		if w.role == RoleVal {
			continue
		}
		if r.c.Kind == KindLruECache && w.role == RoleKey {
			continue // the inner key cannot be presented to the cache without its primary key
		}
		if o := w.wp.Value(); o != nil {
			if r.b.present(o) {
				return true
			}
			if asked++; asked >= 64 {
				break
			}
		}
	}
	return false
}

// ---------------------------------------------------------------------------------------------
// iterable.Map behind box

type mapBox[K comparable, V any] struct {
	r   *reachRunner
	m   *iterable.Map[K, V]
	its []iterable.Iterator[iterable.MapEntry[K, V]]
	key func(*Obj) K
	val func(*Obj) V
	obj func(K) *Obj
}

func newMapBox[K comparable, V any](r *reachRunner, key func(*Obj) K, val func(*Obj) V, obj func(K) *Obj) *mapBox[K, V] {
	return &mapBox[K, V]{r: r, m: iterable.NewMap[K, V](), key: key, val: val, obj: obj}
}

func (b *mapBox[K, V]) isMap() bool { return true }
func (b *mapBox[K, V]) open() int   { return len(b.its) }
func (b *mapBox[K, V]) keepAlive()  { runtime.KeepAlive(b.m) }

func (b *mapBox[K, V]) insert(s int) {
	sl := &b.r.slots[s]
	b.m.Add(b.key(sl.k), b.val(sl.v)) // the result is C10's business
}

func (b *mapBox[K, V]) remove(s int) { b.m.Remove(b.key(b.r.slots[s].k)) }
func (b *mapBox[K, V]) touch(int)    {}

func (b *mapBox[K, V]) clear() {
	it := b.m.Iterator()
	for it.HasNext() {
		e, ok := it.Next()
		if !ok {
			continue
		}
		b.m.Remove(e.Key)
		if o := b.obj(e.Key); o != nil && b.r.slots[o.Slot].k == o {
			b.r.dropped(o.Slot)
		}
	}
	it.Close()
}

func (b *mapBox[K, V]) present(key *Obj) bool {
	_, ok := b.m.Get(b.key(key))
	return ok
}

func (b *mapBox[K, V]) openIter() bool {
	if len(b.its) >= MaxReachIters {
		return false
	}
	b.its = append(b.its, b.m.Iterator())
	return true
}

func (b *mapBox[K, V]) advance(i, n int) {
	it := b.its[i]
	for ; n > 0; n-- {
		if _, ok := it.Next(); !ok {
			return
		}
	}
}

func (b *mapBox[K, V]) closeAll() {
	for i, it := range b.its {
		it.Close()
		b.its[i] = nil
	}
	b.its = b.its[:0]
}

// ---------------------------------------------------------------------------------------------
// the three caches behind box

type lruAPI interface {
	GetOrCreate(*Obj) (*Obj, error)
	Remove(*Obj) bool
	Clear() int
}

type lruBox struct {
	r   *reachRunner
	api lruAPI
}

func (b *lruBox) pk(s int) *Obj {
	if sl := &b.r.slots[s]; sl.pk != nil {
		return sl.pk
	} else {
		return sl.k
	}
}

func (b *lruBox) isMap() bool         { return false }
func (b *lruBox) open() int           { return 0 }
func (b *lruBox) keepAlive()          { runtime.KeepAlive(b.api) }
func (b *lruBox) insert(s int)        { b.api.GetOrCreate(b.pk(s)) }
func (b *lruBox) touch(s int)         { b.api.GetOrCreate(b.pk(s)) }
func (b *lruBox) remove(s int)        { b.api.Remove(b.pk(s)) }
func (b *lruBox) clear()              { b.api.Clear() }
func (b *lruBox) present(o *Obj) bool { return b.api.Remove(o) }
func (b *lruBox) openIter() bool      { return false }
func (b *lruBox) advance(int, int)    {}
func (b *lruBox) closeAll()           {}

// Hash identifies the case.
func (c ReachCase) Hash() uint64 { return vstat.Hash(c) }
