package p_map

import (
	"math"
	"testing"

	"pgregory.net/rapid"
	"verifharness/internal/vstat"
)

func recordReach(c ReachCase, info ReachInfo) {
	st := vstat.For(propC11)
	st.Case(info.NonTrivial(), c.Hash(), func() any { return c }, info.Classes()...)
	st.AddExtra("reach_measurements", int64(info.Measures))
	st.AddExtra("reach_garbage_collections", int64(info.Cycles))
	st.AddExtra("reach_removed_entries", int64(info.Removed))
	for role, n := range info.Watched {
		st.AddExtra("reach_watched_"+roleNames[role]+"_objects", int64(n))
	}
	for role := range info.MaxRetained {
		reachMax[role] = max(reachMax[role], info.MaxRetained[role])
		reachMaxOpen[role] = max(reachMaxOpen[role], info.MaxPinned[role])
	}
	// what the measurements found (per measurement, not per case)
	for i, name := range []string{"0", "1", "2_up_to_the_bound"} {
		st.Class("reach_measurement_all_iterators_closed_ended_with_"+name+"_objects_of_removed_entries_reachable", int64(info.ClosedHist[i]))
		st.Class("reach_measurement_n_iterators_open_ended_with_n_plus_"+name+"_objects_of_removed_entries_reachable", int64(info.OpenHist[i]))
	}
	for i, name := range []string{"1", "2", "3", "4_or_more"} {
		st.Class("reach_measurement_took_"+name+"_collections", int64(info.CycleHist[i]))
	}
}

// largest counts seen by this process (evidence)
var reachMax, reachMaxOpen [nRoles]int

// genReach: every random choice is a rapid draw. Three cases in four start with the shape the
// property is about - fill every slot, (maps: park some iterators,) thin the container out to
// survivors spread evenly over its history, or clear it - and continue with a free op list; one in
// four is a free op list only. Sizes come from a ladder; the bound of the oracle is the same on
// every rung.
func genReach(t *rapid.T, kinds []string) ReachCase {
	c := ReachCase{Kind: rapid.SampledFrom(kinds).Draw(t, "kind")}
	c.Slots = rapid.SampledFrom([]int{8, 64, 200, 1000, 4000}).Draw(t, "slots")
	if rapid.IntRange(0, 11).Draw(t, "sizeclass") == 11 {
		c.Slots = rapid.SampledFrom(vstat.Pick([]int{20000}, []int{20000, 100000})).Draw(t, "bigslots")
	}
	isMap := isMapKind(c.Kind)
	if !isMap {
		c.Cap = max(1, rapid.SampledFrom([]int{c.Slots, c.Slots, c.Slots, 2 * c.Slots, c.Slots / 2, c.Slots / 10}).Draw(t, "cap"))
		if rapid.IntRange(0, 9).Draw(t, "unbounded") == 0 { // a cache that never evicts: entries leave by Remove / Clear / expiry replacement only
			c.Cap = rapid.SampledFrom([]int{math.MaxInt, math.MaxInt, math.MaxInt - 1, 1 << 40, 1 << 31, 1 << 16}).Draw(t, "hugeCap")
		}
	}
	n := c.Slots
	cnt := rapid.OneOf(rapid.IntRange(0, n), rapid.IntRange(0, min(n, 3)), rapid.IntRange(n-n/4, n))
	from := rapid.OneOf(rapid.Just(0), rapid.IntRange(0, n-1))
	stride := rapid.OneOf(rapid.SampledFrom([]int{0, 2, 3, 7, 16, 50, 63, 64, 65, 100, 128, 257, 1000}), rapid.IntRange(0, n))
	opGen := rapid.Custom(func(t *rapid.T) ReachOp {
		op := ReachOp{From: from.Draw(t, "from"), N: cnt.Draw(t, "n")}
		hi := 15
		if isMap {
			hi = 19
		}
		switch k := rapid.IntRange(0, hi).Draw(t, "kind"); {
		case k >= 14 && !isMap:
			op = genFlight(t, op.From)
		case k <= 3:
			op.K = RAdd
		case k <= 7:
			op.K, op.Stride, op.Off, op.Rev = RThin, stride.Draw(t, "stride"), rapid.IntRange(0, 70).Draw(t, "off"), rapid.Bool().Draw(t, "rev")
		case k <= 9:
			op.K, op.Stride = RTouch, rapid.SampledFrom([]int{0, 2, 5, 64}).Draw(t, "tstride")
		case k <= 10:
			op = ReachOp{K: RClear}
		case k <= 11:
			op = ReachOp{K: RMeasure}
		case k <= 13:
			op.K, op.Stride = RExpire, rapid.SampledFrom([]int{0, 2, 5}).Draw(t, "xstride")
			if c.Kind != KindLruExpirable {
				op = ReachOp{K: RMeasure}
			}
		case k <= 15:
			op = ReachOp{K: RIters, N: rapid.OneOf(rapid.IntRange(1, 3), rapid.IntRange(1, 8), rapid.IntRange(1, MaxReachIters)).Draw(t, "its"), Stride: rapid.IntRange(0, n).Draw(t, "spacing")}
		case k <= 17:
			op = ReachOp{K: RAdv, N: op.N}
		default:
			op = ReachOp{K: RCloseAll}
		}
		return op
	})
	var ops []ReachOp
	nScen := 3
	if !isMap {
		nScen = 4
	}
	switch rapid.IntRange(0, nScen).Draw(t, "scenario") {
	case 0:
	case 1, 2: // fill, thin out
		ops = append(ops, ReachOp{K: RAdd, N: n})
		if isMap && rapid.Bool().Draw(t, "parkIterators") {
			ops = append(ops, ReachOp{K: RIters, N: rapid.OneOf(rapid.IntRange(1, 3), rapid.IntRange(1, 8), rapid.IntRange(1, MaxReachIters)).Draw(t, "its"), Stride: rapid.IntRange(0, n/4).Draw(t, "spacing")})
		}
		ops = append(ops, ReachOp{K: RThin, N: n, Stride: stride.Draw(t, "stride"), Off: rapid.IntRange(0, 70).Draw(t, "off"), Rev: rapid.Bool().Draw(t, "rev")})
	case 3: // fill, clear, use again
		ops = append(ops, ReachOp{K: RAdd, N: n}, ReachOp{K: RClear}, ReachOp{K: RAdd, N: rapid.IntRange(0, min(n, 5)).Draw(t, "again")})
	default: // caches: some residents, then creations that are overtaken by Remove / Clear while they are in flight
		ops = append(ops, ReachOp{K: RAdd, N: cnt.Draw(t, "residents")}, genFlight(t, from.Draw(t, "from")))
	}
	ops = append(ops, rapid.SliceOfN(opGen, 0, 8).Draw(t, "ops")...)
	// the way the history ends before the container is left idle and measured: as drawn, or with a removal (caches at capacity:
	// an eviction) followed by exactly one more insertion, or with removals only
	switch rapid.IntRange(0, 3).Draw(t, "ending") {
	case 0:
		ops = append(ops, ReachOp{K: RTake, From: from.Draw(t, "from"), N: rapid.IntRange(1, 3).Draw(t, "takeN")}, ReachOp{K: RPut, From: from.Draw(t, "from"), N: 1})
	case 1:
		ops = append(ops, ReachOp{K: RPut, From: from.Draw(t, "from"), N: rapid.IntRange(1, 3).Draw(t, "putN")}, ReachOp{K: RPut, From: from.Draw(t, "from"), N: 1})
	case 2:
		ops = append(ops, ReachOp{K: RTake, From: from.Draw(t, "from"), N: rapid.IntRange(1, MaxTake).Draw(t, "takeN")})
	}
	c.Ops = ops
	return c
}

// genFlight draws an RFlight op: 1..3 or 9..MaxFlights creations, overtaken by Remove or by Clear, all failing or every 2nd/3rd succeeding.
func genFlight(t *rapid.T, from int) ReachOp {
	return ReachOp{K: RFlight, From: from,
		N:      rapid.OneOf(rapid.IntRange(1, 3), rapid.IntRange(ReachSlack+1, MaxFlights)).Draw(t, "flights"),
		Stride: rapid.SampledFrom([]int{0, 0, 2, 3}).Draw(t, "everyNthSucceeds"),
		Off:    rapid.IntRange(0, 2).Draw(t, "off"),
		Rev:    rapid.Bool().Draw(t, "overtakenByClear")}
}

func reachTest(t *testing.T, test string, kinds []string) {
	running(propC11, test)
	st := vstat.For(propC11)
	ReachMinCycles = vstat.EnvInt("VERIF_REACH_MINCYCLES", 1)
	reachMax, reachMaxOpen = [nRoles]int{}, [nRoles]int{}
	defer func() {
		t.Logf("most objects of removed entries (keys, values, primary keys) still reachable at the end of a measurement: %v with every iterator closed, %v with up to %d open; bound %v + open iterators",
			reachMax, reachMaxOpen, MaxReachIters, reachSlack)
	}()
	rapid.Check(t, func(t *rapid.T) {
		c := genReach(t, kinds)
		info, v := RunReach(c)
		st.Report(t, test, c, v)
		recordReach(c, info)
	})
}

// TestC11ReachMap: reachability oracle on iterable.Map (no hook needed).
func TestC11ReachMap(t *testing.T) { reachTest(t, "TestC11ReachMap", MapKinds) }

// TestC11ReachLru: reachability oracle on the three caches (no hook needed).
func TestC11ReachLru(t *testing.T) { reachTest(t, "TestC11ReachLru", LruKinds) }

func replayReach(t *testing.T, path string) {
	var c ReachCase
	if _, err := vstat.LoadReplay(path, &c); err != nil {
		t.Fatalf("cannot decode the case of %s: %v", path, err)
	}
	running(propC11, "TestReplay")
	info, v := RunReach(c)
	if info.Diverged {
		t.Logf("the container disagrees with the harness about the live set (functional divergence, see C10/C08): no C11 verdict")
	}
	vstat.For(propC11).Report(t, "TestReplay", c, v)
	recordReach(c, info)
}
