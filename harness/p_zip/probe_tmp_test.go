package p_zip

import (
	"fmt"
	"testing"
)

func TestProbeSpell(t *testing.T) {
	tree := func() TreeCase {
		return TreeCase{Filter: "nil", Dirs: []Dir{{Parent: -1, Name: "a"}, {Parent: 0, Name: "src"}},
			Files: []File{{Dir: -1, Name: "f", Content: Content{Data: []byte("f")}}, {Dir: 0, Name: "g", Content: Content{Data: []byte("g")}}, {Dir: 1, Name: "h", Content: Content{Data: []byte("h")}}},
			Echo:  []Echo{{Kind: "abs", Dir: -1, Under: "backup"}, {Kind: "spelled", Dir: 0, Pre: "x", AsFile: true, Suf: ".bak"}}}
	}
	for _, cwd := range Cwds {
		for _, rel := range []bool{false, true} {
			if rel && cwd == "" {
				continue
			}
			for _, d := range Decors {
				for _, tr := range Trails {
					for _, rec := range []bool{true, false} {
						c := tree()
						c.Recursive = rec
						c.Spelling = Spelling{Cwd: cwd, Src: Spell{Rel: rel, Decor: d, Trail: tr}, SrcUnclean: true}
						info, v := RunTree(c)
						res := "ok"
						if v != nil {
							res = v.Sig
						}
						if info.Infra != "" {
							res = "INFRA " + info.Infra
						}
						fmt.Printf("SRC cwd=%-6s rel=%-5v decor=%-7s trail=%-3s rec=%-5v -> %s\n", cwd, rel, d, tr, rec, res)
					}
				}
			}
		}
	}
	for _, cwd := range Cwds {
		for _, rel := range []bool{false, true} {
			if rel && cwd == "" {
				continue
			}
			for _, d := range Decors {
				for _, tr := range Trails {
					for _, exists := range []bool{true, false} {
						c := tree()
						c.Recursive = true
						c.DestExists = exists
						c.Spelling = Spelling{Cwd: cwd, Src: Spell{Rel: rel}, Dest: Spell{Rel: rel, Decor: d, Trail: tr}, Zip: Spell{Rel: !rel && cwd != "", Decor: d}}
						info, v := RunTree(c)
						res := "ok"
						if v != nil {
							res = v.Sig + " " + v.Msg
						}
						if info.Infra != "" {
							res = "INFRA " + info.Infra
						}
						fmt.Printf("DST cwd=%-6s rel=%-5v decor=%-7s trail=%-3s exists=%-5v -> %s\n", cwd, rel, d, tr, exists, res)
					}
				}
			}
		}
	}
}
