package p_zip

import (
	"os"
	"path/filepath"
	"strings"
	"sync"
)

// The SPELLING of the path arguments of the two calls, and its echo inside the tree.
//
// A caller hands paths to ZipFolder / UnzipToFolder the way it has them: absolute, relative to its working directory,
// with a trailing slash, with "./", "//", "/./" or a ".." detour inside. All of them name the same three file system
// objects; the statement is about the objects (the tree, the archive, the destination), not about the strings.

// Spell is the way ONE path argument is written.
//
//	Rel    relative to the working directory of the case (TreeCase.Spelling.Cwd must name one), e.g. "src", "../src",
//	       "c20t-123/src"
//	Decor  ""        nothing further
//	       "dot"     "./" in front of a relative spelling; "/./" before the last component of an absolute one
//	       "middot"  "/./" before the last component ("./x" when there is a single component)
//	       "dslash"  "//" before the last component (".//x" when there is a single component)
//	       "detour"  a ".." detour through a directory that exists next to the object: <dir>/outside/../<last>
//	       "lead2"   absolute only: two leading slashes (POSIX leaves "//x" to the implementation, Linux reads it as "/x")
//	Trail  "", "/", "//", "/." appended (directories only)
type Spell struct {
	Rel   bool   `json:"rel,omitempty"`
	Decor string `json:"decor,omitempty"`
	Trail string `json:"trail,omitempty"`
}

// Decors and Trails list the values of Spell.Decor and Spell.Trail.
var (
	Decors = []string{"", "dot", "middot", "dslash", "detour", "lead2"}
	Trails = []string{"", "/", "//", "/."}
)

// Spelling is the spelling of the three path arguments of a tree case.
//
// Cwd: the working directory the process is in WHILE a library call runs (chdir right before the call, back right
// after it; process-wide, therefore serialised by cwdMu and never used from a parallel test):
//
//	""       the process stays where it is; Rel spellings are then written absolute
//	"base"   {BASE}, the scratch directory of the case: the source is "src", the archive "out.zip", the destination "dest"
//	"work"   {BASE}/work, an empty directory made for the purpose ("../src", "../out.zip", "../dest"); must stay empty
//	"parent" the directory that holds {BASE} ("<name of BASE>/src": a relative spelling of two components)
//
// The source directory takes Rel and TreeCase.TrailingSlash, and with SrcUnclean every Decor and Trail; archive and
// destination take every Decor (the destination every Trail too).
type Spelling struct {
	Cwd  string `json:"cwd,omitempty"`
	Src  Spell  `json:"src,omitzero"`
	Zip  Spell  `json:"zip,omitzero"`
	Dest Spell  `json:"dest,omitzero"`
	// SrcUnclean: let Src.Decor / Src.Trail through for the source directory as well ("./src", "a/./src", "a/../src",
	// "src/.", "src//"): the tree is the same tree however its directory is spelled. (The tree at the pinned commit stored
	// wrong entry names for such spellings and skipped every file of "src//" when not recursive: defect 16 of DESIGN.md §5.)
	SrcUnclean bool `json:"src_unclean,omitempty"`
}

// Cwds lists the values of Spelling.Cwd.
var Cwds = []string{"", "base", "work", "parent"}

func (s Spelling) plain() bool { return s == Spelling{} }

// cwdMu serialises the chdir windows (the working directory belongs to the whole process).
var cwdMu sync.Mutex

// inDir runs f with the working directory set to dir ("" = unchanged) and puts the old one back, also when f panics.
func inDir(dir string, f func()) error {
	if dir == "" {
		f()
		return nil
	}
	cwdMu.Lock()
	defer cwdMu.Unlock()
	old, err := os.Getwd()
	if err != nil {
		return err
	}
	if err := os.Chdir(dir); err != nil {
		return err
	}
	defer os.Chdir(old)
	f()
	return nil
}

// spellPath writes the clean absolute path abs the way s says. cwd: the absolute working directory ("" = none);
// sibling: the name of a directory that exists in the directory of abs (for the detour).
func spellPath(abs, cwd string, s Spell, sibling string, dirOK bool) string {
	p := abs
	if s.Rel && cwd != "" {
		if r, err := filepath.Rel(cwd, abs); err == nil {
			p = r
		}
	}
	isRel := !strings.HasPrefix(p, "/")
	dir, last, hasDir := "", p, false
	if i := strings.LastIndexByte(p, '/'); i >= 0 {
		dir, last, hasDir = p[:i], p[i+1:], true
	}
	glue := func(mid string) string { // dir + mid + last, mid starting and ending with '/'
		if hasDir {
			return dir + mid + last
		}
		return "." + mid + last
	}
	switch s.Decor {
	case "dot":
		if isRel {
			p = "./" + p
		} else {
			p = glue("/./")
		}
	case "middot":
		p = glue("/./")
	case "dslash":
		p = glue("//")
	case "detour":
		if hasDir {
			p = dir + "/" + sibling + "/../" + last
		} else {
			p = sibling + "/../" + last
		}
	case "lead2":
		if !isRel {
			p = "/" + p
		}
	}
	if dirOK {
		p += s.Trail
	}
	return p
}

// Echo is an entry of the source tree whose NAME repeats the spelling of the source directory: a tree may hold a
// directory named like itself, a copy of its own relative spelling, a mirror of its absolute path (backups do), and
// files whose names contain such strings. What is echoed (Kind):
//
//	"last"     the last component of the source directory ("src")
//	"spelled"  the source argument as the case spells it, cleaned, without leading "/", "./" and "../" ("src",
//	           "<name of BASE>/src"; for an absolute spelling the same as "abs")
//	"abs"      the clean absolute path of the source directory without the leading "/": every directory of it, one in another
//
// The echoed string E becomes the relative path Under / Pre+E+Suf below directory Dir (as File.Dir); its '/' separate
// directories (mkdir -p). AsFile: the last component of that path is a regular file with the content; otherwise all of
// it are directories and the regular file File (default "f.txt") sits in the innermost one. Dropped (Skipped) when a
// component is not a valid name or the file's path is taken. The files are regular files of the tree like any other.
type Echo struct {
	Kind   string `json:"kind"`
	Dir    int    `json:"dir"`
	Under  Name   `json:"under,omitempty"`
	Pre    Name   `json:"pre,omitempty"`
	Suf    Name   `json:"suf,omitempty"`
	AsFile bool   `json:"as_file,omitempty"`
	File   Name   `json:"file,omitempty"`
	Content
}

// EchoKinds lists the kinds of Echo.
var EchoKinds = []string{"last", "spelled", "abs"}

// echoString returns E for an echo kind.
func echoString(kind, src, srcArg string) string {
	switch kind {
	case "last":
		return filepath.Base(src)
	case "spelled":
		e := filepath.Clean(srcArg)
		for {
			switch {
			case strings.HasPrefix(e, "/"):
				e = e[1:]
			case strings.HasPrefix(e, "../"):
				e = e[3:]
			default:
				if e == "" || e == "." || e == ".." {
					return filepath.Base(src)
				}
				return e
			}
		}
	case "abs":
		return strings.TrimPrefix(src, "/")
	}
	panic("bad echo kind " + kind)
}
