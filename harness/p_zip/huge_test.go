package p_zip

import (
	"testing"

	"verifharness/internal/vstat"
)

// HugeSizes are the sizes of the big file, one per shard: the zip format's 32-bit sentinel, the first size that needs
// zip64, and one a little beyond it.
var HugeSizes = []int64{1<<32 - 1, 1 << 32, 1<<32 + 4097}

// TestC20Huge: round trips of a tree with one file at / beyond 4 GiB (thorough tier only; each needs the size of the
// file in real scratch space for the extracted copy and is skipped with an 'inconclusive' note when there is not enough).
func TestC20Huge(t *testing.T) {
	st := vstat.For(prop)
	shard, shards := vstat.Shard()
	for i, size := range HugeSizes {
		if i%shards != shard {
			continue
		}
		c := HugeCase{Size: size, Small: 1000,
			Marks: []int64{0, 1<<31 - 1, 1 << 31, 1<<32 - 2, 1<<32 - 1, 1 << 32, 1<<32 + 1, size - 1, size / 3}}
		info, v := RunHuge(c)
		if info.Infra != "" {
			t.Fatalf("infra: %s", info.Infra)
		}
		if info.Skip != "" {
			st.Inconclusivef("huge file of %d bytes not run: %s", size, info.Skip)
			t.Logf("skipped: %s", info.Skip)
		}
		st.Report(t, "TestC20Huge", c, v)
		st.Case(info.Skip == "", HashHuge(c), func() any { return c }, info.Classes()...)
	}
}
