package p_zip

import (
	"bytes"
	"hash/adler32"
	"hash/crc32"
	"os"
	"strconv"
	"syscall"
)

// Collide returns a byte string of the same length as data that differs from it and has the same CRC-32 (IEEE, the
// checksum a zip entry records) - and, when the last 192 bytes of data leave room for it, the same Adler-32 as well.
// Size, CRC-32 and Adler-32 are what cheap "is this file already the same" tests look at; a tree may hold two such
// contents like any other two. ok=false for len(data) < 5: CRC-32 is injective on the strings of one length <= 4.
//
// Construction: CRC-32 is affine over GF(2), so the effect of XOR-ing a difference into the data is linear in the
// difference, and differences on disjoint bytes add up. Among more than 32 candidate modifications some non-empty
// subset therefore leaves the CRC unchanged (Gaussian elimination over their 32-bit effects finds it). Candidates that
// also keep Adler-32 are the second-difference patterns (+1,-2,+1) / (-1,+2,-1) on three consecutive bytes (they change
// neither the byte sum nor the position-weighted sum); where fewer than 33 of them fit, single-bit flips in the last
// bytes are used and only the CRC-32 agrees.
func Collide(data []byte) (out []byte, adlerToo, ok bool) {
	n := len(data)
	if n < 5 {
		return nil, false, false
	}
	t0 := max(0, n-192)
	tail := data[t0:]
	tab := crc32.IEEETable
	prefix := crc32.Update(0, tab, data[:t0])
	base := crc32.Update(prefix, tab, tail)
	type mod struct {
		at    int
		delta [3]int // added to tail[at], tail[at+1], tail[at+2]
		flip  byte   // or: xor-ed into tail[at]
	}
	apply := func(b []byte, m mod) {
		if m.flip != 0 {
			b[m.at] ^= m.flip
			return
		}
		for k, d := range m.delta {
			b[m.at+k] = byte(int(b[m.at+k]) + d)
		}
	}
	solve := func(mods []mod) []byte {
		var basisV [32]uint32
		var basisM [32]uint64
		var have [32]bool
		buf := make([]byte, len(tail))
		for j, m := range mods {
			copy(buf, tail)
			apply(buf, m)
			v, mask := crc32.Update(prefix, tab, buf)^base, uint64(1)<<uint(j)
			for b := 31; b >= 0 && v != 0; b-- {
				if v&(1<<uint(b)) == 0 {
					continue
				}
				if !have[b] {
					have[b], basisV[b], basisM[b] = true, v, mask
					break
				}
				v ^= basisV[b]
				mask ^= basisM[b]
			}
			if v == 0 {
				res := append([]byte(nil), data...)
				for k, mk := range mods {
					if mask&(1<<uint(k)) != 0 {
						apply(res[t0:], mk)
					}
				}
				return res
			}
		}
		return nil
	}
	var mods []mod
	for at := 0; at+3 <= len(tail) && len(mods) < 64; at += 3 {
		a, b, c := tail[at], tail[at+1], tail[at+2]
		switch {
		case a <= 254 && b >= 2 && c <= 254:
			mods = append(mods, mod{at: at, delta: [3]int{1, -2, 1}})
		case a >= 1 && b <= 253 && c >= 1:
			mods = append(mods, mod{at: at, delta: [3]int{-1, 2, -1}})
		}
	}
	if len(mods) >= 33 {
		if res := solve(mods); res != nil && !bytes.Equal(res, data) && crc32.ChecksumIEEE(res) == base && adler32.Checksum(res) == adler32.Checksum(data) {
			return res, true, true
		}
	}
	mods = mods[:0]
	for at := len(tail) - 1; at >= 0 && len(mods) < 48; at-- {
		for bit := 0; bit < 8; bit++ {
			mods = append(mods, mod{at: at, flip: 1 << uint(bit)})
		}
	}
	if res := solve(mods); res != nil && !bytes.Equal(res, data) && crc32.ChecksumIEEE(res) == base {
		return res, adler32.Checksum(res) == adler32.Checksum(data), true
	}
	return nil, false, false
}

// lowerNoFile lowers the soft RLIMIT_NOFILE of the process so that at least `room` more descriptors can still be opened
// (limit = highest descriptor in use + 1 + room) and returns the function that puts the old limit back. Lowering the
// limit closes nothing; it only refuses new descriptors numbered at or above it. The caller makes sure nothing else
// in the process opens files in between (the checks of this package run one case at a time, and the harness starts no
// goroutine of its own here). ok=false: the limit could not be read or set (or is lower already); nothing was changed.
func lowerNoFile(room int) (restore func(), ok bool) {
	noop := func() {}
	var old syscall.Rlimit
	if err := syscall.Getrlimit(syscall.RLIMIT_NOFILE, &old); err != nil {
		return noop, false
	}
	ents, err := os.ReadDir("/proc/self/fd")
	if err != nil {
		return noop, false
	}
	hi := 2
	for _, e := range ents {
		if k, err := strconv.Atoi(e.Name()); err == nil && k > hi {
			hi = k
		}
	}
	lim := uint64(hi + 1 + room)
	if lim >= old.Cur {
		return noop, false
	}
	if err := syscall.Setrlimit(syscall.RLIMIT_NOFILE, &syscall.Rlimit{Cur: lim, Max: old.Max}); err != nil {
		return noop, false
	}
	return func() { syscall.Setrlimit(syscall.RLIMIT_NOFILE, &old) }, true
}
