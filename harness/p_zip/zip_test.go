package p_zip

import (
	"encoding/json"
	"strings"
	"testing"
	"unicode/utf8"

	"pgregory.net/rapid"
	"verifharness/internal/enum"
	"verifharness/internal/vstat"
)

const prop = "C20"

func TestMain(m *testing.M) { vstat.Main(m) }

func recordTree(c TreeCase, info TreeInfo) {
	vstat.For(prop).Case(info.NonTrivial(), HashTree(c), func() any { return c }, info.Classes()...)
}

func recordArchive(c ArchiveCase, info ArchiveInfo) {
	vstat.For(prop).Case(info.NonTrivial(), HashArchive(c), func() any { return c }, info.Classes()...)
}

// ---------------------------------------------------------------------------------------------
// generators: trees

var fixedNames = []string{
	".hidden", "a..b", "x.tar.gz", "...", "..a", "a..", ".a.", "a.", "a b", " lead", "trail ", "two  spaces", ".. ", " ",
	"ä", "日本", "😀", "日本 語.txt", "файл.zip", "é", "ñandú.TXT", "f1", "f2", "F1", "README", "-rf", "~", "a+b", "#x", "%2e%2e",
	"CON", "nul", "a-b_c", "0", "x.ziputil", "..hidden..", ". .", "a.b.c.d.e",
	"src", "src", "dest", "out.zip", // the names the harness itself uses for the source dir, the destination and the archive
}

var asciiRunes = []rune("abcdefghijklmnopqrstuvwxyzABCDEFGHIJKLMNOPQRSTUVWXYZ0123456789")
var dotSpaceRunes = []rune("abcXYZ019 ..  -_")
var uniRunes = []rune("äöüßéèñçøåλπжщ日本語中文한글😀🎉✓→ aZ.9")

func truncate(s string, n int) string {
	if len(s) <= n {
		return s
	}
	valid := utf8.ValidString(s)
	s = s[:n]
	for valid && len(s) > 0 && !utf8.ValidString(s) { // do not cut a rune of a valid name in two
		s = s[:len(s)-1]
	}
	return s
}

// names that are not valid UTF-8, control characters, backslashes and the replacement character itself
var rawNames = []string{
	"caf\xe9.txt", "caf\xe8.txt", "\x80", "\xbf", "\xc3", "\xe6\x97", "\xf0\x9f\x98", "\xfe", "\xff", "\xc0\xaf", "\xc0\xae\xc0\xae", "\xed\xa0\x80",
	"a\nb", "a\tb", "\x7f", "\x01", "\r", "a\x1b[31m", "\ufffd", "a\ufffd", "\xff\xfe", "na\xefve", "\xe4\xf6\xfc", "a\\b", "\\",
}
var rawFamilies = [][2]string{{"caf", ".txt"}, {"", ""}, {"a", "b"}, {"日", "本"}}
var rawVariants = []string{"\xe9", "\xe8", "\xff", "\xfe", "\x80", "\ufffd", "\xc3", "\xe9\xe9", "\xff\xff", "\ufffd\ufffd"}

// fixName maps the few strings outside the domain (".", "..", "", names with '/' or NUL) into it.
func fixName(s string) string {
	s = strings.NewReplacer("/", "_", "\x00", "_").Replace(s)
	s = truncate(s, 200)
	if s == "" || s == "." || s == ".." {
		return s + "_"
	}
	return s
}

func genName(t *rapid.T) string {
	var s string
	switch rapid.IntRange(0, 15).Draw(t, "nameKind") {
	case 12:
		// arbitrary bytes 0x01..0xFF: Linux names are byte strings ('/' is mapped to '_' by fixName)
		s = string(rapid.SliceOfN(rapid.ByteRange(1, 255), 1, 12).Draw(t, "rawName"))
	case 13:
		s = rapid.SampledFrom(rawNames).Draw(t, "name")
	case 14, 15:
		// families of siblings that differ only in bytes that are not valid UTF-8 (or in U+FFFD itself)
		fam := rapid.SampledFrom(rawFamilies).Draw(t, "family")
		s = fam[0] + rapid.SampledFrom(rawVariants).Draw(t, "variant") + fam[1]
	case 0, 1, 2, 3:
		s = rapid.StringOfN(rapid.RuneFrom(asciiRunes), 1, 10, -1).Draw(t, "name")
	case 4, 5:
		s = rapid.SampledFrom(fixedNames).Draw(t, "name")
	case 6, 7:
		s = rapid.StringOfN(rapid.RuneFrom(dotSpaceRunes), 1, 15, -1).Draw(t, "name")
	case 8, 9:
		s = rapid.StringOfN(rapid.RuneFrom(uniRunes), 1, 10, -1).Draw(t, "name")
	case 10:
		s = rapid.SampledFrom([]string{"f", "a", "b", "x", "f1", "f2"}).Draw(t, "name") // provoke name clashes and suffix hits
	default:
		unit := rapid.StringOfN(rapid.RuneFrom(uniRunes), 1, 6, -1).Draw(t, "unit")
		n := rapid.IntRange(100, 200).Draw(t, "longLen")
		s = truncate(strings.Repeat(unit, 1+n/len(unit)), n)
	}
	return fixName(s)
}

func genContent(t *rapid.T) Content {
	switch k := rapid.IntRange(0, 39).Draw(t, "contentKind"); {
	case k < 9:
		return Content{}
	case k < 26:
		return Content{Data: rapid.SliceOfN(rapid.Byte(), 1, 120).Draw(t, "data")}
	case k < 29:
		return Content{Pad: rapid.IntRange(1, 5000).Draw(t, "zeros")} // zero bytes only
	case k < 35:
		return Content{Data: rapid.SliceOfN(rapid.Byte(), 0, 16).Draw(t, "data"),
			Pad: rapid.IntRange(1, 70000).Draw(t, "pad"), Seed: rapid.Uint64Range(0, 1<<40).Draw(t, "padSeed")}
	case k < 39:
		// around the usual buffer sizes
		base := rapid.SampledFrom([]int{4096, 32768, 65536}).Draw(t, "boundary")
		return Content{Pad: base + rapid.IntRange(-2, 2).Draw(t, "delta"), Seed: rapid.Uint64Range(1, 1<<40).Draw(t, "padSeed")}
	default:
		return Content{Pad: (1 << 20) + rapid.IntRange(-70000, 70000).Draw(t, "bigDelta"), Seed: rapid.Uint64Range(0, 1<<40).Draw(t, "padSeed")}
	}
}

// The element generators do not depend on the elements drawn before (indices are interpreted modulo by
// RunTree), so that rapid can shrink the lists structurally.
var dirGen = rapid.Custom(func(t *rapid.T) Dir {
	parent := -1
	if rapid.IntRange(0, 2).Draw(t, "nest") > 0 {
		parent = rapid.IntRange(0, 7).Draw(t, "parent")
	}
	// one directory in eight is named like a path component of the arguments of the two calls: the base name of the
	// source directory, of the destination, of the archive, of the directory next to the tree that holds outside names
	if rapid.IntRange(0, 7).Draw(t, "namedLikeAnArgument") == 7 {
		return Dir{Parent: parent, Name: Name(rapid.SampledFrom([]string{"src", "src", "dest", "out.zip", "outside"}).Draw(t, "argName"))}
	}
	return Dir{Parent: parent, Name: Name(genName(t))}
})

var fileGen = rapid.Custom(func(t *rapid.T) File {
	f := File{Dir: -1}
	if rapid.IntRange(0, 2).Draw(t, "inDir") > 0 {
		f.Dir = rapid.IntRange(0, 7).Draw(t, "dir")
	}
	f.Name = Name(genName(t))
	f.Content = genContent(t)
	// one file in four has a permission mode of its own (none at all, write-only, execute-only, read-only, special bits ...)
	if rapid.IntRange(0, 3).Draw(t, "hasMode") == 0 {
		f.Perm = rapid.SampledFrom(FileModes).Draw(t, "mode")
	}
	return f
})

var smallContentGen = rapid.Custom(func(t *rapid.T) Content {
	switch rapid.IntRange(0, 5).Draw(t, "extraKind") {
	case 0:
		return Content{}
	case 1:
		return Content{Pad: rapid.IntRange(1, 40000).Draw(t, "pad"), Seed: rapid.Uint64Range(0, 1<<40).Draw(t, "padSeed")}
	default:
		return Content{Data: rapid.SliceOfN(rapid.Byte(), 1, 60).Draw(t, "data")}
	}
})

var preGen = rapid.Custom(func(t *rapid.T) PreFile {
	p := PreFile{Of: -1}
	if rapid.IntRange(0, 4).Draw(t, "atSourcePath") > 0 {
		p.Of = rapid.IntRange(0, 24).Draw(t, "of")
		p.Rel = rapid.SampledFrom([]string{"longer", "longer", "longer", "shorter", "samelen", "collide", "collide", "empty", "own"}).Draw(t, "rel")
	} else {
		p.Dir = rapid.IntRange(-1, 7).Draw(t, "dir")
		p.Name = Name(genName(t))
	}
	p.Extra = smallContentGen.Draw(t, "extra")
	return p
})

var editGen = rapid.Custom(func(t *rapid.T) Edit {
	e := Edit{
		Of:    rapid.IntRange(0, 24).Draw(t, "of"),
		Op:    rapid.SampledFrom([]string{"shrink", "shrink", "empty", "grow", "rewrite", "samelen", "collide", "collide", "delete", "add", "replace"}).Draw(t, "op"),
		Extra: smallContentGen.Draw(t, "extra"),
	}
	if e.Op == "add" {
		pre, suf := genAffixes(t)
		e.Pre, e.Suf = Name(pre), Name(suf)
	}
	return e
})

// ---- related names: names derived from the name of another entry of the same directory. Helper files of an
// implementation (temporary, backup, lock, partial-download files) are named exactly like that, next to the
// file they belong to; a tree may legitimately hold such a name as a file of its own.

var relPrefixes = []string{".", ".", "~", "_", "#", ".#", "._", ".~", "..", "~$", "tmp", "tmp.", ".tmp", ".tmp.", " ", "-", "$", "Copy of ", "new", "old."}
var relSuffixes = []string{".tmp", ".tmp", ".bak", ".part", ".swp", ".swo", "~", ".", "..", " ", ". ", ".orig", ".old", ".new", ".lock", ".partial",
	".TMP", ".Tmp", ".1", ".0", "-1", " (1)", "#", "$", "_", ".d", ".zip", ".gz", ",v", ".tmp~"}
var affixRunes = []rune(".~_-# $tmpbakswo01TMP")

// genAffixes draws a (prefix, suffix) pair, at least one of them non-empty.
func genAffixes(t *rapid.T) (pre, suf string) {
	switch k := rapid.IntRange(0, 9).Draw(t, "affixKind"); {
	case k < 3:
		suf = rapid.SampledFrom(relSuffixes).Draw(t, "suffix")
	case k < 5:
		pre = rapid.SampledFrom(relPrefixes).Draw(t, "prefix")
	case k < 9:
		pre = rapid.SampledFrom(relPrefixes).Draw(t, "prefix")
		suf = rapid.SampledFrom(relSuffixes).Draw(t, "suffix")
	default:
		pre = rapid.StringOfN(rapid.RuneFrom(affixRunes), 0, 4, -1).Draw(t, "freePrefix")
		suf = rapid.StringOfN(rapid.RuneFrom(affixRunes), 0, 5, -1).Draw(t, "freeSuffix")
		if pre == "" && suf == "" {
			suf = "~"
		}
	}
	return pre, suf
}

// deriv describes one extra entry named after an entry the case already has (Of modulo their number).
// Target: "file" - a file next to a file; "dirfile" - a file next to a directory, named after the directory;
// "filedir" - a directory (holding the file Inner) next to a file, named after the file.
// The base name is first stripped (Strip: 1 leading '.', '~', '#', '_'; 2 the last extension; 3 trailing
// dots and spaces), then its letter case is changed (Case: 1 upper, 2 lower, 3 first letter swapped), then
// Pre and Suf are added.
type deriv struct {
	Target   string
	Of       int
	Pre, Suf string
	Strip    int
	Case     int
	Inner    string
	Content  Content
}

var derivGen = rapid.Custom(func(t *rapid.T) deriv {
	d := deriv{
		Target: rapid.SampledFrom([]string{"file", "file", "file", "file", "dirfile", "filedir"}).Draw(t, "target"),
		Of:     rapid.IntRange(0, 30).Draw(t, "of"),
	}
	switch k := rapid.IntRange(0, 9).Draw(t, "derivKind"); {
	case k < 6:
		d.Pre, d.Suf = genAffixes(t)
	case k < 7: // remove something, add something
		d.Strip = rapid.IntRange(1, 3).Draw(t, "strip")
		d.Pre, d.Suf = genAffixes(t)
	case k < 8: // remove only
		d.Strip = rapid.IntRange(1, 3).Draw(t, "strip")
	default: // case variants, with or without affixes
		d.Case = rapid.IntRange(1, 3).Draw(t, "case")
		if rapid.Bool().Draw(t, "caseAndAffix") {
			d.Pre, d.Suf = genAffixes(t)
		}
	}
	if d.Target == "filedir" {
		d.Inner = genName(t)
	}
	d.Content = genContent(t)
	if d.Content.Pad >= 512<<10 { // the large files are drawn with the file list
		d.Content.Pad = 700
	}
	return d
})

func swapFirstLetter(s string) string {
	for i, r := range s {
		switch {
		case r >= 'a' && r <= 'z', r >= 'A' && r <= 'Z':
			return s[:i] + string(r^0x20) + s[i+1:]
		}
	}
	return s
}

// derivedName applies d to base; "" when nothing changes.
func derivedName(base string, d deriv) string {
	n := base
	switch d.Strip {
	case 1:
		n = strings.TrimLeft(n, ".~#_")
	case 2:
		if i := strings.LastIndexByte(n, '.'); i > 0 {
			n = n[:i]
		}
	case 3:
		n = strings.TrimRight(n, ". ")
	}
	switch d.Case {
	case 1:
		n = strings.ToUpper(n)
	case 2:
		n = strings.ToLower(n)
	case 3:
		n = swapFirstLetter(n)
	}
	if !utf8.ValidString(base) && d.Case != 0 && d.Case != 3 {
		n = base // ToUpper/ToLower would replace the invalid bytes: keep raw names byte exact
	}
	n = d.Pre + truncate(n, 200-len(d.Pre)-len(d.Suf)) + d.Suf
	if n == base {
		return ""
	}
	return fixName(n)
}

// applyDeriv appends the entry described by d to the case (File.Dir indices must be < len(c.Dirs) already).
func applyDeriv(c *TreeCase, d deriv) {
	nf, nd := len(c.Files), len(c.Dirs)
	target := d.Target
	if target != "dirfile" && nf == 0 {
		target = "dirfile"
	}
	if target == "dirfile" && nd == 0 {
		if nf == 0 {
			return
		}
		target = "file"
	}
	switch target {
	case "file", "filedir":
		base := c.Files[d.Of%nf]
		name := derivedName(string(base.Name), d)
		if name == "" {
			return
		}
		if target == "file" {
			c.Files = append(c.Files, File{Dir: base.Dir, Name: Name(name), Content: d.Content})
			return
		}
		c.Dirs = append(c.Dirs, Dir{Parent: base.Dir, Name: Name(name)})
		c.Files = append(c.Files, File{Dir: nd, Name: Name(d.Inner), Content: d.Content})
	case "dirfile":
		i := d.Of % nd
		name := derivedName(string(c.Dirs[i].Name), d)
		if name == "" {
			return
		}
		parent := -1
		if c.Dirs[i].Parent >= 0 && i > 0 {
			parent = c.Dirs[i].Parent % i
		}
		c.Files = append(c.Files, File{Dir: parent, Name: Name(name), Content: d.Content})
	}
}

// linkGen: an entry related to an entry the tree already has - a further name of an inode, in the directory of the first
// name or in another one or outside the tree; an independent copy; a symbolic link to a file or a directory.
var linkGen = rapid.Custom(func(t *rapid.T) Link {
	l := Link{
		Kind: rapid.SampledFrom([]string{"hard", "hard", "hard", "hard", "hard", "copy", "symfile", "symfile", "symdir"}).Draw(t, "linkKind"),
		Of:   rapid.IntRange(0, 24).Draw(t, "of"),
		Dir:  rapid.SampledFrom([]int{-2, -2, -1, 0, 1, 2, 3, 4, 5, 6, 7}).Draw(t, "dir"),
	}
	switch l.Kind {
	case "hard":
		l.Outside = rapid.IntRange(0, 5).Draw(t, "outside") == 0
	case "symfile":
		l.Outside = rapid.IntRange(0, 3).Draw(t, "outside") == 0
		l.Abs = rapid.Bool().Draw(t, "abs")
	case "symdir":
		l.Abs = rapid.Bool().Draw(t, "abs")
	}
	// a name of its own, or a short one with a usual extension (so that suffix filters tell the names of an inode apart)
	if rapid.Bool().Draw(t, "plainName") {
		l.Name = Name(rapid.SampledFrom([]string{"link", "l", "f2", "copy", "a b"}).Draw(t, "stem") + rapid.SampledFrom([]string{"", ".txt", ".dat", ".lnk", ".bak", "~"}).Draw(t, "ext"))
	} else {
		l.Name = Name(genName(t))
	}
	return l
})

var destOpGen = rapid.Custom(func(t *rapid.T) DestOp {
	return DestOp{
		Kind: rapid.SampledFrom([]string{"all", "all", "dir", "dir", "dir", "file", "file", "contents"}).Draw(t, "kind"),
		Of:   rapid.IntRange(0, 24).Draw(t, "of"),
	}
})

var roundGen = rapid.Custom(func(t *rapid.T) Round {
	var r Round
	if rapid.IntRange(0, 3).Draw(t, "remove") > 0 {
		r.Remove = rapid.SliceOfN(destOpGen, 1, 3).Draw(t, "removals")
	}
	if rapid.IntRange(0, 2).Draw(t, "edit") > 0 { // otherwise: the same archive again
		r.Edits = rapid.SliceOfN(editGen, 1, 6).Draw(t, "edits")
	}
	if rapid.IntRange(0, 2).Draw(t, "failBefore") == 0 { // a call that cannot succeed precedes the round
		r.Fail = rapid.SliceOfN(failGen, 1, 2).Draw(t, "fail")
	}
	return r
})

var failGen = rapid.Custom(func(t *rapid.T) FailOp {
	op := FailOp{Kind: rapid.SampledFrom(FailKinds).Draw(t, "failKind")}
	if strings.HasPrefix(op.Kind, "unzip_") {
		op.At = rapid.OneOf(rapid.IntRange(0, 999), rapid.SampledFrom([]int{0, 1, 500, 990, 999})).Draw(t, "failAt")
	}
	return op
})

// spellGen: the way one path argument is written (the decorations are not applied to the source directory, see Spelling).
var spellGen = rapid.Custom(func(t *rapid.T) Spell {
	s := Spell{Rel: rapid.Bool().Draw(t, "relative")}
	if rapid.IntRange(0, 2).Draw(t, "decorated") > 0 {
		s.Decor = rapid.SampledFrom(Decors[1:]).Draw(t, "decor")
	}
	if rapid.Bool().Draw(t, "trailing") {
		s.Trail = rapid.SampledFrom(Trails[1:]).Draw(t, "trail")
	}
	return s
})

// echoGen: an entry named after the source directory - its last component, its spelling in the call, its absolute path -
// as a chain of directories with a file inside or as a file name that contains the string, bare or with the usual affixes,
// directly in a directory of the tree or below a folder such as "backup".
var echoGen = rapid.Custom(func(t *rapid.T) Echo {
	e := Echo{Dir: -1, Kind: rapid.SampledFrom([]string{"last", "spelled", "spelled", "abs", "abs"}).Draw(t, "echoKind")}
	if rapid.IntRange(0, 2).Draw(t, "inDir") > 0 {
		e.Dir = rapid.IntRange(0, 7).Draw(t, "dir")
	}
	switch rapid.IntRange(0, 3).Draw(t, "under") {
	case 0:
		e.Under = Name(rapid.SampledFrom([]string{"backup", ".snapshot", "old", "src", "dest"}).Draw(t, "underName"))
	case 1:
		e.Under = Name(genName(t))
	}
	if rapid.IntRange(0, 2).Draw(t, "affixed") == 0 {
		pre, suf := genAffixes(t)
		e.Pre, e.Suf = Name(pre), Name(suf)
	}
	e.AsFile = rapid.IntRange(0, 2).Draw(t, "asFile") == 0
	if !e.AsFile && rapid.Bool().Draw(t, "ownFileName") {
		e.File = Name(genName(t))
	}
	e.Content = smallContentGen.Draw(t, "content")
	return e
})

func genTree(t *rapid.T) TreeCase {
	var c TreeCase
	if rapid.IntRange(0, 5).Draw(t, "haveDirs") > 0 {
		// rapid prefers short lists; a drawn lower bound spreads the sizes
		c.Dirs = rapid.SliceOfN(dirGen, rapid.IntRange(1, 6).Draw(t, "minDirs"), 8).Draw(t, "dirs")
	}
	maxFiles := 25
	if rapid.IntRange(0, 3).Draw(t, "few") == 0 {
		maxFiles = 4
	}
	c.Files = rapid.SliceOfN(fileGen, rapid.IntRange(0, maxFiles*3/4).Draw(t, "minFiles"), maxFiles).Draw(t, "files")
	// entries named after other entries of the same directory (appended: the lists above stay as drawn)
	for i := range c.Files {
		switch {
		case len(c.Dirs) == 0:
			c.Files[i].Dir = -1
		case c.Files[i].Dir >= 0:
			c.Files[i].Dir %= len(c.Dirs)
		}
	}
	if rapid.IntRange(0, 1).Draw(t, "relatedNames") == 0 {
		for _, d := range rapid.SliceOfN(derivGen, 1, 6).Draw(t, "derivs") {
			applyDeriv(&c, d)
		}
	}
	// a third of the trees hold entries that are related through the file system: hard links, copies, symbolic links
	if rapid.IntRange(0, 2).Draw(t, "links") == 0 {
		c.Links = rapid.SliceOfN(linkGen, 1, 4).Draw(t, "linkList")
	}
	nd := len(c.Dirs)
	bigs := 0
	for i := range c.Files {
		if c.Files[i].Pad >= 512<<10 {
			bigs++
			if bigs > 2 { // "a few" large files
				c.Files[i].Pad = 1000
			}
		}
	}
	c.Recursive = rapid.IntRange(0, 2).Draw(t, "recursive") > 0
	c.TrailingSlash = rapid.Bool().Draw(t, "trailingSlash")
	// a third of the cases spell the arguments the way callers do: from a working directory, relative, with "./", "//",
	// "/./", a ".." detour, trailing slashes (the source directory: relative or absolute, clean)
	if rapid.IntRange(0, 2).Draw(t, "spelled") == 0 {
		c.Spelling.Cwd = rapid.SampledFrom(Cwds).Draw(t, "cwd")
		c.Spelling.Src.Rel = c.Spelling.Cwd != "" && rapid.IntRange(0, 3).Draw(t, "srcRelative") > 0
		if rapid.IntRange(0, 2).Draw(t, "srcDecorated") == 0 {
			// the source directory written the way the other arguments are: "./src", "a/./src", "a//src", a ".." detour, "src/."
			sp := spellGen.Draw(t, "srcSpell")
			c.Spelling.Src.Decor, c.Spelling.Src.Trail = sp.Decor, sp.Trail
			c.Spelling.SrcUnclean = true
		}
		c.Spelling.Zip = spellGen.Draw(t, "zipSpell")
		c.Spelling.Zip.Trail = ""
		c.Spelling.Dest = spellGen.Draw(t, "destSpell")
	}
	// a quarter of the trees hold entries named after the source directory itself
	if rapid.IntRange(0, 3).Draw(t, "echoes") == 0 {
		c.Echo = rapid.SliceOfN(echoGen, 1, 2).Draw(t, "echoList")
	}
	c.DestExists = rapid.Bool().Draw(t, "destExists")
	// extraction over an existing directory / a second zip+unzip round after the source changed
	if rapid.IntRange(0, 2).Draw(t, "prepopulate") == 0 {
		c.Pre = rapid.SliceOfN(preGen, 1, 6).Draw(t, "pre")
	}
	// further rounds into the same destination path: removals in the destination, source edits (or none)
	if rapid.IntRange(0, 2).Draw(t, "moreRounds") == 0 {
		c.Rounds = rapid.SliceOfN(roundGen, 1, 3).Draw(t, "rounds")
	}
	// one case in six starts with calls that cannot succeed
	if rapid.IntRange(0, 5).Draw(t, "failFirst") == 0 {
		c.FailFirst = rapid.SliceOfN(failGen, 1, 2).Draw(t, "fails")
	}
	// about one tree in 120 has hundreds of files and is zipped and extracted while the process may open only a few dozen
	// more descriptors (1 in 200: the limit alone, on an ordinary tree)
	// (rapid draws small values of a range far more often than large ones: the rare shapes sit in the upper half)
	switch k := rapid.IntRange(0, 255).Draw(t, "manyFiles"); {
	case k >= 200 && k < 206:
		c.Many = rapid.IntRange(120, 500).Draw(t, "many")
		c.FDRoom = rapid.SampledFrom([]int{16, 32, 64, 100}).Draw(t, "fdRoom")
	case k >= 206 && k < 210:
		c.FDRoom = rapid.SampledFrom([]int{16, 32, 64, 100}).Draw(t, "fdRoom")
	}
	c.Filter = rapid.SampledFrom([]string{"nil", "nil", "suffix", "suffix", "dir", "notdir", "none"}).Draw(t, "filter")
	switch c.Filter {
	case "suffix":
		// a tail of some file's name (possibly crossing into its directory name), or a fixed one
		var cands []string
		for _, f := range c.Files {
			cands = append(cands, string(f.Name))
			if f.Dir >= 0 && nd > 0 {
				cands = append(cands, string(c.Dirs[f.Dir%nd].Name)+"/"+string(f.Name))
			}
		}
		for _, l := range c.Links {
			cands = append(cands, string(l.Name))
		}
		for _, e := range c.Echo {
			if !e.AsFile && e.File == "" {
				cands = append(cands, "src/f.txt")
			}
		}
		cands = append(cands, "f2", ".txt", "", "/f")
		s := rapid.SampledFrom(cands).Draw(t, "suffixOf")
		start := rapid.IntRange(0, len(s)).Draw(t, "suffixStart")
		for start < len(s) && !utf8.RuneStart(s[start]) {
			start++
		}
		c.Arg = Name(s[start:])
	case "dir", "notdir":
		cands := []string{"nomatch", "src"}
		for _, d := range c.Dirs {
			cands = append(cands, string(d.Name))
		}
		for _, f := range c.Files { // a file name is not a directory component
			cands = append(cands, string(f.Name))
			break
		}
		c.Arg = Name(rapid.SampledFrom(cands).Draw(t, "dirArg"))
	}
	return c
}

func TestC20TreeRapid(t *testing.T) {
	st := vstat.For(prop)
	rapid.Check(t, func(t *rapid.T) {
		c := genTree(t)
		info, v := RunTree(c)
		if info.Infra != "" {
			t.Fatalf("infra: %s", info.Infra)
		}
		st.Report(t, "TestC20TreeRapid", c, v)
		recordTree(c, info)
	})
}

// TestC20TreeModes: systematic trees in which every permission mode of FileModes sits on a file in the source directory
// and on a file in a sub-directory (empty and non-empty contents), under every filter kind and both values of the
// recursive flag, in one round and over two rounds with the files rewritten in between. Modes under which the process
// cannot open a file are put back to 0644 by RunTree (unreadable files are outside the domain).
func TestC20TreeModes(t *testing.T) {
	st := vstat.For(prop)
	shard, shards := vstat.Shard()
	n := 0
	for _, filter := range []struct {
		kind string
		arg  Name
	}{{"nil", ""}, {"suffix", ".dat"}, {"dir", "sub"}, {"notdir", "sub"}} {
		for _, recursive := range []bool{true, false} {
			for _, rounds := range []int{1, 2} {
				n++
				if n%shards != shard {
					continue
				}
				c := TreeCase{Filter: filter.kind, Arg: filter.arg, Recursive: recursive, Dirs: []Dir{{Parent: -1, Name: "sub"}, {Parent: 0, Name: "deep"}}}
				for i, m := range FileModes {
					c.Files = append(c.Files,
						File{Dir: -1, Name: Name("top-" + m + ".dat"), Perm: m, Content: Content{Data: []byte("top " + m)}},
						File{Dir: i % 2, Name: Name("in-" + m + []string{".dat", ".txt"}[i%2]), Perm: m, Content: Content{Pad: (i % 3) * 3000, Seed: uint64(i)}})
				}
				c.Files = append(c.Files, File{Dir: -1, Name: "plain.dat", Content: Content{Data: []byte("plain")}})
				if rounds == 2 {
					for i := range c.Files {
						c.Edits = append(c.Edits, Edit{Of: i, Op: []string{"grow", "rewrite", "shrink", "samelen"}[i%4], Extra: Content{Data: []byte("second round")}})
					}
				}
				info, v := RunTree(c)
				if info.Infra != "" {
					t.Fatalf("infra: %s", info.Infra)
				}
				st.Report(t, "TestC20TreeModes", c, v)
				recordTree(c, info)
			}
		}
	}
}

// TestC20TreeLinks: one systematic tree that holds every relation between entries a file system offers - two and three
// names of one inode in one directory and across directories (a name in the source directory for a file deep in the
// tree and the other way round), a hard-linked empty file, a hard-linked file of several buffers, a name outside the
// tree, an independent copy, symbolic links to files (relative, absolute, outside) and to directories (a sub-directory,
// the source directory itself) - under every filter kind and both values of the recursive flag, in one round and over
// three rounds with edits written through one name, one name deleted, one name replaced by a new inode.
func TestC20TreeLinks(t *testing.T) {
	st := vstat.For(prop)
	shard, shards := vstat.Shard()
	n, ran := 0, 0
	for _, filter := range []struct {
		kind string
		arg  Name
	}{{"nil", ""}, {"suffix", ".dat"}, {"suffix", ".txt"}, {"dir", "sub"}, {"notdir", "sub"}} {
		for _, recursive := range []bool{true, false} {
			for _, rounds := range []int{1, 3} {
				n++
				if n%shards != shard {
					continue
				}
				c := TreeCase{Filter: filter.kind, Arg: filter.arg, Recursive: recursive, TrailingSlash: n%2 == 0,
					Dirs: []Dir{{Parent: -1, Name: "sub"}, {Parent: 0, Name: "deep"}, {Parent: -1, Name: "other"}},
					Files: []File{
						{Dir: -1, Name: "a.dat", Content: Content{Data: []byte("content of a")}}, // 0
						{Dir: -1, Name: "e.dat"}, // 1 (empty)
						{Dir: 0, Name: "s.txt", Content: Content{Data: []byte("content of s")}},         // 2
						{Dir: 1, Name: "d.dat", Content: Content{Pad: 5000, Seed: 5}},                   // 3
						{Dir: 2, Name: "o.txt", Content: Content{Data: []byte("content of o")}},         // 4
						{Dir: -1, Name: "big.dat", Perm: "0444", Content: Content{Pad: 70000, Seed: 9}}, // 5
					},
					Links: []Link{
						{Kind: "hard", Of: 0, Dir: -2, Name: "a-link.dat"},   // 6: same directory
						{Kind: "hard", Of: 0, Dir: 0, Name: "a-in-sub.txt"},  // 7: another directory, another extension
						{Kind: "hard", Of: 6, Dir: 2, Name: "a3.dat"},        // 8: a third name, made from the second
						{Kind: "hard", Of: 1, Dir: 2, Name: "e-link.dat"},    // 9: empty file
						{Kind: "hard", Of: 2, Outside: true},                 //    one name in the tree, one outside
						{Kind: "hard", Of: 3, Dir: -1, Name: "d-top.dat"},    // 10: deep file, second name in the source directory
						{Kind: "hard", Of: 5, Dir: 1, Name: "big2.dat"},      // 11: top file, second name deep in the tree
						{Kind: "copy", Of: 0, Dir: -2, Name: "a-copy.dat"},   // 12
						{Kind: "hard", Of: 4, Dir: -2, Name: "o-link.txt"},   // 13
						{Kind: "symfile", Of: 4, Dir: -1, Name: "o-sym.txt"}, // relative target
						{Kind: "symfile", Of: 2, Dir: 2, Name: "s-sym.dat", Abs: true},
						{Kind: "symfile", Of: 0, Dir: 0, Name: "out-sym.dat", Outside: true},
						{Kind: "symdir", Of: 1, Dir: -1, Name: "sub-sym"},
						{Kind: "symdir", Of: 0, Dir: 1, Name: "up.dat"}, // the source directory itself, from two levels down
						{Kind: "symdir", Of: 3, Dir: 0, Name: "other-sym.txt", Abs: true},
					}}
				if rounds > 1 {
					c.Rounds = []Round{
						{Edits: []Edit{
							{Of: 7, Op: "grow", Extra: Content{Data: []byte(" and more")}}, // through the second name
							{Of: 9, Op: "rewrite", Extra: Content{Data: []byte("no longer empty")}},
							{Of: 3, Op: "samelen"},
							{Of: 11, Op: "shrink"},
							{Of: 12, Op: "collide"},
						}},
						{Remove: []DestOp{{Kind: "dir", Of: 0}}, Edits: []Edit{
							{Of: 0, Op: "delete"}, // the first name goes, the inode stays under two others
							{Of: 4, Op: "delete"}, // target of a symbolic link, the inode stays under o-link.txt
							{Of: 10, Op: "replace", Extra: Content{Data: []byte("a new inode under an old name")}},
							{Of: 5, Op: "empty"},
							{Of: 2, Op: "replace", Extra: Content{Data: []byte("content of s")}}, // same bytes, new inode
						}},
					}
				}
				info, v := RunTree(c)
				if info.Infra != "" {
					t.Fatalf("infra: %s", info.Infra)
				}
				st.Report(t, "TestC20TreeLinks", c, v)
				recordTree(c, info)
				ran++
			}
		}
	}
	st.SetExhaustive("trees_with_linked_entries", map[string]any{"cases_this_shard": ran, "shards": shards})
}

// TestC20TreeManyFiles: systematic trees with more regular files than the process may open descriptors while ZipFolder
// and UnzipToFolder run (FDRoom): flat and nested, one or two rounds, with and without a filter.
func TestC20TreeManyFiles(t *testing.T) {
	st := vstat.For(prop)
	shard, shards := vstat.Shard()
	nest := []Dir{{Parent: -1, Name: "a"}, {Parent: 0, Name: "b"}, {Parent: 1, Name: "c"}, {Parent: -1, Name: "d d"}}
	cases := []TreeCase{
		{Many: 300, FDRoom: 32, Recursive: true, Filter: "nil"},
		{Many: 200, FDRoom: 16, Dirs: nest, Recursive: true, Filter: "nil", TrailingSlash: true, DestExists: true,
			Rounds: []Round{{Edits: []Edit{{Of: 7, Op: "grow", Extra: Content{Data: []byte("more")}}}}}},
		{Many: 260, FDRoom: 100, Dirs: nest, Recursive: true, Filter: "notdir", Arg: "b", Files: []File{{Dir: -1, Name: "plain.txt", Content: Content{Pad: 5000, Seed: 7}}}},
	}
	if vstat.Thorough() {
		cases = append(cases,
			TreeCase{Many: 1200, FDRoom: 250, Dirs: nest, Recursive: true, Filter: "nil"}, // the default soft limit of some systems is 256
			TreeCase{Many: 700, FDRoom: 64, Recursive: false, Filter: "suffix", Arg: ".dat", Rounds: []Round{{Remove: []DestOp{{Kind: "dir", Of: 1}}}}},
			TreeCase{Many: 2100, FDRoom: 1000, Dirs: nest[:1], Recursive: true, Filter: "nil"}) // ... of most others 1024
	}
	n := 0
	for i, c := range cases {
		if i%shards != shard {
			continue
		}
		info, v := RunTree(c)
		if info.Infra != "" {
			t.Fatalf("infra: %s", info.Infra)
		}
		st.Report(t, "TestC20TreeManyFiles", c, v)
		recordTree(c, info)
		n++
	}
	st.SetExhaustive("trees_with_more_files_than_descriptors", map[string]any{"cases_this_shard": n, "shards": shards})
}

// TestC20TreeSpellings: one small tree that echoes the source directory in every way (a directory named like it, its
// spelling in the call as a directory chain and inside a file name, a mirror of its absolute path below "backup" and
// directly below a sub-directory, files whose names contain its name) under a systematic walk through working directory x
// spelling of the source (absolute / relative, with and without the trailing slash) x spelling of the archive x spelling
// of the destination (every decoration x every trailing form, present or absent before the call) x filter x recursive
// flag, one round or two rounds with edits in between. The lists are stepped through together (the destination list with an
// extra step per pass through the source list) so that a full walk would pair every value of one list with every value of
// another; the walk is cut to the budget of the tier.
func TestC20TreeSpellings(t *testing.T) {
	st := vstat.For(prop)
	shard, shards := vstat.Shard()
	type srcSp struct {
		cwd   string
		rel   bool
		slash bool
	}
	var srcs []srcSp
	for _, cwd := range Cwds {
		for _, rel := range []bool{false, true} {
			for _, slash := range []bool{false, true} {
				if rel && cwd == "" {
					continue
				}
				srcs = append(srcs, srcSp{cwd, rel, slash})
			}
		}
	} // 14
	var dests, zips []Spell
	for _, rel := range []bool{true, false} {
		for _, d := range Decors {
			zips = append(zips, Spell{Rel: rel, Decor: d})
			for _, tr := range Trails {
				dests = append(dests, Spell{Rel: rel, Decor: d, Trail: tr})
			}
		}
	}
	dests = append(dests, Spell{}) // 49
	var srcDecor []Spell
	for _, d := range Decors {
		for _, tr := range Trails {
			if d != "" || tr == "//" || tr == "/." {
				srcDecor = append(srcDecor, Spell{Decor: d, Trail: tr})
			}
		}
	}
	zips = zips[:11] // 11: the last one (absolute, lead2) is met through the destination list
	filters := []struct {
		kind string
		arg  Name
	}{{"nil", ""}, {"suffix", ".txt"}, {"dir", "src"}, {"notdir", "src"}, {"suffix", "src/f.txt"}}
	total := vstat.Pick(154, 14*49) // thorough: every source spelling meets every destination spelling
	ran := 0
	for n := 0; n < total; n++ {
		if n%shards != shard {
			continue
		}
		s, f := srcs[n%len(srcs)], filters[n%len(filters)]
		srcSpell, unclean := Spell{Rel: s.rel}, false
		if k := (n / 2) % (2 * len(srcDecor)); k < len(srcDecor) { // half of the cases decorate the source directory as well
			srcSpell.Decor, srcSpell.Trail, unclean = srcDecor[k].Decor, srcDecor[k].Trail, true
		}
		c := TreeCase{Filter: f.kind, Arg: f.arg, Recursive: n%3 != 0, TrailingSlash: s.slash && !unclean, DestExists: (n/len(srcs))%2 == 0,
			Spelling: Spelling{Cwd: s.cwd, Src: srcSpell, SrcUnclean: unclean, Zip: zips[n%len(zips)], Dest: dests[(n+n/len(srcs))%len(dests)]},
			Dirs:     []Dir{{Parent: -1, Name: "a"}, {Parent: 0, Name: "src"}},
			Files: []File{
				{Dir: -1, Name: "plain.txt", Content: Content{Data: []byte("plain")}},
				{Dir: -1, Name: "src", Content: Content{Data: []byte("a file named like the source directory")}},
				{Dir: 0, Name: "mysrc.txt", Content: Content{Data: []byte("name contains it")}},
				{Dir: 1, Name: "f.txt", Content: Content{Data: []byte("below a/src")}},
				{Dir: 1, Name: "src.d"},
			},
			Echo: []Echo{
				{Kind: "abs", Dir: -1, Under: "backup", Content: Content{Data: []byte("mirror")}},
				{Kind: "spelled", Dir: 0, File: "g.dat", Content: Content{Data: []byte("relative spelling again")}},
				{Kind: "spelled", Dir: -1, Pre: "copy-of-", Suf: ".bak", AsFile: true, Content: Content{Data: []byte("in a file name")}},
				{Kind: "abs", Dir: 1, Suf: "~", Content: Content{Pad: 3000, Seed: 3}},
				{Kind: "last", Dir: 1, Under: "src", File: "src"},
			}}
		if (n/3)%4 == 1 {
			c.Rounds = []Round{{Remove: []DestOp{{Kind: "dir", Of: n}}, Edits: []Edit{{Of: 5, Op: "grow", Extra: Content{Data: []byte(" more")}}, {Of: n, Op: "delete"}}}}
		}
		info, v := RunTree(c)
		if info.Infra != "" {
			t.Fatalf("infra: %s", info.Infra)
		}
		st.Report(t, "TestC20TreeSpellings", c, v)
		recordTree(c, info)
		ran++
	}
	st.SetExhaustive("trees_under_spelled_arguments", map[string]any{"cases_this_shard": ran, "walk": total, "sources": len(srcs), "archives": len(zips), "destinations": len(dests), "shards": shards})
}

// ---------------------------------------------------------------------------------------------
// generators: archives

var segPool = []string{"..", "..", "..", ".", "", "a", "a", "b", "x", "x", "new", "newdir", "d8x", "d8", "d7", "archive.zip", "d8.txt", "...", "..x", "lnk"}

func genEntryName(t *rapid.T) string {
	if rapid.IntRange(0, 9).Draw(t, "alphabetName") == 0 {
		return rapid.SampledFrom(HostileAlphabet()).Draw(t, "hostile").Name.str()
	}
	n := rapid.IntRange(0, 6).Draw(t, "nSeg")
	segs := make([]string, 0, n+8)
	ups := rapid.IntRange(0, 12).Draw(t, "leadingUps")
	if ups > Levels {
		ups = 0
	}
	for i := 0; i < ups; i++ {
		segs = append(segs, "..")
	}
	for i := 0; i < n; i++ {
		if rapid.IntRange(0, 7).Draw(t, "freeSeg") == 0 {
			segs = append(segs, genName(t))
		} else {
			segs = append(segs, rapid.SampledFrom(segPool).Draw(t, "seg"))
		}
	}
	// never more ".." segments than the sandbox is deep: the snapshot covers the sandbox root
	dd := 0
	for i, s := range segs {
		if s == ".." {
			dd++
			if dd > Levels {
				segs[i] = "x"
			}
		}
	}
	sep := "/"
	if rapid.IntRange(0, 11).Draw(t, "backslash") == 0 {
		sep = "\\"
	}
	name := strings.Join(segs, sep)
	switch rapid.IntRange(0, 15).Draw(t, "prefix") {
	case 0:
		name = "/" + name
	case 1:
		name = "{ROOT}/" + name
	case 2:
		name = "{DEST}/" + name
	case 3:
		name = "//" + name
	case 4:
		name = "/c20-verif-abs/" + name
	}
	if rapid.IntRange(0, 9).Draw(t, "trailingSlash") == 0 {
		name += "/"
	}
	return name
}

var entryGen = rapid.Custom(func(t *rapid.T) Entry {
	e := Entry{Name: Name(genEntryName(t))}
	switch rapid.IntRange(0, 9).Draw(t, "kind") {
	case 0:
		e.Kind = "d"
	case 1:
		e.Kind = "l"
	}
	if e.Kind != "d" {
		e.Data = rapid.SliceOfN(rapid.Byte(), 0, 40).Draw(t, "data")
	}
	e.Store = rapid.IntRange(0, 3).Draw(t, "store") == 0
	return e
})

// derived describes an extra entry named after an earlier one: the same name (duplicate) or a name
// below it (the earlier entry is then needed as a directory: clash).
type derived struct {
	Of    int
	Below string
	At    int
	Data  []byte
}

var derivedGen = rapid.Custom(func(t *rapid.T) derived {
	d := derived{Of: rapid.IntRange(0, 7).Draw(t, "of"), At: rapid.IntRange(0, 9).Draw(t, "at")}
	if rapid.Bool().Draw(t, "below") {
		d.Below = "/" + rapid.SampledFrom([]string{"b", "x", "../../x", ".."}).Draw(t, "belowName")
	}
	d.Data = rapid.SliceOfN(rapid.Byte(), 0, 8).Draw(t, "data")
	return d
})

func genArchive(t *rapid.T) ArchiveCase {
	var c ArchiveCase
	c.Entries = rapid.SliceOfN(entryGen, rapid.IntRange(0, 4).Draw(t, "minEntries"), 7).Draw(t, "entries")
	if len(c.Entries) > 0 && rapid.IntRange(0, 2).Draw(t, "derive") == 0 {
		for _, d := range rapid.SliceOfN(derivedGen, 1, 2).Draw(t, "derived") {
			e := Entry{Name: c.Entries[d.Of%len(c.Entries)].Name + Name(d.Below), Data: d.Data}
			at := d.At % (len(c.Entries) + 1)
			c.Entries = append(c.Entries[:at], append([]Entry{e}, c.Entries[at:]...)...)
		}
	}
	c.DestExists = rapid.Bool().Draw(t, "destExists")
	if rapid.IntRange(0, 9).Draw(t, "corrupt") == 0 {
		k := rapid.IntRange(1, 3).Draw(t, "nFlips")
		for i := 0; i < k; i++ {
			c.Flips = append(c.Flips, Flip{Off: rapid.IntRange(0, 4000).Draw(t, "off"), Xor: byte(rapid.IntRange(1, 255).Draw(t, "xor"))})
		}
	}
	return c
}

func TestC20ArchiveRapid(t *testing.T) {
	st := vstat.For(prop)
	sb := &Sandbox{}
	defer sb.Close()
	rapid.Check(t, func(t *rapid.T) {
		c := genArchive(t)
		info, v := RunArchiveIn(sb, c)
		if info.Infra != "" {
			t.Fatalf("infra: %s", info.Infra)
		}
		st.Report(t, "TestC20ArchiveRapid", c, v)
		recordArchive(c, info)
	})
}

// TestC20ArchiveExhaustive: every ordered list of entries from the systematic hostile alphabet up to the
// depth bound (order matters: clashes, duplicates, an early error hiding a later entry). Single entries run
// with the destination pre-existing and not; for longer lists that flag alternates with the index sum.
func TestC20ArchiveExhaustive(t *testing.T) {
	st := vstat.For(prop)
	shard, shards := vstat.Shard()
	sb := &Sandbox{}
	defer sb.Close()
	run := func(alpha []Entry, idx []int) {
		c := ArchiveCase{Entries: make([]Entry, 0, len(idx))}
		sum := 0
		for _, i := range idx {
			c.Entries = append(c.Entries, alpha[i])
			sum += i
		}
		c.DestExists = sum%2 == 1 || len(idx) == 1
		variants := []ArchiveCase{c}
		if len(idx) == 1 { // single entries: both states of the destination
			c2 := c
			c2.DestExists = false
			variants = append(variants, c2)
		}
		for _, c := range variants {
			info, v := RunArchiveIn(sb, c)
			if info.Infra != "" {
				t.Fatalf("infra: %s", info.Infra)
			}
			st.Report(t, "TestC20ArchiveExhaustive", c, v)
			recordArchive(c, info)
		}
	}
	alpha := HostileAlphabet()
	depth := vstat.Pick(2, 3)
	total := enum.Lists(len(alpha), depth, shard, shards, func(idx []int) { run(alpha, idx) })
	parts := map[string]any{"alphabet": len(alpha), "depth": depth, "lists": total, "shards": shards}
	st.SetExhaustive("hostile_entry_lists", parts)
}

// ---------------------------------------------------------------------------------------------

func TestReplay(t *testing.T) {
	p := vstat.ReplayPath()
	if p == "" {
		t.Skip("no replay requested")
	}
	env, err := vstat.LoadReplay(p, nil)
	if err != nil {
		t.Fatalf("cannot load %s: %v", p, err)
	}
	if strings.HasPrefix(env.Test, "TestC20Tree") {
		var c TreeCase
		if err := json.Unmarshal(env.Case, &c); err != nil {
			t.Fatalf("cannot decode the tree case of %s: %v", p, err)
		}
		info, v := RunTree(c)
		if info.Infra != "" {
			t.Fatalf("infra: %s", info.Infra)
		}
		vstat.For(prop).Report(t, "TestReplay", c, v)
		recordTree(c, info)
		return
	}
	if env.Test == "TestC20Huge" {
		var c HugeCase
		if err := json.Unmarshal(env.Case, &c); err != nil {
			t.Fatalf("cannot decode the huge case of %s: %v", p, err)
		}
		info, v := RunHuge(c)
		if info.Infra != "" || info.Skip != "" {
			t.Fatalf("infra: %s%s", info.Infra, info.Skip)
		}
		vstat.For(prop).Report(t, "TestReplay", c, v)
		return
	}
	var c ArchiveCase
	if err := json.Unmarshal(env.Case, &c); err != nil {
		t.Fatalf("cannot decode the archive case of %s: %v", p, err)
	}
	info, v := RunArchive(c)
	if info.Infra != "" {
		t.Fatalf("infra: %s", info.Infra)
	}
	vstat.For(prop).Report(t, "TestReplay", c, v)
	recordArchive(c, info)
}
