// Package lockstep forces an order on the critical sections of a mutex-protected component, through a
// test-only accessor that lets the harness hold the component's own mutex.
//
// While the harness holds the mutex it starts `first` and, a little later, `second`; both block on the mutex, in
// that order, for longer than a millisecond. sync.Mutex then is in starvation mode and hands the lock over in
// FIFO order: first's next critical section, then second's, then - if first comes back for another critical
// section - first's again. An operation that is one critical section is simply ordered first, second. An operation
// that (wrongly) spreads a check and the action depending on it over two critical sections gets the other
// operation squeezed in between, deterministically instead of once in a million runs.
//
// The accessor (VerifWithLock in the overlay hooks) unlocks and immediately re-locks the mutex once after the set-up, so
// that the first woken waiter finds it taken, flags starvation and the FIFO hand-over is really in force.
//
// The order is a strong tendency, not a guarantee (it needs the goroutines to be scheduled within the waits); a
// missed squeeze can only hide a defect, never invent one.
package lockstep

import (
	"sync"
	"time"
)

// Squeeze runs first and second as described. withLock must run its argument while holding the component's mutex.
// It returns as soon as the mutex has been let go; the returned channel is closed when both functions have
// returned (one of them may never do so if the component under test loses a wake-up).
func Squeeze(withLock func(func()), first, second func()) <-chan struct{} {
	var wg sync.WaitGroup
	wg.Add(2)
	withLock(func() {
		s1 := make(chan struct{})
		go func() { defer wg.Done(); close(s1); first() }()
		<-s1
		time.Sleep(1500 * time.Microsecond)
		s2 := make(chan struct{})
		go func() { defer wg.Done(); close(s2); second() }()
		<-s2
		time.Sleep(2500 * time.Microsecond)
	})
	done := make(chan struct{})
	go func() { wg.Wait(); close(done) }()
	return done
}
