// Package enum is the bounded-exhaustive enumerator: all lists over a finite alphabet up to a depth.
package enum

// Lists calls f with every list over [0,alphabet) of length 1..depth whose first element e
// satisfies e % shards == shard (the empty list is given to shard 0). The slice is reused.
// It returns the number of lists produced.
func Lists(alphabet, depth, shard, shards int, f func(ops []int)) int64 {
	var n int64
	if shards <= 0 {
		shards = 1
	}
	if shard == 0 {
		f(nil)
		n++
	}
	buf := make([]int, 0, depth)
	// shortest lists first, so that the first failure reported is a minimal one
	for d := 1; d <= depth; d++ {
		var rec func()
		rec = func() {
			if len(buf) == d {
				f(buf)
				n++
				return
			}
			for e := 0; e < alphabet; e++ {
				if len(buf) == 0 && e%shards != shard {
					continue
				}
				buf = append(buf, e)
				rec()
				buf = buf[:len(buf)-1]
			}
		}
		rec()
	}
	return n
}
