// Package gated provides kvs.Storage wrappers whose calls are scheduled or disturbed by a check:
// Storage parks every call of a registered worker goroutine until the scheduler releases it
// (schedule control at storage-operation granularity, with request-lost / reply-lost faults).
package gated

import (
	"bytes"
	"context"
	"errors"
	"runtime"
	"strconv"
	"sync"

	"github.com/acquirecloud/golibs/container/iterable"
	"github.com/acquirecloud/golibs/kvs"
)

// Outcome of releasing a parked call.
type Outcome int

const (
	OK          Outcome = iota // forward the call, return its result
	RequestLost                // do not forward, return ErrInjected
	ReplyLost                  // forward, drop the result, return ErrInjected
	Applied                    // forward the call now and park its REPLY: the worker shows a pending "reply:<op>" until it is released again (OK: deliver the result, ReplyLost: ErrInjected)
)

func (o Outcome) String() string {
	return [...]string{"ok", "request-lost", "reply-lost", "applied-reply-parked"}[o]
}

// ErrInjected is the transient storage error injected by the harness.
var ErrInjected = errors.New("injected storage failure")

// Pending is a call parked at its gate.
type Pending struct {
	Worker int
	Op     string // create delete wait get put cas getmany putmany list
	Key    string
	ch     chan Outcome
}

// Storage is the gated wrapper. All channels are created by the goroutine that calls into it,
// so inside a synctest bubble they belong to the bubble.
type Storage struct {
	Inner kvs.Storage

	mu        sync.Mutex
	byGoid    map[uint64]int
	pending   map[int]*Pending
	open      bool  // pass everything through (teardown)
	HonourCtx bool  // refuse every call whose context is already done, as a networked backend does
	InjectErr error // what an injected failure returns (nil: ErrInjected)
	Released  int   // number of gated calls released so far
	// Observe, if set, is called with the result of every forwarded call of a registered worker.
	Observe func(worker int, op, key string, err error)
}

// New wraps inner.
func New(inner kvs.Storage) *Storage {
	return &Storage{Inner: inner, byGoid: map[uint64]int{}, pending: map[int]*Pending{}}
}

// Goid returns the id of the calling goroutine.
func Goid() uint64 {
	var buf [64]byte
	b := buf[:runtime.Stack(buf[:], false)]
	b = bytes.TrimPrefix(b, []byte("goroutine "))
	if i := bytes.IndexByte(b, ' '); i > 0 {
		b = b[:i]
	}
	n, _ := strconv.ParseUint(string(b), 10, 64)
	return n
}

// Register attributes the calling goroutine to a worker; its storage calls will be gated.
func (g *Storage) Register(worker int) {
	id := Goid()
	g.mu.Lock()
	g.byGoid[id] = worker
	g.mu.Unlock()
}

// Open lets every parked and future call pass (teardown).
func (g *Storage) Open() {
	g.mu.Lock()
	g.open = true
	ps := g.pending
	g.pending = map[int]*Pending{}
	g.mu.Unlock()
	for _, p := range ps {
		p.ch <- OK
	}
}

// PendingOf returns the parked call of a worker (nil if none).
func (g *Storage) PendingOf(worker int) *Pending {
	g.mu.Lock()
	defer g.mu.Unlock()
	return g.pending[worker]
}

// Release lets the parked call of a worker go with the given outcome. It returns the index of the
// release (0-based count of released calls) or -1 if the worker has nothing parked.
func (g *Storage) Release(worker int, o Outcome) int {
	g.mu.Lock()
	p := g.pending[worker]
	if p == nil {
		g.mu.Unlock()
		return -1
	}
	delete(g.pending, worker)
	idx := g.Released
	g.Released++
	g.mu.Unlock()
	p.ch <- o
	return idx
}

func (g *Storage) observe(op, key string, err error) {
	if g.Observe == nil {
		return
	}
	g.mu.Lock()
	w, ok := g.byGoid[Goid()]
	g.mu.Unlock()
	if ok {
		g.Observe(w, op, key, err)
	}
}

func (g *Storage) injected() error {
	if g.InjectErr != nil {
		return g.InjectErr
	}
	return ErrInjected
}

// Park parks the calling goroutine, if it is a registered worker, like a storage call named op: it shows up as the
// worker's pending call and continues when the scheduler releases it. For schedule points that are not storage calls.
func (g *Storage) Park(op, key string) Outcome { return g.enter(op, key) }

func (g *Storage) enter(op, key string) Outcome {
	id := Goid()
	g.mu.Lock()
	w, ok := g.byGoid[id]
	if !ok || g.open {
		g.mu.Unlock()
		return OK
	}
	p := &Pending{Worker: w, Op: op, Key: key, ch: make(chan Outcome, 1)}
	g.pending[w] = p
	g.mu.Unlock()
	return <-p.ch
}

func (g *Storage) Create(ctx context.Context, r kvs.Record) (string, error) {
	if g.HonourCtx && ctx.Err() != nil {
		return "", ctx.Err()
	}
	switch g.enter("create", r.Key) {
	case RequestLost:
		return "", g.injected()
	case ReplyLost:
		_, err := g.Inner.Create(ctx, r)
		g.observe("create", r.Key, err)
		return "", g.injected()
	case Applied:
		v, err := g.Inner.Create(ctx, r)
		g.observe("create", r.Key, err)
		if g.enter("reply:create", r.Key) != OK {
			return "", g.injected()
		}
		return v, err
	}
	v, err := g.Inner.Create(ctx, r)
	g.observe("create", r.Key, err)
	return v, err
}

func (g *Storage) Delete(ctx context.Context, key string) error {
	if g.HonourCtx && ctx.Err() != nil {
		return ctx.Err()
	}
	switch g.enter("delete", key) {
	case RequestLost:
		return g.injected()
	case ReplyLost:
		err := g.Inner.Delete(ctx, key)
		g.observe("delete", key, err)
		return g.injected()
	case Applied:
		err := g.Inner.Delete(ctx, key)
		g.observe("delete", key, err)
		if g.enter("reply:delete", key) != OK {
			return g.injected()
		}
		return err
	}
	err := g.Inner.Delete(ctx, key)
	g.observe("delete", key, err)
	return err
}

func (g *Storage) WaitForVersionChange(ctx context.Context, key, ver string) error {
	switch g.enter("wait", key) {
	case RequestLost:
		return g.injected()
	case ReplyLost:
		g.observe("wait-enter", key, nil)
		err := g.Inner.WaitForVersionChange(ctx, key, ver)
		g.observe("wait", key, err)
		return g.injected()
	}
	g.observe("wait-enter", key, nil)
	err := g.Inner.WaitForVersionChange(ctx, key, ver)
	g.observe("wait", key, err)
	return err
}

func (g *Storage) Get(ctx context.Context, key string) (kvs.Record, error) {
	if g.HonourCtx && ctx.Err() != nil {
		return kvs.Record{}, ctx.Err()
	}
	if g.enter("get", key) != OK {
		return kvs.Record{}, g.injected()
	}
	return g.Inner.Get(ctx, key)
}

func (g *Storage) GetMany(ctx context.Context, keys ...string) ([]*kvs.Record, error) {
	if g.enter("getmany", "") != OK {
		return nil, g.injected()
	}
	return g.Inner.GetMany(ctx, keys...)
}

func (g *Storage) Put(ctx context.Context, r kvs.Record) (kvs.Record, error) {
	if g.HonourCtx && ctx.Err() != nil {
		return kvs.Record{}, ctx.Err()
	}
	if g.enter("put", r.Key) != OK {
		return kvs.Record{}, g.injected()
	}
	return g.Inner.Put(ctx, r)
}

func (g *Storage) PutMany(ctx context.Context, rs []kvs.Record) error {
	if g.enter("putmany", "") != OK {
		return g.injected()
	}
	return g.Inner.PutMany(ctx, rs)
}

func (g *Storage) CasByVersion(ctx context.Context, r kvs.Record) (kvs.Record, error) {
	if g.HonourCtx && ctx.Err() != nil {
		return kvs.Record{}, ctx.Err()
	}
	if g.enter("cas", r.Key) != OK {
		return kvs.Record{}, g.injected()
	}
	return g.Inner.CasByVersion(ctx, r)
}

func (g *Storage) ListKeys(ctx context.Context, pattern string) (iterable.Iterator[string], error) {
	if g.enter("list", pattern) != OK {
		return nil, g.injected()
	}
	return g.Inner.ListKeys(ctx, pattern)
}

var _ kvs.Storage = (*Storage)(nil)
