package gated

import (
	"context"
	"sync"
	"time"

	"github.com/acquirecloud/golibs/container/iterable"
	"github.com/acquirecloud/golibs/kvs"
)

// Event is one logged call of a Faulty storage.
type Event struct {
	T       time.Time
	Op      string
	Key     string
	Ver     string // version argument (cas)
	Applied bool   // forwarded to the inner storage
	Err     error  // what the caller got
}

// Faulty is an un-gated fault-injecting wrapper for checks that run on the real clock:
// the k-th CasByVersion can fail (request lost), a kill switch makes every later call fail
// (the process behind this wrapper lost its storage / died), one CasByVersion can be held
// before or after it is applied, and every call is logged with a timestamp.
type Faulty struct {
	Inner kvs.Storage

	mu       sync.Mutex
	killed   bool
	casCalls int
	failCas  map[int]bool
	events   []Event

	CasDelay      time.Duration // every CasByVersion takes this long to reach the storage (a slow, but answering, storage)
	CasReplyDelay time.Duration // the reply of every applied CasByVersion takes this long to reach the caller
	CasErr        error         // what an injected CasByVersion failure returns (nil: ErrInjected)
	CreateErr     error         // what an injected Create failure returns (nil: ErrInjected)

	holdArmed bool
	holdAfter bool
	Held      chan struct{} // closed when the held call is parked
	Resume    chan struct{} // close to let it go

	// HonourCtx makes Create, Delete and CasByVersion refuse a call whose context is already done, as a
	// networked backend does (the in-memory storage ignores the context of these calls).
	HonourCtx bool

	failDelete int // 1: the next Delete is lost on the way in; 2: it is applied, its reply is lost
	createN    int
	failCreate map[int]int // k-th Create (1-based): 1 request lost, 2 applied but the reply is lost

	delHold *Hold // a hold armed for the next Delete

	createArmed  bool
	CreateHeld   chan struct{} // closed when the held Create is parked (before it is applied)
	CreateResume chan struct{} // close to let it go
}

// Hold is a parked call: Held is closed when the call is parked, closing Resume lets it go.
type Hold struct {
	After        bool // parked after the storage applied the call (its reply is delayed) instead of before
	FailOnResume bool // the call, once let go, reports ErrInjected (a held call that was not applied is then never applied)
	Held, Resume chan struct{}
}

// HoldNextDelete parks the next Delete before (after=false) or after it is applied.
func (f *Faulty) HoldNextDelete(after bool) *Hold {
	h := &Hold{After: after, Held: make(chan struct{}), Resume: make(chan struct{})}
	f.mu.Lock()
	f.delHold = h
	f.mu.Unlock()
	return h
}

// FailCreate makes the k-th (1-based) Create fail: its request is lost (applied=false) or its reply is.
func (f *Faulty) FailCreate(k int, applied bool) {
	f.mu.Lock()
	if f.failCreate == nil {
		f.failCreate = map[int]int{}
	}
	f.failCreate[k] = 1
	if applied {
		f.failCreate[k] = 2
	}
	f.mu.Unlock()
}

// FailNextDelete makes the next Delete fail: its request is lost (applied=false) or its reply is.
func (f *Faulty) FailNextDelete(applied bool) {
	f.mu.Lock()
	f.failDelete = 1
	if applied {
		f.failDelete = 2
	}
	f.mu.Unlock()
}

// HoldNextCreate parks the next Create before it is applied.
func (f *Faulty) HoldNextCreate() {
	f.mu.Lock()
	f.createArmed = true
	f.CreateHeld, f.CreateResume = make(chan struct{}), make(chan struct{})
	f.mu.Unlock()
}

// NewFaulty wraps inner.
func NewFaulty(inner kvs.Storage) *Faulty {
	return &Faulty{Inner: inner, failCas: map[int]bool{}}
}

// FailCas makes the k-th (1-based) CasByVersion call fail without reaching the storage.
func (f *Faulty) FailCas(k int) { f.mu.Lock(); f.failCas[k] = true; f.mu.Unlock() }

// Kill makes every later call fail without reaching the storage.
func (f *Faulty) Kill() { f.mu.Lock(); f.killed = true; f.mu.Unlock() }

// HoldNextCas parks the next CasByVersion before (after=false) or after (after=true) applying it.
func (f *Faulty) HoldNextCas(after bool) {
	f.mu.Lock()
	f.holdArmed, f.holdAfter = true, after
	f.Held, f.Resume = make(chan struct{}), make(chan struct{})
	f.mu.Unlock()
}

// Events returns a copy of the log.
func (f *Faulty) Events() []Event {
	f.mu.Lock()
	defer f.mu.Unlock()
	return append([]Event(nil), f.events...)
}

func (f *Faulty) log(e Event) {
	e.T = time.Now()
	f.mu.Lock()
	f.events = append(f.events, e)
	f.mu.Unlock()
}

func (f *Faulty) dead() bool { f.mu.Lock(); defer f.mu.Unlock(); return f.killed }

func (f *Faulty) Create(ctx context.Context, r kvs.Record) (string, error) {
	if f.dead() {
		f.log(Event{Op: "create", Key: r.Key, Err: ErrInjected})
		return "", ErrInjected
	}
	if f.HonourCtx && ctx.Err() != nil {
		f.log(Event{Op: "create", Key: r.Key, Err: ctx.Err()})
		return "", ctx.Err()
	}
	f.mu.Lock()
	hold, held, resume := f.createArmed, f.CreateHeld, f.CreateResume
	f.createArmed = false
	f.createN++
	fc := f.failCreate[f.createN]
	f.mu.Unlock()
	if hold {
		close(held)
		<-resume
	}
	cerr := ErrInjected
	if f.CreateErr != nil {
		cerr = f.CreateErr
	}
	if fc == 1 {
		f.log(Event{Op: "create", Key: r.Key, Err: cerr})
		return "", cerr
	}
	if fc == 2 {
		f.Inner.Create(ctx, r)
		f.log(Event{Op: "create", Key: r.Key, Applied: true, Err: cerr})
		return "", cerr
	}
	v, err := f.Inner.Create(ctx, r)
	f.log(Event{Op: "create", Key: r.Key, Applied: true, Err: err})
	return v, err
}

func (f *Faulty) Delete(ctx context.Context, key string) error {
	if f.dead() {
		f.log(Event{Op: "delete", Key: key, Err: ErrInjected})
		return ErrInjected
	}
	if f.HonourCtx && ctx.Err() != nil {
		f.log(Event{Op: "delete", Key: key, Err: ctx.Err()})
		return ctx.Err()
	}
	f.mu.Lock()
	fd := f.failDelete
	f.failDelete = 0
	h := f.delHold
	f.delHold = nil
	f.mu.Unlock()
	if h != nil {
		if !h.After {
			close(h.Held)
			<-h.Resume
			if h.FailOnResume {
				f.log(Event{Op: "delete", Key: key, Err: ErrInjected})
				return ErrInjected
			}
		}
		err := f.Inner.Delete(ctx, key)
		f.log(Event{Op: "delete", Key: key, Applied: true, Err: err})
		if h.After {
			close(h.Held)
			<-h.Resume
			if h.FailOnResume {
				return ErrInjected
			}
		}
		return err
	}
	if fd == 1 {
		f.log(Event{Op: "delete", Key: key, Err: ErrInjected})
		return ErrInjected
	}
	err := f.Inner.Delete(ctx, key)
	if fd == 2 {
		f.log(Event{Op: "delete", Key: key, Applied: true, Err: ErrInjected})
		return ErrInjected
	}
	f.log(Event{Op: "delete", Key: key, Applied: true, Err: err})
	return err
}

func (f *Faulty) CasByVersion(ctx context.Context, r kvs.Record) (kvs.Record, error) {
	f.mu.Lock()
	f.casCalls++
	k := f.casCalls
	fail := f.failCas[k] || f.killed
	hold, after := f.holdArmed, f.holdAfter
	held, resume := f.Held, f.Resume
	delay, replyDelay := f.CasDelay, f.CasReplyDelay
	if hold {
		f.holdArmed = false
	}
	f.mu.Unlock()
	if fail {
		err := ErrInjected
		if f.CasErr != nil && !f.dead() {
			err = f.CasErr
		}
		if delay > 0 && !f.dead() {
			f.pause(ctx, delay) // a request that gets lost on a slow storage: the caller learns it after the usual latency
		}
		f.log(Event{Op: "cas", Key: r.Key, Ver: r.Version, Err: err})
		return kvs.Record{}, err
	}
	if f.HonourCtx && ctx.Err() != nil {
		f.log(Event{Op: "cas", Key: r.Key, Ver: r.Version, Err: ctx.Err()})
		return kvs.Record{}, ctx.Err()
	}
	if hold && !after {
		close(held)
		<-resume
	}
	if delay > 0 && !f.pause(ctx, delay) {
		// a storage that honours contexts: the caller's context ended while the request was on its way
		f.log(Event{Op: "cas", Key: r.Key, Ver: r.Version, Err: ctx.Err()})
		return kvs.Record{}, ctx.Err()
	}
	res, err := f.Inner.CasByVersion(ctx, r)
	f.log(Event{Op: "cas", Key: r.Key, Ver: r.Version, Applied: true, Err: err})
	if replyDelay > 0 && !f.pause(ctx, replyDelay) {
		// applied, but the caller's context ended before the reply arrived
		f.log(Event{Op: "cas-reply", Key: r.Key, Ver: r.Version, Applied: true, Err: ctx.Err()})
		return kvs.Record{}, ctx.Err()
	}
	if hold && after {
		close(held)
		<-resume
	}
	return res, err
}

// SetCasDelay changes CasDelay while calls may be running.
func (f *Faulty) SetCasDelay(d time.Duration) {
	f.mu.Lock()
	f.CasDelay = d
	f.mu.Unlock()
}

// SetCasReplyDelay changes CasReplyDelay while calls may be running.
func (f *Faulty) SetCasReplyDelay(d time.Duration) {
	f.mu.Lock()
	f.CasReplyDelay = d
	f.mu.Unlock()
}

// pause lets d pass; with HonourCtx it ends early (false) when ctx is done first.
func (f *Faulty) pause(ctx context.Context, d time.Duration) bool {
	if !f.HonourCtx {
		time.Sleep(d)
		return true
	}
	t := time.NewTimer(d)
	defer t.Stop()
	select {
	case <-t.C:
		return true
	case <-ctx.Done():
		return false
	}
}

func (f *Faulty) WaitForVersionChange(ctx context.Context, key, ver string) error {
	if f.dead() {
		return ErrInjected
	}
	return f.Inner.WaitForVersionChange(ctx, key, ver)
}

func (f *Faulty) Get(ctx context.Context, key string) (kvs.Record, error) {
	if f.dead() {
		return kvs.Record{}, ErrInjected
	}
	return f.Inner.Get(ctx, key)
}

func (f *Faulty) GetMany(ctx context.Context, keys ...string) ([]*kvs.Record, error) {
	if f.dead() {
		return nil, ErrInjected
	}
	return f.Inner.GetMany(ctx, keys...)
}

func (f *Faulty) Put(ctx context.Context, r kvs.Record) (kvs.Record, error) {
	if f.dead() {
		return kvs.Record{}, ErrInjected
	}
	return f.Inner.Put(ctx, r)
}

func (f *Faulty) PutMany(ctx context.Context, rs []kvs.Record) error {
	if f.dead() {
		return ErrInjected
	}
	return f.Inner.PutMany(ctx, rs)
}

func (f *Faulty) ListKeys(ctx context.Context, p string) (iterable.Iterator[string], error) {
	if f.dead() {
		return nil, ErrInjected
	}
	return f.Inner.ListKeys(ctx, p)
}

var _ kvs.Storage = (*Faulty)(nil)
