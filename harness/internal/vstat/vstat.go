// Package vstat is the bookkeeping shared by every check: per-property counters, the
// non-trivial-case hash set, samples, replay files, the known-findings list and the
// stats file that the driver (/verif/check) merges into /verif/evidence/<id>.json.
//
// Nothing in here draws random numbers or reads the clock for a decision.
package vstat

import (
	"bufio"
	"encoding/json"
	"fmt"
	"hash/fnv"
	"os"
	"path/filepath"
	"runtime/debug"
	"sort"
	"strconv"
	"strings"
	"sync"
	"syscall"
	"testing"
	"time"
)

// TB is what rapid.T and testing.T have in common and what the reporters need.
type TB interface {
	Fatalf(format string, args ...any)
	Logf(format string, args ...any)
}

// Violation is the verdict of an oracle on one case.
type Violation struct {
	Sig string `json:"sig"` // short canonical signature, used for the known-findings match
	Msg string `json:"msg"` // human readable description
}

func (v *Violation) Error() string { return v.Sig + ": " + v.Msg }

// V builds a violation.
func V(sig, format string, args ...any) *Violation {
	return &Violation{Sig: sig, Msg: fmt.Sprintf(format, args...)}
}

const maxHashes = 250000
const maxSamples = 4

// Stats of one property inside one test process.
type Stats struct {
	mu          sync.Mutex
	Property    string           `json:"property"`
	Evaluations int64            `json:"evaluations"`
	NonTrivial  int64            `json:"nontrivial_total"`
	hashes      map[uint64]struct{}
	Hashes      []uint64         `json:"hashes"`
	HashCapped  bool             `json:"hash_capped"`
	Classes     map[string]int64 `json:"classes"`
	Samples     []any            `json:"samples"`
	AnySample   any              `json:"any_sample,omitempty"`
	Extra       map[string]any   `json:"extra"`
	Exhaustive  map[string]any   `json:"exhaustive,omitempty"`
	Violations  []ViolationRec   `json:"violations"`
	Known       map[string]int64 `json:"known_hits"`
	Inconclusive []string        `json:"inconclusive,omitempty"`
}

// ViolationRec is what the driver turns into a VIOLATION line.
type ViolationRec struct {
	Test   string `json:"test"`
	Sig    string `json:"sig"`
	Msg    string `json:"msg"`
	Replay string `json:"replay"`
}

var (
	regMu sync.Mutex
	reg   = map[string]*Stats{}
)

// For returns the stats object of a property (created on first use).
func For(prop string) *Stats {
	regMu.Lock()
	defer regMu.Unlock()
	s := reg[prop]
	if s == nil {
		s = &Stats{Property: prop, hashes: map[uint64]struct{}{}, Classes: map[string]int64{},
			Extra: map[string]any{}, Known: map[string]int64{}}
		reg[prop] = s
	}
	return s
}

// Hash of any JSON-able value (FNV-1a over its JSON form).
func Hash(v any) uint64 {
	b, err := json.Marshal(v)
	if err != nil {
		b = []byte(fmt.Sprintf("%#v", v))
	}
	h := fnv.New64a()
	h.Write(b)
	return h.Sum64()
}

// HashBytes hashes raw bytes.
func HashBytes(b []byte) uint64 {
	h := fnv.New64a()
	h.Write(b)
	return h.Sum64()
}

// Case records one evaluated case. sample is only called when the case is kept as a sample.
func (s *Stats) Case(nontrivial bool, hash uint64, sample func() any, classes ...string) {
	s.mu.Lock()
	defer s.mu.Unlock()
	s.Evaluations++
	for _, c := range classes {
		s.Classes[c]++
	}
	if s.AnySample == nil && sample != nil {
		s.AnySample = sample()
	}
	if !nontrivial {
		return
	}
	s.NonTrivial++
	if _, ok := s.hashes[hash]; !ok {
		if len(s.hashes) < maxHashes {
			s.hashes[hash] = struct{}{}
			if len(s.Samples) < maxSamples && sample != nil {
				s.Samples = append(s.Samples, sample())
			}
		} else {
			s.HashCapped = true
		}
	}
}

// Class bumps a histogram bucket without counting a case.
func (s *Stats) Class(c string, n int64) {
	s.mu.Lock()
	s.Classes[c] += n
	s.mu.Unlock()
}

// SetExtra stores an extra evidence key.
func (s *Stats) SetExtra(k string, v any) {
	s.mu.Lock()
	s.Extra[k] = v
	s.mu.Unlock()
}

// AddExtra adds to a numeric extra evidence key.
func (s *Stats) AddExtra(k string, n int64) {
	s.mu.Lock()
	old, _ := s.Extra[k].(int64)
	s.Extra[k] = old + n
	s.mu.Unlock()
}

// SetExhaustive records a completed bounded-exhaustive enumeration.
func (s *Stats) SetExhaustive(name string, v any) {
	s.mu.Lock()
	if s.Exhaustive == nil {
		s.Exhaustive = map[string]any{}
	}
	s.Exhaustive[name] = v
	s.mu.Unlock()
}

// Inconclusivef notes that a sub-check could not decide (budget, environment) - never a violation.
func (s *Stats) Inconclusivef(format string, args ...any) {
	s.mu.Lock()
	s.Inconclusive = append(s.Inconclusive, fmt.Sprintf(format, args...))
	s.mu.Unlock()
}

// ---------------------------------------------------------------------------------------------
// known findings

var (
	knownOnce sync.Once
	known     map[string]string // "Cxx|sig" -> text
)

func loadKnown() {
	known = map[string]string{}
	p := os.Getenv("VERIF_KNOWN")
	if p == "" {
		p = "/verif/known_findings.txt"
	}
	f, err := os.Open(p)
	if err != nil {
		return
	}
	defer f.Close()
	sc := bufio.NewScanner(f)
	for sc.Scan() {
		line := strings.TrimSpace(sc.Text())
		if !strings.HasPrefix(line, "known:") {
			continue // "fixed:" lines and comments suppress nothing
		}
		var prop, sig string
		rest := []string{}
		for _, f := range strings.Fields(line[len("known:"):]) {
			switch {
			case strings.HasPrefix(f, "property=") && prop == "":
				prop = f[len("property="):]
			case strings.HasPrefix(f, "sig=") && sig == "":
				sig = f[len("sig="):]
			default:
				rest = append(rest, f)
			}
		}
		if prop != "" && sig != "" {
			known[prop+"|"+sig] = strings.Join(rest, " ")
		}
	}
}

// IsKnown tells whether a violation signature is listed as a known finding.
func IsKnown(prop, sig string) (string, bool) {
	knownOnce.Do(loadKnown)
	t, ok := known[prop+"|"+sig]
	return t, ok
}

// ---------------------------------------------------------------------------------------------
// reporting

// Envelope is the replay file format.
type Envelope struct {
	Property string          `json:"property"`
	Test     string          `json:"test"`
	Seed     string          `json:"seed"`
	Sig      string          `json:"sig"`
	Msg      string          `json:"msg"`
	Case     json.RawMessage `json:"case"`
}

func replayDir(prop string) string {
	d := os.Getenv("VERIF_REPLAY_DIR")
	if d == "" {
		d = "/verif/replays"
	}
	d = filepath.Join(d, prop)
	os.MkdirAll(d, 0o755)
	return d
}

// Record puts a violation on record (replay file + stats file) without failing the test: used when the
// test process may not survive what follows (e.g. goroutines that cannot be freed from a bubble).
func (s *Stats) Record(test string, c any, v *Violation) {
	if v == nil {
		return
	}
	if _, ok := IsKnown(s.Property, v.Sig); ok {
		return
	}
	s.record(test, c, v)
}

// Report handles a verdict: nil -> nothing. A known finding is counted and true is returned
// (the caller should abandon the case but not fail). Otherwise the case is written to the
// replay directory (overwriting the file of this test+shard: rapid re-runs the shrunk case last,
// so the file left behind is the minimal one), recorded for the driver, and t.Fatalf is called.
func (s *Stats) Report(t TB, test string, c any, v *Violation) (knownHit bool) {
	if v == nil {
		return false
	}
	if _, ok := IsKnown(s.Property, v.Sig); ok {
		s.mu.Lock()
		s.Known[v.Sig]++
		s.mu.Unlock()
		return true
	}
	path := s.record(test, c, v)
	t.Fatalf("VERIF-VIOLATION property=%s test=%s sig=%s replay=%s :: %s", s.Property, test, v.Sig, path, v.Msg)
	return false
}

func (s *Stats) record(test string, c any, v *Violation) string {
	raw, err := json.Marshal(c)
	if err != nil {
		raw, _ = json.Marshal(fmt.Sprintf("%#v", c))
	}
	seed := os.Getenv("VERIF_SHARDSEED")
	if seed == "" {
		seed = "0"
	}
	env := Envelope{Property: s.Property, Test: test, Seed: seed, Sig: v.Sig, Msg: v.Msg, Case: raw}
	path := filepath.Join(replayDir(s.Property), fmt.Sprintf("%s-seed%s.json", test, seed))
	if os.Getenv("VERIF_REPLAY") == "" { // do not overwrite while replaying
		b, _ := json.MarshalIndent(env, "", " ")
		os.WriteFile(path, b, 0o644)
	} else {
		path = os.Getenv("VERIF_REPLAY")
	}
	s.mu.Lock()
	found := false
	for i := range s.Violations {
		if s.Violations[i].Test == test {
			s.Violations[i] = ViolationRec{test, v.Sig, v.Msg, path}
			found = true
		}
	}
	if !found {
		s.Violations = append(s.Violations, ViolationRec{test, v.Sig, v.Msg, path})
	}
	s.mu.Unlock()
	Flush()
	return path
}

// LoadReplay reads a replay file and decodes its case into c.
func LoadReplay(path string, c any) (*Envelope, error) {
	b, err := os.ReadFile(path)
	if err != nil {
		return nil, err
	}
	var env Envelope
	if err := json.Unmarshal(b, &env); err != nil {
		return nil, err
	}
	if c != nil {
		if err := json.Unmarshal(env.Case, c); err != nil {
			return nil, err
		}
	}
	return &env, nil
}

// Guard runs f and turns a panic of the code under test into a violation.
func Guard(sig string, f func() *Violation) (v *Violation) {
	defer func() {
		if r := recover(); r != nil {
			v = V(sig, "panic: %v\n%s", r, trimStack(debug.Stack()))
		}
	}()
	return f()
}

// trimStack keeps "function file:line" frames only: argument values and goroutine numbers differ between
// runs, and rapid shrinks only failures whose message reproduces exactly.
func trimStack(b []byte) string {
	lines := strings.Split(string(b), "\n")
	var out []string
	for i := 0; i+1 < len(lines) && len(out) < 24; i++ {
		l := lines[i]
		nx := strings.TrimSpace(lines[i+1])
		if !strings.HasPrefix(lines[i+1], "\t") || strings.HasPrefix(l, "goroutine ") {
			continue
		}
		if j := strings.LastIndexByte(l, '('); j > 0 {
			l = l[:j]
		}
		if j := strings.Index(nx, " +0x"); j > 0 {
			nx = nx[:j]
		}
		if strings.Contains(l, "runtime/debug.Stack") || strings.Contains(l, "vstat.Guard") || strings.HasPrefix(l, "panic") {
			continue
		}
		if strings.HasPrefix(l, "pgregory.net/rapid.") || strings.HasPrefix(l, "testing.") {
			break // the engine's frames differ between rapid's search, reproduce and shrink calls
		}
		out = append(out, "  "+l+" "+nx)
		i++
	}
	return strings.Join(out, "\n")
}

// ---------------------------------------------------------------------------------------------
// process-level plumbing

// Flush writes the stats file (VERIF_STATS) - called at the end of TestMain and on every violation.
func Flush() {
	p := os.Getenv("VERIF_STATS")
	if p == "" {
		return
	}
	if os.Getenv("VERIF_STATS_PERPID") != "" { // native fuzzing: coordinator and workers each write their own file
		p = fmt.Sprintf("%s.%d", p, os.Getpid())
	}
	regMu.Lock()
	defer regMu.Unlock()
	out := map[string]*Stats{}
	for k, s := range reg {
		s.mu.Lock()
		s.Hashes = s.Hashes[:0]
		for h := range s.hashes {
			s.Hashes = append(s.Hashes, h)
		}
		sort.Slice(s.Hashes, func(i, j int) bool { return s.Hashes[i] < s.Hashes[j] })
		out[k] = s
	}
	b, err := json.Marshal(out)
	for _, s := range reg {
		s.mu.Unlock()
	}
	if err == nil {
		tmp := p + ".tmp"
		if os.WriteFile(tmp, b, 0o644) == nil {
			os.Rename(tmp, p)
		}
	} else {
		fmt.Fprintf(os.Stderr, "vstat: cannot marshal stats: %v\n", err)
	}
}

// Main is the TestMain body of every check package.
func Main(m *testing.M) {
	code := m.Run()
	Flush()
	os.Exit(code)
}

// Tier returns "quick" or "thorough".
func Tier() string {
	if os.Getenv("VERIF_TIER") == "thorough" {
		return "thorough"
	}
	return "quick"
}

// Thorough is true in the thorough tier.
func Thorough() bool { return Tier() == "thorough" }

// Pick returns q in the quick tier and t in the thorough tier.
func Pick[T any](q, t T) T {
	if Thorough() {
		return t
	}
	return q
}

// Shard returns (index, count) of this process among the shards of the run.
func Shard() (int, int) {
	i, _ := strconv.Atoi(os.Getenv("VERIF_SHARD"))
	n, _ := strconv.Atoi(os.Getenv("VERIF_SHARDS"))
	if n <= 0 {
		n = 1
	}
	return i, n
}

// EnvInt reads an integer knob.
func EnvInt(name string, def int) int {
	if v, err := strconv.Atoi(os.Getenv(name)); err == nil {
		return v
	}
	return def
}

// ReplayPath returns the replay file requested by the driver ("" if none).
func ReplayPath() string { return os.Getenv("VERIF_REPLAY") }

// Watch guards one deterministic case against a call of the code under test that never returns while burning
// CPU (a livelock cannot be observed from inside the case). It measures process CPU time, not wall time, so a
// stalled or overloaded machine cannot trigger it; cases of the checks that use it cost milliseconds, the limit
// is tens of seconds. When it fires the violation is put on record (sig "<prefix>:hang") and the process exits,
// because nothing else can be run to completion in it. The returned function stops the watch.
func (s *Stats) Watch(test, sigPrefix string, c any, cpuLimit time.Duration) (stop func()) {
	done := make(chan struct{})
	start := cpuTime()
	go func() {
		tk := time.NewTicker(500 * time.Millisecond)
		defer tk.Stop()
		for {
			select {
			case <-done:
				return
			case <-tk.C:
				if used := cpuTime() - start; used > cpuLimit {
					v := V(sigPrefix+":hang", "the case has consumed %v of CPU time without completing (a call of the code under test spins and never returns)", used.Round(time.Second))
					s.Record(test, c, v)
					fmt.Printf("VERIF-VIOLATION property=%s test=%s sig=%s :: %s\n", s.Property, test, v.Sig, v.Msg)
					os.Exit(3)
				}
			}
		}
	}()
	return func() { close(done) }
}

func cpuTime() time.Duration {
	var ru syscall.Rusage
	if syscall.Getrusage(syscall.RUSAGE_SELF, &ru) != nil {
		return 0
	}
	return time.Duration(ru.Utime.Nano() + ru.Stime.Nano())
}
