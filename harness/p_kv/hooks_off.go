//go:build nohooks

package p_kv

import "github.com/acquirecloud/golibs/kvs"

const hooksOn = false

func waiterTable(st kvs.Storage) (entries, waiters int, ok bool) { return 0, 0, false }

func withStorageLock(st kvs.Storage, f func()) bool { return false }
