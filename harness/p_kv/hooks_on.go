//go:build !nohooks

package p_kv

import (
	"github.com/acquirecloud/golibs/kvs"
	"github.com/acquirecloud/golibs/kvs/inmem"
)

const hooksOn = true

func waiterTable(st kvs.Storage) (entries, waiters int, ok bool) { return inmem.VerifWaiterTable(st) }

func withStorageLock(st kvs.Storage, f func()) bool { return inmem.VerifWithLock(st, f) }
