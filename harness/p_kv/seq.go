// Package p_kv decides the kvs.Storage properties: C03 (sequential contract, three-way differential),
// C06 (expiry == deletion), C02 (linearizability, single winner, fresh versions), C07 (WaitForVersionChange).
package p_kv

import (
	"bytes"
	"context"
	"fmt"
	"github.com/acquirecloud/golibs/container/iterable"
	"sort"
	"strings"
	"time"

	gerrors "github.com/acquirecloud/golibs/errors"
	"github.com/acquirecloud/golibs/kvs"
	"verifharness/internal/vstat"
)

// ---------------------------------------------------------------------------------------------
// alphabets

// "a" and "a/" differ only by a trailing slash; one key holds a backslash; three hold per cent signs ("a%%" is what a
// formatting function makes "a%" of, "v%d" asks for an argument); then the empty key, which both backends accept, and a key that contains the Redis backend's own key prefix
var Keys = []string{"a", "a/", "b", "ab", "a/b", "k1", `c\d`, "a%", "a%%", "v%d", "", "a/kvs/b"}
var Vals = [][]byte{nil, {}, []byte("x"), []byte("yy")}

// Patterns: the subset on which gobwas/glob (no separators) and Redis MATCH agree.
// The last four use backslash escapes (\\ = a literal backslash, \x = the literal character x), no other glob syntax.
var Patterns = []string{"*", "?", "a*", "*b", "a?", "[ab]", "[a-c]*", "k1", "a/b", "a/*", "??", "zz*", "*/*", "[k]1", `c\\d`, `a\/b`, `c\d`, `c\\*`, "a%*", "*%*", "v%d", "f*", "f?[0-4]?"}

// Expiry codes: offset from "now" at the time of the write. 0 = no expiry.
var ExpOffsets = []time.Duration{0, time.Hour, 3 * time.Hour, 100 * time.Hour, -time.Hour, 0, -time.Hour}

const (
	ExpNone    = 0
	Exp1h      = 1
	Exp3h      = 2
	Exp100h    = 3
	ExpPast    = 4 // written already expired (in-memory backend only; Redis clamps TTLs to >= 1ms)
	ExpZero    = 6 // written with a pointer to the zero time.Time (1 January of the year 1): long expired
	ExpNever   = 5 // an expiry centuries ahead (year 2500 and beyond): never reached, and beyond what int64 nanoseconds can express
	garbageVer = "01ARZ3NDEKTSV4RRFFQ69G5FAV"
)

// SOp is one operation of a sequential case.
type SOp struct {
	K    string `json:"k"` // create get getmany put putmany cas delete list advance wait park
	Key  int    `json:"key,omitempty"`
	Val  int    `json:"val,omitempty"`
	Exp  int    `json:"exp,omitempty"`
	Ver  int    `json:"ver,omitempty"` // cas/wait: 0 current, 1 previous, 2 empty, 3 garbage
	Keys []int  `json:"keys,omitempty"`
	Vals []int  `json:"vals,omitempty"`
	Exps []int  `json:"exps,omitempty"`
	Pat  int    `json:"pat,omitempty"`
	Pat2 int    `json:"pat2,omitempty"` // list: 1+index of a second pattern listed right after the first, before either iterator is read (0 = single listing)
	Min  int    `json:"min,omitempty"`  // advance: minutes
	N    int    `json:"n,omitempty"`    // fill: that many fresh keys ("f000", "f001", ...) are written in one PutMany with value Val and expiry Exp: the store grows
}

// SCase is a sequential case.
type SCase struct {
	Ops []SOp `json:"ops"`
}

func (o SOp) String() string {
	switch o.K {
	case "create", "put":
		return fmt.Sprintf("%s(%s,%q,exp%d)", o.K, Keys[o.Key], Vals[o.Val], o.Exp)
	case "cas":
		return fmt.Sprintf("cas(%s,%q,exp%d,ver%d)", Keys[o.Key], Vals[o.Val], o.Exp, o.Ver)
	case "get", "delete":
		return fmt.Sprintf("%s(%s)", o.K, Keys[o.Key])
	case "wait", "park":
		return fmt.Sprintf("%s(%s,ver%d)", o.K, Keys[o.Key], o.Ver)
	case "getmany":
		return fmt.Sprintf("getmany(%v)", keyNames(o.Keys))
	case "putmany":
		return fmt.Sprintf("putmany(%v,vals%v,exps%v)", keyNames(o.Keys), o.Vals, o.Exps)
	case "fill":
		return fmt.Sprintf("fill(%d fresh keys,val%d,exp%d)", o.N, o.Val, o.Exp)
	case "list":
		if o.Pat2 > 0 {
			return fmt.Sprintf("list(%q)+list(%q) read in reverse order", Patterns[o.Pat], Patterns[o.Pat2-1])
		}
		return fmt.Sprintf("list(%q)", Patterns[o.Pat])
	case "advance":
		return fmt.Sprintf("advance(%dmin)", o.Min)
	}
	return o.K
}

func keyNames(idx []int) []string {
	r := make([]string, len(idx))
	for i, k := range idx {
		r[i] = Keys[k]
	}
	return r
}

// ---------------------------------------------------------------------------------------------
// reference model (written from the interface comments in kvs/kvs.go and the statements C03/C06)

type mrec struct {
	val    []byte
	hasExp bool
	expAt  time.Duration // virtual elapsed time at which the record expires
	gen    int           // write generation of this key's record (model-side version)
}

// Model is the sequential reference of kvs.Storage with a virtual clock.
type Model struct {
	recs    map[string]*mrec
	elapsed time.Duration
	gen     int
}

func NewModel() *Model { return &Model{recs: map[string]*mrec{}} }

// alive returns the record if the key is present and not expired.
func (m *Model) alive(k string) *mrec {
	r := m.recs[k]
	if r == nil {
		return nil
	}
	if r.hasExp && r.expAt < m.elapsed {
		delete(m.recs, k) // an expired record is indistinguishable from a deleted one
		return nil
	}
	return r
}

func (m *Model) write(k string, val []byte, exp int) *mrec {
	m.gen++
	r := &mrec{val: val, gen: m.gen}
	if exp != ExpNone && exp != ExpNever {
		r.hasExp = true
		r.expAt = m.elapsed + ExpOffsets[exp]
	}
	m.recs[k] = r
	return r
}

// ---------------------------------------------------------------------------------------------
// a backend under test plus the per-case bookkeeping about its version strings

// Driver wraps one backend.
type Driver struct {
	Name      string
	St        kvs.Storage
	Now       func() time.Time      // clock the backend reads (fake inside a bubble, real for Redis)
	Advance   func(d time.Duration) // moves that clock (nil: the case has no advance ops)
	Settle    func()                // lets background goroutines reach quiescence (bubble: synctest.Wait)
	WaitMax   time.Duration         // safety timeout for wait ops expected to return at once
	PastWrite func()                // called after a write of an already expired record (Redis: lets the minimum TTL of 1 ms pass)

	cur      map[string]string     // version of the key's current record as far as known ("" = unknown)
	prev     map[string]string     // a version the key had before
	assigned map[string]bool       // every version handed out by this backend in this case
	passed   map[string]*time.Time // ExpiresAt given with the key's current record
	parked   []*parkedWaiter
	neverN   int // number of "never" expiries handed out in this case
}

type parkedWaiter struct {
	key    string
	gen    int // model generation the waiter was started against
	cancel context.CancelFunc
	done   chan error
}

func (d *Driver) reset() {
	d.cur, d.prev, d.assigned, d.passed = map[string]string{}, map[string]string{}, map[string]bool{}, map[string]*time.Time{}
	d.parked = nil
	d.neverN = 0
}

func (d *Driver) expiry(m *Model, exp int) *time.Time {
	if exp == ExpNone {
		return nil
	}
	t := d.Now().Add(ExpOffsets[exp])
	if exp == ExpZero {
		t = time.Time{}
	}
	if exp == ExpNever {
		// centuries to hundreds of millennia ahead, on both sides of what 64-bit nanoseconds, RFC 3339 and protobuf timestamps can express
		years := []int{2500, 2999, 9999, 10000, 10001, 25000, 292277, 1000000}
		t = time.Date(years[d.neverN%len(years)], time.Month(1+d.neverN%12), 1, 0, 0, 0, 0, time.UTC)
		d.neverN++
	}
	return &t
}

// scribbled is what the harness overwrites its own slices and returned records with once a call has returned (a fresh value
// slice and expiry: the bytes and the time the storage may still reference are not touched).
func scribbled() kvs.Record {
	past := time.Unix(1, 0)
	return kvs.Record{Key: "scribbled", Value: []byte("scribbled"), Version: "scribbled", ExpiresAt: &past}
}

// isPast: the record is written already expired.
func isPast(exp int) bool { return exp == ExpPast || exp == ExpZero }

// pastWritten lets the backend get rid of a record that was written already expired (Redis keeps it for the minimum TTL of 1 ms).
func (d *Driver) pastWritten() {
	if d.PastWrite != nil {
		d.PastWrite()
	}
}

func cp(b []byte) []byte {
	if b == nil {
		return nil
	}
	return append([]byte{}, b...)
}

// NearMiss derives a version string that is not v but looks like it: another letter case, surrounding blanks, one
// character less, more or different. A backend that normalises or truncates versions before comparing them confuses
// these with v.
func NearMiss(v string, variant int) string {
	if v == "" {
		return garbageVer
	}
	var r string
	switch variant % 7 {
	case 0:
		r = strings.ToLower(v)
	case 1:
		r = v + " "
	case 2:
		r = v[:len(v)-1]
	case 3:
		r = " " + v
	case 4:
		last := v[len(v)-1]
		c := byte('0')
		if last == c {
			c = '1'
		}
		r = v[:len(v)-1] + string(c)
	case 5:
		r = v + "\x00"
	default:
		r = strings.ToUpper(v[:1]) + strings.ToLower(v[1:])
	}
	if r == v {
		r = v + "x"
	}
	return r
}

func (d *Driver) verArg(key string, choice int) string {
	if choice >= 4 {
		return NearMiss(d.cur[key], choice-4)
	}
	switch choice {
	case 0:
		if v := d.cur[key]; v != "" {
			return v
		}
		return garbageVer
	case 1:
		if v := d.prev[key]; v != "" {
			return v
		}
		return garbageVer
	case 2:
		return ""
	}
	return garbageVer
}

// newVersion checks a version handed out by a successful write and records it.
func (d *Driver) newVersion(where, key, ver string) *vstat.Violation {
	if ver == "" {
		return vstat.V(d.Name+":version-empty", "%s: the write of %q was given an empty version", where, key)
	}
	if d.assigned[ver] {
		return vstat.V(d.Name+":version-not-fresh", "%s: version %q of %q was handed out before in this history", where, ver, key)
	}
	d.assigned[ver] = true
	if d.cur[key] != "" {
		d.prev[key] = d.cur[key]
	}
	d.cur[key] = ver
	return nil
}

func isClass(err error, class error) bool { return err != nil && gerrors.Is(err, class) }

func errName(err error) string {
	if err == nil {
		return "nil"
	}
	return fmt.Sprintf("%q", err.Error())
}

// checkRecord compares a record read back with the model and the bookkeeping.
func (d *Driver) checkRecord(where, key string, got kvs.Record, want *mrec) *vstat.Violation {
	if got.Key != key {
		return vstat.V(d.Name+":record-key", "%s: record has key %q want %q", where, got.Key, key)
	}
	if !bytes.Equal(got.Value, want.val) {
		return vstat.V(d.Name+":record-value", "%s: key %q has value %q want %q", where, key, got.Value, want.val)
	}
	if got.Version == "" {
		return vstat.V(d.Name+":version-empty", "%s: key %q is stored with an empty version", where, key)
	}
	if c := d.cur[key]; c != "" && got.Version != c {
		return vstat.V(d.Name+":record-version", "%s: key %q has version %q but its last write returned %q", where, key, got.Version, c)
	}
	p := d.passed[key]
	if (p == nil) != (got.ExpiresAt == nil) {
		return vstat.V(d.Name+":record-expiry", "%s: key %q has ExpiresAt %v want %v", where, key, got.ExpiresAt, p)
	}
	if p != nil && !p.Equal(*got.ExpiresAt) {
		return vstat.V(d.Name+":record-expiry", "%s: key %q has ExpiresAt %v want %v", where, key, *got.ExpiresAt, *p)
	}
	return nil
}

// learn reads the key back after a write that does not report versions (PutMany) and checks freshness.
func (d *Driver) learn(where, key string, want *mrec) *vstat.Violation {
	old := d.cur[key]
	got, err := d.St.Get(context.Background(), key)
	if err != nil {
		return vstat.V(d.Name+":get-after-write", "%s: Get(%q) right after the write failed: %s", where, key, errName(err))
	}
	d.cur[key] = ""
	if v := d.checkRecord(where+" (read back)", key, got, want); v != nil {
		return v
	}
	if got.Version == old && old != "" {
		return vstat.V(d.Name+":version-unchanged", "%s: key %q still has version %q after the write", where, key, old)
	}
	d.cur[key] = old
	return d.newVersion(where, key, got.Version)
}

// Info is what the non-trivial classifiers need.
type Info struct {
	HitExisting  bool            // an op met an existing key and had a different outcome class than on an empty store
	FirstTouch   map[string]bool // op kinds that were the first to touch an expired key
	Crossed      bool            // the clock crossed an expiry
	ParkedExpiry bool            // a parked waiter was woken by an expiry
	Classes      map[string]bool
}

func (i *Info) class(c string) {
	if i.Classes == nil {
		i.Classes = map[string]bool{}
	}
	i.Classes[c] = true
}

// ClassList returns the histogram classes of the case.
func (i *Info) ClassList() []string {
	var r []string
	for c := range i.Classes {
		r = append(r, c)
	}
	for c := range i.FirstTouch {
		r = append(r, "first_touch_expired:"+c)
	}
	sort.Strings(r)
	return r
}

// RunSeq executes a sequential case on the model and on every driver, comparing each result.
func RunSeq(c SCase, drivers []*Driver) (info Info, v *vstat.Violation) {
	info.FirstTouch = map[string]bool{}
	v = vstat.Guard("kv:panic", func() *vstat.Violation { return runSeq(c, drivers, &info) })
	for _, d := range drivers {
		for _, p := range d.parked {
			p.cancel()
		}
		if d.Settle != nil {
			d.Settle()
		}
		for _, p := range d.parked {
			select {
			case <-p.done:
			case <-time.After(5 * time.Second):
				if v == nil {
					v = vstat.V(d.Name+":wait-ignores-cancel", "a parked WaitForVersionChange(%q) did not return after its context was cancelled", p.key)
				}
			}
		}
		d.parked = nil
	}
	return
}

func runSeq(c SCase, drivers []*Driver, info *Info) *vstat.Violation {
	m := NewModel()
	for _, d := range drivers {
		d.reset()
	}
	ctx := context.Background()
	fillCtr := 0
	expiredUntouched := map[string]bool{} // keys whose expiry was crossed and that no op has touched since
	touch := func(kind, key string) {
		if expiredUntouched[key] {
			delete(expiredUntouched, key)
			info.FirstTouch[kind] = true
		}
	}
	for i, op := range c.Ops {
		where := fmt.Sprintf("op #%d %s", i, op)
		switch op.K {
		case "create":
			key := Keys[op.Key]
			touch("create", key)
			ex := m.alive(key)
			var nr *mrec
			if ex == nil {
				nr = m.write(key, Vals[op.Val], op.Exp)
			} else {
				info.HitExisting = true
				info.class("create_on_existing")
			}
			for _, d := range drivers {
				exp := d.expiry(m, op.Exp)
				ver, err := d.St.Create(ctx, kvs.Record{Key: key, Value: cp(Vals[op.Val]), Version: d.verArg(key, op.Ver), ExpiresAt: exp})
				if ex != nil {
					if !isClass(err, gerrors.ErrExist) {
						return vstat.V(d.Name+":create-on-existing", "%s: Create on a present key returned (%q,%s), want ErrExist", where, ver, errName(err))
					}
					if c := d.cur[key]; c != "" && ver != c {
						return vstat.V(d.Name+":create-exist-version", "%s: Create returned version %q with ErrExist, the stored version is %q", where, ver, c)
					}
					continue
				}
				if err != nil {
					return vstat.V(d.Name+":create-on-absent", "%s: Create on an absent (or expired) key failed: %s", where, errName(err))
				}
				d.passed[key] = exp
				if v := d.newVersion(where, key, ver); v != nil {
					return v
				}
				if isPast(op.Exp) {
					d.pastWritten()
				} else {
					got, err := d.St.Get(ctx, key)
					if err != nil {
						return vstat.V(d.Name+":get-after-write", "%s: Get right after Create failed: %s", where, errName(err))
					}
					if v := d.checkRecord(where+" (read back)", key, got, nr); v != nil {
						return v
					}
				}
			}
		case "get":
			key := Keys[op.Key]
			touch("get", key)
			ex := m.alive(key)
			for _, d := range drivers {
				got, err := d.St.Get(ctx, key)
				if ex == nil {
					if !isClass(err, gerrors.ErrNotExist) {
						return vstat.V(d.Name+":get-missing", "%s: Get of a missing (or expired) key returned (%+v,%s), want ErrNotExist", where, got, errName(err))
					}
					continue
				}
				if err != nil {
					return vstat.V(d.Name+":get-present", "%s: Get of a present key failed: %s", where, errName(err))
				}
				if v := d.checkRecord(where, key, got, ex); v != nil {
					return v
				}
			}
		case "getmany":
			keys := keyNames(op.Keys)
			want := make([]*mrec, len(keys))
			for j, k := range keys {
				touch("getmany", k)
				want[j] = m.alive(k)
			}
			if len(keys) == 0 {
				info.class("getmany_no_keys")
			}
			for _, d := range drivers {
				got, err := d.St.GetMany(ctx, keys...)
				if err != nil {
					return vstat.V(d.Name+":getmany-error", "%s: GetMany failed: %s", where, errName(err))
				}
				if len(got) != len(keys) {
					return vstat.V(d.Name+":getmany-len", "%s: GetMany returned %d entries for %d keys", where, len(got), len(keys))
				}
				for j, k := range keys {
					if want[j] == nil {
						if got[j] != nil {
							return vstat.V(d.Name+":getmany-missing", "%s: GetMany returned a record for the missing (or expired) key %q: %+v", where, k, *got[j])
						}
						continue
					}
					if got[j] == nil {
						return vstat.V(d.Name+":getmany-present", "%s: GetMany skipped the present key %q", where, k)
					}
					if v := d.checkRecord(where, k, *got[j], want[j]); v != nil {
						return v
					}
				}
				// the returned records belong to the caller: it may overwrite them
				for j := range got {
					if got[j] != nil {
						*got[j] = scribbled()
					}
				}
			}
		case "put":
			key := Keys[op.Key]
			touch("put", key)
			if m.alive(key) != nil {
				info.HitExisting = true
				info.class("put_overwrite")
			}
			nr := m.write(key, Vals[op.Val], op.Exp)
			for _, d := range drivers {
				exp := d.expiry(m, op.Exp)
				got, err := d.St.Put(ctx, kvs.Record{Key: key, Value: cp(Vals[op.Val]), Version: d.verArg(key, 0), ExpiresAt: exp})
				if err != nil {
					return vstat.V(d.Name+":put-error", "%s: Put failed: %s", where, errName(err))
				}
				d.passed[key] = exp
				if v := d.newVersion(where, key, got.Version); v != nil {
					return v
				}
				if v := d.checkRecord(where+" (returned record)", key, got, nr); v != nil {
					return v
				}
				if isPast(op.Exp) {
					d.pastWritten()
				} else {
					rb, err := d.St.Get(ctx, key)
					if err != nil {
						return vstat.V(d.Name+":get-after-write", "%s: Get right after Put failed: %s", where, errName(err))
					}
					if v := d.checkRecord(where+" (read back)", key, rb, nr); v != nil {
						return v
					}
				}
			}
		case "putmany", "fill":
			keys, vals, expc := keyNames(op.Keys), op.Vals, op.Exps
			if op.K == "fill" {
				keys, vals, expc = nil, nil, nil
				for j := 0; j < op.N; j++ {
					keys = append(keys, fmt.Sprintf("f%03d", fillCtr))
					fillCtr++
					vals, expc = append(vals, op.Val), append(expc, op.Exp)
				}
				info.class("fill_with_fresh_keys")
				if len(m.recs)+op.N >= 64 {
					info.class("store_of_64_or_more_keys")
				}
				if len(m.recs)+op.N >= 256 {
					info.class("store_of_256_or_more_keys")
				}
			}
			final := map[string]*mrec{}
			finalExp := map[string]int{}
			for j, k := range keys {
				touch("putmany", k)
				if m.alive(k) != nil {
					info.HitExisting = true
					info.class("putmany_overwrite")
				}
				final[k] = m.write(k, Vals[vals[j]], expc[j])
				finalExp[k] = expc[j]
			}
			if len(keys) == 0 {
				info.class("putmany_no_records")
			}
			if len(final) < len(keys) {
				info.class("putmany_repeated_key")
			}
			for _, d := range drivers {
				recs := make([]kvs.Record, len(keys))
				exps := map[string]*time.Time{}
				// as a caller does who computes "now + ttl" once: the records of a batch that expire at the same moment
				// carry one and the same *time.Time
				shared := map[int]*time.Time{}
				for j, k := range keys {
					e, ok := shared[expc[j]]
					if !ok || expc[j] == ExpNever {
						e = d.expiry(m, expc[j])
						shared[expc[j]] = e
					} else if e != nil {
						info.class("batch_records_share_one_expiry_pointer")
					}
					exps[k] = e
					recs[j] = kvs.Record{Key: k, Value: cp(Vals[vals[j]]), Version: d.verArg(k, 0), ExpiresAt: e}
				}
				if err := d.St.PutMany(ctx, recs); err != nil {
					return vstat.V(d.Name+":putmany-error", "%s: PutMany failed: %s", where, errName(err))
				}
				// the slice belongs to the caller again: it may fill it with its next batch
				for j := range recs {
					recs[j] = scribbled()
				}
				ks := make([]string, 0, len(final))
				for k := range final {
					ks = append(ks, k)
				}
				sort.Strings(ks)
				for _, k := range ks {
					d.passed[k] = exps[k]
					if isPast(finalExp[k]) {
						d.cur[k] = ""
						d.pastWritten()
						continue
					}
					if v := d.learn(where, k, final[k]); v != nil {
						return v
					}
				}
			}
		case "cas":
			key := Keys[op.Key]
			touch("cas", key)
			ex := m.alive(key)
			// the outcome depends on the version argument, which is a per-driver string
			d0 := drivers[0]
			willMatch := ex != nil && d0.cur[key] != "" && d0.verArg(key, op.Ver) == d0.cur[key]
			var nr *mrec
			if willMatch {
				nr = m.write(key, Vals[op.Val], op.Exp)
			}
			for _, d := range drivers {
				arg := d.verArg(key, op.Ver)
				matches := ex != nil && d.cur[key] != "" && arg == d.cur[key]
				if matches != willMatch {
					panic("harness inconsistency: drivers disagree about the version bookkeeping")
				}
				exp := d.expiry(m, op.Exp)
				got, err := d.St.CasByVersion(ctx, kvs.Record{Key: key, Value: cp(Vals[op.Val]), Version: arg, ExpiresAt: exp})
				switch {
				case ex == nil:
					if !isClass(err, gerrors.ErrNotExist) {
						return vstat.V(d.Name+":cas-missing", "%s: CasByVersion on a missing (or expired) key returned %s, want ErrNotExist", where, errName(err))
					}
				case !matches:
					info.HitExisting = true
					info.class("cas_conflict")
					if !isClass(err, gerrors.ErrConflict) {
						return vstat.V(d.Name+":cas-conflict", "%s: CasByVersion with version %q against stored %q returned %s, want ErrConflict", where, arg, d.cur[key], errName(err))
					}
				default:
					info.HitExisting = true
					info.class("cas_success")
					if err != nil {
						return vstat.V(d.Name+":cas-match", "%s: CasByVersion with the current version failed: %s", where, errName(err))
					}
					d.passed[key] = exp
					if v := d.newVersion(where, key, got.Version); v != nil {
						return v
					}
					if v := d.checkRecord(where+" (returned record)", key, got, nr); v != nil {
						return v
					}
					if isPast(op.Exp) {
						d.pastWritten()
					}
				}
				if ex != nil && err != nil {
					// a loser changes nothing
					rb, gerr := d.St.Get(ctx, key)
					if gerr != nil {
						return vstat.V(d.Name+":cas-loser-changed", "%s: after the failed CAS the key cannot be read: %s", where, errName(gerr))
					}
					if v := d.checkRecord(where+" (after failed CAS)", key, rb, ex); v != nil {
						return v
					}
				}
			}
		case "delete":
			key := Keys[op.Key]
			touch("delete", key)
			ex := m.alive(key)
			if ex != nil {
				info.HitExisting = true
				info.class("delete_existing")
				delete(m.recs, key)
			}
			for _, d := range drivers {
				err := d.St.Delete(ctx, key)
				if ex == nil {
					if !isClass(err, gerrors.ErrNotExist) {
						return vstat.V(d.Name+":delete-missing", "%s: Delete of a missing (or expired) key returned %s, want ErrNotExist", where, errName(err))
					}
					continue
				}
				if err != nil {
					return vstat.V(d.Name+":delete-present", "%s: Delete of a present key failed: %s", where, errName(err))
				}
				if d.cur[key] != "" {
					d.prev[key] = d.cur[key]
				}
				d.cur[key] = ""
				delete(d.passed, key)
				if _, err := d.St.Get(ctx, key); !isClass(err, gerrors.ErrNotExist) {
					return vstat.V(d.Name+":delete-ineffective", "%s: Get after Delete returned %s", where, errName(err))
				}
			}
		case "list":
			// one listing, or two listings opened back to back (nothing else happens in between) and read in reverse order:
			// each must yield the keys present at that moment whatever the other iterator does
			pats := []string{Patterns[op.Pat]}
			if op.Pat2 > 0 {
				pats = append(pats, Patterns[op.Pat2-1])
				info.class("two_listings_open_at_once")
			}
			wants := make([][]string, len(pats))
			for pi, pat := range pats {
				all := append([]string(nil), Keys...)
				for j := 0; j < fillCtr; j++ {
					all = append(all, fmt.Sprintf("f%03d", j))
				}
				for _, k := range all {
					if expiredUntouched[k] && globMatch(pat, k) {
						touch("list", k)
					}
					if m.alive(k) != nil && globMatch(pat, k) {
						wants[pi] = append(wants[pi], k)
					}
				}
				sort.Strings(wants[pi])
				if len(wants[pi]) > 0 {
					info.HitExisting = true
					info.class("list_with_match")
				}
			}
			for _, d := range drivers {
				its := make([]iterable.Iterator[string], len(pats))
				for pi, pat := range pats {
					it, err := d.St.ListKeys(ctx, pat)
					if err != nil {
						return vstat.V(d.Name+":list-error", "%s: ListKeys failed: %s", where, errName(err))
					}
					its[pi] = it
				}
				for pi := len(pats) - 1; pi >= 0; pi-- {
					it := its[pi]
					var got []string
					for it.HasNext() {
						k, ok := it.Next()
						if !ok {
							break
						}
						got = append(got, k)
					}
					it.Close()
					sort.Strings(got)
					if strings.Join(got, "\x00") != strings.Join(wants[pi], "\x00") {
						sig := d.Name + ":list-keys"
						if len(got) == len(wants[pi])+1 && got[0] == "" && strings.Join(got[1:], "\x00") == strings.Join(wants[pi], "\x00") {
							// the only difference is the empty key, listed for a pattern that does not match the empty string
							sig = d.Name + ":list-keys-empty-key"
						}
						return vstat.V(sig, "%s: ListKeys(%q) returned %q want %q", where, pats[pi], got, wants[pi])
					}
				}
			}
		case "advance":
			before := map[string]bool{}
			for k := range m.recs {
				r := m.recs[k]
				before[k] = !(r.hasExp && r.expAt < m.elapsed)
			}
			adv := time.Duration(op.Min) * time.Minute
			for again := true; again; { // never stop exactly on an expiry instant (the backends may round either way)
				again = false
				for _, r := range m.recs {
					if r.hasExp && r.expAt == m.elapsed+adv {
						adv += time.Minute
						again = true
					}
				}
			}
			m.elapsed += adv
			for k, was := range before {
				r := m.recs[k]
				if was && r.hasExp && r.expAt < m.elapsed {
					expiredUntouched[k] = true
					info.Crossed = true
				}
			}
			for _, d := range drivers {
				d.Advance(adv)
			}
			// parked waiters whose key expired must have returned ErrNotExist by the next quiescence
			for _, d := range drivers {
				if v := d.checkParked(m, where, info, touch); v != nil {
					return v
				}
			}
		case "wait":
			// a WaitForVersionChange expected to return at once: key missing/expired -> ErrNotExist, stale version -> nil
			key := Keys[op.Key]
			ex := m.alive(key)
			for _, d := range drivers {
				arg := d.verArg(key, op.Ver)
				if ex != nil && (d.cur[key] == "" || arg == d.cur[key]) {
					continue // would block (or the stored version is unknown): not issued
				}
				if ex == nil {
					touch("wait", key)
				}
				wctx, cancel := context.WithTimeout(ctx, d.WaitMax)
				err := d.St.WaitForVersionChange(wctx, key, arg)
				cancel()
				if ex == nil {
					if !isClass(err, gerrors.ErrNotExist) {
						return vstat.V(d.Name+":wait-missing", "%s: WaitForVersionChange on a missing (or expired) key returned %s, want ErrNotExist", where, errName(err))
					}
				} else if err != nil {
					return vstat.V(d.Name+":wait-stale", "%s: WaitForVersionChange with the stale version %q (stored %q) returned %s, want nil", where, arg, d.cur[key], errName(err))
				}
			}
		case "park":
			// start a waiter with the current version on a present key; it must stay parked until the key changes or expires
			key := Keys[op.Key]
			ex := m.alive(key)
			for _, d := range drivers {
				if d.Settle == nil || ex == nil || d.cur[key] == "" || len(d.parked) >= 3 {
					continue
				}
				pctx, cancel := context.WithCancel(ctx)
				p := &parkedWaiter{key: key, gen: ex.gen, cancel: cancel, done: make(chan error, 1)}
				ver := d.cur[key]
				go func() { p.done <- d.St.WaitForVersionChange(pctx, key, ver) }()
				d.parked = append(d.parked, p)
				info.class("parked_waiter")
			}
		default:
			panic("unknown op " + op.K)
		}
		if op.K != "advance" && op.K != "park" {
			for _, d := range drivers {
				if v := d.checkParked(m, where, info, touch); v != nil {
					return v
				}
			}
		}
	}
	return nil
}

// checkParked verifies every parked waiter at quiescence: returned iff its key changed, vanished or expired.
func (d *Driver) checkParked(m *Model, where string, info *Info, touch func(kind, key string)) *vstat.Violation {
	if len(d.parked) == 0 || d.Settle == nil {
		return nil
	}
	d.Settle()
	keep := d.parked[:0]
	for _, p := range d.parked {
		raw := m.recs[p.key]
		wasExpired := raw != nil && raw.hasExp && raw.expAt < m.elapsed
		r := m.alive(p.key)
		var got error
		returned := false
		select {
		case got = <-p.done:
			returned = true
		default:
		}
		switch {
		case r == nil:
			if wasExpired && raw.gen == p.gen {
				touch("parked_wait", p.key)
				info.ParkedExpiry = true
			}
			if !returned {
				return vstat.V(d.Name+":parked-wait-not-woken", "after %s: a WaitForVersionChange(%q) parked earlier is still blocked although the key is gone (deleted or expired)", where, p.key)
			}
			if !isClass(got, gerrors.ErrNotExist) {
				return vstat.V(d.Name+":parked-wait-result", "after %s: the parked WaitForVersionChange(%q) returned %s, want ErrNotExist (key deleted or expired)", where, p.key, errName(got))
			}
			p.cancel()
		case r.gen != p.gen:
			if !returned {
				return vstat.V(d.Name+":parked-wait-not-woken", "after %s: a WaitForVersionChange(%q) parked earlier is still blocked although the version changed", where, p.key)
			}
			if got != nil {
				return vstat.V(d.Name+":parked-wait-result", "after %s: the parked WaitForVersionChange(%q) returned %s, want nil (version changed)", where, p.key, errName(got))
			}
			p.cancel()
		default:
			if returned {
				return vstat.V(d.Name+":parked-wait-spurious", "after %s: the parked WaitForVersionChange(%q) returned %s although the key is unchanged and not expired", where, p.key, errName(got))
			}
			keep = append(keep, p)
		}
	}
	d.parked = keep
	return nil
}

// ---------------------------------------------------------------------------------------------
// glob matcher for the common subset (*, ?, [set], [a-c], literals)

func globMatch(pat, s string) bool {
	if pat == "" {
		return s == ""
	}
	switch pat[0] {
	case '\\':
		if len(pat) < 2 {
			return false
		}
		return s != "" && s[0] == pat[1] && globMatch(pat[2:], s[1:])
	case '*':
		for i := 0; i <= len(s); i++ {
			if globMatch(pat[1:], s[i:]) {
				return true
			}
		}
		return false
	case '?':
		return s != "" && globMatch(pat[1:], s[1:])
	case '[':
		end := strings.IndexByte(pat, ']')
		if end < 0 || s == "" {
			return false
		}
		set := pat[1:end]
		ok := false
		for i := 0; i < len(set); i++ {
			if i+2 < len(set) && set[i+1] == '-' {
				if s[0] >= set[i] && s[0] <= set[i+2] {
					ok = true
				}
				i += 2
			} else if set[i] == s[0] {
				ok = true
			}
		}
		return ok && globMatch(pat[end+1:], s[1:])
	}
	return s != "" && s[0] == pat[0] && globMatch(pat[1:], s[1:])
}
