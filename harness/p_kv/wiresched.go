package p_kv

import (
	"context"
	"fmt"
	"io"
	"net"
	"strings"
	"sync"
	"time"

	"github.com/acquirecloud/golibs/kvs"
	kvredis "github.com/acquirecloud/golibs/kvs/redis"
	"github.com/alicebob/miniredis/v2"
	goredis "github.com/go-redis/redis/v8"
	"verifharness/internal/vstat"
)

// ---------------------------------------------------------------------------------------------
// C02 on the wire: schedule control at Redis-command granularity.
//
// Every thread of a CCase gets a Redis client of its own whose connection is wrapped: each command (each Write) parks
// until the scheduler lets it through. The scheduler waits until every thread is parked or finished, then releases one
// thread's pending command - chosen by the drawn order - and waits again. So exactly one command is in flight at any
// time and the interleaving of the commands that make up Create (SET NX, GET, SET NX ...), CasByVersion (WATCH, GET,
// MULTI/SET/EXEC, UNWATCH), PutMany ... of different callers is a generated, replayable part of the case.

// SchedCase is a CCase plus the order in which parked commands are released.
type SchedCase struct {
	CCase
	Order []int `json:"order"` // i-th release: the (Order[i] mod number of parked threads)-th parked thread, by thread id
}

type wsched struct {
	mu       sync.Mutex
	cond     *sync.Cond
	parked   map[int]chan struct{}
	running  int // threads neither parked nor finished
	log      []string
	disarmed bool
}

type schedConn struct {
	net.Conn
	s  *wsched
	ti int
}

func (c *schedConn) Write(b []byte) (int, error) {
	s := c.s
	names := cmdNames(b)
	s.mu.Lock()
	if s.disarmed || len(names) == 0 {
		s.mu.Unlock()
		return c.Conn.Write(b)
	}
	ch := make(chan struct{})
	s.parked[c.ti] = ch
	s.running--
	s.log = append(s.log, fmt.Sprintf("t%d:%s", c.ti, strings.Join(names, "+")))
	s.cond.Broadcast()
	s.mu.Unlock()
	<-ch
	return c.Conn.Write(b)
}

// RunWireSched executes the case under the command-level schedule and returns the history and the command log.
func RunWireSched(c SchedCase) (hist []HOp, cmdlog []string, v *vstat.Violation) {
	m, err := miniredis.Run()
	if err != nil {
		return nil, nil, vstat.V("wire:setup", "miniredis: %v", err)
	}
	defer m.Close()
	s := &wsched{parked: map[int]chan struct{}{}}
	s.cond = sync.NewCond(&s.mu)
	nt := len(c.Programs)
	clients := make([]kvs.Storage, nt)
	for ti := range clients {
		ti := ti
		clients[ti] = kvredis.New(&goredis.Options{Addr: m.Addr(), PoolSize: 1, MaxRetries: -1, ReadTimeout: time.Minute, WriteTimeout: time.Minute, PoolTimeout: time.Minute,
			Dialer: func(ctx context.Context, network, addr string) (net.Conn, error) {
				cn, err := (&net.Dialer{}).DialContext(ctx, network, addr)
				if err != nil {
					return nil, err
				}
				return &schedConn{Conn: cn, s: s, ti: ti}, nil
			}})
	}
	defer func() {
		for _, cl := range clients {
			if c, ok := cl.(io.Closer); ok {
				c.Close()
			}
		}
	}()
	var hang *vstat.Violation
	s.running = nt
	run := func(start chan struct{}) {
		close(start)
		go func() {
			// watchdog: wake the scheduler regularly so that it can notice a thread that neither parks nor ends
			for i := 0; i < 200; i++ {
				time.Sleep(50 * time.Millisecond)
				s.mu.Lock()
				dis := s.disarmed
				s.cond.Broadcast()
				s.mu.Unlock()
				if dis {
					return
				}
			}
		}()
		step := 0
		s.mu.Lock()
		defer s.mu.Unlock()
		for {
			t0 := time.Now()
			for s.running > 0 {
				if time.Since(t0) > 8*time.Second {
					hang = vstat.V("wire:hang", "a thread neither sent its next Redis command nor returned within 8s; commands so far: %s", strings.Join(s.log, " "))
					s.disarmed = true
					for _, ch := range s.parked {
						close(ch)
					}
					s.parked = map[int]chan struct{}{}
					return
				}
				s.cond.Wait()
			}
			if len(s.parked) == 0 {
				s.disarmed = true
				return // all threads finished
			}
			ids := make([]int, 0, len(s.parked))
			for ti := 0; ti < nt; ti++ {
				if _, ok := s.parked[ti]; ok {
					ids = append(ids, ti)
				}
			}
			pick := ids[0]
			if step < len(c.Order) {
				pick = ids[c.Order[step]%len(ids)]
			} else {
				pick = ids[step%len(ids)]
			}
			step++
			ch := s.parked[pick]
			delete(s.parked, pick)
			s.running++
			close(ch)
		}
	}
	done := func(ti int) {
		s.mu.Lock()
		s.running--
		s.cond.Broadcast()
		s.mu.Unlock()
	}
	hist = ExecuteWith(c.CCase, func(ti int) kvs.Storage { return clients[ti] }, run, done)
	s.mu.Lock()
	cmdlog = append([]string(nil), s.log...)
	s.mu.Unlock()
	if hang != nil {
		return hist, cmdlog, hang
	}
	// epilogue: what the history left behind must age as it says. Expiring records of these cases are due within the hour;
	// after two hours of server time a record without expiry must still be there with the same version, the others gone.
	ctx := context.Background()
	type left struct {
		ver string
		exp bool
	}
	before := map[string]*left{}
	for k := 0; k < c.NKeys; k++ {
		if r, err := clients[0].Get(ctx, c.key(k)); err == nil {
			before[c.key(k)] = &left{r.Version, r.ExpiresAt != nil}
		}
	}
	m.FastForward(2 * time.Hour)
	for k := 0; k < c.NKeys; k++ {
		b := before[c.key(k)]
		r, err := clients[0].Get(ctx, c.key(k))
		switch {
		case b != nil && !b.exp && (err != nil || r.Version != b.ver):
			return hist, cmdlog, vstat.V("redis:unexpired-record-vanished", "after the history key %q held a record without expiry (version %s); two hours of server time later Get returns (%s, %v) - something gave it a TTL", c.key(k), b.ver, r.Version, err)
		case (b == nil || b.exp) && err == nil:
			return hist, cmdlog, vstat.V("redis:record-outlived-expiry", "key %q holds version %s two hours after the history although it was absent or due to expire within the hour", c.key(k), r.Version)
		}
	}
	return hist, cmdlog, nil
}
