package p_kv

import (
	"sync"
	"time"

	"github.com/acquirecloud/golibs/kvs"
	"github.com/acquirecloud/golibs/kvs/inmem"
	kvredis "github.com/acquirecloud/golibs/kvs/redis"
	"github.com/alicebob/miniredis/v2"
	goredis "github.com/go-redis/redis/v8"
	"verifharness/internal/vstat"
)

var (
	miniOnce sync.Once
	mini     *miniredis.Miniredis
	redisSt  kvs.Storage
	miniErr  error
	redisDB  int
	// redisPager cuts the server's SCAN answers into several pages, empty ones included (see scanpager.go)
	redisPager *scanPager
)

// ScanPagesCut tells how many listings of the process-wide client were answered in several pages so far.
func ScanPagesCut() int64 {
	Redis()
	if redisPager == nil {
		return 0
	}
	redisPager.mu.Lock()
	defer redisPager.mu.Unlock()
	return redisPager.Cut
}

// RedisDB tells which logical database of the process-wide server the process-wide client uses.
func RedisDB() int { Redis(); return redisDB }

// Redis returns the process-wide miniredis server and a kvs/redis client connected to it.
func Redis() (*miniredis.Miniredis, kvs.Storage, error) {
	miniOnce.Do(func() {
		mini, miniErr = miniredis.Run()
		if miniErr != nil {
			return
		}
		// the logical database of the server is part of a client's configuration: odd shards use a non-default one
		redisDB = 0
		if shard, _ := vstat.Shard(); shard%2 == 1 {
			redisDB = []int{3, 15, 1}[(shard/2)%3]
		}
		redisPager = newScanPager()
		redisSt = kvredis.New(&goredis.Options{Addr: mini.Addr(), PoolSize: 64, DB: redisDB, Dialer: redisPager.dialer()})
	})
	return mini, redisSt, miniErr
}

// InmemDriver is a fresh in-memory backend on the clock the caller runs on.
func InmemDriver() *Driver {
	return &Driver{Name: "inmem", St: inmem.New(), Now: time.Now, WaitMax: time.Minute}
}

// RedisDriver is the Redis backend over miniredis, emptied. Its TTLs age only by FastForward.
func RedisDriver() (*Driver, error) {
	m, st, err := Redis()
	if err != nil {
		return nil, err
	}
	m.FlushAll()
	return &Driver{Name: "redis", St: st, Now: time.Now, WaitMax: 3 * time.Second,
		Advance: func(d time.Duration) { m.FastForward(d) },
		// Redis has no "already expired" write: such a record gets the minimum TTL of 1 ms; let that pass
		PastWrite: func() { m.FastForward(2 * time.Millisecond) }}, nil
}
